// C07 correspondence harness: collectives of Communication<MPI_Comm> / Communication<No_Comm>, MPIPack,
// point-to-point with size discovery, MPI datatypes of MPITraits — against the Lean model (lean/Driver/C07.lean),
// with an oracle computed directly from the op line (which holds every rank's contribution) at *cell* level.
//
// A value of an element type is a tuple of integer cells:
//   int long double(char) [x]   complex [re,im]   fv3 [a,b,c]   big96 [v]   pair [first,second]
//   pli [localIndex, attribute, public, state]     ip [global, localIndex, attribute, public, state]
// Communicated cells: all, except pli -> {attribute}, ip -> {global, attribute}.
//
// op lines (no ';' so the shrinker leaves them alone):
//   coll <comm> <op> <ty> root=R n=N pad=K m=M fill=[..] lens=[..] displs=[..] : [in0] | [in1] | ...
//   p2p <mode> <cont> <ty> shift=S : [src0]/[dst0] | [src1]/[dst1] | ...
//   pack <mode> np=P shift=S extra=K : kind/ty/[src]/[dst] kind/ty/[src]/[dst] ...
//   tmap <ty> np=P count=C lay=[..]
//   misc np=P                       rank/size of world, self, the stand-in; barrier codes; refused point-to-point calls
//   hist np=P : <op line>;<op line>;...   a call history executed in ONE process: dune-common keeps lazily created
//                                   singletons (one MPI_Op per (element type, functor), one MPI_Datatype per type), so
//                                   what a call does may depend on the calls before it.  Every step is a complete op
//                                   line of one of the kinds above; the answer lists the steps' answers, "a ; b ; c".
//                                   Reductions with *generic* functors (one functor type applicable to many element
//                                   types: std::plus<>, std::multiplies<>, std::bit_xor<>, GMin, GMax, Left, Right =
//                                   gsum gprod gxor gmin gmax left right) are generated inside histories only, always
//                                   with at least two element types per functor, so that a failure replays in a fresh
//                                   process.
//
// "light" element types (uchar short ushort uint ulong float ldouble cfloat cldouble llong bool schar ullong pod ...) exercise the rest
// of the ComposeMPITraits table and the byte-wise fallback datatype; they are instantiated for reductions
// (sc/ip/io), bcast.ptr, gatherv.ptr, allgather.ptr, MPIPack scalars/vectors and the typemap decoding only.
#include <config.h>

#include <mpi.h>

#include <algorithm>
#include <array>
#include <cassert>
#include <climits>
#include <complex>
#include <cstring>
#include <functional>
#include <string>
#include <vector>

#include <dune/common/bigunsignedint.hh>
#include <dune/common/binaryfunctions.hh>
#include <dune/common/dynvector.hh>
#include <dune/common/fvector.hh>
#include <dune/common/parallel/communication.hh>
#include <dune/common/parallel/indexset.hh>
#include <dune/common/parallel/mpicommunication.hh>
#include <dune/common/parallel/mpidata.hh>
#include <dune/common/parallel/mpifuture.hh>
#include <dune/common/parallel/mpihelper.hh>
#include <dune/common/parallel/mpipack.hh>
#include <dune/common/parallel/plocalindex.hh>
#include <dune/common/parallel/remoteindices.hh>

#include "hcommon_mpi.hh"

using namespace dv;
typedef __int128 cell;
typedef std::vector<cell> Cells;

// ------------------------------------------------------------------------------------------------------------------
// cells <-> text
// ------------------------------------------------------------------------------------------------------------------
static std::string cstr(cell v) {
  if (v == 0) return "0";
  bool neg = v < 0;
  unsigned __int128 u = neg ? (unsigned __int128)(-(v + 1)) + 1 : (unsigned __int128)v;
  std::string s;
  while (u) { s.push_back(char('0' + (int)(u % 10))); u /= 10; }
  if (neg) s.push_back('-');
  return std::string(s.rbegin(), s.rend());
}
static cell cparse(const std::string& s) {
  size_t i = 0;
  bool neg = false;
  if (i < s.size() && s[i] == '-') { neg = true; ++i; }
  if (i >= s.size()) throw std::runtime_error("bad cell '" + s + "'");
  unsigned __int128 u = 0;
  for (; i < s.size(); ++i) {
    if (s[i] < '0' || s[i] > '9') throw std::runtime_error("bad cell '" + s + "'");
    u = u * 10 + (unsigned)(s[i] - '0');
  }
  return neg ? -(cell)u : (cell)u;
}
static std::string cellsStr(const Cells& c) {
  std::string s = "[";
  for (size_t i = 0; i < c.size(); ++i) { if (i) s += ","; s += cstr(c[i]); }
  return s + "]";
}
static Cells parseCells(const std::string& s0) {
  std::string s = s0;
  if (s.size() < 2 || s.front() != '[' || s.back() != ']') throw std::runtime_error("bad list '" + s0 + "'");
  s = s.substr(1, s.size() - 2);
  Cells out;
  if (s.empty()) return out;
  for (auto& w : split(s, ',')) out.push_back(cparse(w));
  return out;
}
static std::vector<int> toInts(const Cells& c) {
  std::vector<int> v;
  for (cell x : c) v.push_back((int)x);
  return v;
}
static std::string kv(const std::vector<std::string>& toks, const std::string& key) {
  for (auto& t : toks)
    if (t.rfind(key + "=", 0) == 0) return t.substr(key.size() + 1);
  throw std::runtime_error("missing " + key);
}

// ------------------------------------------------------------------------------------------------------------------
// element types
// ------------------------------------------------------------------------------------------------------------------
using FV3 = Dune::FieldVector<int, 3>;
using Big = Dune::bigunsignedint<96>;
using PairIC = std::pair<int, char>;
using PLI = Dune::ParallelLocalIndex<int>;
using IP = Dune::IndexPair<int, PLI>;
using Cplx = std::complex<double>;

struct BigAcc : Dune::Impl::numeric_limits_helper<Big> {
  static std::uint16_t& d(Big& x, std::size_t i) { return Dune::Impl::numeric_limits_helper<Big>::digit(x, i); }
};

template <class T> struct TT;
#define SIMPLE_TT(T, NAME)                                        \
  template <> struct TT<T> {                                      \
    static constexpr int E = 1;                                   \
    static constexpr bool trueScalar = true;                      \
    static constexpr bool intrinsic = true;                       \
    static const char* name() { return NAME; }                    \
    static void to(const T& x, cell* c) { c[0] = (cell)x; }       \
    static T from(const cell* c) { return (T)c[0]; }              \
    static std::vector<int> comm() { return {0}; }                \
  }
SIMPLE_TT(int, "int");
SIMPLE_TT(long, "long");
SIMPLE_TT(char, "char");
template <> struct TT<double> {
  static constexpr int E = 1;
  static constexpr bool trueScalar = true;
  static constexpr bool intrinsic = true;
  static const char* name() { return "double"; }
  static void to(const double& x, cell* c) { c[0] = (cell)(long long)x; }
  static double from(const cell* c) { return (double)(long long)c[0]; }
  static std::vector<int> comm() { return {0}; }
};
template <> struct TT<Cplx> {
  static constexpr int E = 2;
  static constexpr bool trueScalar = true;
  static constexpr bool intrinsic = true;
  static const char* name() { return "complex"; }
  static void to(const Cplx& x, cell* c) { c[0] = (cell)(long long)x.real(); c[1] = (cell)(long long)x.imag(); }
  static Cplx from(const cell* c) { return Cplx((double)(long long)c[0], (double)(long long)c[1]); }
  static std::vector<int> comm() { return {0, 1}; }
};
template <> struct TT<FV3> {
  static constexpr int E = 3;
  static constexpr bool trueScalar = false;  // MPIData views a FieldVector as a container of 3 ints
  static constexpr bool intrinsic = false;
  static const char* name() { return "fv3"; }
  static void to(const FV3& x, cell* c) { for (int i = 0; i < 3; ++i) c[i] = x[i]; }
  static FV3 from(const cell* c) { FV3 v; for (int i = 0; i < 3; ++i) v[i] = (int)c[i]; return v; }
  static std::vector<int> comm() { return {0, 1, 2}; }
};
template <> struct TT<Big> {
  static constexpr int E = 1;
  static constexpr bool trueScalar = true;
  static constexpr bool intrinsic = false;
  static const char* name() { return "big96"; }
  static void to(const Big& x, cell* c) {
    Big y = x;
    unsigned __int128 v = 0;
    for (int i = Big::n - 1; i >= 0; --i) v = (v << 16) | BigAcc::d(y, i);
    c[0] = (cell)v;
  }
  static Big from(const cell* c) {
    Big x;
    unsigned __int128 v = (unsigned __int128)c[0];
    for (int i = 0; i < Big::n; ++i) { BigAcc::d(x, i) = (std::uint16_t)(v & 0xFFFF); v >>= 16; }
    return x;
  }
  static std::vector<int> comm() { return {0}; }
};
template <> struct TT<PairIC> {
  static constexpr int E = 2;
  static constexpr bool trueScalar = true;
  static constexpr bool intrinsic = false;
  static const char* name() { return "pair"; }
  static void to(const PairIC& x, cell* c) { c[0] = x.first; c[1] = (signed char)x.second; }
  static PairIC from(const cell* c) { return PairIC((int)c[0], (char)(int)c[1]); }
  static std::vector<int> comm() { return {0, 1}; }
};
template <> struct TT<PLI> {
  static constexpr int E = 4;
  static constexpr bool trueScalar = true;
  static constexpr bool intrinsic = false;
  static const char* name() { return "pli"; }
  static void to(const PLI& x, cell* c) {
    c[0] = (cell)(unsigned __int128)x.local();
    c[1] = x.attribute();
    c[2] = x.isPublic() ? 1 : 0;
    c[3] = x.state() == Dune::DELETED ? 1 : 0;
  }
  static PLI from(const cell* c) {
    PLI p((size_t)(unsigned long long)c[0], (int)c[1], c[2] != 0);
    p.setState(c[3] != 0 ? Dune::DELETED : Dune::VALID);
    return p;
  }
  static std::vector<int> comm() { return {1}; }
};
template <> struct TT<IP> {
  static constexpr int E = 5;
  static constexpr bool trueScalar = true;
  static constexpr bool intrinsic = false;
  static const char* name() { return "ip"; }
  static void to(const IP& x, cell* c) { c[0] = x.global(); TT<PLI>::to(x.local(), c + 1); }
  static IP from(const cell* c) { return IP((int)c[0], TT<PLI>::from(c + 1)); }
  static std::vector<int> comm() { return {0, 2}; }
};

// ---- light types: the remaining intrinsic types of mpitraits.hh and two types served by the byte-wise fallback
using CplxF = std::complex<float>;
using CplxL = std::complex<long double>;
struct Pod { char a; double b; short c; };
#define LIGHT_TT(T, NAME, INTR)                                   \
  template <> struct TT<T> {                                      \
    static constexpr int E = 1;                                   \
    static constexpr bool trueScalar = true;                      \
    static constexpr bool intrinsic = INTR;                       \
    static constexpr bool light = true;                           \
    static const char* name() { return NAME; }                    \
    static void to(const T& x, cell* c) { c[0] = (cell)x; }       \
    static T from(const cell* c) { return (T)c[0]; }              \
    static std::vector<int> comm() { return {0}; }                \
  }
LIGHT_TT(unsigned char, "uchar", true);
LIGHT_TT(short, "short", true);
LIGHT_TT(unsigned short, "ushort", true);
LIGHT_TT(unsigned int, "uint", true);
LIGHT_TT(long long, "llong", false);
// round five (C07_w5m2): the arithmetic types WITHOUT a ComposeMPITraits line (byte-wise fallback + functor trampoline)
LIGHT_TT(signed char, "schar", false);
template <> struct TT<bool> {
  static constexpr int E = 1;
  static constexpr bool trueScalar = true, intrinsic = false, light = true;
  static const char* name() { return "bool"; }
  static void to(const bool& x, cell* c) { c[0] = x ? 1 : 0; }
  static bool from(const cell* c) { return c[0] != 0; }
  static std::vector<int> comm() { return {0}; }
};
template <> struct TT<unsigned long long> {
  static constexpr int E = 1;
  static constexpr bool trueScalar = true, intrinsic = false, light = true;
  static const char* name() { return "ullong"; }
  static void to(const unsigned long long& x, cell* c) { c[0] = (cell)(unsigned __int128)x; }
  static unsigned long long from(const cell* c) { return (unsigned long long)(unsigned __int128)c[0]; }
  static std::vector<int> comm() { return {0}; }
};
template <> struct TT<unsigned long> {
  static constexpr int E = 1;
  static constexpr bool trueScalar = true, intrinsic = true, light = true;
  static const char* name() { return "ulong"; }
  static void to(const unsigned long& x, cell* c) { c[0] = (cell)(unsigned __int128)x; }
  static unsigned long from(const cell* c) { return (unsigned long)(unsigned __int128)c[0]; }
  static std::vector<int> comm() { return {0}; }
};
template <class F, const char* const& NAME> struct FloatTT {
  static constexpr int E = 1;
  static constexpr bool trueScalar = true, intrinsic = true, light = true;
  static const char* name() { return NAME; }
  static void to(const F& x, cell* c) { c[0] = (cell)(long long)x; }
  static F from(const cell* c) { return (F)(long long)c[0]; }
  static std::vector<int> comm() { return {0}; }
};
static const char* const N_FLOAT = "float";
static const char* const N_LDOUBLE = "ldouble";
template <> struct TT<float> : FloatTT<float, N_FLOAT> {};
template <> struct TT<long double> : FloatTT<long double, N_LDOUBLE> {};
template <class C, class F, const char* const& NAME> struct ComplexTT {
  static constexpr int E = 2;
  static constexpr bool trueScalar = true, intrinsic = true, light = true;
  static const char* name() { return NAME; }
  static void to(const C& x, cell* c) { c[0] = (cell)(long long)x.real(); c[1] = (cell)(long long)x.imag(); }
  static C from(const cell* c) { return C((F)(long long)c[0], (F)(long long)c[1]); }
  static std::vector<int> comm() { return {0, 1}; }
};
static const char* const N_CFLOAT = "cfloat";
static const char* const N_CLDOUBLE = "cldouble";
template <> struct TT<CplxF> : ComplexTT<CplxF, float, N_CFLOAT> {};
template <> struct TT<CplxL> : ComplexTT<CplxL, long double, N_CLDOUBLE> {};
template <> struct TT<Pod> {
  static constexpr int E = 3;
  static constexpr bool trueScalar = true, intrinsic = false, light = true;
  static const char* name() { return "pod"; }
  static void to(const Pod& x, cell* c) { c[0] = (signed char)x.a; c[1] = (cell)(long long)x.b; c[2] = x.c; }
  static Pod from(const cell* c) { Pod p; std::memset(&p, 0, sizeof p); p.a = (char)(int)c[0]; p.b = (double)(long long)c[1]; p.c = (short)c[2]; return p; }
  static std::vector<int> comm() { return {0, 1, 2}; }
};
// pairs with tail padding whose first member has no MPITraits specialisation (byte-wise fallback, alignment 1 for
// MPI): the extent MPI would compute for the bare struct is smaller than sizeof, so arrays rely on the resize step
using PairLC = std::pair<long long, char>;       // sizeof 16, members end at 9
using PPair = std::pair<PairLC, short>;          // nested: sizeof 24, members end at 18
using FVP = Dune::FieldVector<PairLC, 2>;        // contiguous(2, pair): strides by the pair's extent
template <> struct TT<PairLC> {
  static constexpr int E = 2;
  static constexpr bool trueScalar = true;
  static constexpr bool intrinsic = false;
  static const char* name() { return "pairlc"; }
  static void to(const PairLC& x, cell* c) { c[0] = x.first; c[1] = (signed char)x.second; }
  static PairLC from(const cell* c) { return PairLC((long long)c[0], (char)(int)c[1]); }
  static std::vector<int> comm() { return {0, 1}; }
};
template <> struct TT<PPair> {
  static constexpr int E = 3;
  static constexpr bool trueScalar = true, intrinsic = false, light = true;
  static const char* name() { return "ppair"; }
  static void to(const PPair& x, cell* c) { TT<PairLC>::to(x.first, c); c[2] = x.second; }
  static PPair from(const cell* c) { return PPair(TT<PairLC>::from(c), (short)c[2]); }
  static std::vector<int> comm() { return {0, 1, 2}; }
};
template <> struct TT<FVP> {
  static constexpr int E = 4;
  static constexpr bool trueScalar = false, intrinsic = false, light = true;
  static const char* name() { return "fvp"; }
  static void to(const FVP& x, cell* c) { TT<PairLC>::to(x[0], c); TT<PairLC>::to(x[1], c + 2); }
  static FVP from(const cell* c) { FVP v; v[0] = TT<PairLC>::from(c); v[1] = TT<PairLC>::from(c + 2); return v; }
  static std::vector<int> comm() { return {0, 1, 2, 3}; }
};
// second members of the template families FieldVector<K,n> and std::pair<T1,T2>: same K as fv3 with another n, same n as
// fvp with another K; same T1 as pair with another T2 (a handle cached per family or per part of the arguments shows)
using FV2 = Dune::FieldVector<int, 2>;
using PairIS = std::pair<int, short>;
template <> struct TT<FV2> {
  static constexpr int E = 2;
  static constexpr bool trueScalar = false, intrinsic = false, light = true;
  static const char* name() { return "fv2"; }
  static void to(const FV2& x, cell* c) { for (int i = 0; i < 2; ++i) c[i] = x[i]; }
  static FV2 from(const cell* c) { FV2 v; for (int i = 0; i < 2; ++i) v[i] = (int)c[i]; return v; }
  static std::vector<int> comm() { return {0, 1}; }
};
template <> struct TT<PairIS> {
  static constexpr int E = 2;
  static constexpr bool trueScalar = true, intrinsic = false, light = true;
  static const char* name() { return "pairis"; }
  static void to(const PairIS& x, cell* c) { c[0] = x.first; c[1] = x.second; }
  static PairIS from(const cell* c) { return PairIS((int)c[0], (short)c[1]); }
  static std::vector<int> comm() { return {0, 1}; }
};
using Big40 = Dune::bigunsignedint<40>;   // 3 digits, 40 is not a multiple of the digit width
struct Big40Acc : Dune::Impl::numeric_limits_helper<Big40> {
  static std::uint16_t& d(Big40& x, std::size_t i) { return Dune::Impl::numeric_limits_helper<Big40>::digit(x, i); }
};
template <> struct TT<Big40> {
  static constexpr int E = 1;
  static constexpr bool trueScalar = true, intrinsic = false, light = true;
  static const char* name() { return "big40"; }
  static void to(const Big40& x, cell* c) {
    Big40 y = x;
    unsigned __int128 v = 0;
    for (int i = Big40::n - 1; i >= 0; --i) v = (v << 16) | Big40Acc::d(y, i);
    c[0] = (cell)v;
  }
  static Big40 from(const cell* c) {
    Big40 x;
    unsigned __int128 v = (unsigned __int128)c[0];
    for (int i = 0; i < Big40::n; ++i) { Big40Acc::d(x, i) = (std::uint16_t)(v & 0xFFFF); v >>= 16; }
    return x;
  }
  static std::vector<int> comm() { return {0}; }
};
template <class T, class = void> struct IsLight : std::false_type {};
template <class T> struct IsLight<T, std::enable_if_t<TT<T>::light>> : std::true_type {};

// std::vector<bool> is a bit container without data(): buffers of element type bool use this contiguous stand-in
class BoolVec {
  bool* p_ = nullptr;
  size_t n_ = 0, cap_ = 0;
  void grow(size_t c) {
    if (c <= cap_) return;
    bool* q = new bool[c]();
    std::copy(p_, p_ + n_, q);
    delete[] p_;
    p_ = q; cap_ = c;
  }
public:
  using value_type = bool;
  BoolVec() = default;
  explicit BoolVec(size_t n, bool v = false) { resize(n, v); }
  template <class It, class = typename std::iterator_traits<It>::value_type> BoolVec(It a, It b) { for (; a != b; ++a) push_back(*a); }
  BoolVec(const BoolVec& o) { grow(o.n_); std::copy(o.p_, o.p_ + o.n_, p_); n_ = o.n_; }
  BoolVec(BoolVec&& o) noexcept : p_(o.p_), n_(o.n_), cap_(o.cap_) { o.p_ = nullptr; o.n_ = o.cap_ = 0; }
  BoolVec& operator=(BoolVec o) { std::swap(p_, o.p_); std::swap(n_, o.n_); std::swap(cap_, o.cap_); return *this; }
  ~BoolVec() { delete[] p_; }
  bool* data() { return p_; }
  const bool* data() const { return p_; }
  size_t size() const { return n_; }
  bool empty() const { return n_ == 0; }
  bool* begin() { return p_; }
  bool* end() { return p_ + n_; }
  const bool* begin() const { return p_; }
  const bool* end() const { return p_ + n_; }
  bool& operator[](size_t i) { return p_[i]; }
  const bool& operator[](size_t i) const { return p_[i]; }
  bool& at(size_t i) { if (i >= n_) throw std::out_of_range("BoolVec::at"); return p_[i]; }
  const bool& at(size_t i) const { if (i >= n_) throw std::out_of_range("BoolVec::at"); return p_[i]; }
  void reserve(size_t c) { grow(c); }
  void push_back(bool v) { if (n_ == cap_) grow(cap_ ? 2 * cap_ : 8); p_[n_++] = v; }
  void resize(size_t n, bool v = false) { grow(n); for (size_t i = n_; i < n; ++i) p_[i] = v; n_ = n; }
};
template <class T> struct VecOf { using type = std::vector<T>; };
template <> struct VecOf<bool> { using type = BoolVec; };
template <class T> using Vec = typename VecOf<T>::type;

template <class T> Vec<T> fromCells(const Cells& c) {
  constexpr int E = TT<T>::E;
  if (c.size() % E) throw std::runtime_error("cell count not a multiple of the element size");
  Vec<T> v;
  v.reserve(c.size() / E);
  for (size_t i = 0; i < c.size(); i += E) v.push_back(TT<T>::from(&c[i]));
  return v;
}
template <class T> Cells toCells(const T* p, size_t n) {
  constexpr int E = TT<T>::E;
  Cells c(n * E);
  for (size_t i = 0; i < n; ++i) TT<T>::to(p[i], &c[i * E]);
  return c;
}
template <class T> Cells toCells(const std::vector<T>& v) { return toCells(v.data(), v.size()); }
inline Cells toCells(const BoolVec& v) { return toCells(v.data(), v.size()); }

template <class T> struct Tag { using type = T; };
template <class F> bool withType(const std::string& ty, F&& f) {
  if (ty == "int") f(Tag<int>{});
  else if (ty == "long") f(Tag<long>{});
  else if (ty == "double") f(Tag<double>{});
  else if (ty == "complex") f(Tag<Cplx>{});
  else if (ty == "fv3") f(Tag<FV3>{});
  else if (ty == "big96") f(Tag<Big>{});
  else if (ty == "pair") f(Tag<PairIC>{});
  else if (ty == "pli") f(Tag<PLI>{});
  else if (ty == "ip") f(Tag<IP>{});
  else if (ty == "char") f(Tag<char>{});
  else if (ty == "uchar") f(Tag<unsigned char>{});
  else if (ty == "short") f(Tag<short>{});
  else if (ty == "ushort") f(Tag<unsigned short>{});
  else if (ty == "uint") f(Tag<unsigned int>{});
  else if (ty == "ulong") f(Tag<unsigned long>{});
  else if (ty == "float") f(Tag<float>{});
  else if (ty == "ldouble") f(Tag<long double>{});
  else if (ty == "cfloat") f(Tag<CplxF>{});
  else if (ty == "cldouble") f(Tag<CplxL>{});
  else if (ty == "llong") f(Tag<long long>{});
  else if (ty == "bool") f(Tag<bool>{});
  else if (ty == "schar") f(Tag<signed char>{});
  else if (ty == "ullong") f(Tag<unsigned long long>{});
  else if (ty == "pod") f(Tag<Pod>{});
  else if (ty == "pairlc") f(Tag<PairLC>{});
  else if (ty == "ppair") f(Tag<PPair>{});
  else if (ty == "fvp") f(Tag<FVP>{});
  else if (ty == "big40") f(Tag<Big40>{});
  else if (ty == "fv2") f(Tag<FV2>{});
  else if (ty == "pairis") f(Tag<PairIS>{});
  else return false;
  return true;
}
static bool isLightName(const std::string& ty) {
  static const std::vector<std::string> L = {"uchar", "short", "ushort", "uint", "ulong", "float", "ldouble", "cfloat", "cldouble", "llong", "bool", "schar", "ullong", "pod", "ppair", "fvp", "big40", "fv2", "pairis"};
  return std::find(L.begin(), L.end(), ty) != L.end();
}
struct TyInfo { int E; std::vector<int> comm; };
static TyInfo tyInfo(const std::string& ty) {
  TyInfo ti{0, {}};
  if (!withType(ty, [&](auto tag) { using T = typename decltype(tag)::type; ti.E = TT<T>::E; ti.comm = TT<T>::comm(); }))
    throw std::runtime_error("unknown type " + ty);
  return ti;
}

// user functor that is not one of the four named reductions
struct CwMax {
  FV3 operator()(const FV3& a, const FV3& b) const { FV3 r; for (int i = 0; i < 3; ++i) r[i] = std::max(a[i], b[i]); return r; }
};

// associative but NOT commutative user functors: the fold must run in rank order
struct First {
  int operator()(const int& a, const int&) const { return a; }
};
struct Aff {  // (a,b,c) = the map x -> a*x+b (mod 1009) applied c times over; composition "first argument first"
  FV3 operator()(const FV3& f, const FV3& g) const {
    FV3 r;
    r[0] = (int)(((long)f[0] * g[0]) % 1009);
    r[1] = (int)(((long)g[0] * f[1] + g[1]) % 1009);
    r[2] = f[2] + g[2];
    return r;
  }
};

// generic functors: ONE functor type that can be applied to many element types (the element type is not part of the
// functor's type, unlike std::plus<T> / Dune::Min<T>) -- together with std::plus<>, std::multiplies<>, std::bit_xor<>
struct GMin { template <class T> T operator()(const T& a, const T& b) const { return b < a ? b : a; } };
struct GMax { template <class T> T operator()(const T& a, const T& b) const { return a < b ? b : a; } };
struct Left { template <class T> T operator()(const T& a, const T&) const { return a; } };    // associative, not commutative
struct Right { template <class T> T operator()(const T&, const T& b) const { return b; } };   // associative, not commutative
static bool isGenericFun(const std::string& fn) {
  return fn == "gsum" || fn == "gprod" || fn == "gmin" || fn == "gmax" || fn == "gxor" || fn == "left" || fn == "right";
}
// generic functors offered for the container views (see callRed / callColl)
static bool isVGeneric(const std::string& fn) { return fn == "gmin" || fn == "gmax" || fn == "left" || fn == "right"; }
static bool isKGeneric(const std::string& fn) { return fn == "gsum" || fn == "gprod" || fn == "left" || fn == "right"; }
// the named reduction a generic functor computes
static std::string plainFun(const std::string& fn) {
  if (fn == "gsum") return "sum";
  if (fn == "gprod") return "prod";
  if (fn == "gmin") return "min";
  if (fn == "gmax") return "max";
  if (fn == "gxor") return "xor";
  return fn;
}

// which functors exist for which type
template <class T, class F> bool withFun(const std::string& fn, F&& f) {
  constexpr bool lightArith = std::is_same_v<T, unsigned char> || std::is_same_v<T, short> || std::is_same_v<T, unsigned short> ||
                              std::is_same_v<T, unsigned int> || std::is_same_v<T, unsigned long> || std::is_same_v<T, float> ||
                              std::is_same_v<T, long double> || std::is_same_v<T, long long>;
  // bool / signed char / unsigned long long: the four named functors only
  constexpr bool namedOnly = std::is_same_v<T, bool> || std::is_same_v<T, signed char> || std::is_same_v<T, unsigned long long>;
  constexpr bool cplx = std::is_same_v<T, Cplx> || std::is_same_v<T, CplxF> || std::is_same_v<T, CplxL>;
  constexpr bool arith = std::is_same_v<T, int> || std::is_same_v<T, long> || std::is_same_v<T, double> || lightArith;
  constexpr bool fvi = std::is_same_v<T, FV3> || std::is_same_v<T, FV2>;
  constexpr bool big = std::is_same_v<T, Big> || std::is_same_v<T, Big40>;
  constexpr bool bits = std::is_same_v<T, int> || std::is_same_v<T, long> || std::is_same_v<T, unsigned char> ||
                        std::is_same_v<T, unsigned short> || std::is_same_v<T, unsigned int> || std::is_same_v<T, unsigned long>;
  // generic functors (types without tail padding that MPI does not see: the callback copies whole objects)
  if constexpr (arith || cplx || fvi || big)
    if (fn == "gsum") { f(Tag<std::plus<>>{}); return true; }
  if constexpr (arith || cplx || big)
    if (fn == "gprod") { f(Tag<std::multiplies<>>{}); return true; }
  if constexpr (arith || big) {
    if (fn == "gmin") { f(Tag<GMin>{}); return true; }
    if (fn == "gmax") { f(Tag<GMax>{}); return true; }
  }
  if constexpr (bits)
    if (fn == "gxor") { f(Tag<std::bit_xor<>>{}); return true; }
  if constexpr (arith || cplx || fvi || big || std::is_same_v<T, Pod>) {
    if (fn == "left") { f(Tag<Left>{}); return true; }
    if (fn == "right") { f(Tag<Right>{}); return true; }
  }
  if constexpr (arith || namedOnly || cplx || fvi || big)
    if (fn == "sum") { f(Tag<std::plus<T>>{}); return true; }
  if constexpr (arith || namedOnly || cplx || std::is_same_v<T, Big> || std::is_same_v<T, Big40>)
    if (fn == "prod") { f(Tag<std::multiplies<T>>{}); return true; }
  if constexpr (std::is_same_v<T, int>)
    if (fn == "first") { f(Tag<First>{}); return true; }
  if constexpr (std::is_same_v<T, FV3>)
    if (fn == "aff") { f(Tag<Aff>{}); return true; }
  if constexpr (arith || namedOnly || big || std::is_same_v<T, PairIC> || std::is_same_v<T, PairLC> || std::is_same_v<T, PairIS>) {
    if (fn == "min") { f(Tag<Dune::Min<T>>{}); return true; }
    if (fn == "max") { f(Tag<Dune::Max<T>>{}); return true; }
  }
  if constexpr (std::is_same_v<T, int>)
    if (fn == "xor") { f(Tag<std::bit_xor<int>>{}); return true; }
  if constexpr (std::is_same_v<T, FV3>)
    if (fn == "cwmax") { f(Tag<CwMax>{}); return true; }
  return false;
}
static std::vector<std::string> funsOf(const std::string& ty) {
  if (ty == "int") return {"sum", "prod", "min", "max", "xor", "first", "first"};
  if (ty == "long" || ty == "double" || ty == "big96" || ty == "big40") return {"sum", "prod", "min", "max"};
  if (ty == "uchar" || ty == "short" || ty == "ushort" || ty == "uint" || ty == "ulong" || ty == "float" || ty == "ldouble" || ty == "llong" || ty == "bool" || ty == "schar" || ty == "ullong")
    return {"sum", "prod", "min", "max"};
  if (ty == "complex" || ty == "cfloat" || ty == "cldouble") return {"sum", "prod"};
  if (ty == "fv3") return {"sum", "cwmax", "aff", "aff"};
  if (ty == "pair" || ty == "pairlc" || ty == "pairis") return {"min", "max"};
  if (ty == "fv2") return {"sum"};
  return {};
}
// element types a generic functor is applied to
static std::vector<std::string> typesOfGeneric(const std::string& fn) {
  std::vector<std::string> arith = {"int", "long", "double", "uchar", "short", "ushort", "uint", "ulong", "float", "ldouble", "llong"};
  std::vector<std::string> v;
  auto add = [&](std::initializer_list<const char*> l) { for (auto x : l) v.push_back(x); };
  if (fn == "gxor") return {"int", "long", "uchar", "ushort", "uint", "ulong"};
  v = arith;
  add({"big96", "big40"});
  if (fn == "gmin" || fn == "gmax") return v;
  add({"complex", "cfloat", "cldouble"});
  if (fn == "gprod") return v;
  add({"fv3", "fv2"});
  if (fn == "gsum") return v;
  add({"pod"});
  return v;  // left, right
}

// ------------------------------------------------------------------------------------------------------------------
// the case description
// ------------------------------------------------------------------------------------------------------------------
struct Case {
  std::string comm, op, ty;
  int root = 0, n = 0, pad = 0, m = 0;
  Cells fill;
  std::vector<int> lens, displs;
  std::vector<Cells> ins;
};
static std::vector<std::string> splitBar(const std::string& s) {
  std::vector<std::string> out;
  for (auto& p : split(s, '|')) {
    std::string t;
    for (char ch : p) if (ch != ' ') t.push_back(ch);
    out.push_back(t);
  }
  return out;
}
static Case parseCase(const std::string& line) {
  size_t c = line.find(" : ");
  if (c == std::string::npos) throw std::runtime_error("no ' : '");
  auto toks = words(line.substr(0, c));
  Case k;
  k.comm = toks.at(1); k.op = toks.at(2); k.ty = toks.at(3);
  k.root = std::stoi(kv(toks, "root")); k.n = std::stoi(kv(toks, "n")); k.pad = std::stoi(kv(toks, "pad"));
  k.m = std::stoi(kv(toks, "m"));
  k.fill = parseCells(kv(toks, "fill"));
  k.lens = toInts(parseCells(kv(toks, "lens")));
  k.displs = toInts(parseCells(kv(toks, "displs")));
  for (auto& p : splitBar(line.substr(c + 3))) k.ins.push_back(parseCells(p));
  return k;
}
static std::string caseLine(const Case& k) {
  std::ostringstream os;
  os << "coll " << k.comm << " " << k.op << " " << k.ty << " root=" << k.root << " n=" << k.n << " pad=" << k.pad
     << " m=" << k.m << " fill=" << cellsStr(k.fill) << " lens=" << listStr(k.lens) << " displs=" << listStr(k.displs)
     << " :";
  for (size_t r = 0; r < k.ins.size(); ++r) os << (r ? " | " : " ") << cellsStr(k.ins[r]);
  return os.str();
}
static Cells repeatFill(const Cells& fill, int count) {
  Cells c;
  for (int i = 0; i < count; ++i) c.insert(c.end(), fill.begin(), fill.end());
  return c;
}

// what one rank passes to / gets from one collective call (already reduced to the communicator it runs on)
struct Local {
  int rank, np, root, n;
  Cells in, out;             // send buffer, initial receive buffer
  std::vector<int> lens, displs;
};
// the size of the receive buffer (in elements) for each op on a communicator of np ranks
static int outElems(const Case& k, const std::string& base, int np, int rank, const std::vector<int>& lens) {
  if (base == "gather" || base == "allgather") return k.n * np + k.pad;
  if (base == "gatherv" || base == "allgatherv") return k.m;
  if (base == "scatter") return k.n + k.pad;
  if (base == "scatterv") return lens[rank] + k.pad;
  if (base == "red") return k.n + k.pad;
  return 0;
}
static std::string baseOf(const std::string& op) { return op.substr(0, op.find('.')); }
static std::string formOf(const std::string& op) { return op.substr(op.rfind('.') + 1); }
static std::string funOf(const std::string& op) {  // red.<fn>.<form>
  size_t a = op.find('.'), b = op.rfind('.');
  return a == b ? "" : op.substr(a + 1, b - a - 1);
}

static Local localOf(const Case& k, int worldRank, int worldSize) {
  Local L;
  std::string base = baseOf(k.op);
  bool world = k.comm == "world";
  L.rank = world ? worldRank : 0;
  L.np = world ? worldSize : 1;
  L.root = world ? k.root : 0;
  L.n = k.n;
  L.in = k.ins.at(worldRank);
  if (world) { L.lens = k.lens; L.displs = k.displs; }
  else { L.lens = {k.lens.at(worldRank)}; L.displs = {k.displs.at(worldRank)}; }
  L.out = base == "bcast" ? L.in : repeatFill(k.fill, outElems(k, base, L.np, L.rank, L.lens));
  return L;
}

// ------------------------------------------------------------------------------------------------------------------
// oracle at cell level (independent of dune-common and of the Lean model)
// ------------------------------------------------------------------------------------------------------------------
static void xfer(const TyInfo& ti, const Cells& src, size_t sElem, Cells& dst, size_t dElem, size_t cnt) {
  for (size_t i = 0; i < cnt; ++i)
    for (int c : ti.comm) dst.at((dElem + i) * ti.E + c) = src.at((sElem + i) * ti.E + c);
}
static const unsigned __int128 MASK96 = (((unsigned __int128)1) << 96) - 1;
static const unsigned __int128 MASK48 = (((unsigned __int128)1) << 48) - 1;  // bigunsignedint<40> keeps 3 full digits
static Cells redElem(const std::string& ty, const std::string& fn0, const Cells& a, const Cells& b) {
  Cells r(a.size());
  const std::string fn = plainFun(fn0);
  auto lexLess = [](const Cells& x, const Cells& y) { return std::lexicographical_compare(x.begin(), x.end(), y.begin(), y.end()); };
  if ((ty == "complex" || ty == "cfloat" || ty == "cldouble") && fn == "prod") return {a[0] * b[0] - a[1] * b[1], a[0] * b[1] + a[1] * b[0]};
  if (fn == "first" || fn == "left") return a;
  if (fn == "right") return b;
  if (fn == "aff") return {(a[0] * b[0]) % 1009, (b[0] * a[1] + b[1]) % 1009, a[2] + b[2]};
  if (ty == "pair" || ty == "pairlc" || ty == "pairis") return fn == "min" ? (lexLess(b, a) ? b : a) : (lexLess(a, b) ? b : a);
  for (size_t i = 0; i < a.size(); ++i) {
    // bool: std::plus<bool> converts the int sum back to bool (logical or); prod/min/max stay within {0,1}
    if (ty == "bool" && fn == "sum") { r[i] = (a[i] != 0 || b[i] != 0) ? 1 : 0; continue; }
    if (ty == "big96" || ty == "big40") {
      unsigned __int128 x = (unsigned __int128)a[i], y = (unsigned __int128)b[i];
      const unsigned __int128 MASK = ty == "big96" ? MASK96 : MASK48;
      if (fn == "sum") r[i] = (cell)((x + y) & MASK);
      else if (fn == "prod") r[i] = (cell)((x * y) & MASK);
      else if (fn == "min") r[i] = std::min(a[i], b[i]);
      else r[i] = std::max(a[i], b[i]);
    } else if (fn == "sum") r[i] = a[i] + b[i];
    else if (fn == "prod") r[i] = a[i] * b[i];
    else if (fn == "min") r[i] = std::min(a[i], b[i]);
    else if (fn == "max" || fn == "cwmax") r[i] = std::max(a[i], b[i]);
    else if (fn == "xor") r[i] = a[i] ^ b[i];
    else throw std::runtime_error("unknown functor " + fn);
  }
  return r;
}
// expected receive buffer of rank `rank` in a communicator whose ranks hold `locals` (rank order)
static Cells expectColl(const Case& k, const std::vector<Local>& locals, int rank) {
  TyInfo ti = tyInfo(k.ty);
  std::string base = baseOf(k.op);
  const Local& me = locals[rank];
  int np = (int)locals.size(), root = me.root;
  Cells out = me.out;
  if (base == "bcast") {
    if (rank != root) xfer(ti, locals[root].in, 0, out, 0, k.n);
  } else if (base == "gather" || base == "allgather") {
    if (base == "allgather" || rank == root)
      for (int r = 0; r < np; ++r) xfer(ti, locals[r].in, 0, out, (size_t)r * k.n, k.n);
  } else if (base == "gatherv" || base == "allgatherv") {
    if (base == "allgatherv" || rank == root)
      for (int r = 0; r < np; ++r) xfer(ti, locals[r].in, 0, out, me.displs[r], me.lens[r]);
  } else if (base == "scatter") {
    xfer(ti, locals[root].in, (size_t)rank * k.n, out, 0, k.n);
  } else if (base == "scatterv") {
    xfer(ti, locals[root].in, me.displs[rank], out, 0, me.lens[rank]);
  } else if (base == "red") {
    std::string fn = funOf(k.op);
    for (int j = 0; j < k.n; ++j) {
      Cells acc(locals[0].in.begin() + j * ti.E, locals[0].in.begin() + (j + 1) * ti.E);
      for (int r = 1; r < np; ++r)
        acc = redElem(k.ty, fn, acc, Cells(locals[r].in.begin() + j * ti.E, locals[r].in.begin() + (j + 1) * ti.E));
      for (int c = 0; c < ti.E; ++c) out.at(j * ti.E + c) = acc[c];
    }
  } else if (base != "barrier") throw std::runtime_error("unknown op " + k.op);
  return out;
}

// ------------------------------------------------------------------------------------------------------------------
// calling the real collectives
// ------------------------------------------------------------------------------------------------------------------
using MpiComm = Dune::Communication<MPI_Comm>;
using SeqComm = Dune::Communication<Dune::No_Comm>;
struct Unsupported {};

template <class T, class F, class CC>
std::vector<T> callRed(CC& cc, const std::string& fn, const std::string& form, std::vector<T> in, std::vector<T> out, int n) {
  constexpr bool isMpi = std::is_same_v<CC, MpiComm>;
  constexpr bool intr = TT<T>::intrinsic;
  if (form == "sc") {  // T sum(const T&)
    if (n != 1) throw Unsupported{};
    if constexpr (std::is_same_v<F, std::plus<T>>) { out[0] = cc.sum(in[0]); return out; }
    else if constexpr (std::is_same_v<F, std::multiplies<T>>) { out[0] = cc.prod(in[0]); return out; }
    else if constexpr (std::is_same_v<F, Dune::Min<T>>) { out[0] = cc.min(in[0]); return out; }
    else if constexpr (std::is_same_v<F, Dune::Max<T>>) { out[0] = cc.max(in[0]); return out; }
    else throw Unsupported{};
  }
  if (form == "ar") {  // int sum(T* inout, int len)
    int rc = 0;
    if constexpr (std::is_same_v<F, std::plus<T>>) rc = cc.sum(in.data(), n);
    else if constexpr (std::is_same_v<F, std::multiplies<T>>) rc = cc.prod(in.data(), n);
    else if constexpr (std::is_same_v<F, Dune::Min<T>>) rc = cc.min(in.data(), n);
    else if constexpr (std::is_same_v<F, Dune::Max<T>>) rc = cc.max(in.data(), n);
    else throw Unsupported{};
    if (rc != 0) throw std::runtime_error("reduction returned an error code");
    std::copy(in.begin(), in.begin() + n, out.begin());
    return out;
  }
  if (form == "ip") {
    cc.template allreduce<F>(in.data(), n);
    std::copy(in.begin(), in.begin() + n, out.begin());
    return out;
  }
  if (form == "io") {
    cc.template allreduce<F>(in.data(), out.data(), n);
    return out;
  }
  // container forms: std::vector<T> handed to allreduce(Type&&) / iallreduce; MPI reduces the vector's entries, so the
  // MPI_Op has to be the one for (T, F) (repaired by fixes/C07_reduce_container_op.patch: before, the op was instantiated
  // for the container).  Only generic functors that can also be applied to two std::vector objects are used: with every
  // other functor the call does not even compile on a tree where one of the three call sites instantiates the op for
  // the container again, and the check could not show the overrun as a replay.  (The same wrapper code and the same
  // Generic_MPI_Op<T, F> instantiations are exercised; typed functors reach Generic_MPI_Op through the pointer forms.)
  if (form == "vrv" || form == "viio" || form == "viip") {
    constexpr bool genericF = std::is_same_v<F, GMin> || std::is_same_v<F, GMax> || std::is_same_v<F, Left> || std::is_same_v<F, Right>;
    if constexpr (!genericF) throw Unsupported{};
    else {
      if ((int)in.size() != n || (int)out.size() != n) throw Unsupported{};
      if (form == "vrv") {
        if constexpr (isMpi) return cc.template allreduce<F>(std::move(in));
        else throw Unsupported{};
      }
      if (form == "viio") return cc.template iallreduce<F>(std::move(in), std::move(out)).get();
      return cc.template iallreduce<F>(std::move(in)).get();
    }
  }
  // MPIData based forms: vector<T> when T is intrinsic and F one of the four functors with a predefined MPI_Op,
  // a single scalar otherwise
  constexpr bool named = std::is_same_v<F, std::plus<T>> || std::is_same_v<F, std::multiplies<T>> ||
                         std::is_same_v<F, Dune::Min<T>> || std::is_same_v<F, Dune::Max<T>>;
  constexpr bool vec = intr && named;
  if constexpr (!vec && !TT<T>::trueScalar) throw Unsupported{};
  else {
    if (!vec && n != 1) throw Unsupported{};
    if ((int)in.size() != n || (int)out.size() != n) throw Unsupported{};
    // R4: the same MPIData container view instantiated for two more containers: std::array<T,3> (no resize(): static_size)
    // and Dune::DynamicVector<T>; forms a{rv,iio,iip} / d{rv,iio,iip}
    if (form == "arv" || form == "aiio" || form == "aiip" || form == "drv" || form == "diio" || form == "diip") {
      if constexpr (!vec) throw Unsupported{};
      else {
        const bool arr = form[0] == 'a';
        const std::string f2 = form.substr(1);
        if (arr && n != 3) throw Unsupported{};
        if (f2 == "rv" && !isMpi) throw Unsupported{};
        auto run = [&](auto cin, auto cout) {
          using C = decltype(cin);
          std::copy(in.begin(), in.end(), cin.begin());
          std::copy(out.begin(), out.end(), cout.begin());
          C res(cin);
          if (f2 == "rv") { if constexpr (isMpi) res = cc.template allreduce<F>(std::move(cin)); }
          else if (f2 == "iio") res = cc.template iallreduce<F>(std::move(cin), std::move(cout)).get();
          else res = cc.template iallreduce<F>(std::move(cin)).get();
          return std::vector<T>(res.begin(), res.end());
        };
        if (arr) return run(std::array<T, 3>{}, std::array<T, 3>{});
        return run(Dune::DynamicVector<T>(n), Dune::DynamicVector<T>(n));
      }
    }
    if (form == "rv") {
      if constexpr (isMpi) {
        if constexpr (vec) return cc.template allreduce<F>(std::move(in));
        else { out[0] = cc.template allreduce<F>(T(in[0])); return out; }
      } else throw Unsupported{};
    }
    if (form == "iio") {
      if constexpr (vec) return cc.template iallreduce<F>(std::move(in), std::move(out)).get();
      else { T o = out[0]; out[0] = cc.template iallreduce<F>(T(in[0]), std::move(o)).get(); return out; }
    }
    if (form == "iip") {
      if constexpr (vec) return cc.template iallreduce<F>(std::move(in)).get();
      else { out[0] = cc.template iallreduce<F>(T(in[0])).get(); return out; }
    }
  }
  throw Unsupported{};
}

// a FieldVector object handed to allreduce(Type&&) / iallreduce: MPIData views it as a container of its entries, the
// functor F is one on the entries
template <class FVT, class F, class CC>
std::vector<FVT> callRedK(CC& cc, const std::string& form, std::vector<FVT> in, std::vector<FVT> out, int n) {
  constexpr bool isMpi = std::is_same_v<CC, MpiComm>;
  if (n != 1 || in.size() != 1 || out.size() != 1) throw Unsupported{};
  if (form == "krv") {
    if constexpr (isMpi) { out[0] = cc.template allreduce<F>(FVT(in[0])); return out; }
    else throw Unsupported{};
  }
  if (form == "kiio") { FVT o = out[0]; out[0] = cc.template iallreduce<F>(FVT(in[0]), std::move(o)).get(); return out; }
  if (form == "kiip") { out[0] = cc.template iallreduce<F>(FVT(in[0])).get(); return out; }
  throw Unsupported{};
}

template <class T, class CC>
std::vector<T> callColl(CC& cc, const std::string& op, const Local& L) {
  constexpr bool isMpi = std::is_same_v<CC, MpiComm>;
  std::string base = baseOf(op), form = formOf(op);
  std::vector<T> in = fromCells<T>(L.in), out = fromCells<T>(L.out);
  std::vector<int> lens = L.lens, displs = L.displs;
  int n = L.n, root = L.root;
  auto ok = [](int rc) { if (rc != 0) throw std::runtime_error("collective returned an error code"); };
  if (base == "red" && (form == "krv" || form == "kiio" || form == "kiip")) {
    if constexpr (std::is_same_v<T, FV3>) {
      const std::string fn = funOf(op);
      bool named = fn == "sum" || fn == "prod" || fn == "min" || fn == "max";
      if (!named && !isKGeneric(fn)) throw Unsupported{};
      std::vector<T> res;
      if (!withFun<int>(fn, [&](auto tag) {
            using F = typename decltype(tag)::type;
            // functors that cannot be applied to two FieldVector objects are left out (see the vector forms in callRed)
            if constexpr (std::is_same_v<F, First> || std::is_same_v<F, std::bit_xor<int>> || std::is_same_v<F, std::bit_xor<>> ||
                          std::is_same_v<F, GMin> || std::is_same_v<F, GMax>) throw Unsupported{};
            else res = callRedK<T, F>(cc, form, std::move(in), std::move(out), n);
          }))
        throw Unsupported{};
      return res;
    } else throw Unsupported{};
  }
  if (base == "red") {
    std::vector<T> res;
    if (!withFun<T>(funOf(op), [&](auto tag) {
          using F = typename decltype(tag)::type;
          res = callRed<T, F>(cc, funOf(op), form, std::move(in), std::move(out), n);
        }))
      throw Unsupported{};
    return res;
  }
  if (base == "barrier") {
    if (form == "ptr") ok(cc.barrier());
    else { auto f = cc.ibarrier(); f.wait(); }
    return out;
  }
  if (base == "bcast") {
    if (form == "ptr") { ok(cc.broadcast(out.data(), n, root)); return out; }
    if (form == "i") {
      if ((int)out.size() != n) throw Unsupported{};
      return cc.ibroadcast(std::move(out), root).get();
    }
    if (form == "isc") {
      if (n != 1 || out.size() != 1) throw Unsupported{};
      T x = out[0];
      out[0] = cc.ibroadcast(std::move(x), root).get();
      return out;
    }
  }
  if (base == "gather") {
    if (form == "ptr") { ok(cc.gather(in.data(), out.data(), n, root)); return out; }
    if (form == "i") {
      if constexpr (isMpi) return cc.igather(std::move(in), std::move(out), root).get();
      else throw Unsupported{};
    }
    if (form == "isc") {
      if constexpr (TT<T>::trueScalar) {
        if (n != 1) throw Unsupported{};
        return cc.igather(T(in[0]), std::move(out), root).get();
      } else throw Unsupported{};
    }
  }
  if (base == "gatherv" && form == "ptr") {
    ok(cc.gatherv(in.data(), (int)in.size(), out.data(), lens.data(), displs.data(), root));
    return out;
  }
  if (base == "scatter") {
    if (form == "ptr") { ok(cc.scatter(in.data(), out.data(), n, root)); return out; }
    if (form == "i") {
      if constexpr (isMpi) {
        if ((int)out.size() != n) throw Unsupported{};   // MPI requires matching send/receive counts in collectives
        return cc.iscatter(std::move(in), std::move(out), root).get();
      } else throw Unsupported{};
    }
    if (form == "isc") {
      if constexpr (TT<T>::trueScalar) {
        if (n != 1 || out.size() != 1) throw Unsupported{};
        if (!isMpi && in.empty()) throw Unsupported{};
        T o = out[0];
        out[0] = cc.iscatter(std::move(in), std::move(o), root).get();
        return out;
      } else throw Unsupported{};
    }
  }
  if (base == "scatterv" && form == "ptr") {
    ok(cc.scatterv(in.data(), lens.data(), displs.data(), out.data(), lens[L.rank], root));
    return out;
  }
  if (base == "allgather") {
    if (form == "ptr") { ok(cc.allgather(in.data(), n, out.data())); return out; }
    if (form == "i") {
      if constexpr (isMpi) return cc.iallgather(std::move(in), std::move(out)).get();
      else throw Unsupported{};
    }
    if (form == "isc") {
      if constexpr (TT<T>::trueScalar) {
        if (n != 1) throw Unsupported{};
        return cc.iallgather(T(in[0]), std::move(out)).get();
      } else throw Unsupported{};
    }
  }
  if (base == "allgatherv" && form == "ptr") {
    ok(cc.allgatherv(in.data(), (int)in.size(), out.data(), lens.data(), displs.data()));
    return out;
  }
  throw Unsupported{};
}

// the restricted set of calls instantiated for the light element types
template <class T>
Vec<T> callLight(MpiComm& cc, const std::string& op, const Local& L) {
  std::string base = baseOf(op), form = formOf(op);
  Vec<T> in = fromCells<T>(L.in), out = fromCells<T>(L.out);
  std::vector<int> lens = L.lens, displs = L.displs;
  int n = L.n, root = L.root;
  auto ok = [](int rc) { if (rc != 0) throw std::runtime_error("collective returned an error code"); };
  if (base == "red") {
    bool done = false;
    if (!withFun<T>(funOf(op), [&](auto tag) {
          using F = typename decltype(tag)::type;
          if (form == "sc") {
            if (n != 1) return;
            if constexpr (std::is_same_v<F, std::plus<T>>) out[0] = cc.sum(in[0]);
            else if constexpr (std::is_same_v<F, std::multiplies<T>>) out[0] = cc.prod(in[0]);
            else if constexpr (std::is_same_v<F, Dune::Min<T>>) out[0] = cc.min(in[0]);
            else if constexpr (std::is_same_v<F, Dune::Max<T>>) out[0] = cc.max(in[0]);
            else return;
            done = true;
          } else if (form == "ar") {  // int sum(T* inout, int len)
            if constexpr (std::is_same_v<F, std::plus<T>>) ok(cc.sum(in.data(), n));
            else if constexpr (std::is_same_v<F, std::multiplies<T>>) ok(cc.prod(in.data(), n));
            else if constexpr (std::is_same_v<F, Dune::Min<T>>) ok(cc.min(in.data(), n));
            else if constexpr (std::is_same_v<F, Dune::Max<T>>) ok(cc.max(in.data(), n));
            else return;
            std::copy(in.begin(), in.begin() + n, out.begin());
            done = true;
          } else if (form == "ip") {
            ok(cc.template allreduce<F>(in.data(), n));
            std::copy(in.begin(), in.begin() + n, out.begin());
            done = true;
          } else if (form == "io") {
            ok(cc.template allreduce<F>(in.data(), out.data(), n));
            done = true;
          }
        }) || !done)
      throw Unsupported{};
    return out;
  }
  if (base == "bcast" && form == "ptr") { ok(cc.broadcast(out.data(), n, root)); return out; }
  if (base == "gatherv" && form == "ptr") {
    ok(cc.gatherv(in.data(), (int)in.size(), out.data(), lens.data(), displs.data(), root));
    return out;
  }
  if (base == "allgather" && form == "ptr") { ok(cc.allgather(in.data(), n, out.data())); return out; }
  if (base == "gather" && form == "ptr") { ok(cc.gather(in.data(), out.data(), n, root)); return out; }
  if (base == "scatter" && form == "ptr") { ok(cc.scatter(in.data(), out.data(), n, root)); return out; }
  if (base == "scatterv" && form == "ptr") {
    ok(cc.scatterv(in.data(), lens.data(), displs.data(), out.data(), lens[L.rank], root));
    return out;
  }
  if (base == "allgatherv" && form == "ptr") {
    ok(cc.allgatherv(in.data(), (int)in.size(), out.data(), lens.data(), displs.data()));
    return out;
  }
  throw Unsupported{};
}

static std::string diffMsg(const Cells& got, const Cells& want) {
  return "got " + cellsStr(got) + " expected " + cellsStr(want);
}

static Result execColl(const std::string& line) {
  int rank, size;
  MPI_Comm_rank(MPI_COMM_WORLD, &rank);
  MPI_Comm_size(MPI_COMM_WORLD, &size);
  Result res;
  Case k = parseCase(line);
  if ((int)k.ins.size() != size) { res.impl = "ERR:ranks"; res.oracle = "ok trivial"; return res; }
  TyInfo ti = tyInfo(k.ty);
  std::vector<Local> locals;
  if (k.comm == "world") for (int r = 0; r < size; ++r) locals.push_back(localOf(k, r, size));
  else locals.push_back(localOf(k, rank, size));
  const Local& L = k.comm == "world" ? locals[rank] : locals[0];
  Cells want = expectColl(k, locals, L.rank);
  Cells got, gotSelf;
  bool okType = withType(k.ty, [&](auto tag) {
    using T = typename decltype(tag)::type;
    if constexpr (std::is_same_v<T, char>) throw Unsupported{};
    else if constexpr (IsLight<T>::value) {
      if (k.comm == "world") { MpiComm cc(MPI_COMM_WORLD); got = toCells(callLight<T>(cc, k.op, L)); }
      else if (k.comm == "self") { MpiComm cc(MPI_COMM_SELF); got = toCells(callLight<T>(cc, k.op, L)); }
      else throw Unsupported{};
    } else {
      if (k.comm == "world") { MpiComm cc(MPI_COMM_WORLD); got = toCells(callColl<T>(cc, k.op, L)); }
      else if (k.comm == "self") { MpiComm cc(MPI_COMM_SELF); got = toCells(callColl<T>(cc, k.op, L)); }
      else if (k.comm == "seq") {
        SeqComm sc;
        got = toCells(callColl<T>(sc, k.op, L));
        MpiComm cc(MPI_COMM_SELF);
        gotSelf = toCells(callColl<T>(cc, k.op, L));
      } else throw std::runtime_error("unknown communicator " + k.comm);
    }
  });
  if (!okType) throw std::runtime_error("unknown type");
  res.impl = cellsStr(got);
  stat("coll_" + baseOf(k.op));
  stat("form_" + formOf(k.op));
  if (baseOf(k.op) == "red") { stat("fun_" + funOf(k.op)); if (k.n > 100) stat("red_long"); }
  if (k.n == 0 && baseOf(k.op) == "red") stat("red_len0");
  if (baseOf(k.op) != "red" && baseOf(k.op) != "barrier") stat("len_" + std::to_string(k.comm == "world" ? (int)k.ins[L.rank].size() / ti.E : (int)L.in.size() / ti.E));
  stat("ty_" + k.ty);
  stat("comm_" + k.comm);
  if (got.size() != want.size()) { res.oracle = "FAIL result has " + std::to_string(got.size()) + " cells, expected " + std::to_string(want.size()); return res; }
  if (k.comm != "seq") {
    if (got != want) res.oracle = "FAIL " + k.op + " on " + k.comm + ": " + diffMsg(got, want);
  } else {
    // the sequential stand-in must agree with the one-process fold on the communicated state; cells that MPI
    // does not communicate may be copied (C++ assignment) or kept
    std::vector<char> isComm(ti.E, 0);
    for (int c : ti.comm) isComm[c] = 1;
    std::string base = baseOf(k.op);
    for (size_t i = 0; i < got.size(); ++i) {
      bool c = isComm[i % ti.E];
      if (c && got[i] != want[i]) { res.oracle = "FAIL sequential " + k.op + " differs from the one-process fold: " + diffMsg(got, want); break; }
      if (c && gotSelf.size() == got.size() && got[i] != gotSelf[i]) { res.oracle = "FAIL sequential " + k.op + " differs from Communication<MPI_Comm>(MPI_COMM_SELF): " + diffMsg(got, gotSelf); break; }
    }
    if (res.oracle == "ok" && gotSelf != want) res.oracle = "FAIL " + k.op + " on MPI_COMM_SELF: " + diffMsg(gotSelf, want);
  }
  if (res.oracle == "ok" && (baseOf(k.op) == "barrier")) res.oracle = "ok trivial";
  return res;
}

// ------------------------------------------------------------------------------------------------------------------
// point-to-point with size discovery
// ------------------------------------------------------------------------------------------------------------------
static Cells resizeCellsTo(const TyInfo& ti, Cells c, size_t nElem) {
  c.resize(nElem * ti.E, 0);  // new elements are value-initialised: all cells 0
  return c;
}
// is `r` the smallest rank on its cycle of the permutation r -> r+shift (mod P)?
static bool cycleLeader(int r, int shift, int P) {
  int x = (r + shift) % P;
  while (x != r) { if (x < r) return false; x = (x + shift) % P; }
  return true;
}
// st != nullptr: the caller wants the MPI_Status of the receive (the non-default branch of recv/rrecv)
template <class C, class CC> C p2pExchange(CC& cc, const std::string& mode, C src, C dst, int to, int from, int rank, int shift, int P, MPI_Status* st) {
  const int tag = 7;
  MPI_Status* stArg = st ? st : MPI_STATUS_IGNORE;
  if (mode == "isend_recv") {
    auto f = cc.isend(std::move(src), to, tag);
    C got = cc.recv(std::move(dst), from, tag, stArg);
    f.wait();
    return got;
  }
  if (mode == "isend_rrecv") {
    if constexpr (!decltype(Dune::getMPIData(std::declval<C&>()))::static_size) {
      auto f = cc.isend(std::move(src), to, tag);
      C got = cc.rrecv(std::move(dst), from, tag, stArg);
      f.wait();
      return got;
    } else throw Unsupported{};
  }
  if (mode == "irecv_send") {
    auto f = cc.irecv(std::move(dst), from, tag);
    cc.send(src, to, tag);
    return f.get();
  }
  if (mode == "chain_recv" || mode == "chain_rrecv") {  // blocking send and receive, ordered along the cycles
    if (shift % P == 0) throw Unsupported{};
    auto rcv = [&](C d) -> C {
      if (mode == "chain_recv") return cc.recv(std::move(d), from, tag, stArg);
      if constexpr (!decltype(Dune::getMPIData(std::declval<C&>()))::static_size) return cc.rrecv(std::move(d), from, tag, stArg);
      else throw Unsupported{};
    };
    if (cycleLeader(rank, shift % P, P)) { cc.send(src, to, tag); return rcv(std::move(dst)); }
    C got = rcv(std::move(dst));
    cc.send(src, to, tag);
    return got;
  }
  throw Unsupported{};
}

static Result execP2p(const std::string& line) {
  int rank, size;
  MPI_Comm_rank(MPI_COMM_WORLD, &rank);
  MPI_Comm_size(MPI_COMM_WORLD, &size);
  Result res;
  size_t c = line.find(" : ");
  auto toks = words(line.substr(0, c));
  std::string mode = toks.at(1), cont = toks.at(2), ty = toks.at(3);
  int shift = std::stoi(kv(toks, "shift"));
  std::vector<Cells> srcs, dsts;
  for (auto& p : splitBar(line.substr(c + 3))) {
    auto sd = split(p, '/');
    srcs.push_back(parseCells(sd.at(0)));
    dsts.push_back(parseCells(sd.at(1)));
  }
  if ((int)srcs.size() != size) { res.impl = "ERR:ranks"; res.oracle = "ok trivial"; return res; }
  TyInfo ti = tyInfo(ty);
  int to = (rank + shift) % size, from = ((rank - shift) % size + size) % size;
  const Cells& incoming = srcs[from];
  bool resizing = mode == "isend_rrecv" || mode == "chain_rrecv";
  Cells want = resizing ? resizeCellsTo(ti, dsts[rank], incoming.size() / ti.E) : dsts[rank];
  xfer(ti, incoming, 0, want, 0, incoming.size() / ti.E);
  Cells got;
  MpiComm cc(MPI_COMM_WORLD);
  bool wantStatus = false;
  for (auto& t : toks) if (t == "st=1") wantStatus = true;
  if (mode == "irecv_send") wantStatus = false;  // irecv has no status argument
  MPI_Status status;
  std::memset(&status, 0, sizeof status);
  MPI_Status* st = wantStatus ? &status : nullptr;
  MPI_Datatype elemType = MPI_DATATYPE_NULL;
  withType(ty, [&](auto tag) {
    using T = typename decltype(tag)::type;
    if constexpr (IsLight<T>::value) throw Unsupported{};
    else {
    elemType = Dune::MPITraits<T>::getType();
    if (cont == "sc") {
      if constexpr (std::is_same_v<T, char>) throw Unsupported{};
      else {
        T s = fromCells<T>(srcs[rank]).at(0), d = fromCells<T>(dsts[rank]).at(0);
        T g = p2pExchange<T>(cc, mode, s, d, to, from, rank, shift, size, st);
        got = toCells(&g, 1);
      }
    } else if (cont == "vec") {
      if constexpr (std::is_same_v<T, char>) throw Unsupported{};
      else got = toCells(p2pExchange<std::vector<T>>(cc, mode, fromCells<T>(srcs[rank]), fromCells<T>(dsts[rank]), to, from, rank, shift, size, st));
    } else if (cont == "str") {
      if constexpr (std::is_same_v<T, char>) {
        auto s = fromCells<char>(srcs[rank]), d = fromCells<char>(dsts[rank]);
        std::string g = p2pExchange<std::string>(cc, mode, std::string(s.begin(), s.end()), std::string(d.begin(), d.end()), to, from, rank, shift, size, st);
        got = toCells(g.data(), g.size());
      } else throw Unsupported{};
    } else throw Unsupported{};
    }
  });
  res.impl = cellsStr(got);
  stat("p2p_" + mode);
  stat("p2pcont_" + cont);
  stat("ty_" + ty);
  if (wantStatus) stat("p2p_with_status");
  if (got != want) res.oracle = "FAIL p2p " + mode + " " + cont + ": " + diffMsg(got, want);
  if (res.oracle == "ok" && wantStatus) {
    int cnt = -1;
    MPI_Get_count(&status, elemType, &cnt);
    if (status.MPI_SOURCE != from || status.MPI_TAG != 7 || cnt != (int)(incoming.size() / ti.E))
      res.oracle = "FAIL p2p " + mode + ": status reports source " + std::to_string(status.MPI_SOURCE) + " tag " + std::to_string(status.MPI_TAG) +
                   " count " + std::to_string(cnt) + ", expected source " + std::to_string(from) + " tag 7 count " + std::to_string(incoming.size() / ti.E);
  }
  return res;
}

// ------------------------------------------------------------------------------------------------------------------
// MPIPack
// ------------------------------------------------------------------------------------------------------------------
struct PItem { std::string kind, ty; Cells src, dst; };
static std::vector<PItem> parseItems(const std::string& s) {
  std::vector<PItem> v;
  for (auto& w : words(s)) {
    auto p = split(w, '/');
    v.push_back(PItem{p.at(0), p.at(1), parseCells(p.at(2)), parseCells(p.at(3))});
  }
  return v;
}
template <class T> std::array<T, 3> toArr(const std::vector<T>& v) { return {v.at(0), v.at(1), v.at(2)}; }

// is this (kind, type) combination offered at all?  (decided before anything is packed, so that a refused item never
// leaves a half-written buffer behind)
static bool packSupported(const PItem& it) {
  bool light = isLightName(it.ty);
  if (it.kind == "s") return true;
  if (it.kind == "a") return !light;
  if (it.kind == "v") return it.ty != "char" && it.ty != "bool";  // std::vector<bool> is no contiguous container
  if (it.kind == "t") return it.ty == "char";
  return false;
}
// alt: use the named member functions write()/read() instead of the stream operators
static void packOne(Dune::MPIPack& p, const PItem& it, bool alt) {
  withType(it.ty, [&](auto tag) {
    using T = typename decltype(tag)::type;
    auto v = fromCells<T>(it.src);
    if (it.kind == "s") { if (alt) p.write(v.at(0)); else p << v.at(0); }
    else if (it.kind == "a") { if constexpr (IsLight<T>::value) throw Unsupported{}; else { if (alt) p.write(toArr(v)); else p << toArr(v); } }
    else if (it.kind == "v") { if constexpr (std::is_same_v<T, char>) throw Unsupported{}; else { if (alt) p.write(v); else p << v; } }
    else if (it.kind == "t") { if constexpr (std::is_same_v<T, char>) { std::string str(v.begin(), v.end()); if (alt) p.write(str); else p << str; } else throw Unsupported{}; }
    else throw Unsupported{};
  });
}
static Cells unpackOne(Dune::MPIPack& p, const PItem& it, bool alt) {
  Cells out;
  withType(it.ty, [&](auto tag) {
    using T = typename decltype(tag)::type;
    auto d = fromCells<T>(it.dst);
    if (it.kind == "s") { T x = d.at(0); if (alt) p.read(x); else p >> x; out = toCells(&x, 1); }
    else if (it.kind == "a") { if constexpr (IsLight<T>::value) throw Unsupported{}; else { auto a = toArr(d); if (alt) p.read(a); else p >> a; out = toCells(a.data(), 3); } }
    else if (it.kind == "v") { if constexpr (std::is_same_v<T, char>) throw Unsupported{}; else { if (alt) p.read(d); else p >> d; out = toCells(d); } }
    else if (it.kind == "t") {
      if constexpr (std::is_same_v<T, char>) { std::string s(d.begin(), d.end()); if (alt) p.read(s); else p >> s; out = toCells(s.data(), s.size()); }
      else throw Unsupported{};
    } else throw Unsupported{};
  });
  return out;
}
static Cells expectItem(const PItem& it) {
  TyInfo ti = tyInfo(it.ty);
  size_t n = it.src.size() / ti.E;
  Cells want = (it.kind == "v" || it.kind == "t") ? resizeCellsTo(ti, it.dst, n) : it.dst;
  xfer(ti, it.src, 0, want, 0, n);
  return want;
}

static Result execPack(const std::string& line) {
  int rank, size;
  MPI_Comm_rank(MPI_COMM_WORLD, &rank);
  MPI_Comm_size(MPI_COMM_WORLD, &size);
  Result res;
  size_t c = line.find(" :");
  if (c == std::string::npos) throw std::runtime_error("no ' :'");
  auto toks = words(line.substr(0, c));
  std::string mode = toks.at(1);
  int shift = std::stoi(kv(toks, "shift")), extra = std::stoi(kv(toks, "extra"));
  if (std::stoi(kv(toks, "np")) != size) { res.impl = "ERR:ranks"; res.oracle = "ok trivial"; return res; }
  auto items = parseItems(line.substr(c + 2));
  for (auto& it : items) { tyInfo(it.ty); if (!packSupported(it)) throw Unsupported{}; }
  MpiComm cc(MPI_COMM_WORLD);
  int to = (rank + shift) % size, from = ((rank - shift) % size + size) % size, root = shift % size;
  int wantFirst = rank;
  std::vector<Cells> got;
  int first = INT_MIN;
  std::string problem;
  // every second item goes through write()/read() instead of << / >>
  auto readAll = [&](Dune::MPIPack& p) {
    p >> first;
    for (size_t i = 0; i < items.size(); ++i) got.push_back(unpackOne(p, items[i], i % 2 == 1));
  };
  Dune::MPIPack pack(cc);
  std::vector<int> pos;
  pack << rank;
  for (size_t i = 0; i < items.size(); ++i) { pos.push_back(pack.tell()); packOne(pack, items[i], i % 2 == 1); }
  int endPos = pack.tell();
  if ((size_t)endPos > pack.size()) problem = "position " + std::to_string(endPos) + " beyond buffer size " + std::to_string(pack.size());
  if (mode == "local") {
    // shrink to what was written (eof() must then be true exactly at the end of reading), or grow by `extra` bytes
    // (must not disturb what was written)
    if (extra == 0) {
      pack.resize((size_t)endPos);
      if (pack.size() != (size_t)endPos) problem = "resize(" + std::to_string(endPos) + ") left size " + std::to_string(pack.size());
    } else {
      size_t before = pack.size();
      pack.seek(0);  // enlarge() is about the buffer, wherever the cursor stands
      pack.enlarge(extra);
      if (pack.size() != before + (size_t)extra) problem = "enlarge(" + std::to_string(extra) + ") changed the size from " + std::to_string(before) + " to " + std::to_string(pack.size());
    }
    pack.seek(0);
    if (pack.eof()) problem = "eof() at position 0 of a buffer of " + std::to_string(pack.size()) + " bytes";
    readAll(pack);
    if (pack.tell() != endPos) problem = "reader ended at " + std::to_string(pack.tell()) + ", writer at " + std::to_string(endPos);
    if (problem.empty() && pack.eof() != (extra == 0)) problem = std::string("eof() is ") + (pack.eof() ? "true" : "false") + " after reading everything, " + std::to_string(pack.size() - (size_t)endPos) + " bytes behind the position";
  } else if (mode == "tell") {  // random access through saved positions, last item first
    got.resize(items.size());
    for (size_t i = items.size(); i-- > 0;) { pack.seek(pos[i]); got[i] = unpackOne(pack, items[i], i % 2 == 1); }
    pack.seek(0);
    pack >> first;
  } else if (mode == "nest") {
    Dune::MPIPack outer(cc);
    outer << 111 << pack << 222;
    outer.seek(0);
    int a = 0, b = 0;
    Dune::MPIPack inner(cc);
    outer >> a >> inner >> b;
    if (a != 111 || b != 222) problem = "values around the nested pack were " + std::to_string(a) + "," + std::to_string(b);
    if (!(inner == pack) || inner != pack) problem = "nested pack differs from the original";
    if (!(outer != pack)) problem = "operator!= says the outer pack equals the inner one";
    inner.seek(0);
    readAll(inner);
  } else if (mode == "send") {
    wantFirst = from;
    auto f = cc.isend(std::move(pack), to, 11);
    Dune::MPIPack in = cc.rrecv(Dune::MPIPack(cc), from, 11);
    f.wait();
    readAll(in);
  } else if (mode == "irecv") {
    wantFirst = from;
    auto fr = cc.irecv(Dune::MPIPack(cc, pack.size() + (size_t)extra + 1), from, 12);
    auto fs = cc.isend(std::move(pack), to, 12);
    Dune::MPIPack in = fr.get();
    fs.wait();
    readAll(in);
  } else if (mode == "bcast") {
    wantFirst = root;
    int sz = (int)pack.size();
    cc.broadcast(&sz, 1, root);
    if (rank == root) {
      Dune::MPIPack in = cc.ibroadcast(std::move(pack), root).get();
      in.seek(0);
      readAll(in);
    } else {
      Dune::MPIPack in = cc.ibroadcast(Dune::MPIPack(cc, sz), root).get();
      readAll(in);
    }
  } else throw Unsupported{};
  std::string s = "[" + std::to_string(first) + "]";
  for (auto& g : got) s += " " + cellsStr(g);
  res.impl = s;
  stat("pack_" + mode);
  for (auto& it : items) { stat("packkind_" + it.kind); stat("ty_" + it.ty); if (it.src.empty()) stat("pack_empty_dynamic"); }
  stat("pack_items", (long)items.size());
  if (!problem.empty()) { res.oracle = "FAIL MPIPack: " + problem; return res; }
  if (first != wantFirst) { res.oracle = "FAIL MPIPack " + mode + ": leading int read back as " + std::to_string(first) + ", written " + std::to_string(wantFirst); return res; }
  for (size_t i = 0; i < items.size(); ++i) {
    Cells want = expectItem(items[i]);
    if (got[i] != want) { res.oracle = "FAIL MPIPack " + mode + ": item " + std::to_string(i) + " (" + items[i].kind + "/" + items[i].ty + ") " + diffMsg(got[i], want); return res; }
  }
  return res;
}

// ------------------------------------------------------------------------------------------------------------------
// datatypes: decode what MPITraits<T>::getType() registered, and watch a real transfer byte by byte
// ------------------------------------------------------------------------------------------------------------------
typedef std::vector<std::pair<long, long>> Blocks;
static void flattenType(MPI_Datatype t, MPI_Aint base, Blocks& out) {
  int ni, na, nd, comb;
  MPI_Type_get_envelope(t, &ni, &na, &nd, &comb);
  if (comb == MPI_COMBINER_NAMED) {
    int sz;
    MPI_Type_size(t, &sz);
    out.push_back({(long)base, (long)sz});
    return;
  }
  std::vector<int> I(ni);
  std::vector<MPI_Aint> A(na);
  std::vector<MPI_Datatype> D(nd);
  MPI_Type_get_contents(t, ni, na, nd, I.data(), A.data(), D.data());
  auto extentOf = [](MPI_Datatype d) { MPI_Aint lb, ex; MPI_Type_get_extent(d, &lb, &ex); return ex; };
  if (comb == MPI_COMBINER_CONTIGUOUS) {
    for (int k = 0; k < I[0]; ++k) flattenType(D[0], base + k * extentOf(D[0]), out);
  } else if (comb == MPI_COMBINER_STRUCT) {
    for (int i = 0; i < I[0]; ++i)
      for (int j = 0; j < I[1 + i]; ++j) flattenType(D[i], base + A[i] + j * extentOf(D[i]), out);
  } else if (comb == MPI_COMBINER_RESIZED || comb == MPI_COMBINER_DUP) {
    flattenType(D[0], base, out);
  } else if (comb == MPI_COMBINER_VECTOR) {
    for (int k = 0; k < I[0]; ++k)
      for (int j = 0; j < I[1]; ++j) flattenType(D[0], base + (k * I[2] + j) * extentOf(D[0]), out);
  } else throw std::runtime_error("datatype combiner not handled: " + std::to_string(comb));
  for (auto& d : D) {
    int a, b, c2, cb;
    MPI_Type_get_envelope(d, &a, &b, &c2, &cb);
    if (cb != MPI_COMBINER_NAMED) MPI_Type_free(&d);
  }
}
// canonical form: sorted by displacement (the order of the blocks only matters on the wire), adjacent blocks merged
static Blocks mergeBlocks(Blocks b) {
  std::stable_sort(b.begin(), b.end(), [](const std::pair<long, long>& x, const std::pair<long, long>& y) { return x.first < y.first; });
  Blocks m;
  for (auto& x : b) {
    if (x.second == 0) continue;
    if (!m.empty() && m.back().first + m.back().second == x.first) m.back().second += x.second;
    else m.push_back(x);
  }
  return m;
}
// bytes of an object that change when it is modified in place through its public interface
template <class T, class Mod> Blocks changedBytes(T& obj, Mod mod) {
  unsigned char A[sizeof(T)], B[sizeof(T)];
  std::memcpy(A, &obj, sizeof(T));
  mod(obj);
  std::memcpy(B, &obj, sizeof(T));
  long lo = -1, hi = -1;
  for (size_t i = 0; i < sizeof(T); ++i) if (A[i] != B[i]) { if (lo < 0) lo = (long)i; hi = (long)i; }
  if (lo < 0) throw std::runtime_error("probe found no differing byte");
  return {{lo, hi - lo + 1}};
}
struct Layout { std::vector<long> lay; Blocks comm; long size; };
template <class T> Layout layoutOf() {
  Layout L;
  L.size = (long)sizeof(T);
  if constexpr (std::is_same_v<T, FV3> || std::is_same_v<T, FV2>) {
    T v(0);
    long d = (long)((char*)&v[0] - (char*)&v);
    L.lay = {d, (long)T::dimension, (long)sizeof(int)};
    L.comm = {{d, (long)T::dimension * (long)sizeof(int)}};
  } else if constexpr (std::is_same_v<T, Big>) {
    Big x(0u);
    Blocks b = changedBytes(x, [](Big& y) { y = ~y; });  // all 96 bits flip
    L.lay = {b[0].first, (long)Big::n, 2};
    L.comm = b;
  } else if constexpr (std::is_same_v<T, Big40>) {
    Big40 x(0u);
    Blocks b = changedBytes(x, [](Big40& y) { y = ~y; });  // all digits flip
    L.lay = {b[0].first, (long)Big40::n, 2};
    L.comm = b;
  } else if constexpr (std::is_same_v<T, PairIC>) {
    L.lay = {(long)offsetof(PairIC, first), (long)sizeof(int), (long)offsetof(PairIC, second), 1, (long)sizeof(PairIC)};
    L.comm = {{L.lay[0], L.lay[1]}, {L.lay[2], L.lay[3]}};
  } else if constexpr (std::is_same_v<T, PairIS>) {
    L.lay = {(long)offsetof(PairIS, first), (long)sizeof(int), (long)offsetof(PairIS, second), (long)sizeof(short), (long)sizeof(PairIS)};
    L.comm = {{L.lay[0], L.lay[1]}, {L.lay[2], L.lay[3]}};
  } else if constexpr (std::is_same_v<T, PairLC>) {
    L.lay = {(long)offsetof(PairLC, first), (long)sizeof(long long), (long)offsetof(PairLC, second), 1, (long)sizeof(PairLC)};
    L.comm = {{L.lay[0], L.lay[1]}, {L.lay[2], L.lay[3]}};
  } else if constexpr (std::is_same_v<T, PPair>) {
    long oi = (long)offsetof(PPair, first), os = (long)offsetof(PPair, second);
    L.lay = {(long)offsetof(PairLC, first), (long)sizeof(long long), (long)offsetof(PairLC, second), 1, (long)sizeof(PairLC), oi, os,
             (long)sizeof(short), (long)sizeof(PPair)};
    L.comm = {{oi + L.lay[0], L.lay[1]}, {oi + L.lay[2], L.lay[3]}, {os, (long)sizeof(short)}};
  } else if constexpr (std::is_same_v<T, FVP>) {
    FVP v;
    long d = (long)((char*)&v[0] - (char*)&v);
    L.lay = {d, 2, (long)offsetof(PairLC, first), (long)sizeof(long long), (long)offsetof(PairLC, second), 1, (long)sizeof(PairLC)};
    for (long k = 0; k < 2; ++k) {
      L.comm.push_back({d + k * (long)sizeof(PairLC) + L.lay[2], L.lay[3]});
      L.comm.push_back({d + k * (long)sizeof(PairLC) + L.lay[4], L.lay[5]});
    }
  } else if constexpr (std::is_same_v<T, PLI>) {
    PLI p(0, 0, false);
    Blocks a = changedBytes(p, [](PLI& q) { q.setAttribute(0x7f); });
    L.lay = {a[0].first, (long)sizeof(PLI)};
    L.comm = a;
  } else if constexpr (std::is_same_v<T, IP>) {
    IP ip(0, PLI(0, 0, false));
    long offG = (long)((const char*)&ip.global() - (const char*)&ip);
    long offL = (long)((const char*)&ip.local() - (const char*)&ip);
    Blocks a = changedBytes(ip, [](IP& q) { q.local().setAttribute(0x7f); });
    L.lay = {offG, (long)sizeof(int), offL, a[0].first - offL, (long)sizeof(PLI), (long)sizeof(IP)};
    L.comm = {{offG, (long)sizeof(int)}, a[0]};
  } else {
    L.lay = {(long)sizeof(T)};
    L.comm = {{0, (long)sizeof(T)}};
  }
  return L;
}
static std::string blocksStr(const Blocks& b) {
  std::vector<long> flat;
  for (auto& x : b) { flat.push_back(x.first); flat.push_back(x.second); }
  return listStr(flat);
}
static std::string tmapLine(const std::string& ty, int count) {
  std::string lay;
  withType(ty, [&](auto tag) { using T = typename decltype(tag)::type; lay = listStr(layoutOf<T>().lay); });
  int P;
  MPI_Comm_size(MPI_COMM_WORLD, &P);
  return "tmap " + ty + " np=" + std::to_string(P) + " count=" + std::to_string(count) + " lay=" + lay;
}
static Result execTmap(const std::string& line) {
  Result res;
  auto toks = words(line);
  std::string ty = toks.at(1);
  int count = std::stoi(kv(toks, "count"));
  {
    int size;
    MPI_Comm_size(MPI_COMM_WORLD, &size);
    if (std::stoi(kv(toks, "np")) != size) { res.impl = "ERR:ranks"; res.oracle = "ok trivial"; return res; }
  }
  withType(ty, [&](auto tag) {
    using T = typename decltype(tag)::type;
    MPI_Datatype dt = Dune::MPITraits<T>::getType();
    Blocks raw;
    flattenType(dt, 0, raw);
    MPI_Aint lb, ex;
    MPI_Type_get_extent(dt, &lb, &ex);
    Blocks got = mergeBlocks(raw);
    res.impl = "blocks=" + blocksStr(got) + " extent=" + std::to_string((long)ex) + " lb=" + std::to_string((long)lb);
    Layout L = layoutOf<T>();
    // (1) the registered typemap is exactly the communicated members; the extent is sizeof (arrays stride correctly)
    Blocks want = mergeBlocks(L.comm);
    if (got != want) { res.oracle = "FAIL datatype of " + ty + " has blocks " + blocksStr(got) + ", communicated members occupy " + blocksStr(want); return; }
    if (ex != (MPI_Aint)sizeof(T) || lb != 0) { res.oracle = "FAIL datatype of " + ty + " has extent " + std::to_string((long)ex) + ", sizeof is " + std::to_string(sizeof(T)); return; }
    // (2) a real transfer of `count` elements changes exactly those bytes
    size_t bytes = sizeof(T) * (size_t)count + 16;
    std::vector<unsigned char> src(bytes), dst(bytes), before;
    for (size_t i = 0; i < bytes; ++i) { src[i] = (unsigned char)(0x80 | (i * 7 + 3)); dst[i] = (unsigned char)(0x7f & (i * 5 + 1)); }
    before = dst;
    MPI_Sendrecv(src.data(), count, dt, 0, 3, dst.data(), count, dt, 0, 3, MPI_COMM_SELF, MPI_STATUS_IGNORE);
    for (size_t i = 0; i < bytes; ++i) {
      bool inside = false;
      if (i < sizeof(T) * (size_t)count) {
        long off = (long)(i % sizeof(T));
        for (auto& b : L.comm) if (off >= b.first && off < b.first + b.second) inside = true;
      }
      unsigned char expect = inside ? src[i] : before[i];
      if (dst[i] != expect) {
        res.oracle = "FAIL transfer of " + std::to_string(count) + " x " + ty + ": byte " + std::to_string(i) + (inside ? " (communicated) not transferred" : " (not communicated) was overwritten");
        return;
      }
    }
  });
  stat("tmap");
  stat("ty_" + ty);
  return res;
}

// ------------------------------------------------------------------------------------------------------------------
// misc: rank/size of the three kinds of communicators, barrier return codes, conversions, refused calls
// ------------------------------------------------------------------------------------------------------------------
template <class F> static int throwsParallel(F&& f) {
  try { f(); } catch (Dune::ParallelError&) { return 1; } catch (...) { return 2; }
  return 0;
}
static Result execMisc(const std::string& line) {
  int rank, size;
  MPI_Comm_rank(MPI_COMM_WORLD, &rank);
  MPI_Comm_size(MPI_COMM_WORLD, &size);
  Result res;
  auto toks = words(line);
  if (std::stoi(kv(toks, "np")) != size) { res.impl = "ERR:ranks"; res.oracle = "ok trivial"; return res; }
  MpiComm world(MPI_COMM_WORLD), self(MPI_COMM_SELF);
  SeqComm seq;
  MpiComm fromSeq(seq);                 // Communication<MPI_Comm>(const Communication<No_Comm>&) = MPI_COMM_SELF
  Dune::No_Comm nc = seq;               // operator No_Comm()
  (void)nc;
  int cmp = MPI_UNEQUAL;
  MPI_Comm_compare((MPI_Comm)fromSeq, MPI_COMM_SELF, &cmp);
  int cmpW = MPI_UNEQUAL;
  MPI_Comm_compare((MPI_Comm)world, MPI_COMM_WORLD, &cmpW);
  int bw = world.barrier(), bs = seq.barrier(), bself = self.barrier();
  { auto f = seq.ibarrier(); f.wait(); }
  int thr = 0;  // one bit per refused point-to-point method of the stand-in; irecv of an empty object on MPI
  int x = 5;
  std::vector<int> v{1, 2};
  thr |= (throwsParallel([&] { seq.send(x, 0, 1); }) == 1) << 0;
  thr |= (throwsParallel([&] { seq.isend(std::move(x), 0, 1); }) == 1) << 1;
  thr |= (throwsParallel([&] { seq.recv(int(x), 0, 1); }) == 1) << 2;
  thr |= (throwsParallel([&] { seq.irecv(int(x), 0, 1); }) == 1) << 3;
  thr |= (throwsParallel([&] { seq.rrecv(std::vector<int>(v), 0, 1); }) == 1) << 4;
  thr |= (throwsParallel([&] { world.irecv(std::vector<int>(), rank, 99); }) == 1) << 5;
  std::vector<long> got = {world.rank(), world.size(), self.rank(), self.size(), seq.rank(), seq.size(), fromSeq.rank(), fromSeq.size(),
                           bw, bself, bs, thr, Dune::MPIHelper::getCommunication().rank(), Dune::MPIHelper::getCommunication().size(),
                           Dune::MPIHelper::instance().rank(), Dune::MPIHelper::instance().size(),
                           Dune::FakeMPIHelper::getCommunication().rank(), Dune::FakeMPIHelper::getCommunication().size()};
  std::vector<long> want = {rank, size, 0, 1, 0, 1, 0, 1, 0, 0, 0, 63, rank, size, rank, size, 0, 1};
  res.impl = listStr(got);
  stat("misc");
  if (got != want) res.oracle = "FAIL rank/size/barrier/refusals: got " + listStr(got) + " expected " + listStr(want);
  else if (cmp != MPI_IDENT && cmp != MPI_CONGRUENT) res.oracle = "FAIL Communication<MPI_Comm>(Communication<No_Comm>) is not MPI_COMM_SELF";
  else if (cmpW != MPI_IDENT) res.oracle = "FAIL operator MPI_Comm of the world communicator is not MPI_COMM_WORLD";
  return res;
}

// ------------------------------------------------------------------------------------------------------------------
// executor
// ------------------------------------------------------------------------------------------------------------------
static Result execHist(const std::string& line);
static Result exec(const std::string& line, bool nested) {
  Result r;
  try {
    auto toks = words(line);
    if (toks.empty()) throw std::runtime_error("empty op");
    if (toks[0] == "hist" && !nested) return execHist(line);
    if (toks[0] == "coll") return execColl(line);
    if (toks[0] == "p2p") return execP2p(line);
    if (toks[0] == "pack") return execPack(line);
    if (toks[0] == "tmap") return execTmap(line);
    if (toks[0] == "misc") return execMisc(line);
    throw std::runtime_error("unknown op kind");
  } catch (Unsupported&) {
    r.impl = "ERR:unsupported";
    r.oracle = "ok trivial";
  } catch (std::out_of_range& e) {
    r.impl = "ERR:malformed";
    r.oracle = "ok trivial";
  } catch (std::runtime_error& e) {
    r.impl = "ERR:malformed";
    r.oracle = std::string("ok trivial (") + e.what() + ")";
  }
  return r;
}
static Result execTop(const std::string& line) { return exec(line, false); }

// a call history in one process: every step is executed whatever the steps before it did (all ranks stay in step);
// the verdict is the first step whose oracle fails
static std::string trimmed(const std::string& s) {
  size_t a = s.find_first_not_of(' '), b = s.find_last_not_of(' ');
  return a == std::string::npos ? "" : s.substr(a, b - a + 1);
}
static Result execHist(const std::string& line) {
  int size;
  MPI_Comm_size(MPI_COMM_WORLD, &size);
  Result res;
  size_t c = line.find(" :");
  if (c == std::string::npos) throw std::runtime_error("no ' :'");
  auto toks = words(line.substr(0, c));
  if (std::stoi(kv(toks, "np")) != size) { res.impl = "ERR:ranks"; res.oracle = "ok trivial"; return res; }
  std::vector<std::string> steps;
  for (auto& p : split(line.substr(c + 2), ';')) { std::string t = trimmed(p); if (!t.empty()) steps.push_back(t); }
  bool anyOk = false;
  std::string fail;
  for (size_t i = 0; i < steps.size(); ++i) {
    Result r = exec(steps[i], true);
    res.impl += (i ? " ; " : "") + r.impl;
    if (r.oracle == "ok") anyOk = true;
    if (fail.empty() && r.oracle.rfind("ok", 0) != 0) {
      auto w = words(steps[i]);
      std::string what = w.size() >= 4 ? w[0] + " " + w[1] + " " + w[2] + " " + w[3] : steps[i].substr(0, 40);
      fail = "FAIL step " + std::to_string(i + 1) + " of " + std::to_string(steps.size()) + " (" + what + "): " +
             (r.oracle.rfind("FAIL ", 0) == 0 ? r.oracle.substr(5) : r.oracle);
    }
  }
  stat("hist");
  stat("hist_steps", (long)steps.size());
  res.oracle = !fail.empty() ? fail : (anyOk ? "ok" : "ok trivial");
  return res;
}

// ------------------------------------------------------------------------------------------------------------------
// generator
// ------------------------------------------------------------------------------------------------------------------
static const std::vector<std::string> ELEM_TYPES = {"int", "long", "double", "complex", "fv3", "big96", "pair", "pairlc", "ip", "pli"};
static const std::vector<std::string> LIGHT_TYPES = {"uchar", "short", "ushort", "uint", "ulong", "float", "ldouble", "cfloat", "cldouble", "llong", "bool", "schar", "ullong", "pod", "ppair", "fvp", "big40", "fv2", "pairis"};

static cell rnd128(Rng& g, int bits) {
  unsigned __int128 v = ((unsigned __int128)g.next() << 64) | g.next();
  if (bits < 128) v &= (((unsigned __int128)1) << bits) - 1;
  return (cell)v;
}
static cell pickInt(Rng& g, cell lo, cell hi) {  // boundary-biased value in [lo,hi]
  switch (g.below(8)) {
    case 0: return lo;
    case 1: return hi;
    case 2: return lo <= 0 && 0 <= hi ? 0 : lo;
    case 3: return lo <= -1 && -1 <= hi ? -1 : hi;
    case 4: return lo <= 1 && 1 <= hi ? 1 : lo;
    case 5: return lo + (cell)((unsigned __int128)rnd128(g, 100) % (unsigned __int128)(hi - lo + 1));
    default: {
      cell span = hi - lo + 1;
      cell small = span < 200 ? span : 200;
      cell mid = lo <= 0 && 0 <= hi ? 0 : lo;
      cell v = mid - small / 2 + (cell)g.below((uint64_t)small);
      return v < lo ? lo : (v > hi ? hi : v);
    }
  }
}
// purpose: "any" (pure transport / min / max), "sum", "prod", "xor"
static Cells genElem(Rng& g, const std::string& ty, const std::string& purpose) {
  const cell P53 = ((cell)1) << 53;
  auto intLike = [&](cell lo, cell hi, cell sumB, cell prodB) -> cell {
    if (purpose == "sum") return pickInt(g, -sumB, sumB);
    if (purpose == "prod") return pickInt(g, -prodB, prodB);
    if (purpose == "xor") return pickInt(g, 0, hi);
    return pickInt(g, lo, hi);
  };
  // unsigned / narrow types: [lo,hi] is the full range; sums stay below hi/8 per rank, products below hi for 7 ranks
  auto ranged = [&](cell lo, cell hi, cell prodB) -> cell {
    if (purpose == "sum") return pickInt(g, lo < 0 ? -(hi / 8) : 0, hi / 8);
    if (purpose == "prod") return pickInt(g, lo < 0 ? -prodB : 0, prodB);
    return pickInt(g, lo, hi);
  };
  const cell P24 = ((cell)1) << 24;
  if (ty == "uchar") return {ranged(0, 255, 2)};
  if (ty == "short") return {ranged(-32768, 32767, 4)};
  if (ty == "ushort") return {ranged(0, 65535, 4)};
  if (ty == "uint") return {ranged(0, (cell)UINT_MAX, 20)};
  if (ty == "ulong" && purpose == "half") return {pickInt(g, 0, (cell)LONG_MAX)};
  if (ty == "ulong") return {ranged(0, (cell)(unsigned __int128)ULONG_MAX, 500)};
  if (ty == "llong") return {ranged((cell)LLONG_MIN, (cell)LLONG_MAX, 256)};
  if (ty == "bool") return {(cell)g.below(2)};
  if (ty == "schar") return {ranged(-128, 127, 2)};
  if (ty == "ullong") return {ranged(0, (cell)(unsigned __int128)ULLONG_MAX, 500)};
  if (ty == "float") return {ranged(-P24, P24, 10)};
  if (ty == "ldouble") return {ranged(-P53, P53, 100)};
  if (ty == "cfloat") return {ranged(-P24, P24, 5), ranged(-P24, P24, 5)};
  if (ty == "cldouble") return {ranged(-P53, P53, 11), ranged(-P53, P53, 11)};
  if (ty == "pod") return {pickInt(g, -128, 127), pickInt(g, -P53, P53), pickInt(g, -32768, 32767)};
  if (ty == "fv3" && purpose == "aff") return {(cell)g.below(1009), (cell)g.below(1009), pickInt(g, -(INT_MAX / 8), INT_MAX / 8)};
  if (ty == "int" && purpose == "small") return {(cell)g.range(-9, 99)};
  if (ty == "int" && purpose == "smallnn") return {(cell)g.range(0, 99)};  // xor: operands are non-negative
  if (ty == "int") return {intLike(INT_MIN, INT_MAX, INT_MAX / 8, 6)};
  if (ty == "long") return {intLike(LONG_MIN, LONG_MAX, LONG_MAX / 8, 256)};
  if (ty == "double") return {intLike(-P53, P53, P53 / 16, 100)};
  if (ty == "char") return {pickInt(g, -128, 127)};
  if (ty == "complex") return {intLike(-P53, P53, P53 / 16, 11), intLike(-P53, P53, P53 / 16, 11)};
  if (ty == "fv3") { Cells c; for (int i = 0; i < 3; ++i) c.push_back(intLike(INT_MIN, INT_MAX, INT_MAX / 8, 6)); return c; }
  if (ty == "fv2") { Cells c; for (int i = 0; i < 2; ++i) c.push_back(intLike(INT_MIN, INT_MAX, INT_MAX / 8, 6)); return c; }
  if (ty == "pairis") return {pickInt(g, INT_MIN, INT_MAX), pickInt(g, -32768, 32767)};
  if (ty == "big96") {
    switch (g.below(6)) {
      case 0: return {0};
      case 1: return {(cell)MASK96};
      case 2: return {((cell)1) << (int)g.below(96)};
      case 3: return {(cell)(MASK96 - g.below(3))};
      case 4: return {(cell)g.below(5)};
      default: return {rnd128(g, 96)};
    }
  }
  if (ty == "big40") {
    switch (g.below(5)) {
      case 0: return {0};
      case 1: return {(cell)MASK48};
      case 2: return {((cell)1) << (int)g.below(48)};
      case 3: return {(cell)g.below(5)};
      default: return {rnd128(g, 48)};
    }
  }
  if (ty == "pair") return {pickInt(g, INT_MIN, INT_MAX), pickInt(g, -128, 127)};
  if (ty == "pairlc") return {pickInt(g, (cell)LLONG_MIN, (cell)LLONG_MAX), pickInt(g, -128, 127)};
  if (ty == "ppair") return {pickInt(g, (cell)LLONG_MIN, (cell)LLONG_MAX), pickInt(g, -128, 127), pickInt(g, -32768, 32767)};
  if (ty == "fvp") return {pickInt(g, (cell)LLONG_MIN, (cell)LLONG_MAX), pickInt(g, -128, 127), pickInt(g, (cell)LLONG_MIN, (cell)LLONG_MAX), pickInt(g, -128, 127)};
  auto pli = [&]() -> Cells {
    return {g.coin() ? (cell)g.below(10) : (g.coin() ? (cell)(unsigned __int128)SIZE_MAX : (cell)(unsigned __int128)g.next()),
            pickInt(g, -128, 127), (cell)g.below(2), (cell)g.below(2)};
  };
  if (ty == "pli") return pli();
  if (ty == "ip") { Cells c{pickInt(g, INT_MIN, INT_MAX)}; Cells p = pli(); c.insert(c.end(), p.begin(), p.end()); return c; }
  throw std::runtime_error("genElem: " + ty);
}
static Cells genElems(Rng& g, const std::string& ty, int n, const std::string& purpose = "any") {
  Cells c;
  for (int i = 0; i < n; ++i) { Cells e = genElem(g, ty, purpose); c.insert(c.end(), e.begin(), e.end()); }
  return c;
}
static int genLen(Rng& g) { static const int L[] = {0, 1, 1, 2, 2, 3, 4, 5}; return L[g.below(8)]; }

// long reductions cost the Lean driver about a second each: a budget per run (set from --cases in gen())
static long g_longLeft = -1;

// steps of a history are generated with some choices fixed: element type, reduction functor ("" = free), kind of
// collective ("red", "xfer" = anything but a reduction, "" = free); no long reductions inside histories
struct Force { std::string ty, fn, base; bool kform = false; };
static std::string genColl(Rng& g, int P, const Force* force = nullptr) {
  Case k;
  k.comm = g.below(10) < 6 ? "world" : (g.coin() ? "seq" : "self");
  bool light = g.coin(1, 4);
  // a dedicated stream of reductions with associative, non-commutative user functors on the world communicator
  bool forceNc = !force && P >= 2 && g.below(20) == 0;
  if (forceNc) { light = false; k.comm = "world"; }
  if (force) { light = isLightName(force->ty); if (g.coin(3, 4)) k.comm = "world"; }
  if (light && k.comm == "seq") k.comm = "self";
  bool world = k.comm == "world", seq = k.comm == "seq";
  k.ty = light ? g.pick(LIGHT_TYPES) : g.pick(ELEM_TYPES);
  if (forceNc) k.ty = g.coin() ? "int" : "fv3";
  if (force) k.ty = force->ty;
  bool trueScalar = k.ty != "fv3" && k.ty != "fvp" && k.ty != "fv2";
  bool intr = k.ty == "int" || k.ty == "long" || k.ty == "double" || k.ty == "complex";
  if (light) intr = !(k.ty == "llong" || k.ty == "bool" || k.ty == "schar" || k.ty == "ullong" || k.ty == "pod" || k.ty == "ppair" || k.ty == "fvp" || k.ty == "big40" || k.ty == "fv2" || k.ty == "pairis");
  int np = world ? P : 1;
  k.root = (int)g.below(P);
  k.n = genLen(g);
  k.pad = g.coin(1, 3) ? (int)g.range(1, 2) : 0;
  k.fill = genElem(g, k.ty, "any");
  k.lens.assign(P, 0);
  k.displs.assign(P, 0);
  k.ins.assign(P, {});
  std::vector<std::string> bases = {"red", "red", "red", "red", "bcast", "gather", "gatherv", "gatherv", "scatter", "scatterv", "scatterv", "allgather", "allgatherv", "allgatherv"};
  if (light) bases = {"red", "red", "red", "red", "bcast", "gather", "gatherv", "scatter", "scatterv", "allgather", "allgatherv"};
  if (g.below(60) == 0) bases = {"barrier"};
  if (force && force->base == "xfer") bases.erase(std::remove(bases.begin(), bases.end(), std::string("red")), bases.end());
  std::string base = g.pick(bases);
  if (forceNc || (force && (force->base == "red" || !force->fn.empty()))) base = "red";
  auto funs = funsOf(k.ty);
  if (forceNc) funs = {k.ty == "int" ? "first" : "aff"};
  if (force && !force->fn.empty()) funs = {force->fn};
  if (base == "red" && funs.empty()) base = "gatherv";
  std::string form = "ptr";
  if (base == "red") {
    std::string fn = g.pick(funs);
    std::vector<std::string> forms = {"ip", "io"};
    if (fn == "sum" || fn == "prod" || fn == "min" || fn == "max") { forms.push_back("sc"); forms.push_back("ar"); }
    if (!light && (intr || trueScalar)) { forms.push_back("iio"); forms.push_back("iip"); if (!seq) forms.push_back("rv"); }
    if (light) forms = {"sc", "ip", "io"};
    if (light && (fn == "sum" || fn == "prod" || fn == "min" || fn == "max")) forms.push_back("ar");
    if (light && isGenericFun(fn)) forms = {"ip", "io"};
    // container views: a vector<T> with a generic functor; a FieldVector object reduced entry by entry (functor on int)
    if (!light && isVGeneric(fn)) { forms.push_back("viio"); forms.push_back("viip"); if (!seq) forms.push_back("vrv"); }
    // R4: std::array<T,3> / DynamicVector<T> handed to the MPIData based reductions (intrinsic T, predefined MPI_Op)
    const bool namedFn0 = fn == "sum" || fn == "prod" || fn == "min" || fn == "max";
    if (!light && intr && namedFn0 && g.coin(1, 2)) {
      forms = {"aiio", "aiip", "diio", "diip"};
      if (!seq) { forms.push_back("arv"); forms.push_back("drv"); }
    }
    bool kform = (force && force->kform) || (!force && !forceNc && k.ty == "fv3" && g.coin(1, 4));
    if (kform) {
      if (!isGenericFun(fn)) fn = g.pick(std::vector<std::string>{"sum", "prod", "min", "max"});
      forms = {"kiio", "kiip"};
      if (!seq) forms.push_back("krv");
    }
    form = g.pick(forms);
    bool namedFn = fn == "sum" || fn == "prod" || fn == "min" || fn == "max";
    if (form == "sc" || (!(intr && namedFn) && (form == "iio" || form == "iip" || form == "rv")) || form[0] == 'k') k.n = 1;
    const bool aform = form == "arv" || form == "aiio" || form == "aiip", dform = form == "drv" || form == "diio" || form == "diip";
    if (aform) k.n = 3;
    if (form == "iio" || form == "iip" || form == "rv" || form[0] == 'k' || form[0] == 'v' || aform || dform) k.pad = 0;
    k.op = "red." + fn + "." + form;
    const std::string pf = plainFun(fn);
    std::string purpose = (pf == "sum" || pf == "prod" || pf == "xor" || pf == "aff") ? pf : "any";
    // Open MPI 4.1 evaluates MPI_MIN/MPI_MAX on MPI_UNSIGNED_LONG with a signed comparison (reproduced with a bare
    // MPI_Allreduce, not dune-common's doing): keep those operands below 2^63
    if (k.ty == "ulong" && purpose == "any") purpose = "half";
    // long arrays for user functors (everything that is not a predefined MPI_Op): MPI switches to other reduction
    // algorithms (ring, segmented) beyond ~10 kB, where operand order and bracketing differ from the short case
    bool userOp = !(namedFn && intr);
    if (!force && userOp && world && P >= 2 && (form == "ip" || form == "io") && g_longLeft > 0 && g.coin(1, forceNc ? 3 : 8)) {
      --g_longLeft;
      // just beyond 10 kB per contribution (Open MPI's switch from recursive doubling to the ring algorithm)
      // (MPI counts the bytes of the typemap, not the extent: 5 for pair<int,char>, 9 for pair<long long,char>)
      int bytes = k.ty == "fv3" || k.ty == "big96" ? 12 : (k.ty == "pair" ? 5 : (k.ty == "llong" || k.ty == "ullong" || k.ty == "fv2" ? 8 : (k.ty == "pairlc" ? 9 : (k.ty == "big40" || k.ty == "pairis" ? 6 : 4))));
      k.n = 10400 / bytes + (int)g.range(0, 300);
      if (k.ty == "int" && fn != "sum" && fn != "prod") purpose = fn == "xor" ? "smallnn" : "small";  // short op lines
    }
    // related contributions now and then: all equal, or one rank differs
    Cells common = genElems(g, k.ty, k.n, purpose);
    int modeRel = (int)g.below(4);
    for (int r = 0; r < P; ++r) k.ins[r] = (modeRel == 0 || (modeRel == 1 && r != k.root)) ? common : genElems(g, k.ty, k.n, purpose);
  } else if (base == "barrier") {
    form = g.coin() ? "ptr" : "i";
    k.op = "barrier." + form;
  } else if (base == "bcast") {
    std::vector<std::string> forms = {"ptr", "ptr", "i"};
    if (trueScalar) forms.push_back("isc");
    if (light) forms = {"ptr"};
    form = g.pick(forms);
    if (form == "isc") k.n = 1;
    if (form != "ptr") k.pad = 0;
    k.op = "bcast." + form;
    for (int r = 0; r < P; ++r) k.ins[r] = genElems(g, k.ty, k.n + k.pad);
  } else if (base == "gather" || base == "allgather") {
    std::vector<std::string> forms = {"ptr", "ptr"};
    if (!seq) forms.push_back("i");
    if (trueScalar) forms.push_back("isc");
    if (light) forms = {"ptr"};
    form = g.pick(forms);
    if (form == "isc") k.n = 1;
    k.op = base + "." + form;
    for (int r = 0; r < P; ++r) k.ins[r] = genElems(g, k.ty, k.n);
  } else if (base == "scatter") {
    std::vector<std::string> forms = {"ptr", "ptr"};
    if (!seq) forms.push_back("i");
    if (trueScalar) forms.push_back("isc");
    if (light) forms = {"ptr"};
    form = g.pick(forms);
    if (form == "isc") k.n = 1;
    if (form != "ptr") k.pad = 0;
    k.op = "scatter." + form;
    for (int r = 0; r < P; ++r) {
      if (world) k.ins[r] = r == k.root ? genElems(g, k.ty, k.n * P) : (g.coin() ? Cells{} : genElems(g, k.ty, 1));
      else k.ins[r] = genElems(g, k.ty, k.n);
    }
  } else if (base == "gatherv" || base == "allgatherv") {
    k.op = base + ".ptr";
    k.n = 0;
    for (int r = 0; r < P; ++r) { k.lens[r] = genLen(g); k.ins[r] = genElems(g, k.ty, k.lens[r]); }
    if (world) {
      // layouts: compact prefix sums / prefix sums with gaps / segments in reverse rank order
      int layout = (int)g.below(3), at = 0;
      std::vector<int> order(P);
      for (int r = 0; r < P; ++r) order[r] = layout == 2 ? P - 1 - r : r;
      for (int r : order) { if (layout == 1) at += (int)g.below(3); k.displs[r] = at; at += k.lens[r]; }
      k.m = at + k.pad;
    } else {
      int mx = 0;
      for (int r = 0; r < P; ++r) { k.displs[r] = g.coin() ? 0 : (int)g.range(1, 3); mx = std::max(mx, k.displs[r] + k.lens[r]); }
      k.m = mx + k.pad;
    }
  } else if (base == "scatterv") {
    k.op = "scatterv.ptr";
    k.n = 0;
    for (int r = 0; r < P; ++r) k.lens[r] = genLen(g);
    if (world) {
      int layout = (int)g.below(4), at = 0;  // 3: every rank reads the same segment start (overlapping reads are legal)
      std::vector<int> order(P);
      for (int r = 0; r < P; ++r) order[r] = layout == 2 ? P - 1 - r : r;
      int mx = 0;
      for (int r : order) {
        if (layout == 1) at += (int)g.below(3);
        k.displs[r] = layout == 3 ? (int)g.below(2) : at;
        if (layout != 3) at += k.lens[r];
        mx = std::max(mx, k.displs[r] + k.lens[r]);
      }
      k.m = mx + k.pad;
      for (int r = 0; r < P; ++r) k.ins[r] = r == k.root ? genElems(g, k.ty, k.m) : Cells{};
    } else {
      for (int r = 0; r < P; ++r) {
        k.displs[r] = g.coin() ? 0 : (int)g.range(1, 3);
        k.ins[r] = genElems(g, k.ty, k.displs[r] + k.lens[r] + (int)g.below(2));
      }
      k.m = 0;
    }
  }
  (void)np;
  return caseLine(k);
}

static std::string genP2p(Rng& g, int P) {
  std::vector<std::string> modes = {"isend_recv", "isend_rrecv", "irecv_send"};
  if (P >= 2) { modes.push_back("chain_recv"); modes.push_back("chain_rrecv"); }
  std::string mode = g.pick(modes);
  bool rr = mode == "isend_rrecv" || mode == "chain_rrecv";
  std::string cont = rr ? (g.coin(1, 4) ? "str" : "vec") : g.pick(std::vector<std::string>{"sc", "vec", "vec", "str"});
  std::string ty = cont == "str" ? "char" : g.pick(ELEM_TYPES);
  int shift = (int)g.below(P + 1);
  if ((mode == "chain_recv" || mode == "chain_rrecv") && shift % P == 0) shift = 1;
  std::vector<Cells> srcs(P), dsts(P);
  std::vector<int> len(P);
  for (int r = 0; r < P; ++r) {
    len[r] = cont == "sc" ? 1 : genLen(g);
    if (mode == "irecv_send" && len[r] == 0) len[r] = 1;  // irecv refuses empty receive objects
    srcs[r] = genElems(g, ty, len[r]);
  }
  for (int r = 0; r < P; ++r) {
    int from = ((r - shift) % P + P) % P;
    int dl = rr ? genLen(g) : len[from];
    dsts[r] = genElems(g, ty, dl);
  }
  std::ostringstream os;
  os << "p2p " << mode << " " << cont << " " << ty << " shift=" << shift << " st=" << (g.coin(1, 3) ? 1 : 0) << " :";
  for (int r = 0; r < P; ++r) os << (r ? " | " : " ") << cellsStr(srcs[r]) << "/" << cellsStr(dsts[r]);
  return os.str();
}

static std::string genPack(Rng& g, int P) {
  std::string mode = g.pick(std::vector<std::string>{"local", "local", "tell", "nest", "send", "irecv", "bcast"});
  int nItems = (int)g.below(7);
  std::ostringstream os;
  os << "pack " << mode << " np=" << P << " shift=" << g.below(P + 1) << " extra=" << (g.coin() ? 0 : (int)g.below(40)) << " :";
  for (int i = 0; i < nItems; ++i) {
    std::string kind = g.pick(std::vector<std::string>{"s", "s", "a", "v", "v", "v", "t"});
    std::string ty = kind == "t" ? "char" : g.pick(ELEM_TYPES);
    if (kind == "s" && g.coin(1, 6)) ty = "char";
    else if ((kind == "s" || kind == "v") && g.coin(1, 4)) { ty = g.pick(LIGHT_TYPES); if (kind == "v" && ty == "bool") ty = "schar"; }
    int n = kind == "s" ? 1 : (kind == "a" ? 3 : genLen(g));
    int dn = (kind == "v" || kind == "t") ? genLen(g) : n;
    os << " " << kind << "/" << ty << "/" << cellsStr(genElems(g, ty, n)) << "/" << cellsStr(genElems(g, ty, dn));
  }
  return os.str();
}

static const std::vector<std::string> TMAP_TYPES = {"int", "long", "double", "char", "complex", "fv3", "big96", "pair", "pli", "ip",
                                                    "uchar", "short", "ushort", "uint", "ulong", "float", "ldouble", "cfloat", "cldouble", "llong", "bool", "schar", "ullong", "pod", "pairlc", "ppair", "fvp", "big40", "fv2", "pairis"};
template <class T> static std::vector<T> shuffled(Rng& g, std::vector<T> v) {
  for (size_t i = v.size(); i > 1; --i) std::swap(v[i - 1], v[g.below(i)]);
  return v;
}
// call histories aimed at the per-type singletons:
//   0  one generic functor, 2..4 different element types           (MPI_Op shared between element types?)
//   1  one element type on the user-op path, 2..4 typed functors   (MPI_Op shared between functors of a type?)
//   2  one family of library types (FieldVector<K,n>, bigunsignedint<k>, pair<T1,T2>, byte fallback, index types):
//      typemap decodes and data movement of 2..4 members          (MPI_Datatype shared within a template family?)
//   3  any 2..4 op lines
static std::string genHist(Rng& g, int P) {
  std::vector<std::string> steps;
  int mode = (int)g.below(20);
  mode = mode < 9 ? 0 : (mode < 13 ? 1 : (mode < 17 ? 2 : 3));
  int k = (int)g.range(2, 4);
  if (mode == 0) {
    static const std::vector<std::string> GF = {"gsum", "gsum", "gprod", "gmin", "gmax", "gxor", "left", "left", "right", "right"};
    std::string fn = g.pick(GF);
    auto tys = shuffled(g, typesOfGeneric(fn));
    for (int i = 0; i < k; ++i) { Force f{tys[i % tys.size()], fn, "red"}; steps.push_back(genColl(g, P, &f)); }
    if (g.coin(1, 3)) { Force f{tys[0], fn, "red"}; steps.push_back(genColl(g, P, &f)); }  // and the first type once more
    if (isKGeneric(fn) && g.coin(1, 2)) {  // and a FieldVector<int,3> object reduced entry by entry with the same functor (element type int)
      Force f{"fv3", fn, "red", true};
      steps.insert(steps.begin() + (long)g.below(steps.size() + 1), genColl(g, P, &f));
    }
  } else if (mode == 1) {
    static const std::vector<std::string> UT = {"big96", "big40", "fv3", "pair", "pairlc", "pairis", "llong", "int", "bool", "ullong"};
    std::string ty = g.pick(UT);
    auto funs = funsOf(ty);
    std::sort(funs.begin(), funs.end());
    funs.erase(std::unique(funs.begin(), funs.end()), funs.end());
    funs = shuffled(g, funs);
    for (int i = 0; i < k; ++i) { Force f{ty, funs[i % funs.size()], "red"}; steps.push_back(genColl(g, P, &f)); }
  } else if (mode == 2) {
    static const std::vector<std::vector<std::string>> FAM = {{"fv3", "fv2", "fvp"}, {"big96", "big40"}, {"pair", "pairlc", "ppair", "pairis"},
                                                              {"llong", "pod", "bool", "schar", "ullong"}, {"pli", "ip"}, {"fv3", "fv2", "fvp"}, {"pair", "pairlc", "ppair", "pairis"}};
    auto fam = shuffled(g, g.pick(FAM));
    for (int i = 0; i < k; ++i) {
      const std::string& ty = fam[i % fam.size()];
      if (g.coin(1, 3)) steps.push_back(tmapLine(ty, (int)g.range(1, 4)));
      else { Force f{ty, "", "xfer"}; steps.push_back(genColl(g, P, &f)); }
    }
  } else {
    for (int i = 0; i < k; ++i) {
      int w = (int)g.below(10);
      if (w < 5) steps.push_back(genColl(g, P));
      else if (w < 7) steps.push_back(genP2p(g, P));
      else if (w < 9) steps.push_back(genPack(g, P));
      else steps.push_back(tmapLine(g.pick(TMAP_TYPES), (int)g.range(1, 4)));
    }
  }
  stat("hist_mode_" + std::to_string(mode));
  std::string line = "hist np=" + std::to_string(P) + " : ";
  for (size_t i = 0; i < steps.size(); ++i) line += (i ? ";" : "") + steps[i];
  return line;
}

static std::string gen(Rng& g, long i, const Args& a) {
  int P;
  MPI_Comm_size(MPI_COMM_WORLD, &P);
  const std::vector<std::string>& TM = TMAP_TYPES;
  if (g_longLeft < 0) g_longLeft = 10 + a.cases / 300;
  if (i == 0) {  // the datatypes of all element types, decoded one after the other in this process: as one history (a
                 // failure that depends on the order replays), then one by one
    std::string line = "hist np=" + std::to_string(P) + " : ";
    for (size_t j = 0; j < TM.size(); ++j) line += (j ? ";" : "") + tmapLine(TM[j], 1 + (int)(j % 3));
    return line;
  }
  if (i <= (long)TM.size()) return tmapLine(TM[i - 1], 1 + (int)((i - 1) % 3));
  if (i == (long)TM.size() + 1) return "misc np=" + std::to_string(P);
  int w = (int)g.below(100);
  if (w < 1) return "misc np=" + std::to_string(P);
  if (w < 3) return tmapLine(g.pick(TM), (int)g.range(1, 4));
  if (w < 62) return genColl(g, P);
  if (w < 73) return genP2p(g, P);
  if (w < 88) return genPack(g, P);
  return genHist(g, P);
}

int main(int argc, char** argv) {
  Dune::MPIHelper::instance(argc, argv);
  return runMpi(argc, argv, gen, execTop);
}
