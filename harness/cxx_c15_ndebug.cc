// C15: Pool / PoolAllocator in the compile-time configuration NDEBUG (Pool::free without the range test; the rest of
// the harness is compiled with -UNDEBUG).  The library's names are renamed so that both configurations can live in one
// program; poolallocator.hh includes system headers only, they are included first.
#include <config.h>

#include <numeric>
#include <typeinfo>
#include <iostream>
#include <new>
#include <string>
#include <vector>

#ifndef NDEBUG
#define NDEBUG 1
#endif
#include <cassert>
#define Pool PoolNdebug
#define PoolAllocator PoolAllocatorNdebug
#include <dune/common/poolallocator.hh>

#include "cxx_c15_shared.hh"
#include "cxx_c15_pool.inc"

PoolFactory c15PoolFactoryNdebug(bool isPA, size_t sz, size_t al, size_t S) {
#define C15_X(SZ, AL)                                                                                              \
  if (sz == SZ && al == AL) {                                                                                      \
    if (!isPA && S == 1) return []() -> PoolIface* { return new PoolImpl<Elem<SZ, AL>, 1>; };                      \
    if (!isPA && S == 2 * SZ && S != 1) return []() -> PoolIface* { return new PoolImpl<Elem<SZ, AL>, 2 * SZ>; };  \
    if (!isPA && S == 1000) return []() -> PoolIface* { return new PoolImpl<Elem<SZ, AL>, 1000>; };                \
    if (isPA && S == 1) return []() -> PoolIface* { return new PAImpl<Elem<SZ, AL>, 1>; };                         \
    if (isPA && S == 7) return []() -> PoolIface* { return new PAImpl<Elem<SZ, AL>, 7>; };                         \
    return nullptr;                                                                                                \
  }
  C15_ELEM_TYPES(C15_X)
#undef C15_X
  return nullptr;
}
