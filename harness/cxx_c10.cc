// C10 correspondence harness: Dune::bigunsignedint<k> vs. the Lean model, with a GMP oracle.
#include <config.h>
#include <gmpxx.h>

#include <cstdio>
#include <unistd.h>
#include <csignal>
#include <cstring>
#include <dune/common/typetraits.hh>
#include <dune/common/bigunsignedint.hh>
#include <dune/common/exceptions.hh>
#include <dune/common/hash.hh>
#if HAVE_MPI
#include <mpi.h>
#include <dune/common/parallel/mpitraits.hh>
#endif

#include "hcommon.hh"

using namespace dv;

static unsigned dv_case_timeout = 10;  // seconds per case; a normal case takes microseconds
static char dv_current_case[1024];
extern "C" void dv_on_alarm(int) {
  // async-signal-safe: write(2) and _exit only
  static const char msg[] = "TIMEOUT: the operation did not return (hang / non-termination) in case: ";
  (void)!write(2, msg, sizeof msg - 1);
  (void)!write(2, dv_current_case, std::strlen(dv_current_case));
  (void)!write(2, "\n", 1);
  _exit(124);
}


#if HAVE_MPI
// MPI is started at the first `mpi` case (singleton, no mpirun needed) with the per-case alarm disarmed: start-up time
// depends on the load of the machine and is not the code under test
static void ensureMpi() {
  static bool up = false;
  if (up) return;
  unsigned left = alarm(0);
  int flag = 0;
  MPI_Initialized(&flag);
  if (!flag) { MPI_Init(nullptr, nullptr); std::atexit([] { int f = 0; MPI_Finalized(&f); if (!f) MPI_Finalize(); }); }
  up = true;
  alarm(left ? left : dv_case_timeout);
}
#endif

template <int k>
struct Acc : Dune::Impl::numeric_limits_helper<Dune::bigunsignedint<k>> {
  using Base = Dune::Impl::numeric_limits_helper<Dune::bigunsignedint<k>>;
  static std::uint16_t& d(Dune::bigunsignedint<k>& x, std::size_t i) { return Base::digit(x, i); }
};

template <int k>
Dune::bigunsignedint<k> fromMpz(const mpz_class& v) {
  Dune::bigunsignedint<k> x;
  mpz_class t = v;
  for (int i = 0; i < Dune::bigunsignedint<k>::n; ++i) {
    mpz_class lo = t & 0xFFFF;
    Acc<k>::d(x, i) = (std::uint16_t)lo.get_ui();
    t >>= 16;
  }
  return x;
}
template <int k>
mpz_class toMpz(Dune::bigunsignedint<k> x) {
  mpz_class v = 0;
  for (int i = Dune::bigunsignedint<k>::n - 1; i >= 0; --i) v = (v << 16) + Acc<k>::d(x, i);
  return v;
}
template <int k>
std::string pr(const Dune::bigunsignedint<k>& x) {
  std::ostringstream os;
  os << x;
  return os.str();
}
static std::string hexOf(const mpz_class& v) { return v.get_str(16); }

// fixed-width lower-case hex of a value (4 characters per 16-bit digit): the canonical answer for values
static std::string hexFixed(const mpz_class& v, int n) {
  std::string h = v.get_str(16);
  if ((int)h.size() < 4 * n) h = std::string(4 * n - h.size(), '0') + h;
  return h;
}
// canonical form of a printed number: lower case, no leading zeros, "0" for zero
static std::string canonPrinted(std::string p) {
  for (auto& c : p) c = (char)std::tolower((unsigned char)c);
  size_t i = 0;
  while (i + 1 < p.size() && p[i] == '0') ++i;
  return p.substr(i);
}

// value check: the digits hold the expected value AND the printed form denotes the expected value.
// The canonical answer (compared with the model) is read off the digits, so that the way print() formats
// (leading zeros, case) is compared only where the property speaks about printing, and then canonicalised.
template <int k>
Result valueResult(const Dune::bigunsignedint<k>& r, const mpz_class& expect) {
  Result res;
  mpz_class got = toMpz<k>(r);
  res.impl = hexFixed(got, Dune::bigunsignedint<k>::n);
  if (got != expect) res.oracle = "FAIL value " + hexOf(got) + " expected " + hexOf(expect);
  else {
    std::string p = pr(r);
    mpz_class printed;
    if (p.empty() || printed.set_str(p, 16) != 0 || printed != expect)
      res.oracle = "FAIL printed '" + p + "' does not denote " + hexOf(expect);
  }
  return res;
}

// ---- constructor overloads ------------------------------------------------------------------
template <int k, class T>
Result ctorAs(long long sv, unsigned long long uv, bool isSigned) {
  using Big = Dune::bigunsignedint<k>;
  Result res;
  mpz_class W = mpz_class(1) << (16 * Big::n);
  T y = isSigned ? (T)sv : (T)uv;
  bool negative = isSigned && sv < 0;
  try {
    Big a(y);
    if (negative) { res.impl = hexFixed(toMpz<k>(a), Big::n); res.oracle = "FAIL negative value accepted"; return res; }
    mpz_class e = mpz_class(isSigned ? std::to_string(sv) : std::to_string(uv)) % W;
    return valueResult<k>(a, e);
  } catch (Dune::Exception&) {
    res.impl = "ERR:Negative";
    if (!negative) res.oracle = "FAIL non-negative value rejected";
  }
  return res;
}


// ---- built-in operands of every integral type ---------------------------------------------------
// calls f(y) with y of the built-in type named ty (i8 i16 i32 i64 u8 u16 u32 u64 bool) holding the decimal value sv;
// i64/u64 alternate between long and long long.  false: not a value of that type.
template <class F>
bool withBuiltin(const std::string& ty, const std::string& sv, F&& f) {
  if (sv.empty()) return false;
  bool neg = sv[0] == '-';
  try {
    if (ty[0] == 'i') {
      long long y = std::stoll(sv);
      auto in = [&](long long lo, long long hi) { return y >= lo && y <= hi; };
      if (ty == "i8" && in(-128, 127)) { f((signed char)y); return true; }
      if (ty == "i16" && in(-32768, 32767)) { f((short)y); return true; }
      if (ty == "i32" && in(-2147483648ll, 2147483647ll)) { f((int)y); return true; }
      if (ty == "i64") { if (y & 2) f((long)y); else f((long long)y); return true; }
      return false;
    }
    if (neg) return false;
    unsigned long long u = std::stoull(sv);
    if (ty == "u8" && u <= 0xff) { f((unsigned char)u); return true; }
    if (ty == "u16" && u <= 0xffff) { f((unsigned short)u); return true; }
    if (ty == "u32" && u <= 0xffffffffull) { f((unsigned)u); return true; }
    if (ty == "u64") { if (u & 2) f((unsigned long)u); else f((unsigned long long)u); return true; }
    if (ty == "bool" && u <= 1) { f((bool)u); return true; }
  } catch (std::invalid_argument&) {
  } catch (std::out_of_range&) {
  }
  return false;
}
static bool isCmpName(const std::string& c) { return c == "lt" || c == "le" || c == "gt" || c == "ge" || c == "eq" || c == "ne"; }
static bool cmpMpz(const std::string& c, const mpz_class& u, const mpz_class& v) {
  return c == "lt" ? u < v : c == "le" ? u <= v : c == "gt" ? u > v : c == "ge" ? u >= v : c == "eq" ? u == v : u != v;
}
template <class A, class Bt>
bool cmpReal(const std::string& c, const A& u, const Bt& v) {
  return c == "lt" ? u < v : c == "le" ? u <= v : c == "gt" ? u > v : c == "ge" ? u >= v : c == "eq" ? u == v : u != v;
}
static bool isBinName(const std::string& b, bool arithOnly) {
  if (b == "add" || b == "sub" || b == "mul" || b == "div" || b == "mod") return true;
  return !arithOnly && (b == "and" || b == "or" || b == "xor");
}

// ---- operation histories on two variables -----------------------------------------------------
static const long QUOT_CAP = 2000;  // same rule as Driver/C10.lean: slower divisions are not executed

template <int k>
Result execProg(const std::string& line) {
  using Big = Dune::bigunsignedint<k>;
  constexpr int n = Big::n;
  Result res;
  auto hb = split(line, ':');
  if (hb.size() != 2) { res.impl = "bad-op"; res.oracle = "FAIL malformed program line"; return res; }
  auto head = words(hb[0]);
  if (head.size() != 4) { res.impl = "bad-op"; res.oracle = "FAIL malformed program line"; return res; }
  mpz_class W = mpz_class(1) << (16 * n);
  mpz_class SA, SB;  // GMP shadow of the two variables
  SA.set_str(head[2], 16); SB.set_str(head[3], 16);
  SA %= W; SB %= W;
  Big a = fromMpz<k>(SA), b = fromMpz<k>(SB);
  std::vector<std::string> obs;
  std::string fail;
  auto stmts = split(hb[1], ';');
  stat("prog_len_" + std::to_string(std::min<size_t>(stmts.size(), 16)));
  for (auto& stRaw : stmts) {
    auto w = words(stRaw);
    const std::string st = join(w.begin(), w.end(), " ");
    if (w.size() < 2 || (w[1] != "a" && w[1] != "b")) { res.impl = "bad-op"; res.oracle = "FAIL malformed statement '" + st + "'"; return res; }
    const std::string& op = w[0];
    bool dIsA = w[1] == "a";
    Big& D = dIsA ? a : b;
    mpz_class& SD = dIsA ? SA : SB;
    Big& O = dIsA ? b : a;              // the variable that is not the destination
    const mpz_class SO = dIsA ? SB : SA;
    stat("stmt_" + op);
    mpz_class E;          // expected new value of D
    bool expectErr = false, threw = false;
    bool expectNeg = false, threwNeg = false;   // negative built-in operand: Dune::Exception
    std::string obsText;                        // observation of a statement that does not assign (comparison, touint)
    const mpz_class SD0 = SD;
    const Big* ret = nullptr;
    try {
      if (op == "touint" && w.size() == 2) {
        E = SD;
        unsigned long u = (unsigned long)D.touint();
        obsText = std::to_string(u);
        if (mpz_class(u) != SD % (mpz_class(1) << 32) && fail.empty()) fail = "FAIL '" + st + "' gave " + obsText;
      }
      else if (isCmpName(op) && w.size() == 3 && (w[2] == "a" || w[2] == "b")) {
        E = SD;
        const Big& Y = w[2] == "a" ? a : b;
        const mpz_class SY = w[2] == "a" ? SA : SB;
        if (&Y == &D) stat("stmt_cmp_self");
        bool got = cmpReal(op, const_cast<const Big&>(D), Y);
        obsText = got ? "true" : "false";
        if (got != cmpMpz(op, SD, SY) && fail.empty()) fail = "FAIL comparison '" + st + "' gave " + obsText;
      }
      else if (w.size() == 4 && op.size() == 3 && op[2] == 'b' && isCmpName(op.substr(0, 2))) {
        E = SD;
        const std::string c = op.substr(0, 2);
        mpz_class Y(w[3]);
        expectNeg = Y < 0;
        stat("stmt_cmp_builtin");
        bool okTy = withBuiltin(w[2], w[3], [&](auto y) {
          stat(std::string("builtin_") + w[2]);
          bool got = cmpReal(c, const_cast<const Big&>(D), y);
          obsText = got ? "true" : "false";
          if (!expectNeg && got != cmpMpz(c, SD, mpz_class(Y % W)) && fail.empty()) fail = "FAIL comparison '" + st + "' gave " + obsText;
        });
        if (!okTy) { res.impl = "bad-op"; res.oracle = "FAIL malformed statement '" + st + "'"; return res; }
      }
      else if (w.size() == 4 && op.size() >= 3 && (op[0] == 'm' || op[0] == 'r' || op[0] == 'c') &&
               isBinName(op.substr(1), op[0] != 'c')) {
        const char form = op[0];
        const std::string base = op.substr(1);
        mpz_class Y(w[3]);
        expectNeg = Y < 0;
        mpz_class SS = expectNeg ? mpz_class(0) : mpz_class(Y % W);
        const mpz_class num = form == 'r' ? SS : SD, den = form == 'r' ? SD : SS;
        if (!expectNeg && (base == "div" || base == "mod") && den != 0 && num / den > QUOT_CAP) {
          obs.push_back("SKIP");
          stat("prog_skipped");
          res.impl = join(obs.begin(), obs.end(), ";");
          if (!fail.empty()) res.oracle = fail;
          return res;
        }
        if (expectNeg) { stat("stmt_negative_builtin"); E = SD; }
        else if (base == "add") E = (num + den) % W;
        else if (base == "sub") E = ((num - den) % W + W) % W;
        else if (base == "mul") E = (num * den) % W;
        else if (base == "div") { if (den == 0) expectErr = true; else E = num / den; }
        else if (base == "mod") { if (den == 0) expectErr = true; else E = num % den; }
        else if (base == "and") E = num & den;
        else if (base == "or") E = num | den;
        else E = num ^ den;
        stat(form == 'm' ? "stmt_mixed_bigleft" : form == 'r' ? "stmt_mixed_bigright" : "stmt_compound_builtin");
        bool okTy = withBuiltin(w[2], w[3], [&](auto y) {
          stat(std::string("builtin_") + w[2]);
          if (form == 'm') {
            if (base == "add") D = D + y; else if (base == "sub") D = D - y; else if (base == "mul") D = D * y;
            else if (base == "div") D = D / y; else D = D % y;
          } else if (form == 'r') {
            if (base == "add") D = y + D; else if (base == "sub") D = y - D; else if (base == "mul") D = y * D;
            else if (base == "div") D = y / D; else D = y % D;
          } else {
            if (base == "add") ret = &(D += y); else if (base == "sub") ret = &(D -= y);
            else if (base == "mul") ret = &(D *= y); else if (base == "div") ret = &(D /= y);
            else if (base == "mod") ret = &(D %= y); else if (base == "and") ret = &(D &= y);
            else if (base == "or") ret = &(D |= y); else ret = &(D ^= y);
          }
        });
        if (!okTy) { res.impl = "bad-op"; res.oracle = "FAIL malformed statement '" + st + "'"; return res; }
      }
      else if (op == "incr" && w.size() == 2) { E = (SD + 1) % W; ret = &(++D); }
      else if (op == "not" && w.size() == 2) { E = W - 1 - SD; D = ~D; }
      else if ((op == "shl" || op == "shr") && w.size() == 3) {
        int sh = std::stoi(w[2]);
        if (sh < 0 || sh >= 16 * n) { res.impl = "bad-op"; res.oracle = "ok trivial"; return res; }
        if (op == "shl") { E = (SD << sh) % W; D = D << sh; } else { E = SD >> sh; D = D >> sh; }
      }
      else if (op == "copy" && w.size() == 3 && (w[2] == "a" || w[2] == "b")) {
        const Big& S = w[2] == "a" ? a : b;
        E = w[2] == "a" ? SA : SB;
        ret = &(D = S);
      }
      else if (w.size() == 3) {
        bool builtin = op.size() > 1 && op.back() == 'u';
        std::string base = builtin ? op.substr(0, op.size() - 1) : op;
        mpz_class SS;
        std::uintmax_t y = 0;
        const Big* S = nullptr;
        if (builtin) { y = std::stoull(w[2]); SS = mpz_class(std::to_string(y)) % W; }
        else if (w[2] == "a" || w[2] == "b") { S = w[2] == "a" ? &a : &b; SS = w[2] == "a" ? SA : SB; if (S == &D) { stat("stmt_aliased"); if (base == "div" || base == "mod") stat("stmt_divmod_aliased"); } }
        else { res.impl = "bad-op"; res.oracle = "FAIL malformed statement '" + st + "'"; return res; }
        if ((base == "div" || base == "mod") && SS != 0 && SD / SS > QUOT_CAP) {
          obs.push_back("SKIP");
          stat("prog_skipped");
          res.impl = join(obs.begin(), obs.end(), ";");
          if (!fail.empty()) res.oracle = fail;
          return res;
        }
        if (base == "add") E = (SD + SS) % W;
        else if (base == "sub") E = ((SD - SS) % W + W) % W;
        else if (base == "mul") E = (SD * SS) % W;
        else if (base == "div") { if (SS == 0) expectErr = true; else E = SD / SS; }
        else if (base == "mod") { if (SS == 0) expectErr = true; else E = SD % SS; }
        else if (base == "and") E = SD & SS;
        else if (base == "or") E = SD | SS;
        else if (base == "xor") E = SD ^ SS;
        else { res.impl = "bad-op"; res.oracle = "FAIL unknown statement '" + st + "'"; return res; }
        if (builtin) {
          if (base == "add") D = D + y; else if (base == "sub") D = D - y; else if (base == "mul") D = D * y;
          else if (base == "div") D = D / y; else if (base == "mod") D = D % y;
          else { res.impl = "bad-op"; res.oracle = "FAIL unknown statement '" + st + "'"; return res; }
        } else {
          if (base == "add") ret = &(D += *S); else if (base == "sub") ret = &(D -= *S);
          else if (base == "mul") ret = &(D *= *S); else if (base == "div") ret = &(D /= *S);
          else if (base == "mod") ret = &(D %= *S); else if (base == "and") ret = &(D &= *S);
          else if (base == "or") ret = &(D |= *S); else ret = &(D ^= *S);
        }
      }
      else { res.impl = "bad-op"; res.oracle = "FAIL malformed statement '" + st + "'"; return res; }
    } catch (Dune::MathError&) {
      threw = true;
    } catch (Dune::Exception&) {
      threwNeg = true;
    }
    if (expectErr) stat("stmt_zero_divisor");
    if (threwNeg) {
      obs.push_back("ERR:Negative");
      if (!expectNeg && fail.empty()) fail = "FAIL non-negative built-in operand rejected in '" + st + "'";
      if (toMpz<k>(D) != SD0 && fail.empty()) fail = "FAIL destination changed although '" + st + "' threw";
    } else if (threw) {
      obs.push_back("ERR:Math");
      if (!expectErr && fail.empty()) fail = "FAIL MathError for non-zero divisor in '" + st + "'";
      if (expectNeg && fail.empty()) fail = "FAIL negative built-in operand not rejected in '" + st + "'";
      if (toMpz<k>(D) != SD0 && fail.empty()) fail = "FAIL destination changed although '" + st + "' threw";
    } else {
      mpz_class got = toMpz<k>(D);
      obs.push_back(obsText.empty() ? hexFixed(got, n) : obsText);
      if (fail.empty()) {
        if (expectNeg) fail = "FAIL negative built-in operand not rejected in '" + st + "'";
        else if (expectErr) fail = "FAIL zero divisor not reported in '" + st + "'";
        else if (got != E) fail = "FAIL after '" + st + "': value " + hexOf(got) + " expected " + hexOf(E);
        else if (ret && toMpz<k>(*ret) != E) fail = "FAIL '" + st + "' returned " + hexOf(toMpz<k>(*ret)) + ", not the new value";
      }
      SD = got;  // follow the implementation, so that one wrong step is reported once
    }
    if (toMpz<k>(O) != SO && fail.empty()) fail = "FAIL '" + st + "' modified the other variable";
  }
  res.impl = join(obs.begin(), obs.end(), ";") + " => " + hexFixed(toMpz<k>(a), n) + " " + hexFixed(toMpz<k>(b), n);
  if (!fail.empty()) res.oracle = fail;
  return res;
}

template <int k>
Result execK(const std::vector<std::string>& w) {
  using Big = Dune::bigunsignedint<k>;
  constexpr int n = Big::n;
  const std::string& op = w[1];
  mpz_class W = mpz_class(1) << (16 * n);
  auto bigArg = [&](size_t i) { mpz_class v; v.set_str(w.at(i), 16); return mpz_class(v % W); };
  Result res;
  auto boolRes = [&](bool got, bool expect) {
    res.impl = got ? "true" : "false";
    if (got != expect) res.oracle = std::string("FAIL comparison gave ") + res.impl;
    return res;
  };
  stat("op_" + op);
  stat("k_" + std::to_string(k));

  // mixed operations with built-in integers
  std::string base = op;
  int mixed = 0;  // 1: big OP builtin, 2: builtin OP big
  if (op.size() > 2 && op.substr(op.size() - 2) == "_u") { base = op.substr(0, op.size() - 2); mixed = 1; }
  if (op.size() > 2 && op.substr(0, 2) == "u_") { base = op.substr(2); mixed = 2; }

  if (base == "add" || base == "sub" || base == "mul" || base == "div" || base == "mod") {
    mpz_class A, Bv;
    Big r;
    bool threw = false;
    try {
      if (mixed == 0) {
        A = bigArg(2); Bv = bigArg(3);
        Big a = fromMpz<k>(A), b = fromMpz<k>(Bv);
        const Big a0 = a, b0 = b;
        r = base == "add" ? a + b : base == "sub" ? a - b : base == "mul" ? a * b : base == "div" ? a / b : a % b;
        if (a != a0 || b != b0) res.oracle = "FAIL operand modified";
      } else if (mixed == 1) {
        A = bigArg(2);
        std::uintmax_t y = std::stoull(w.at(3));
        Bv = mpz_class(std::to_string(y)) % W;
        Big a = fromMpz<k>(A);
        const Big a0 = a;
        // the operand is passed as int / unsigned / uintmax_t: all must select the uintmax_t overloads
        if (y < (1ull << 31) && y % 3 == 0) {
          int yi = (int)y; stat("mixed_int");
          r = base == "add" ? a + yi : base == "sub" ? a - yi : base == "mul" ? a * yi : base == "div" ? a / yi : a % yi;
        } else if (y < (1ull << 32) && y % 3 == 1) {
          unsigned yu = (unsigned)y; stat("mixed_unsigned");
          r = base == "add" ? a + yu : base == "sub" ? a - yu : base == "mul" ? a * yu : base == "div" ? a / yu : a % yu;
        } else
          r = base == "add" ? a + y : base == "sub" ? a - y : base == "mul" ? a * y : base == "div" ? a / y : a % y;
        if (a != a0) res.oracle = "FAIL operand modified";
      } else {
        std::uintmax_t y = std::stoull(w.at(2));
        A = mpz_class(std::to_string(y)) % W;
        Bv = bigArg(3);
        Big b = fromMpz<k>(Bv);
        const Big b0 = b;
        if (y < (1ull << 31) && y % 3 == 0) {
          int yi = (int)y; stat("mixed_int");
          r = base == "add" ? yi + b : base == "sub" ? yi - b : base == "mul" ? yi * b : base == "div" ? yi / b : yi % b;
        } else
          r = base == "add" ? y + b : base == "sub" ? y - b : base == "mul" ? y * b : base == "div" ? y / b : y % b;
        if (b != b0) res.oracle = "FAIL operand modified";
      }
    } catch (Dune::MathError&) {
      threw = true;
    }
    if ((base == "div" || base == "mod") && Bv == 0) {
      stat("zero_divisor");
      res.impl = threw ? "ERR:Math" : pr(r);
      if (!threw) res.oracle = "FAIL zero divisor not reported";
      return res;
    }
    if (threw) { res.impl = "ERR:Math"; res.oracle = "FAIL MathError for non-zero divisor"; return res; }
    mpz_class e;
    if (base == "add") e = (A + Bv) % W;
    else if (base == "sub") e = ((A - Bv) % W + W) % W;
    else if (base == "mul") e = (A * Bv) % W;
    else if (base == "div") e = A / Bv;
    else e = A % Bv;
    Result vr = valueResult<k>(r, e);
    if (res.oracle != "ok") vr.oracle = res.oracle;
    return vr;
  }
  if (op == "and" || op == "or" || op == "xor") {
    mpz_class A = bigArg(2), Bv = bigArg(3);
    Big a = fromMpz<k>(A), b = fromMpz<k>(Bv);
    Big r = op == "and" ? a & b : op == "or" ? a | b : a ^ b;
    mpz_class e = op == "and" ? mpz_class(A & Bv) : op == "or" ? mpz_class(A | Bv) : mpz_class(A ^ Bv);
    Result vr = valueResult<k>(r, e);
    if (vr.oracle == "ok" && (toMpz<k>(a) != A || toMpz<k>(b) != Bv)) vr.oracle = "FAIL operand modified";
    return vr;
  }
  if (op == "not") {
    mpz_class A = bigArg(2);
    const Big a = fromMpz<k>(A);
    Result vr = valueResult<k>(~a, W - 1 - A);
    if (vr.oracle == "ok" && toMpz<k>(a) != A) vr.oracle = "FAIL operand modified";
    return vr;
  }
  if (op == "incr") {
    mpz_class A = bigArg(2);
    Big a = fromMpz<k>(A);
    const Big& ret = ++a;
    Result vr = valueResult<k>(a, (A + 1) % W);
    if (vr.oracle == "ok" && toMpz<k>(ret) != (A + 1) % W) vr.oracle = "FAIL ++ does not return the incremented value";
    return vr;
  }
  if (op == "shl" || op == "shr") {
    mpz_class A = bigArg(2);
    int s = std::stoi(w.at(3));
    Big a = fromMpz<k>(A);
    stat(s % 16 == 0 ? "shift_whole_digits" : "shift_with_bits");
    if (s / 16 == n - 1) stat("shift_top_digit");
    Big r = op == "shl" ? a << s : a >> s;
    mpz_class e = op == "shl" ? mpz_class((A << s) % W) : mpz_class(A >> s);
    Result vr = valueResult<k>(r, e);
    if (vr.oracle == "ok" && toMpz<k>(a) != A) vr.oracle = "FAIL operand modified";
    return vr;
  }
  if (op == "lt" || op == "le" || op == "gt" || op == "ge" || op == "eq" || op == "ne") {
    mpz_class A = bigArg(2), Bv = bigArg(3);
    Big a = fromMpz<k>(A), b = fromMpz<k>(Bv);
    if (op == "lt") return boolRes(a < b, A < Bv);
    if (op == "le") return boolRes(a <= b, A <= Bv);
    if (op == "gt") return boolRes(a > b, A > Bv);
    if (op == "ge") return boolRes(a >= b, A >= Bv);
    if (op == "eq") return boolRes(a == b, A == Bv);
    return boolRes(a != b, A != Bv);  // (the comparison operators are const members taking const&)
  }
  if (op == "hasheq") {
    mpz_class A = bigArg(2), Bv = bigArg(3);
    Big a = fromMpz<k>(A), b = fromMpz<k>(Bv);
    bool same = std::hash<Big>()(a) == std::hash<Big>()(b) && hash_value(a) == hash_value(b);
    res.impl = same ? "true" : "false";
    if (A == Bv && !same) res.oracle = "FAIL equal values hash differently";
    if (A != Bv) { res.oracle = "ok trivial"; res.impl = (A == Bv) ? "true" : "false"; }
    return res;
  }
  if (op == "assign") {
    // decimal, may be negative: signed constructor for values fitting long long, else unsigned
    const std::string& s = w.at(2);
    if (s[0] == '-') {
      long long y = std::stoll(s);
      try {
        Big a(y);
        res.impl = pr(a);
        res.oracle = "FAIL negative value accepted";
      } catch (Dune::Exception&) {
        res.impl = "ERR:Negative";
      }
      return res;
    }
    unsigned long long y = std::stoull(s);
    mpz_class e = mpz_class(s) % W;
    if (y <= (unsigned long long)std::numeric_limits<long long>::max() && (y & 1)) {
      Big a((long long)y);  // signed route
      return valueResult<k>(a, e);
    }
    Big a((std::uintmax_t)y);
    return valueResult<k>(a, e);
  }
  if (op == "touint") {
    mpz_class A = bigArg(2);
    Big a = fromMpz<k>(A);
    std::uint_least32_t u = a.touint();
    res.impl = std::to_string((unsigned long)u);
    mpz_class e = A % (mpz_class(1) << 32);
    if (mpz_class((unsigned long)u) != e) res.oracle = "FAIL touint gave " + res.impl + " expected " + e.get_str(10);
    return res;
  }
  if (op == "todouble") {
    mpz_class A = bigArg(2);
    Big a = fromMpz<k>(A);
    double d = a.todouble();
    char buf[400];
    std::snprintf(buf, sizeof buf, "%.0f", d);
    res.impl = buf;
    mpz_class D;
    if (!(d >= 0) || d > 1e300) { res.oracle = "FAIL todouble not finite/non-negative"; return res; }
    mpz_set_d(D.get_mpz_t(), d);
    mpz_class err = abs(D - A);
    if (A == 0 ? D != 0 : (err << 32) >= A) res.oracle = "FAIL todouble " + res.impl + " for " + A.get_str(10) + ": relative error >= 2^-32";
    return res;
  }
  if (op == "print") {
    mpz_class A = bigArg(2);
    const Big a = fromMpz<k>(A);
    Result vr = valueResult<k>(a, A);       // oracle: the printed characters denote the value
    std::ostringstream os;
    a.print(os);                            // the member function; operator<< is used by valueResult
    if (vr.oracle == "ok" && os.str() != pr(a)) vr.oracle = "FAIL print() and operator<< differ";
    vr.impl = canonPrinted(os.str());
    return vr;
  }
  if (op == "printfl") {
    // print()/operator<< into a stream whose format flags are set: the characters must still denote the value, and the
    // stream's flags must be what they were.  (width is not set: padding the first character is the stream's business.)
    unsigned mask = (unsigned)std::stoul(w.at(2));
    mpz_class A = bigArg(3);
    if (mask >= 64) { res.impl = "bad-op"; res.oracle = "ok trivial"; return res; }
    const Big a = fromMpz<k>(A);
    std::ostringstream os;
    if (mask & 1) os << std::showbase;
    if (mask & 2) os << std::uppercase;
    if (mask & 4) os << std::showpos;
    if ((mask >> 3) == 1) os << std::hex; else if ((mask >> 3) == 2) os << std::oct; else if ((mask >> 3) == 3) os.unsetf(std::ios::basefield);
    os.fill('*');
    const auto f0 = os.flags();
    if (mask & 1) a.print(os); else os << a;
    std::string p = os.str();
    if (p.size() > 2 && p[0] == '0' && (p[1] == 'x' || p[1] == 'X')) p = p.substr(2);   // one base prefix is a legitimate form
    res.impl = canonPrinted(p);
    mpz_class printed;
    if (p.empty() || printed.set_str(p, 16) != 0 || printed != A) res.oracle = "FAIL printed '" + os.str() + "' (stream flags " + std::to_string(mask) + ") does not denote " + hexOf(A);
    else if (os.flags() != f0) res.oracle = "FAIL printing changed the stream's format flags";
    else if (os.fill() != '*' || os.width() != 0) res.oracle = "FAIL printing changed the stream's fill/width";
    else if (toMpz<k>(a) != A) res.oracle = "FAIL operand modified";
    return res;
  }
  if (op == "mpi") {
    // MPITraits<bigunsignedint<k>>::getType(): three values are sent through the datatype (MPI_Sendrecv on MPI_COMM_SELF)
    // into a buffer holding other values; every digit of every element must arrive and the extent must be the object size
#if HAVE_MPI
    ensureMpi();
    mpz_class V[3] = {bigArg(2), bigArg(3), bigArg(4)};
    Big src[3], dst[3];
    for (int i = 0; i < 3; ++i) { src[i] = fromMpz<k>(V[i]); dst[i] = fromMpz<k>(mpz_class((W - 1 - V[i]) ^ (W / 3))); }
    MPI_Datatype t = Dune::MPITraits<Big>::getType();
    int sz = 0; MPI_Aint lb = 0, ext = 0;
    MPI_Type_size(t, &sz);
    MPI_Type_get_extent(t, &lb, &ext);
    MPI_Sendrecv(src, 3, t, 0, 10, dst, 3, t, 0, 10, MPI_COMM_SELF, MPI_STATUS_IGNORE);
    std::ostringstream os;
    os << "size=" << sz << " extent=" << (long)ext << " [";
    for (int i = 0; i < 3; ++i) os << (i ? "," : "") << hexFixed(toMpz<k>(dst[i]), n);
    os << "]";
    res.impl = os.str();
    if (sz != 2 * n) res.oracle = "FAIL the MPI datatype carries " + std::to_string(sz) + " bytes, the value has " + std::to_string(2 * n);
    else if ((long)ext != (long)sizeof(Big) || lb != 0) res.oracle = "FAIL extent of the MPI datatype is not sizeof(bigunsignedint<k>)";
    else for (int i = 0; i < 3; ++i)
      if (toMpz<k>(dst[i]) != V[i]) { res.oracle = "FAIL element " + std::to_string(i) + " received as " + hexOf(toMpz<k>(dst[i])) + ", sent " + hexOf(V[i]); break; }
      else if (toMpz<k>(src[i]) != V[i]) { res.oracle = "FAIL send buffer modified"; break; }
#else
    res.impl = "bad-op";
    res.oracle = "FAIL harness built without MPI";
#endif
    return res;
  }
  if (op == "default") {
    Big a;
    return valueResult<k>(a, 0);
  }
  if (op == "limits") {
    using L = std::numeric_limits<Big>;
    std::ostringstream os;
    auto tf = [](bool b) { return b ? "true" : "false"; };
    os << "digits=" << L::digits << " radix=" << L::radix << " signed=" << tf(L::is_signed) << " integer=" << tf(L::is_integer)
       << " exact=" << tf(L::is_exact) << " bounded=" << tf(L::is_bounded) << " modulo=" << tf(L::is_modulo)
       << " specialized=" << tf(L::is_specialized) << " exponents=" << L::min_exponent << "," << L::min_exponent10 << ","
       << L::max_exponent << "," << L::max_exponent10 << " infinity=" << tf(L::has_infinity) << " qnan=" << tf(L::has_quiet_NaN)
       << " snan=" << tf(L::has_signaling_NaN) << " denormloss=" << tf(L::has_denorm_loss) << " iec559=" << tf(L::is_iec559)
       << " traps=" << tf(L::traps) << " tinyness=" << tf(L::tinyness_before);
    res.impl = os.str();
    if (!L::is_specialized || L::digits != 16 * n || L::radix != 2 || L::is_signed || !L::is_integer || !L::is_exact ||
        !L::is_bounded || !L::is_modulo)
      res.oracle = "FAIL numeric_limits data inconsistent with an unsigned modulo-2^" + std::to_string(16 * n) + " integer";
    else if (L::min_exponent || L::min_exponent10 || L::max_exponent || L::max_exponent10 || L::has_infinity ||
             L::has_quiet_NaN || L::has_signaling_NaN || L::has_denorm_loss || L::is_iec559 || L::traps || L::tinyness_before)
      res.oracle = "FAIL numeric_limits describes floating-point features for an integer type";
    else if (toMpz<k>(L::epsilon()) != 0 || toMpz<k>(L::round_error()) != 0 || toMpz<k>(L::infinity()) != 0 ||
             toMpz<k>(L::quiet_NaN()) != 0 || toMpz<k>(L::signaling_NaN()) != 0 || toMpz<k>(L::denorm_min()) != 0)
      res.oracle = "FAIL numeric_limits epsilon/round_error/infinity/NaN/denorm_min not 0 for an integer type";
    else if (!Dune::IsNumber<Big>::value)
      res.oracle = "FAIL IsNumber<bigunsignedint> is false";
    else {
      // max() has exactly `digits` one-bits, lowest() = min() = 0
      Big m = L::max();
      mpz_class M = toMpz<k>(m);
      if (M != (mpz_class(1) << L::digits) - 1) res.oracle = "FAIL max() != 2^digits - 1";
      else if (toMpz<k>(L::min()) != 0) res.oracle = "FAIL min() not zero";
      else if (toMpz<k>(m >> (L::digits - 1)) != 1) res.oracle = "FAIL max() >> (digits-1) != 1";
    }
    return res;
  }
  if (op == "ctor") {
    const std::string& ty = w.at(2);
    const std::string& sv = w.at(3);
    bool neg = sv[0] == '-';
    long long y = neg || ty[0] == 'i' ? std::stoll(sv) : 0;
    unsigned long long u = neg || ty[0] == 'i' ? 0 : std::stoull(sv);
    stat("ctor_" + ty);
    if (neg) stat("ctor_negative");
    auto inRange = [&](long long lo, long long hi) { return y >= lo && y <= hi; };
    if (ty == "i8" && inRange(-128, 127)) return ctorAs<k, signed char>(y, 0, true);
    if (ty == "i16" && inRange(-32768, 32767)) return ctorAs<k, short>(y, 0, true);
    if (ty == "i32" && inRange(-2147483648ll, 2147483647ll)) return ctorAs<k, int>(y, 0, true);
    if (ty == "i64") return (y & 2) ? ctorAs<k, long>(y, 0, true) : ctorAs<k, long long>(y, 0, true);
    if (!neg) {
      if (ty == "u8" && u <= 0xff) return ctorAs<k, unsigned char>(0, u, false);
      if (ty == "u16" && u <= 0xffff) return ctorAs<k, unsigned short>(0, u, false);
      if (ty == "u32" && u <= 0xffffffffull) return ctorAs<k, unsigned>(0, u, false);
      if (ty == "u64") return (u & 2) ? ctorAs<k, unsigned long>(0, u, false) : ctorAs<k, unsigned long long>(0, u, false);
      if (ty == "bool" && u <= 1) return ctorAs<k, bool>(0, u, false);
    }
    res.impl = "bad-op";
    res.oracle = "ok trivial";
    return res;
  }
  if (op == "max") {
    Big m = std::numeric_limits<Big>::max();
    Result r = valueResult<k>(m, W - 1);
    Big z = std::numeric_limits<Big>::min();
    if (toMpz<k>(z) != 0) r.oracle = "FAIL min() not zero";
    Big m1 = m; ++m1;
    if (toMpz<k>(m1) != 0) r.oracle = "FAIL max()+1 does not wrap to zero";
    return r;
  }
  if (op == "digits") {
    res.impl = std::to_string(std::numeric_limits<Big>::digits);
    if (std::numeric_limits<Big>::digits != 16 * n || 16 * n < k || 16 * (n - 1) >= k)
      res.oracle = "FAIL digits/width inconsistent";
    return res;
  }
  res.impl = "bad-op";
  res.oracle = "FAIL harness does not know op " + op;
  return res;
}

static const int KS[] = {8, 16, 24, 32, 48, 64, 65, 100, 128, 256, 1, 17, 129};
static const int NKS = sizeof(KS) / sizeof(KS[0]);

template <int k>
Result execAny(const std::vector<std::string>& w, const std::string& line) {
  if (w[1] == "prog") { stat("op_prog"); stat("k_" + std::to_string(k)); return execProg<k>(line); }
  return execK<k>(w);
}

Result exec(const std::string& line) {
  auto w = words(line);
  if (w.size() < 2) return Result{"bad-op", "FAIL malformed line"};
  int k = std::stoi(w[0]);
  // a case that does not return is killed: for this property a hang on a valid input is a violation
  std::strncpy(dv_current_case, line.c_str(), sizeof dv_current_case - 1);
  std::signal(SIGALRM, dv_on_alarm);
  alarm(dv_case_timeout);
  struct Disarm { ~Disarm() { alarm(0); } } disarm;
  switch (k) {
    case 65: return execAny<65>(w, line);
    case 8: return execAny<8>(w, line);
    case 16: return execAny<16>(w, line);
    case 24: return execAny<24>(w, line);
    case 32: return execAny<32>(w, line);
    case 48: return execAny<48>(w, line);
    case 64: return execAny<64>(w, line);
    case 100: return execAny<100>(w, line);
    case 128: return execAny<128>(w, line);
    case 256: return execAny<256>(w, line);
    case 1: return execAny<1>(w, line);
    case 17: return execAny<17>(w, line);
    case 129: return execAny<129>(w, line);
  }
  return Result{"bad-op", "FAIL width not instantiated"};
}

// ---- generator --------------------------------------------------------------------------------
static const unsigned BOUNDARY[] = {0x0000, 0x0001, 0x7fff, 0x8000, 0xfffe, 0xffff};

mpz_class genVal(Rng& r, int n) {
  mpz_class v = 0;
  int style = (int)r.below(6);
  int used = style == 0 ? (int)r.range(0, n) : n;  // small values too
  for (int i = n - 1; i >= 0; --i) {
    unsigned d;
    if (i >= used) d = 0;
    else if (style <= 3) d = r.coin(3, 4) ? BOUNDARY[r.below(6)] : (unsigned)r.below(65536);
    else d = (unsigned)r.below(65536);
    v = (v << 16) + d;
  }
  return v;
}

std::string gen(Rng& r, long, const Args& a) {
  static const std::vector<std::string> ops = {
      "add", "sub", "mul", "div", "mod", "and", "or", "xor", "not", "incr", "shl", "shr", "lt", "le", "gt", "ge",
      "eq", "ne", "hasheq", "assign", "touint", "todouble", "print", "max", "digits",
      "add_u", "sub_u", "mul_u", "div_u", "mod_u", "u_add", "u_sub", "u_mul", "u_div", "u_mod",
      "add", "sub", "mul", "shl", "shr", "lt", "le", "div", "mod", "todouble",
      "prog", "prog", "prog", "prog", "prog", "prog", "prog", "prog", "prog", "prog", "ctor", "ctor", "ctor", "default", "limits",
      "printfl", "mpi"};
  int k = KS[r.below(NKS)];
  int n = k / 16 + (k % 16 != 0);
  std::string op = r.pick(ops);
  std::ostringstream os;
  os << k << " " << op;
  mpz_class W = mpz_class(1) << (16 * n);
  auto small64 = [&]() -> unsigned long long {
    switch (r.below(5)) {
      case 0: return r.below(4);
      case 1: return r.below(70000);
      case 2: return r.next();
      case 3: return 0xffffffffffffffffull - r.below(3);
      default: return (1ull << r.below(64)) - r.below(2);
    }
  };
  if (op == "prog") {
    // a history of compound statements on two variables; the GMP shadow keeps divisions affordable
    mpz_class A = genVal(r, n), Bv = genVal(r, n);
    if (r.coin(1, 6)) Bv = A;
    if (r.coin(1, 8)) Bv = 0;
    os << " " << hexOf(A) << " " << hexOf(Bv) << " : ";
    int len = (int)r.range(1, a.tier == "thorough" ? 24 : 10);
    static const std::vector<std::string> bins = {"add", "sub", "mul", "div", "mod", "and", "or", "xor",
                                                  "add", "sub", "mul", "div", "mod"};
    // a built-in operand of a random integral type: its type name, its decimal text and its exact value
    auto typed = [&](std::string& ty, std::string& text, mpz_class& Y, bool allowNeg) {
      static const std::vector<std::string> tys = {"i8", "i16", "i32", "i64", "i32", "i64", "u8", "u16", "u32", "u64", "bool"};
      ty = r.pick(tys);
      int bitsT = ty == "bool" ? 1 : std::stoi(ty.substr(1));
      if (ty[0] == 'i') {
        long long lo = bitsT == 64 ? std::numeric_limits<long long>::min() : -(1ll << (bitsT - 1));
        long long hi = bitsT == 64 ? std::numeric_limits<long long>::max() : (1ll << (bitsT - 1)) - 1;
        long long v;
        switch (r.below(8)) {
          case 0: v = hi; break;
          case 1: v = allowNeg ? -1 : 1; break;
          case 2: v = 0; break;
          case 3: v = hi - (long long)r.below(3); break;
          case 4: v = (long long)r.below(70000) % (hi / 2 + 1); break;
          case 5: v = allowNeg ? (r.coin() ? lo : -(long long)r.below(200) - 1) : (long long)r.below(5); break;
          case 6: v = (long long)(r.next() >> 1) % (hi + 1ull ? hi + 1ull : 1ull); if (hi == std::numeric_limits<long long>::max()) v = (long long)(r.next() >> 1); break;
          default: v = (long long)r.below(40);
        }
        if (v < lo) v = lo;
        if (v > hi) v = hi;
        text = std::to_string(v);
      } else {
        unsigned long long hi = bitsT == 64 ? ~0ull : (1ull << bitsT) - 1;
        unsigned long long v;
        switch (r.below(6)) {
          case 0: v = 0; break;
          case 1: v = hi; break;
          case 2: v = hi - r.below(3) % (hi + 1 ? hi + 1 : 1); break;
          case 3: v = r.below(70000); break;
          case 4: v = r.below(40); break;
          default: v = r.next();
        }
        if (hi != ~0ull) v %= (hi + 1);
        text = std::to_string(v);
      }
      Y = mpz_class(text);
    };
    static const std::vector<std::string> cmps = {"lt", "le", "gt", "ge", "eq", "ne"};
    for (int i = 0; i < len; ++i) {
      if (i) os << ";";
      bool dIsA = r.coin();
      mpz_class& D = dIsA ? A : Bv;
      const char* dn = dIsA ? "a" : "b";
      int kind = (int)r.below(31);
      if (kind >= 20) {
        std::string ty, text;
        mpz_class Y;
        if (kind < 26) {                                    // d = d op y, d = y op d, d op= y with a typed built-in y
          const char form = kind < 23 ? (r.coin() ? 'm' : 'r') : 'c';
          static const std::vector<std::string> ab = {"add", "sub", "mul", "div", "mod"};
          static const std::vector<std::string> cb = {"add", "sub", "mul", "div", "mod", "and", "or", "xor"};
          std::string o = form == 'c' ? r.pick(cb) : r.pick(ab);
          typed(ty, text, Y, r.coin(1, 4));
          if ((o == "div" || o == "mod") && r.coin(1, 10) && form != 'r') { text = "0"; Y = 0; if (ty == "bool") ty = "u8"; }
          if (Y >= 0) {
            mpz_class S = Y % W;
            const mpz_class num = form == 'r' ? S : D, den = form == 'r' ? D : S;
            if ((o == "div" || o == "mod") && den != 0 && num / den > 300) o = r.coin() ? "sub" : "mul";
            if (o == "add") D = (num + den) % W; else if (o == "sub") D = ((num - den) % W + W) % W;
            else if (o == "mul") D = (num * den) % W; else if (o == "div") { if (den != 0) D = num / den; }
            else if (o == "mod") { if (den != 0) D = num % den; } else if (o == "and") D = num & den;
            else if (o == "or") D = num | den; else D = num ^ den;
          }
          os << form << o << " " << dn << " " << ty << " " << text;
        } else if (kind < 28) {                             // x CMP y on the variables (one time in four x CMP x)
          bool self = r.coin(1, 4);
          os << r.pick(cmps) << " " << dn << " " << (self ? dn : (dIsA ? "b" : "a"));
        } else if (kind < 30) {                             // x CMP built-in: often the variable's own value +-1
          typed(ty, text, Y, r.coin(1, 5));
          if (r.coin() && D < (mpz_class(1) << 63)) { ty = "i64"; mpz_class v = D + (long)r.below(3) - 1; if (v < 0) v = 0; if (v >= (mpz_class(1) << 63)) ty = "u64"; text = v.get_str(10); }
          else if (r.coin()) {   // the low 64 bits of a wide value (+-1): equal there, different above
            ty = "u64"; mpz_class v = (D + (long)r.below(3) + W - 1) % (mpz_class(1) << 64); text = v.get_str(10);
          }
          os << r.pick(cmps) << "b " << dn << " " << ty << " " << text;
        } else os << "touint " << dn;
        continue;
      }
      if (kind < 11) {                                      // d op= s, one time in four with s == d
        bool alias = r.coin(1, 4);
        bool sIsA = alias ? dIsA : !dIsA;
        if (!alias && r.coin(1, 8)) sIsA = r.coin();
        mpz_class S = sIsA ? A : Bv;
        std::string o = r.pick(bins);
        if ((o == "div" || o == "mod") && S != 0 && D / S > 300) {
          // too slow as it stands: divide the other way round if that is affordable, else subtract
          mpz_class& D2 = sIsA ? A : Bv;
          const mpz_class S2 = dIsA ? A : Bv;
          if (S2 != 0 && D2 / S2 <= 300) {
            if (o == "div") D2 = D2 / S2; else D2 = D2 % S2;
            os << o << " " << (sIsA ? "a" : "b") << " " << dn;
            continue;
          }
          o = "sub";
        }
        os << o << " " << dn << " " << (sIsA ? "a" : "b");
        if (o == "add") D = (D + S) % W; else if (o == "sub") D = ((D - S) % W + W) % W;
        else if (o == "mul") D = (D * S) % W; else if (o == "div") { if (S != 0) D = D / S; }
        else if (o == "mod") { if (S != 0) D = D % S; } else if (o == "and") D = D & S;
        else if (o == "or") D = D | S; else D = D ^ S;
      } else if (kind < 14) {                               // d = d op y with a built-in y
        static const std::vector<std::string> ubins = {"add", "sub", "mul", "div", "mod"};
        std::string o = r.pick(ubins);
        unsigned long long y = small64();
        if ((o == "div" || o == "mod") && r.coin(1, 10)) y = 0;
        mpz_class S = mpz_class(std::to_string(y)) % W;
        if ((o == "div" || o == "mod") && S != 0 && D / S > 300) o = "mul";
        os << o << "u " << dn << " " << y;
        if (o == "add") D = (D + S) % W; else if (o == "sub") D = ((D - S) % W + W) % W;
        else if (o == "mul") D = (D * S) % W; else if (o == "div") { if (S != 0) D = D / S; }
        else { if (S != 0) D = D % S; }
      } else if (kind < 15) { os << "incr " << dn; D = (D + 1) % W; }
      else if (kind < 16) { os << "not " << dn; D = W - 1 - D; }
      else if (kind < 19) {
        int s = (int)r.below(16 * n);
        if (r.coin(1, 3)) s = (int)(16 * r.below(n)) + (int)r.pick(std::vector<int>{0, 1, 15});
        if (s >= 16 * n) s = 16 * n - 1;
        if (r.coin()) { os << "shl " << dn << " " << s; D = (D << s) % W; }
        else { os << "shr " << dn << " " << s; D = D >> s; }
      } else { os << "copy " << dn << " " << (dIsA ? "b" : "a"); D = dIsA ? Bv : A; }
    }
    return os.str();
  }
  if (op == "ctor") {
    static const std::vector<std::string> tys = {"i8", "i16", "i32", "i64", "u8", "u16", "u32", "u64", "bool"};
    std::string ty = r.pick(tys);
    int bitsT = ty == "bool" ? 1 : std::stoi(ty.substr(1));
    os << " " << ty << " ";
    if (ty[0] == 'i') {
      long long lo = bitsT == 64 ? std::numeric_limits<long long>::min() : -(1ll << (bitsT - 1));
      long long hi = bitsT == 64 ? std::numeric_limits<long long>::max() : (1ll << (bitsT - 1)) - 1;
      long long v;
      switch (r.below(8)) {
        case 0: v = lo; break;
        case 1: v = hi; break;
        case 2: v = -1; break;
        case 3: v = 0; break;
        case 4: v = hi - (long long)r.below(3); break;
        case 5: v = (long long)r.below(70000) % (hi / 2 + 1); break;
        default: {
          unsigned long long span = (unsigned long long)hi - (unsigned long long)lo;  // 2^bits - 1
          unsigned long long off = span == ~0ull ? r.next() : r.next() % (span + 1);
          v = (long long)((unsigned long long)lo + off);
        }
      }
      os << v;
    } else {
      unsigned long long hi = bitsT == 64 ? ~0ull : (1ull << bitsT) - 1;
      unsigned long long v;
      switch (r.below(5)) {
        case 0: v = 0; break;
        case 1: v = hi; break;
        case 2: v = hi - r.below(3) % (hi + 1 ? hi + 1 : 1); break;
        case 3: v = r.below(70000); break;
        default: v = r.next();
      }
      if (hi != ~0ull) v %= (hi + 1);
      os << v;
    }
    return os.str();
  }
  bool isDiv = op.find("div") != std::string::npos || op.find("mod") != std::string::npos;
  if (isDiv) {
    // quotient kept small: the real algorithm is O(quotient)
    mpz_class b = genVal(r, n);
    if (r.coin(1, 3)) b = b >> (int)r.below(16 * n);       // smaller divisors
    if (r.coin(1, 12)) b = 0;                              // zero divisor
    bool bBuiltin = op.size() > 2 && op.substr(op.size() - 2) == "_u";
    bool aBuiltin = op.substr(0, 2) == "u_";
    if (bBuiltin) b = mpz_class(std::to_string(small64()));
    if (bBuiltin && r.coin(1, 12)) b = 0;
    mpz_class q = r.below(3) == 0 ? mpz_class(0) : mpz_class((unsigned long)r.below(300));
    mpz_class a = b * q + (b > 0 ? mpz_class(genVal(r, n) % b) : genVal(r, n));
    if (a >= W || aBuiltin) {
      a = a % W;
      if (aBuiltin) a = a % (mpz_class(1) << 64);
      if (b > 0 && a / b > 400) a = a % (b * 300 + 1);
    }
    if (b == 0 && r.coin()) a = 0;
    if (aBuiltin) os << " " << a.get_str(10) << " " << hexOf(b);
    else if (bBuiltin) os << " " << hexOf(a) << " " << b.get_str(10);
    else os << " " << hexOf(a) << " " << hexOf(b);
    return os.str();
  }
  if (op == "add" || op == "sub" || op == "mul" || op == "and" || op == "or" || op == "xor" || op == "lt" ||
      op == "le" || op == "gt" || op == "ge" || op == "eq" || op == "ne" || op == "hasheq") {
    mpz_class a = genVal(r, n), b = genVal(r, n);
    int rel = (int)r.below(8);
    if (rel == 0) b = a;
    else if (rel == 1) b = (a + 1) % W;
    else if (rel == 2) b = (a + W - 1) % W;
    else if (rel == 3) b = a ^ (mpz_class(1) << (int)r.below(16 * n));  // differ in exactly one bit
    else if (rel == 4 && op == "add") b = W - a - (long)r.below(2);       // sum around the wrap
    b = b % W;
    os << " " << hexOf(a) << " " << hexOf(b);
    return os.str();
  }
  if (op.size() > 2 && op.substr(op.size() - 2) == "_u") { os << " " << hexOf(genVal(r, n)) << " " << small64(); return os.str(); }
  if (op.substr(0, 2) == "u_") { os << " " << small64() << " " << hexOf(genVal(r, n)); return os.str(); }
  if (op == "mpi") {
    for (int i = 0; i < 3; ++i) os << " " << hexOf(genVal(r, n));
    return os.str();
  }
  if (op == "printfl") {
    mpz_class a = genVal(r, n);
    if (r.coin(1, 3)) a = a >> (int)r.below(16 * n);
    os << " " << r.below(32) << " " << hexOf(a);
    return os.str();
  }
  if (op == "not" || op == "incr" || op == "touint" || op == "todouble" || op == "print") {
    mpz_class a = genVal(r, n);
    if (op == "incr" && r.coin(1, 4)) a = W - 1 - (long)r.below(2);
    if (op == "todouble" && r.coin(1, 3)) a = a >> (int)r.below(16 * n);
    os << " " << hexOf(a);
    return os.str();
  }
  if (op == "shl" || op == "shr") {
    int s = (int)r.below(16 * n);
    if (r.coin(1, 4)) s = (int)(16 * r.below(n)) + (int)r.pick(std::vector<int>{0, 1, 15});
    if (s >= 16 * n) s = 16 * n - 1;
    os << " " << hexOf(genVal(r, n)) << " " << s;
    return os.str();
  }
  if (op == "assign") {
    if (r.coin(1, 5)) os << " -" << (r.below(3) == 0 ? 1 : (long long)(r.next() >> 1) | 1);
    else os << " " << small64();
    return os.str();
  }
  return os.str();  // max, digits, default, limits
}

int main(int argc, char** argv) { return dv::run(argc, argv, gen, exec); }
