// C10 correspondence harness: Dune::bigunsignedint<k> vs. the Lean model, with a GMP oracle.
#include <config.h>
#include <gmpxx.h>

#include <cstdio>
#include <dune/common/bigunsignedint.hh>
#include <dune/common/exceptions.hh>
#include <dune/common/hash.hh>

#include "hcommon.hh"

using namespace dv;

template <int k>
struct Acc : Dune::Impl::numeric_limits_helper<Dune::bigunsignedint<k>> {
  using Base = Dune::Impl::numeric_limits_helper<Dune::bigunsignedint<k>>;
  static std::uint16_t& d(Dune::bigunsignedint<k>& x, std::size_t i) { return Base::digit(x, i); }
};

template <int k>
Dune::bigunsignedint<k> fromMpz(const mpz_class& v) {
  Dune::bigunsignedint<k> x;
  mpz_class t = v;
  for (int i = 0; i < Dune::bigunsignedint<k>::n; ++i) {
    mpz_class lo = t & 0xFFFF;
    Acc<k>::d(x, i) = (std::uint16_t)lo.get_ui();
    t >>= 16;
  }
  return x;
}
template <int k>
mpz_class toMpz(Dune::bigunsignedint<k> x) {
  mpz_class v = 0;
  for (int i = Dune::bigunsignedint<k>::n - 1; i >= 0; --i) v = (v << 16) + Acc<k>::d(x, i);
  return v;
}
template <int k>
std::string pr(const Dune::bigunsignedint<k>& x) {
  std::ostringstream os;
  os << x;
  return os.str();
}
static std::string hexOf(const mpz_class& v) { return v.get_str(16); }

// value check: printed form parses to the expected value AND the digits hold the expected value
template <int k>
Result valueResult(const Dune::bigunsignedint<k>& r, const mpz_class& expect) {
  Result res;
  res.impl = pr(r);
  mpz_class got = toMpz<k>(r);
  if (got != expect) res.oracle = "FAIL value " + hexOf(got) + " expected " + hexOf(expect);
  else {
    mpz_class printed;
    if (printed.set_str(res.impl, 16) != 0 || printed != expect)
      res.oracle = "FAIL printed '" + res.impl + "' does not denote " + hexOf(expect);
  }
  return res;
}

template <int k>
Result execK(const std::vector<std::string>& w) {
  using Big = Dune::bigunsignedint<k>;
  constexpr int n = Big::n;
  const std::string& op = w[1];
  mpz_class W = mpz_class(1) << (16 * n);
  auto bigArg = [&](size_t i) { mpz_class v; v.set_str(w.at(i), 16); return mpz_class(v % W); };
  Result res;
  auto boolRes = [&](bool got, bool expect) {
    res.impl = got ? "true" : "false";
    if (got != expect) res.oracle = std::string("FAIL comparison gave ") + res.impl;
    return res;
  };
  stat("op_" + op);
  stat("k_" + std::to_string(k));

  // mixed operations with built-in integers
  std::string base = op;
  int mixed = 0;  // 1: big OP builtin, 2: builtin OP big
  if (op.size() > 2 && op.substr(op.size() - 2) == "_u") { base = op.substr(0, op.size() - 2); mixed = 1; }
  if (op.size() > 2 && op.substr(0, 2) == "u_") { base = op.substr(2); mixed = 2; }

  if (base == "add" || base == "sub" || base == "mul" || base == "div" || base == "mod") {
    mpz_class A, Bv;
    Big r;
    bool threw = false;
    try {
      if (mixed == 0) {
        A = bigArg(2); Bv = bigArg(3);
        Big a = fromMpz<k>(A), b = fromMpz<k>(Bv);
        const Big a0 = a, b0 = b;
        r = base == "add" ? a + b : base == "sub" ? a - b : base == "mul" ? a * b : base == "div" ? a / b : a % b;
        if (a != a0 || b != b0) res.oracle = "FAIL operand modified";
      } else if (mixed == 1) {
        A = bigArg(2);
        std::uintmax_t y = std::stoull(w.at(3));
        Bv = mpz_class(std::to_string(y)) % W;
        Big a = fromMpz<k>(A);
        r = base == "add" ? a + y : base == "sub" ? a - y : base == "mul" ? a * y : base == "div" ? a / y : a % y;
      } else {
        std::uintmax_t y = std::stoull(w.at(2));
        A = mpz_class(std::to_string(y)) % W;
        Bv = bigArg(3);
        Big b = fromMpz<k>(Bv);
        r = base == "add" ? y + b : base == "sub" ? y - b : base == "mul" ? y * b : base == "div" ? y / b : y % b;
      }
    } catch (Dune::MathError&) {
      threw = true;
    }
    if ((base == "div" || base == "mod") && Bv == 0) {
      res.impl = threw ? "ERR:Math" : pr(r);
      if (!threw) res.oracle = "FAIL zero divisor not reported";
      return res;
    }
    if (threw) { res.impl = "ERR:Math"; res.oracle = "FAIL MathError for non-zero divisor"; return res; }
    mpz_class e;
    if (base == "add") e = (A + Bv) % W;
    else if (base == "sub") e = ((A - Bv) % W + W) % W;
    else if (base == "mul") e = (A * Bv) % W;
    else if (base == "div") e = A / Bv;
    else e = A % Bv;
    Result vr = valueResult<k>(r, e);
    if (res.oracle != "ok") vr.oracle = res.oracle;
    return vr;
  }
  if (op == "and" || op == "or" || op == "xor") {
    mpz_class A = bigArg(2), Bv = bigArg(3);
    Big a = fromMpz<k>(A), b = fromMpz<k>(Bv);
    Big r = op == "and" ? a & b : op == "or" ? a | b : a ^ b;
    mpz_class e = op == "and" ? mpz_class(A & Bv) : op == "or" ? mpz_class(A | Bv) : mpz_class(A ^ Bv);
    return valueResult<k>(r, e);
  }
  if (op == "not") {
    mpz_class A = bigArg(2);
    return valueResult<k>(~fromMpz<k>(A), W - 1 - A);
  }
  if (op == "incr") {
    mpz_class A = bigArg(2);
    Big a = fromMpz<k>(A);
    ++a;
    return valueResult<k>(a, (A + 1) % W);
  }
  if (op == "shl" || op == "shr") {
    mpz_class A = bigArg(2);
    int s = std::stoi(w.at(3));
    Big a = fromMpz<k>(A);
    Big r = op == "shl" ? a << s : a >> s;
    mpz_class e = op == "shl" ? mpz_class((A << s) % W) : mpz_class(A >> s);
    return valueResult<k>(r, e);
  }
  if (op == "lt" || op == "le" || op == "gt" || op == "ge" || op == "eq" || op == "ne") {
    mpz_class A = bigArg(2), Bv = bigArg(3);
    Big a = fromMpz<k>(A), b = fromMpz<k>(Bv);
    if (op == "lt") return boolRes(a < b, A < Bv);
    if (op == "le") return boolRes(a <= b, A <= Bv);
    if (op == "gt") return boolRes(a > b, A > Bv);
    if (op == "ge") return boolRes(a >= b, A >= Bv);
    if (op == "eq") return boolRes(a == b, A == Bv);
    return boolRes(a != b, A != Bv);
  }
  if (op == "hasheq") {
    mpz_class A = bigArg(2), Bv = bigArg(3);
    Big a = fromMpz<k>(A), b = fromMpz<k>(Bv);
    bool same = std::hash<Big>()(a) == std::hash<Big>()(b) && hash_value(a) == hash_value(b);
    res.impl = same ? "true" : "false";
    if (A == Bv && !same) res.oracle = "FAIL equal values hash differently";
    if (A != Bv) { res.oracle = "ok trivial"; res.impl = (A == Bv) ? "true" : "false"; }
    return res;
  }
  if (op == "assign") {
    // decimal, may be negative: signed constructor for values fitting long long, else unsigned
    const std::string& s = w.at(2);
    if (s[0] == '-') {
      long long y = std::stoll(s);
      try {
        Big a(y);
        res.impl = pr(a);
        res.oracle = "FAIL negative value accepted";
      } catch (Dune::Exception&) {
        res.impl = "ERR:Negative";
      }
      return res;
    }
    unsigned long long y = std::stoull(s);
    mpz_class e = mpz_class(s) % W;
    if (y <= (unsigned long long)std::numeric_limits<long long>::max() && (y & 1)) {
      Big a((long long)y);  // signed route
      return valueResult<k>(a, e);
    }
    Big a((std::uintmax_t)y);
    return valueResult<k>(a, e);
  }
  if (op == "touint") {
    mpz_class A = bigArg(2);
    Big a = fromMpz<k>(A);
    std::uint_least32_t u = a.touint();
    res.impl = std::to_string((unsigned long)u);
    mpz_class e = A % (mpz_class(1) << 32);
    if (mpz_class((unsigned long)u) != e) res.oracle = "FAIL touint gave " + res.impl + " expected " + e.get_str(10);
    return res;
  }
  if (op == "todouble") {
    mpz_class A = bigArg(2);
    Big a = fromMpz<k>(A);
    double d = a.todouble();
    char buf[400];
    std::snprintf(buf, sizeof buf, "%.0f", d);
    res.impl = buf;
    mpz_class D;
    if (!(d >= 0) || d > 1e300) { res.oracle = "FAIL todouble not finite/non-negative"; return res; }
    mpz_set_d(D.get_mpz_t(), d);
    mpz_class err = abs(D - A);
    if (A == 0 ? D != 0 : (err << 32) >= A) res.oracle = "FAIL todouble " + res.impl + " for " + A.get_str(10) + ": relative error >= 2^-32";
    return res;
  }
  if (op == "print") {
    mpz_class A = bigArg(2);
    return valueResult<k>(fromMpz<k>(A), A);
  }
  if (op == "max") {
    Big m = std::numeric_limits<Big>::max();
    Result r = valueResult<k>(m, W - 1);
    Big z = std::numeric_limits<Big>::min();
    if (toMpz<k>(z) != 0) r.oracle = "FAIL min() not zero";
    Big m1 = m; ++m1;
    if (toMpz<k>(m1) != 0) r.oracle = "FAIL max()+1 does not wrap to zero";
    return r;
  }
  if (op == "digits") {
    res.impl = std::to_string(std::numeric_limits<Big>::digits);
    if (std::numeric_limits<Big>::digits != 16 * n || 16 * n < k || 16 * (n - 1) >= k)
      res.oracle = "FAIL digits/width inconsistent";
    return res;
  }
  res.impl = "bad-op";
  res.oracle = "FAIL harness does not know op " + op;
  return res;
}

static const int KS[] = {8, 16, 24, 32, 48, 64, 100, 128, 256};

Result exec(const std::string& line) {
  auto w = words(line);
  if (w.size() < 2) return Result{"bad-op", "FAIL malformed line"};
  int k = std::stoi(w[0]);
  switch (k) {
    case 8: return execK<8>(w);
    case 16: return execK<16>(w);
    case 24: return execK<24>(w);
    case 32: return execK<32>(w);
    case 48: return execK<48>(w);
    case 64: return execK<64>(w);
    case 100: return execK<100>(w);
    case 128: return execK<128>(w);
    case 256: return execK<256>(w);
  }
  return Result{"bad-op", "FAIL width not instantiated"};
}

// ---- generator --------------------------------------------------------------------------------
static const unsigned BOUNDARY[] = {0x0000, 0x0001, 0x7fff, 0x8000, 0xfffe, 0xffff};

mpz_class genVal(Rng& r, int n) {
  mpz_class v = 0;
  int style = (int)r.below(6);
  int used = style == 0 ? (int)r.range(0, n) : n;  // small values too
  for (int i = n - 1; i >= 0; --i) {
    unsigned d;
    if (i >= used) d = 0;
    else if (style <= 3) d = r.coin(3, 4) ? BOUNDARY[r.below(6)] : (unsigned)r.below(65536);
    else d = (unsigned)r.below(65536);
    v = (v << 16) + d;
  }
  return v;
}

std::string gen(Rng& r, long, const Args&) {
  static const std::vector<std::string> ops = {
      "add", "sub", "mul", "div", "mod", "and", "or", "xor", "not", "incr", "shl", "shr", "lt", "le", "gt", "ge",
      "eq", "ne", "hasheq", "assign", "touint", "todouble", "print", "max", "digits",
      "add_u", "sub_u", "mul_u", "div_u", "mod_u", "u_add", "u_sub", "u_mul", "u_div", "u_mod",
      "add", "sub", "mul", "shl", "shr", "lt", "le", "div", "mod", "todouble"};
  int k = KS[r.below(9)];
  int n = k / 16 + (k % 16 != 0);
  std::string op = r.pick(ops);
  std::ostringstream os;
  os << k << " " << op;
  mpz_class W = mpz_class(1) << (16 * n);
  auto small64 = [&]() -> unsigned long long {
    switch (r.below(5)) {
      case 0: return r.below(4);
      case 1: return r.below(70000);
      case 2: return r.next();
      case 3: return 0xffffffffffffffffull - r.below(3);
      default: return (1ull << r.below(64)) - r.below(2);
    }
  };
  bool isDiv = op.find("div") != std::string::npos || op.find("mod") != std::string::npos;
  if (isDiv) {
    // quotient kept small: the real algorithm is O(quotient)
    mpz_class b = genVal(r, n);
    if (r.coin(1, 3)) b = b >> (int)r.below(16 * n);       // smaller divisors
    if (r.coin(1, 12)) b = 0;                              // zero divisor
    bool bBuiltin = op.size() > 2 && op.substr(op.size() - 2) == "_u";
    bool aBuiltin = op.substr(0, 2) == "u_";
    if (bBuiltin) b = mpz_class(std::to_string(small64()));
    if (bBuiltin && r.coin(1, 12)) b = 0;
    mpz_class q = r.below(3) == 0 ? mpz_class(0) : mpz_class((unsigned long)r.below(300));
    mpz_class a = b * q + (b > 0 ? mpz_class(genVal(r, n) % b) : genVal(r, n));
    if (a >= W || aBuiltin) {
      a = a % W;
      if (aBuiltin) a = a % (mpz_class(1) << 64);
      if (b > 0 && a / b > 400) a = a % (b * 300 + 1);
    }
    if (b == 0 && r.coin()) a = 0;
    if (aBuiltin) os << " " << a.get_str(10) << " " << hexOf(b);
    else if (bBuiltin) os << " " << hexOf(a) << " " << b.get_str(10);
    else os << " " << hexOf(a) << " " << hexOf(b);
    return os.str();
  }
  if (op == "add" || op == "sub" || op == "mul" || op == "and" || op == "or" || op == "xor" || op == "lt" ||
      op == "le" || op == "gt" || op == "ge" || op == "eq" || op == "ne" || op == "hasheq") {
    mpz_class a = genVal(r, n), b = genVal(r, n);
    int rel = (int)r.below(8);
    if (rel == 0) b = a;
    else if (rel == 1) b = (a + 1) % W;
    else if (rel == 2) b = (a + W - 1) % W;
    else if (rel == 3) b = a ^ (mpz_class(1) << (int)r.below(16 * n));  // differ in exactly one bit
    else if (rel == 4 && op == "add") b = W - a - (long)r.below(2);       // sum around the wrap
    b = b % W;
    os << " " << hexOf(a) << " " << hexOf(b);
    return os.str();
  }
  if (op.size() > 2 && op.substr(op.size() - 2) == "_u") { os << " " << hexOf(genVal(r, n)) << " " << small64(); return os.str(); }
  if (op.substr(0, 2) == "u_") { os << " " << small64() << " " << hexOf(genVal(r, n)); return os.str(); }
  if (op == "not" || op == "incr" || op == "touint" || op == "todouble" || op == "print") {
    mpz_class a = genVal(r, n);
    if (op == "incr" && r.coin(1, 4)) a = W - 1 - (long)r.below(2);
    if (op == "todouble" && r.coin(1, 3)) a = a >> (int)r.below(16 * n);
    os << " " << hexOf(a);
    return os.str();
  }
  if (op == "shl" || op == "shr") {
    int s = (int)r.below(16 * n);
    if (r.coin(1, 4)) s = (int)(16 * r.below(n)) + (int)r.pick(std::vector<int>{0, 1, 15});
    if (s >= 16 * n) s = 16 * n - 1;
    os << " " << hexOf(genVal(r, n)) << " " << s;
    return os.str();
  }
  if (op == "assign") {
    if (r.coin(1, 5)) os << " -" << (r.below(3) == 0 ? 1 : (long long)(r.next() >> 1) | 1);
    else os << " " << small64();
    return os.str();
  }
  return os.str();  // max, digits
}

int main(int argc, char** argv) { return dv::run(argc, argv, gen, exec); }
