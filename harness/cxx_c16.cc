// C16 correspondence harness: iterator facades, ranges and hybrid helpers of dune-common
// against the Lean model (lean/DuneVerif/Model/C16.lean), with an oracle that evaluates the
// iterator laws on plain integer positions.
//
// op lines
//   it <kind> <vals> <op> <p> [<n|q>] <cv>     iterator expression on an iterator of <kind> over a container
//                                               holding <vals>; positions are distances from begin()
//   rg <kind> <spec...> <op> [args]             whole-range observations (enumeration, size, ...)
//   hy <ckind> <vals> <op> [args]               hybrid helper on a compile-time container and on its run-time twin
#include <config.h>

#include <array>
#include <forward_list>
#include <functional>
#include <memory>
#include <algorithm>
#include <limits>
#include <list>
#include <tuple>
#include <utility>
#include <vector>

#include <dune/common/arraylist.hh>
#include <dune/common/diagonalmatrix.hh>
#include <dune/common/dynmatrix.hh>
#include <dune/common/dynvector.hh>
#include <dune/common/fmatrix.hh>
#include <dune/common/fvector.hh>
#include <dune/common/genericiterator.hh>
#include <dune/common/hybridutilities.hh>
#include <dune/common/indexediterator.hh>
#include <dune/common/indices.hh>
#include <dune/common/integersequence.hh>
#include <dune/common/iteratorfacades.hh>
#include <dune/common/iteratorrange.hh>
#include <dune/common/rangeutilities.hh>
#include <dune/common/sllist.hh>
#include <dune/common/tuplevector.hh>

#include "hcommon.hh"

using namespace dv;
using Vals = std::vector<long>;

static const long NOPOS = -1000000;

// ------------------------------------------------------------------------------------------------
// kind adapters: build the container from the values, hand out mutable/const begin iterators
// ------------------------------------------------------------------------------------------------
// cat: 0 forward, 1 bidirectional, 2 random access
struct KindBase {
  static constexpr bool beforeBegin = false;  // container offers beforeBegin()
  static constexpr bool mixedRel = true;      // <,<=,>,>=,- between mutable and const iterators compile
  static constexpr bool nplus = false;        // n + it offered
  static constexpr bool hasIndex = false;     // it.index() offered
  static constexpr bool showIdx = false;      // positions are printed as p#index
  static constexpr bool keepsType = true;     // it+n / it-n return the same iterator type
  static constexpr bool hasConv = false;      // the mutable iterator converts to the const iterator
  static constexpr bool hasBeforeEnd = false; // container offers beforeEnd()
  static constexpr bool hasFind = false;      // container offers find(i)
  static constexpr bool arrowOk = true;       // it.operator->() can be instantiated
  long idxStart = 0;
};

template <class V>
struct DenseVecKind : KindBase {
  static constexpr int cat = 2;
  static constexpr bool beforeBegin = true;
  static constexpr bool hasIndex = true;
  static constexpr bool hasConv = true;
  static constexpr bool hasBeforeEnd = true;
  static constexpr bool hasFind = true;
  V v;
  Vals vals;
  explicit DenseVecKind(const Vals& x) : v(mk(x)), vals(x) {}
  auto mbeforeEnd() { return v.beforeEnd(); }
  auto cbeforeEnd() { return std::as_const(v).beforeEnd(); }
  auto mfind(long i) { return v.find((std::size_t)i); }
  auto cfind(long i) { return std::as_const(v).find((std::size_t)i); }
  static V mk(const Vals& x) {
    if constexpr (std::is_constructible_v<V, std::size_t>&& !std::is_convertible_v<std::size_t, V>) {
      V r(x.size());
      for (std::size_t i = 0; i < x.size(); ++i) r[i] = x[i];
      return r;
    } else {
      V r;
      for (std::size_t i = 0; i < x.size(); ++i) r[i] = x[i];
      return r;
    }
  }
  auto mbegin() { return v.begin(); }
  auto mend() { return v.end(); }
  auto cbegin() { return std::as_const(v).begin(); }
  auto cend() { return std::as_const(v).end(); }
  auto mbefore() { return v.beforeBegin(); }
  auto cbefore() { return std::as_const(v).beforeBegin(); }
  template <class R> static long val(const R& r) { return r; }
  template <class R> std::string chk(const R&, long) { return ""; }
  long expect(long i) const { return vals[i]; }
};

template <class M>
struct DenseMatKind : KindBase {
  static constexpr int cat = 2;
  static constexpr bool beforeBegin = true;
  static constexpr bool hasIndex = true;
  static constexpr bool hasConv = true;
  static constexpr bool hasBeforeEnd = true;
  M m;
  Vals vals;
  explicit DenseMatKind(const Vals& x) : m(mk(x)), vals(x) {}
  auto mbeforeEnd() { return m.beforeEnd(); }
  auto cbeforeEnd() { return std::as_const(m).beforeEnd(); }
  static M mk(const Vals& x) {
    if constexpr (std::is_constructible_v<M, int, int>) {
      M r(x.size(), 2);
      for (std::size_t i = 0; i < x.size(); ++i) { r[i][0] = x[i]; r[i][1] = -x[i]; }
      return r;
    } else {
      M r;
      for (std::size_t i = 0; i < x.size(); ++i) { r[i][0] = x[i]; r[i][1] = -x[i]; }
      return r;
    }
  }
  auto mbegin() { return m.begin(); }
  auto mend() { return m.end(); }
  auto cbegin() { return std::as_const(m).begin(); }
  auto cend() { return std::as_const(m).end(); }
  auto mbefore() { return m.beforeBegin(); }
  auto cbefore() { return std::as_const(m).beforeBegin(); }
  template <class R> static long val(const R& r) { return r[0]; }
  template <class R> std::string chk(const R& r, long i) {
    return (r[1] == -vals[i] && r.size() == 2) ? "" : "row reference does not denote row " + std::to_string(i);
  }
  long expect(long i) const { return vals[i]; }
};

template <int N>
struct DiagKind : KindBase {  // row iterator of DiagonalMatrix (BidirectionalIteratorFacade)
  static constexpr int cat = 1;
  static constexpr bool beforeBegin = true;
  static constexpr bool hasIndex = true;
  static constexpr bool hasConv = true;
  static constexpr bool hasBeforeEnd = true;
  static constexpr bool arrowOk = false;  // the row reference is a proxy object; operator-> would take the address of a temporary
  Dune::DiagonalMatrix<long, N> d;
  Vals vals;
  auto mbeforeEnd() { return d.beforeEnd(); }
  auto cbeforeEnd() { return std::as_const(d).beforeEnd(); }
  explicit DiagKind(const Vals& x) : vals(x) {
    for (int i = 0; i < N; ++i) d.diagonal(i) = x[i];
  }
  auto mbegin() { return d.begin(); }
  auto mend() { return d.end(); }
  auto cbegin() { return std::as_const(d).begin(); }
  auto cend() { return std::as_const(d).end(); }
  auto mbefore() { return d.beforeBegin(); }
  auto cbefore() { return std::as_const(d).beforeBegin(); }
  template <class R> static long val(const R& r) { return r.diagonal(); }
  template <class R> std::string chk(const R& r, long i) {
    return ((long)r.rowIndex() == i) ? "" : "row reference has rowIndex " + std::to_string(r.rowIndex());
  }
  long expect(long i) const { return vals[i]; }
};

template <int N, bool PURGE = false>
struct ArrayListKind : KindBase {
  static constexpr int cat = 2;
  static constexpr bool mixedRel = false;
  static constexpr bool hasConv = true;
  Dune::ArrayList<long, N> l;
  Vals vals;
  ArrayListKind(const Vals& x, long erased) : vals(x) {
    for (long i = 0; i < erased; ++i) l.push_back(-77 - i);
    for (long y : x) l.push_back(y);
    if (erased > 0) {
      auto it = l.begin();
      it += erased - 1;
      it.eraseToHere();
    }
    if (PURGE) l.purge();  // moves the chunks to the front and rebases start_: iterators made afterwards must agree
  }
  auto mbegin() { return l.begin(); }
  auto mend() { return l.end(); }
  auto cbegin() { return std::as_const(l).begin(); }
  auto cend() { return std::as_const(l).end(); }
  auto mbefore() { return l.begin(); }
  auto cbefore() { return std::as_const(l).begin(); }
  template <class R> static long val(const R& r) { return r; }
  template <class R> std::string chk(const R&, long) { return ""; }
  long expect(long i) const { return vals[i]; }
};

// MODE 0: iterator / const_iterator, 1: ModifyIterator / const_iterator, 2: ModifyIterator / iterator
template <int MODE>
struct SLListKind : KindBase {
  static constexpr int cat = 0;
  static constexpr bool hasConv = true;
  Dune::SLList<long> l;
  Vals vals;
  explicit SLListKind(const Vals& x) : vals(x) {
    for (long y : x) l.push_back(y);
  }
  auto mbegin() {
    if constexpr (MODE >= 1) return l.beginModify();
    else return l.begin();
  }
  auto mend() {
    if constexpr (MODE >= 1) return l.endModify();
    else return l.end();
  }
  auto cbegin() {
    if constexpr (MODE == 2) return l.begin();
    else return std::as_const(l).begin();
  }
  auto cend() {
    if constexpr (MODE == 2) return l.end();
    else return std::as_const(l).end();
  }
  auto mbefore() { return mbegin(); }
  auto cbefore() { return cbegin(); }
  template <class R> static long val(const R& r) { return r; }
  template <class R> std::string chk(const R&, long) { return ""; }
  long expect(long i) const { return vals[i]; }
};

// GenericIterator over a minimal container, with each of the three legacy facades
template <template <class, class, class, class> class Facade>
struct GCont {
  Vals* d;
  typedef Dune::GenericIterator<GCont, long, long&, std::ptrdiff_t, Facade> iterator;
  typedef Dune::GenericIterator<const GCont, const long, const long&, std::ptrdiff_t, Facade> const_iterator;
  long& operator[](std::ptrdiff_t i) { return (*d)[i]; }
  const long& operator[](std::ptrdiff_t i) const { return (*d)[i]; }
};
template <template <class, class, class, class> class Facade, int CAT>
struct GenericKind : KindBase {
  static constexpr int cat = CAT;
  static constexpr bool hasConv = true;
  static constexpr bool beforeBegin = true;  // positions are plain ptrdiff_t, (cont,-1) is constructible
  Vals vals;
  GCont<Facade> c;
  explicit GenericKind(const Vals& x) : vals(x), c{&vals} {}
  using MI = typename GCont<Facade>::iterator;
  using CI = typename GCont<Facade>::const_iterator;
  MI mbegin() { return MI(c, 0); }
  MI mend() { return MI(c, (std::ptrdiff_t)vals.size()); }
  CI cbegin() { return CI(std::as_const(c), 0); }
  CI cend() { return CI(std::as_const(c), (std::ptrdiff_t)vals.size()); }
  MI mbefore() { return MI(c, -1); }
  CI cbefore() { return CI(std::as_const(c), -1); }
  template <class R> static long val(const R& r) { return r; }
  template <class R> std::string chk(const R&, long) { return ""; }
  long expect(long i) const { return vals[i]; }
};

// an iterator pair with a ONE-WAY conversion (mutable -> const only) that implements equals/distanceTo for
// both operand types: the only way to reach the `else` (not is_convertible<T2,T1>) branches of the
// relational operators of the legacy facades at run time
template <bool isConst, template <class, class, class, class> class Facade>
class OWIt : public Facade<OWIt<isConst, Facade>, std::conditional_t<isConst, const long, long>,
                           std::conditional_t<isConst, const long&, long&>, std::ptrdiff_t> {
  friend class OWIt<!isConst, Facade>;
  Vals* c_ = nullptr;
  std::ptrdiff_t p_ = 0;

 public:
  using R = std::conditional_t<isConst, const long&, long&>;
  OWIt() {}
  OWIt(Vals& c, std::ptrdiff_t p) : c_(&c), p_(p) {}
  template <bool o, std::enable_if_t<(isConst && !o), int> = 0>
  OWIt(const OWIt<o, Facade>& other) : c_(other.c_), p_(other.p_) {}
  bool equals(const OWIt<true, Facade>& o) const { return p_ == o.p_ && c_ == o.c_; }
  bool equals(const OWIt<false, Facade>& o) const { return p_ == o.p_ && c_ == o.c_; }
  R dereference() const { return (*c_)[p_]; }
  void increment() { ++p_; }
  void decrement() { --p_; }
  R elementAt(std::ptrdiff_t n) const { return (*c_)[p_ + n]; }
  void advance(std::ptrdiff_t n) { p_ += n; }
  std::ptrdiff_t distanceTo(const OWIt<true, Facade>& o) const { return o.p_ - p_; }
  std::ptrdiff_t distanceTo(const OWIt<false, Facade>& o) const { return o.p_ - p_; }
};
template <template <class, class, class, class> class Facade, int CAT>
struct OneWayKind : KindBase {
  static constexpr int cat = CAT;
  static constexpr bool hasConv = true;
  static constexpr bool beforeBegin = true;
  Vals vals;
  explicit OneWayKind(const Vals& x) : vals(x) {}
  using MI = OWIt<false, Facade>;
  using CI = OWIt<true, Facade>;
  static_assert(std::is_convertible_v<MI, CI> && !std::is_convertible_v<CI, MI>);
  MI mbegin() { return MI(vals, 0); }
  MI mend() { return MI(vals, (std::ptrdiff_t)vals.size()); }
  CI cbegin() { return CI(vals, 0); }
  CI cend() { return CI(vals, (std::ptrdiff_t)vals.size()); }
  MI mbefore() { return MI(vals, -1); }
  CI cbefore() { return CI(vals, -1); }
  template <class R> static long val(const R& r) { return r; }
  template <class R> std::string chk(const R&, long) { return ""; }
  long expect(long i) const { return vals[i]; }
};

template <class C, int CAT>
struct IndexedKind : KindBase {  // IndexedIterator over a std:: container's iterators
  static constexpr int cat = CAT;
  static constexpr bool hasIndex = true;
  static constexpr bool showIdx = true;
  static constexpr bool keepsType = false;  // it+n slices to the wrapped iterator
  C c;
  Vals vals;
  IndexedKind(const Vals& x, long start) : c(x.begin(), x.end()), vals(x) { idxStart = start; }
  using MI = Dune::IndexedIterator<typename C::iterator>;
  using CI = Dune::IndexedIterator<typename C::const_iterator>;
  MI mbegin() { return MI(c.begin(), idxStart); }
  MI mend() { return MI(c.end(), idxStart + (long)vals.size()); }
  CI cbegin() { return CI(std::as_const(c).begin(), idxStart); }
  CI cend() { return CI(std::as_const(c).end(), idxStart + (long)vals.size()); }
  MI mbefore() { return mbegin(); }
  CI cbefore() { return cbegin(); }
  template <class R> static long val(const R& r) { return r; }
  template <class R> std::string chk(const R&, long) { return ""; }
  long expect(long i) const { return vals[i]; }
};

// HIGH: the op line gives bounds/values of an IntegralRange<unsigned long> relative to 2^63 (an order preserving
// bijection between the unsigned 64 bit values and `long`), so ranges above and across 2^63 can be written down
template <class T, bool HIGH>
struct IRConv {
  static T to(long x) {
    if constexpr (HIGH) return (T)((unsigned long)x + (1ul << 63));
    else return (T)x;
  }
  static long from(T v) {
    if constexpr (HIGH) return (long)((unsigned long)v - (1ul << 63));
    else return (long)v;
  }
};
template <class T, bool HIGH = false>
struct IntRangeKind : KindBase {  // hand-written IntegralRangeIterator
  static constexpr int cat = 2;
  static constexpr bool nplus = true;
  Dune::IntegralRange<T> r;
  long from, to;
  Vals vals;  // only its size matters
  IntRangeKind(long f, long t) : r(IRConv<T, HIGH>::to(f), IRConv<T, HIGH>::to(t)), from(f), to(t), vals((std::size_t)(t - f), 0) {}
  auto mbegin() { return r.begin(); }
  auto mend() { return r.end(); }
  auto cbegin() { return std::as_const(r).begin(); }
  auto cend() { return std::as_const(r).end(); }
  auto mbefore() { return mbegin(); }
  auto cbefore() { return cbegin(); }
  template <class R> static long val(const R& x) { return IRConv<T, HIGH>::from((T)x); }
  template <class R> std::string chk(const R&, long) { return ""; }
  long expect(long i) const { return from + i; }
};

// f(x) = 3x+1, logging every call
struct LogF {
  std::vector<long>* log;
  long operator()(long x) const {
    log->push_back(x);
    return 3 * x + 1;
  }
};
template <class C, int CAT>
struct TransformedKind : KindBase {  // IteratorFacade-based TransformedRangeIterator over C's iterators
  static constexpr int cat = CAT;
  static constexpr bool nplus = (CAT == 2);
  C c;
  Vals vals;
  std::vector<long> log;
  using View = Dune::TransformedRangeView<C&, LogF, Dune::ValueTransformationTag>;
  View view;
  explicit TransformedKind(const Vals& x) : c(x.begin(), x.end()), vals(x), view(c, LogF{&log}) {}
  auto mbegin() { return view.begin(); }
  auto mend() { return view.end(); }
  auto cbegin() { return std::as_const(view).begin(); }
  auto cend() { return std::as_const(view).end(); }
  auto mbefore() { return mbegin(); }
  auto cbefore() { return cbegin(); }
  template <class R> static long val(const R& r) { return r; }
  template <class R> std::string chk(const R&, long) { return ""; }
  long expect(long i) const { return 3 * vals[i] + 1; }
};
struct TransformedIRKind : KindBase {  // transformedRangeView over an on-the-fly IntegralRange<int>
  static constexpr int cat = 2;
  static constexpr bool nplus = true;
  long from, to;
  Vals vals;
  std::vector<long> log;
  using View = Dune::TransformedRangeView<Dune::IntegralRange<int>, LogF, Dune::ValueTransformationTag>;
  View view;
  TransformedIRKind(long f, long t)
      : from(f), to(t), vals((std::size_t)(t - f), 0), view(Dune::range((int)f, (int)t), LogF{&log}) {}
  auto mbegin() { return view.begin(); }
  auto mend() { return view.end(); }
  auto cbegin() { return std::as_const(view).begin(); }
  auto cend() { return std::as_const(view).end(); }
  auto mbefore() { return mbegin(); }
  auto cbefore() { return cbegin(); }
  template <class R> static long val(const R& r) { return r; }
  template <class R> std::string chk(const R&, long) { return ""; }
  long expect(long i) const { return 3 * (from + i) + 1; }
};

struct SparseKind : KindBase {  // sparseRange over a DynamicVector: (entry, index) pairs
  static constexpr int cat = 2;
  static constexpr bool nplus = true;
  Dune::DynamicVector<long> v;
  Vals vals;
  using View = decltype(Dune::sparseRange(std::declval<Dune::DynamicVector<long>&>()));
  View view;
  explicit SparseKind(const Vals& x) : v(DenseVecKind<Dune::DynamicVector<long>>::mk(x)), vals(x), view(Dune::sparseRange(v)) {}
  auto mbegin() { return view.begin(); }
  auto mend() { return view.end(); }
  auto cbegin() { return std::as_const(view).begin(); }
  auto cend() { return std::as_const(view).end(); }
  auto mbefore() { return mbegin(); }
  auto cbefore() { return cbegin(); }
  template <class R> static long val(const R& r) { return std::get<0>(r); }
  template <class R> std::string chk(const R& r, long i) {
    if ((long)std::get<1>(r) != i) return "sparse entry carries index " + std::to_string((long)std::get<1>(r));
    if (&std::get<0>(r) != &v[i]) return "sparse entry does not refer to the container entry";
    return "";
  }
  long expect(long i) const { return vals[i]; }
};

// TransformedRangeIterator used directly with a function OBJECT (the views hand it a pointer to the function):
// the `f(*it)` branch of TransformationRangeIteratorTraits::transform
struct TransformedFunKind : KindBase {
  static constexpr int cat = 2;
  static constexpr bool nplus = true;
  std::vector<long> c;
  Vals vals;
  std::vector<long> log;
  using MI = Dune::Impl::TransformedRangeIterator<std::vector<long>::iterator, LogF, Dune::ValueTransformationTag>;
  using CI = Dune::Impl::TransformedRangeIterator<std::vector<long>::const_iterator, LogF, Dune::ValueTransformationTag>;
  using View = Dune::IteratorRange<MI>;
  View view;
  explicit TransformedFunKind(const Vals& x) : c(x.begin(), x.end()), vals(x), view(MI(c.begin(), LogF{&log}), MI(c.end(), LogF{&log})) {}
  MI mbegin() { return MI(c.begin(), LogF{&log}); }
  MI mend() { return MI(c.end(), LogF{&log}); }
  CI cbegin() { return CI(std::as_const(c).begin(), LogF{&log}); }
  CI cend() { return CI(std::as_const(c).end(), LogF{&log}); }
  auto mbefore() { return mbegin(); }
  auto cbefore() { return cbegin(); }
  template <class R> static long val(const R& r) { return r; }
  template <class R> std::string chk(const R&, long) { return ""; }
  long expect(long i) const { return 3 * vals[i] + 1; }
};

// an iterator built on the new IteratorFacade WITHOUT a base iterator: it implements only *, +=, == and -, so the
// facade's operator++ / operator-- take their second branch (derived() += 1, derived() -= 1)
template <bool isConst>
class AdvIt : public Dune::IteratorFacade<AdvIt<isConst>, std::random_access_iterator_tag, long,
                                          std::conditional_t<isConst, const long&, long&>,
                                          std::conditional_t<isConst, const long*, long*>, std::ptrdiff_t> {
  using Facade = Dune::IteratorFacade<AdvIt<isConst>, std::random_access_iterator_tag, long,
                                      std::conditional_t<isConst, const long&, long&>,
                                      std::conditional_t<isConst, const long*, long*>, std::ptrdiff_t>;
  friend class AdvIt<!isConst>;
  std::conditional_t<isConst, const Vals, Vals>* c_ = nullptr;
  std::ptrdiff_t p_ = 0;

 public:
  using reference = std::conditional_t<isConst, const long&, long&>;
  AdvIt() = default;
  AdvIt(std::conditional_t<isConst, const Vals, Vals>& c, std::ptrdiff_t p) : c_(&c), p_(p) {}
  reference operator*() const { return (*c_)[p_]; }
  AdvIt& operator+=(std::ptrdiff_t n) { p_ += n; return *this; }
  using Facade::operator-;
  template <bool o> bool operator==(const AdvIt<o>& other) const { return p_ == other.p_ && (const Vals*)c_ == (const Vals*)other.c_; }
  template <bool o> std::ptrdiff_t operator-(const AdvIt<o>& other) const { return p_ - other.p_; }
};
struct AdvOnlyKind : KindBase {
  static constexpr int cat = 2;
  static constexpr bool nplus = true;
  Vals vals;
  explicit AdvOnlyKind(const Vals& x) : vals(x) {}
  using MI = AdvIt<false>;
  using CI = AdvIt<true>;
  MI mbegin() { return MI(vals, 0); }
  MI mend() { return MI(vals, (std::ptrdiff_t)vals.size()); }
  CI cbegin() { return CI(vals, 0); }
  CI cend() { return CI(vals, (std::ptrdiff_t)vals.size()); }
  MI mbefore() { return mbegin(); }
  CI cbefore() { return cbegin(); }
  template <class R> static long val(const R& r) { return r; }
  template <class R> std::string chk(const R&, long) { return ""; }
  long expect(long i) const { return vals[i]; }
};

// IndexedIterator over the library's own DenseIterator
struct IndexedDenseKind : KindBase {
  static constexpr int cat = 2;
  static constexpr bool hasIndex = true;
  static constexpr bool showIdx = true;
  static constexpr bool keepsType = false;
  Dune::DynamicVector<long> v;
  Vals vals;
  IndexedDenseKind(const Vals& x, long start) : v(DenseVecKind<Dune::DynamicVector<long>>::mk(x)), vals(x) { idxStart = start; }
  using MI = Dune::IndexedIterator<Dune::DynamicVector<long>::Iterator>;
  using CI = Dune::IndexedIterator<Dune::DynamicVector<long>::ConstIterator>;
  MI mbegin() { return MI(v.begin(), idxStart); }
  MI mend() { return MI(v.end(), idxStart + (long)vals.size()); }
  CI cbegin() { return CI(std::as_const(v).begin(), idxStart); }
  CI cend() { return CI(std::as_const(v).end(), idxStart + (long)vals.size()); }
  MI mbefore() { return mbegin(); }
  CI cbefore() { return cbegin(); }
  template <class R> static long val(const R& r) { return r; }
  template <class R> std::string chk(const R&, long) { return ""; }
  long expect(long i) const { return vals[i]; }
};

// ------------------------------------------------------------------------------------------------
// type-erased iterator handle: the law checks below are written once against this interface, every
// kind only instantiates the thin wrapper W (keeps the compile time of the harness bounded)
// ------------------------------------------------------------------------------------------------
struct AnyIt;
using P = std::unique_ptr<AnyIt>;
enum Rel { EQ = 0, NE, LT, LE, GT, GE };
struct AnyIt {
  bool isConst = false;
  bool idxValid = true;
  virtual ~AnyIt() {}
  virtual P clone() const = 0;
  virtual const void* addr() const = 0;
  virtual const void* preinc() = 0;   // address of the returned reference
  virtual P postinc() = 0;
  virtual const void* predec() = 0;
  virtual P postdec() = 0;
  virtual bool fitsDiff(long n) const = 0;
  virtual const void* addeq(long n) = 0;
  virtual const void* subeq(long n) = 0;
  virtual P plus(long n) const = 0;
  virtual P minus(long n) const = 0;
  virtual P nplus(long n) const = 0;
  virtual long at(long n) const = 0;
  virtual long deref() const = 0;
  virtual std::string chk(long i) const = 0;
  virtual std::string arrow() const = 0;  // "" or what is wrong with it.operator->()
  virtual P toConst() const = 0;          // the const iterator this (mutable) iterator converts to; null = not offered
  virtual long index() const = 0;
  virtual int cmp(int rel, const AnyIt& rhs) const = 0;    // 0/1, -1 = not offered
  virtual bool diff(const AnyIt& rhs, long& out) const = 0;  // false = not offered
};

template <class A, class It, class Oth>
struct W final : AnyIt {
  A* a;
  It it;
  W(A* a_, const It& i, bool c) : a(a_), it(i) { isConst = c; }
  P mk(const It& i) const { return P(new W(a, i, isConst)); }
  P clone() const override { return mk(it); }
  const void* addr() const override { return &it; }
  const void* preinc() override { auto& r = ++it; return &r; }
  P postinc() override { return mk(it++); }
  const void* predec() override {
    if constexpr (A::cat >= 1) { auto& r = --it; return &r; }
    else return nullptr;
  }
  P postdec() override {
    if constexpr (A::cat >= 1) return mk(it--);
    else return nullptr;
  }
  using D = typename std::iterator_traits<It>::difference_type;
  bool fitsDiff(long n) const override { return (long)(D)n == n; }
  const void* addeq(long n) override {
    if constexpr (A::cat >= 2) { auto& r = (it += (D)n); return &r; }
    else return nullptr;
  }
  const void* subeq(long n) override {
    if constexpr (A::cat >= 2) { auto& r = (it -= (D)n); return &r; }
    else return nullptr;
  }
  template <class R> P wrapResult(const R& r) const {
    if constexpr (std::is_same_v<R, It>) return mk(r);
    else {  // IndexedIterator: it+n is an iterator of the wrapped type; re-wrap to compare positions
      P p = mk(It(r, 0));
      p->idxValid = false;
      return p;
    }
  }
  P plus(long n) const override {
    if constexpr (A::cat >= 2) return wrapResult(it + (D)n);
    else return nullptr;
  }
  P minus(long n) const override {
    if constexpr (A::cat >= 2) return wrapResult(it - (D)n);
    else return nullptr;
  }
  P nplus(long n) const override {
    if constexpr (A::cat >= 2 && A::nplus) return wrapResult((D)n + it);
    else return nullptr;
  }
  long at(long n) const override {
    if constexpr (A::cat >= 2) return a->val(it[(D)n]);
    else return 0;
  }
  long deref() const override { return a->val(*it); }
  std::string chk(long i) const override { return a->chk(*it, i); }
  std::string arrow() const override {
    if constexpr (A::arrowOk) {
      auto p = it.operator->();
      if constexpr (std::is_pointer_v<decltype(p)>) {
        if (a->val(*p) != a->val(*it)) return "it.operator->() does not point to the value of *it";
        if constexpr (std::is_lvalue_reference_v<decltype(*it)>) {
          if ((const void*)p != (const void*)&*it) return "it.operator->() is not the address of *it";
        }
      } else {
        auto q = p.operator->();
        if (a->val(*q) != a->val(*it)) return "the proxy returned by it.operator->() does not hold the value of *it";
      }
    }
    return "";
  }
  static constexpr bool itIsMutable = std::is_same_v<It, decltype(std::declval<A&>().mbegin())>;
  P toConst() const override {
    if constexpr (A::hasConv && itIsMutable && !std::is_same_v<It, Oth>) {
      Oth o = it;  // converting constructor mutable -> const
      Oth o2(it);
      if (!(o == o2)) return nullptr;
      return P(new W<A, Oth, It>(a, o, true));
    } else return nullptr;
  }
  long index() const override {
    if constexpr (A::hasIndex) return (long)it.index();
    else return 0;
  }
  template <class X, class Y> static int cmpT(int rel, const X& x, const Y& y) {
    if (rel == EQ) return x == y;
    if (rel == NE) return x != y;
    if constexpr (A::cat >= 2 && (A::mixedRel || std::is_same_v<X, Y>)) {
      switch (rel) {
        case LT: return x < y;
        case LE: return x <= y;
        case GT: return x > y;
        case GE: return x >= y;
      }
    }
    return -1;
  }
  int cmp(int rel, const AnyIt& r) const override {
    if (auto* s = dynamic_cast<const W<A, It, Oth>*>(&r)) return cmpT(rel, it, s->it);
    if constexpr (!std::is_same_v<It, Oth>) {
      if (auto* o = dynamic_cast<const W<A, Oth, It>*>(&r)) return cmpT(rel, it, o->it);
    }
    return -1;
  }
  template <class X, class Y> static bool diffT(const X& x, const Y& y, long& out) {
    if constexpr (A::cat >= 2 && (A::mixedRel || std::is_same_v<X, Y>)) { out = (long)(x - y); return true; }
    else return false;
  }
  bool diff(const AnyIt& r, long& out) const override {
    if (auto* s = dynamic_cast<const W<A, It, Oth>*>(&r)) return diffT(it, s->it, out);
    if constexpr (!std::is_same_v<It, Oth>) {
      if (auto* o = dynamic_cast<const W<A, Oth, It>*>(&r)) return diffT(it, o->it, out);
    }
    return false;
  }
};

// reference tables: iterators at every position, built by single increments from begin()
struct Tab {
  std::vector<P> m, c;
  P mend, cend;
  long lo = 0, n = 0;
  // run-time description of the kind
  int cat = 0;
  bool nplus = false, hasIndex = false, showIdx = false, mixedRel = true;
  long idxStart = 0;
  std::function<long(long)> expect;
  bool hasConv = false, hasBeforeEnd = false, hasFind = false, keepsType = true;
  std::function<P(bool)> beforeEnd;      // (const?) -> iterator returned by beforeEnd()
  std::function<P(bool, long)> find;     // (const?, i) -> iterator returned by find(i)
  AnyIt& M(long p) { return *m[p - lo]; }
  AnyIt& C(long p) { return *c[p - lo]; }
};

template <class A>
Tab makeTab(A& a) {
  using MI = decltype(a.mbegin());
  using CI = decltype(a.cbegin());
  Tab T;
  T.n = (long)a.vals.size();
  T.lo = A::beforeBegin ? -1 : 0;
  T.cat = A::cat; T.nplus = A::nplus; T.hasIndex = A::hasIndex; T.showIdx = A::showIdx; T.mixedRel = A::mixedRel;
  T.idxStart = a.idxStart;
  T.expect = [&a](long i) { return a.expect(i); };
  T.hasConv = A::hasConv; T.hasBeforeEnd = A::hasBeforeEnd; T.hasFind = A::hasFind; T.keepsType = A::keepsType;
  if constexpr (A::hasBeforeEnd)
    T.beforeEnd = [&a](bool c) -> P {
      if (c) return P(new W<A, CI, MI>(&a, a.cbeforeEnd(), true));
      return P(new W<A, MI, CI>(&a, a.mbeforeEnd(), false));
    };
  if constexpr (A::hasFind)
    T.find = [&a](bool c, long i) -> P {
      if (c) return P(new W<A, CI, MI>(&a, a.cfind(i), true));
      return P(new W<A, MI, CI>(&a, a.mfind(i), false));
    };
  if constexpr (A::beforeBegin) {
    T.m.emplace_back(new W<A, MI, CI>(&a, a.mbefore(), false));
    T.c.emplace_back(new W<A, CI, MI>(&a, a.cbefore(), true));
  }
  {
    auto it = a.mbegin();
    for (long p = 0; p <= T.n; ++p) {
      T.m.emplace_back(new W<A, MI, CI>(&a, it, false));
      if (p < T.n) ++it;
    }
    T.mend.reset(new W<A, MI, CI>(&a, a.mend(), false));
  }
  {
    auto it = a.cbegin();
    for (long p = 0; p <= T.n; ++p) {
      T.c.emplace_back(new W<A, CI, MI>(&a, it, true));
      if (p < T.n) ++it;
    }
    T.cend.reset(new W<A, CI, MI>(&a, a.cend(), true));
  }
  return T;
}

static void note(std::string& err, const std::string& what) {
  if (err.empty()) err = what;
}
static std::string S(long v) { return std::to_string(v); }

static void checkTab(Tab& T, std::string& err) {
  for (int k = 0; k < 2; ++k) {
    auto& tab = k ? T.c : T.m;
    AnyIt& e = k ? *T.cend : *T.mend;
    const char* nm = k ? "const" : "mutable";
    for (long p = 0; p < T.n; ++p) {
      long v = tab[p - T.lo]->deref();
      if (v != T.expect(p)) note(err, std::string(nm) + " iterator after " + S(p) + " increments yields " + S(v));
      if (tab[p - T.lo]->cmp(EQ, e) != 0) note(err, std::string(nm) + " end() reached after only " + S(p) + " increments");
    }
    if (tab.back()->cmp(EQ, e) != 1 || tab.back()->cmp(NE, e) != 0)
      note(err, std::string("size() increments from ") + nm + " begin() do not reach end()");
  }
}

// position of an iterator = the unique table position it compares equal to (checked against both tables,
// both argument orders and operator!=)
static long posOf(Tab& T, const AnyIt& it, std::string& err) {
  long found = NOPOS;
  int cnt = 0;
  for (long p = T.lo; p <= T.n; ++p) {
    int e1 = it.cmp(EQ, T.M(p)), e2 = T.M(p).cmp(EQ, it), e3 = it.cmp(EQ, T.C(p)), e4 = T.C(p).cmp(EQ, it);
    int n1 = it.cmp(NE, T.M(p)), n3 = it.cmp(NE, T.C(p)), n4 = T.C(p).cmp(NE, it);
    if (e1 != e2 || e1 != e3 || e1 != e4)
      note(err, "equality with the mutable/const iterator at position " + S(p) + " is inconsistent");
    if (n1 == e1 || n3 == e3 || n4 == e4) note(err, "operator!= is not the negation of operator== at position " + S(p));
    if (e1 == 1) { found = p; ++cnt; }
  }
  if (cnt != 1) {
    note(err, "iterator compares equal to " + S(cnt) + " reference positions");
    return NOPOS;
  }
  return found;
}

static std::string showPos(Tab& T, const AnyIt& it, std::string& err, long expect) {
  long p = posOf(T, it, err);
  if (p != expect) note(err, "iterator is at position " + S(p) + ", integer law gives " + S(expect));
  std::string s = S(p);
  if (T.showIdx && it.idxValid) {
    long ix = it.index();
    if (ix != T.idxStart + expect) note(err, "index() is " + S(ix) + ", expected " + S(T.idxStart + expect));
    s += "#" + S(ix);
  }
  return s;
}

static bool isInt(const std::string& s) {
  if (s.empty()) return false;
  size_t i = (s[0] == '-') ? 1 : 0;
  if (i == s.size() || s.size() > 12) return false;
  for (; i < s.size(); ++i) if (s[i] < '0' || s[i] > '9') return false;
  return true;
}
static bool isLong(const std::string& s, long& out) {
  if (s.empty() || s.size() > 20) return false;
  size_t i = (s[0] == '-') ? 1 : 0;
  if (i == s.size()) return false;
  for (; i < s.size(); ++i) if (s[i] < '0' || s[i] > '9') return false;
  try { out = std::stol(s); } catch (...) { return false; }
  return true;
}

static Result badOp() {
  Result r;
  r.impl = "bad-op";
  r.oracle = "ok trivial";
  return r;
}

// ------------------------------------------------------------------------------------------------
// one iterator expression
// ------------------------------------------------------------------------------------------------
static Result execIt(Tab& T, const std::vector<std::string>& w, size_t k) {
  Result res;
  std::string err;
  const std::string op = w.at(k);
  const std::string cv = w.back();
  std::vector<long> arg;
  for (size_t i = k + 1; i + 1 < w.size(); ++i) {
    if (!isInt(w[i])) return badOp();
    arg.push_back(std::stol(w[i]));
  }
  for (char ch : cv) if (ch != 'm' && ch != 'c') return badOp();
  static const std::vector<std::string> un1 = {"preinc", "postinc", "predec", "postdec", "incdec", "decinc", "deref", "index",
                                               "conv", "beforeend", "find"};
  static const std::vector<std::string> un2 = {"addeq", "subeq", "plus", "minus", "nplus", "steps", "at"};
  static const std::vector<std::string> bin = {"eq", "ne", "lt", "le", "gt", "ge", "diff"};
  auto in = [&](const std::vector<std::string>& v) { return std::find(v.begin(), v.end(), op) != v.end(); };
  bool u1 = in(un1), u2 = in(un2), b = in(bin);
  if (!(u1 || u2 || b)) return badOp();
  if (arg.size() != (u1 ? 1u : 2u) || cv.size() != (b ? 2u : 1u)) return badOp();

  checkTab(T, err);
  const long n = T.n, lo = T.lo;
  const long p = arg[0];
  if (op == "find") {  // find(i): the iterator min(i,size) increments behind begin()
    if (!T.hasFind || p < 0 || p > n + 4) return badOp();
    P it = T.find(cv[0] == 'c', p);
    res.impl = showPos(T, *it, err, std::min(p, n));
    stat("op_find");
    if (!err.empty()) res.oracle = "FAIL " + err;
    return res;
  }
  if (p < lo || p > n) return badOp();
  auto get = [&](char c, long pos) { return (c == 'm' ? T.M(pos) : T.C(pos)).clone(); };

  if (u1) {
    P it = get(cv[0], p);
    if (op == "preinc" || op == "postinc" || op == "incdec") {
      if (p >= n || (op == "incdec" && T.cat < 1)) return badOp();
      if (op == "preinc") {
        const void* r = it->preinc();
        if (r != it->addr()) note(err, "++it does not return *this");
        std::string s = showPos(T, *it, err, p + 1);
        res.impl = s + " " + s;
      } else if (op == "postinc") {
        P r = it->postinc();
        res.impl = showPos(T, *r, err, p) + " " + showPos(T, *it, err, p + 1);
      } else {
        it->preinc();
        it->predec();
        res.impl = showPos(T, *it, err, p);
      }
    } else if (op == "predec" || op == "postdec" || op == "decinc") {
      if (p <= lo || T.cat < 1) return badOp();
      if (op == "predec") {
        const void* r = it->predec();
        if (r != it->addr()) note(err, "--it does not return *this");
        std::string s = showPos(T, *it, err, p - 1);
        res.impl = s + " " + s;
      } else if (op == "postdec") {
        P r = it->postdec();
        res.impl = showPos(T, *r, err, p) + " " + showPos(T, *it, err, p - 1);
      } else {
        it->predec();
        it->preinc();
        res.impl = showPos(T, *it, err, p);
      }
    } else if (op == "deref") {
      if (p < 0 || p >= n) return badOp();
      long v = it->deref();
      if (v != T.expect(p)) note(err, "*it yields " + S(v) + " at position " + S(p));
      std::string c2 = it->chk(p);
      if (!c2.empty()) note(err, c2);
      std::string c3 = it->arrow();
      if (!c3.empty()) note(err, c3);
      res.impl = S(v);
    } else if (op == "conv") {  // mutable -> const conversion keeps the position
      if (!T.hasConv || cv != "m") return badOp();
      P c = it->toConst();
      if (!c) { note(err, "conversion to the const iterator is inconsistent"); res.impl = "?"; }
      else {
        res.impl = showPos(T, *c, err, p);
        if (p >= 0 && p < n && c->deref() != T.expect(p)) note(err, "converted iterator yields " + S(c->deref()));
        if (c->cmp(EQ, *it) != 1 || it->cmp(NE, *c) != 0) note(err, "converted iterator does not compare equal to its origin");
      }
    } else if (op == "beforeend") {  // beforeEnd() is one decrement before end()
      if (!T.hasBeforeEnd || p != n) return badOp();
      P b = T.beforeEnd(cv[0] == 'c');
      res.impl = showPos(T, *b, err, n - 1);
      P e = get(cv[0], n);
      if (T.cat >= 1 && n - 1 >= lo) { e->predec(); if (e->cmp(EQ, *b) != 1) note(err, "beforeEnd() differs from --end()"); }
    } else {  // index
      if (!T.hasIndex) return badOp();
      long ix = it->index();
      if (ix != T.idxStart + p) note(err, "index() is " + S(ix) + " at position " + S(p));
      res.impl = S(ix);
    }
  } else if (u2) {
    const long s = arg[1];
    P it = get(cv[0], p);
    if (op == "steps") {
      if (p + s < lo || p + s > n || (s < 0 && T.cat < 1)) return badOp();
      for (long i = 0; i < (s < 0 ? -s : s); ++i) { if (s > 0) it->preinc(); else it->predec(); }
      res.impl = showPos(T, *it, err, p + s);
    } else {
      if (T.cat < 2 || !it->fitsDiff(s) || !it->fitsDiff(-s)) return badOp();
      const bool neg = (op == "subeq" || op == "minus");
      const long target = neg ? p - s : p + s;
      if (op == "at") {
        if (target < 0 || target >= n) return badOp();
        long v = it->at(s);
        if (v != T.expect(target)) note(err, "it[n] yields " + S(v) + ", element at p+n is " + S(T.expect(target)));
        if (it->plus(s)->deref() != v) note(err, "it[n] differs from *(it+n)");
        res.impl = S(v);
      } else {
        if (target < lo || target > n) return badOp();
        if (op == "nplus" && !T.nplus) return badOp();
        P walk = it->clone();  // n single steps from the same start, for the cross check
        for (long i = 0; i < (target > p ? target - p : p - target); ++i) { if (target > p) walk->preinc(); else walk->predec(); }
        if (op == "addeq" || op == "subeq") {
          const void* r = (op == "addeq") ? it->addeq(s) : it->subeq(s);
          if (r != it->addr()) note(err, "it" + std::string(neg ? "-=" : "+=") + "n does not return *this");
          res.impl = showPos(T, *it, err, target);
          if (it->cmp(EQ, *walk) != 1) note(err, "advance by n differs from n single steps");
        } else {
          P r = (op == "plus") ? it->plus(s) : (op == "minus") ? it->minus(s) : it->nplus(s);
          std::string rs = showPos(T, *r, err, target);
          res.impl = rs + " " + showPos(T, *it, err, p);
          if (r->cmp(EQ, *walk) != 1) note(err, "it+n differs from n single steps");
          long dd;
          if (r->diff(*it, dd) && dd != target - p) note(err, "(it+n)-it is " + S(dd) + ", expected " + S(target - p));
        }
      }
    }
  } else {
    const long q = arg[1];
    if (q < lo || q > n) return badOp();
    P x = get(cv[0], p), y = get(cv[1], q);
    static const std::vector<std::string> rels = {"eq", "ne", "lt", "le", "gt", "ge"};
    if (op == "diff") {
      long dd;
      if (!x->diff(*y, dd)) return badOp();
      res.impl = S(dd);
      if (dd != p - q) note(err, "difference of positions " + S(p) + " and " + S(q) + " is " + res.impl);
    } else {
      int rel = (int)(std::find(rels.begin(), rels.end(), op) - rels.begin());
      int got = x->cmp(rel, *y);
      if (got < 0) return badOp();
      bool expect = rel == EQ ? p == q : rel == NE ? p != q : rel == LT ? p < q : rel == LE ? p <= q : rel == GT ? p > q : p >= q;
      res.impl = got ? "true" : "false";
      if ((got != 0) != expect) note(err, "position " + S(p) + " " + op + " position " + S(q) + " gave " + res.impl);
    }
    if (p == q) stat("pair_equal");
    else if (p + 1 == q || q + 1 == p) stat("pair_adjacent");
    else stat("pair_other");
  }
  stat("op_" + op);
  stat("size_" + S(n > 8 ? 9 : n));
  stat("cv_" + cv);
  if (p == lo) stat("pos_first");
  if (p == n) stat("pos_end");
  if (!err.empty()) res.oracle = "FAIL " + err;
  return res;
}

// ------------------------------------------------------------------------------------------------
// an operation history on ONE iterator object:  it <kind> <spec> hist <p> <cv> : s1;s2;...
//   i  ++it     d  --it     I  it++     D  it--     a<n>  it += n     s<n>  it -= n
//   p<n>  it = it + n      m<n>  it = it - n      n<n>  it = n + it
// answer: the position (and index) of the iterator after every step
// ------------------------------------------------------------------------------------------------
static Result execHist(Tab& T, const std::vector<std::string>& w) {
  Result res;
  std::string err;
  if (w.size() != 8 || w[6] != ":" || !isInt(w[4])) return badOp();
  const std::string cv = w[5];
  if (cv != "m" && cv != "c") return badOp();
  long p = std::stol(w[4]);
  const long n = T.n, lo = T.lo;
  if (p < lo || p > n) return badOp();
  std::vector<std::string> toks = split(w[7], ';');
  if (toks.size() > 40) return badOp();
  struct St { char k; long n; };
  std::vector<St> sts;
  for (auto& t : toks) {
    if (t.empty()) return badOp();
    char k = t[0];
    if (t.size() == 1) {
      if (k != 'i' && k != 'd' && k != 'I' && k != 'D') return badOp();
      sts.push_back({k, 0});
    } else {
      if (k != 'a' && k != 's' && k != 'p' && k != 'm' && k != 'n') return badOp();
      std::string num = t.substr(1);
      if (!isInt(num)) return badOp();
      long v = std::stol(num);
      if (v < -64 || v > 64) return badOp();
      sts.push_back({k, v});
    }
  }
  // validate the whole history on integer positions first (the executor must not leave [lo, n])
  {
    long q = p;
    for (auto& st : sts) {
      switch (st.k) {
        case 'i': case 'I': q += 1; break;
        case 'd': case 'D': if (T.cat < 1) return badOp(); q -= 1; break;
        case 'a': if (T.cat < 2) return badOp(); q += st.n; break;
        case 's': if (T.cat < 2) return badOp(); q -= st.n; break;
        case 'p': if (T.cat < 2 || !T.keepsType) return badOp(); q += st.n; break;
        case 'm': if (T.cat < 2 || !T.keepsType) return badOp(); q -= st.n; break;
        case 'n': if (T.cat < 2 || !T.keepsType || !T.nplus) return badOp(); q += st.n; break;
      }
      if (q < lo || q > n) return badOp();
    }
  }
  checkTab(T, err);
  P it = (cv == "m" ? T.M(p) : T.C(p)).clone();
  if (!it->fitsDiff(64) || !it->fitsDiff(-64)) return badOp();
  std::vector<std::string> out;
  long q = p;
  for (auto& st : sts) {
    switch (st.k) {
      case 'i': it->preinc(); q += 1; break;
      case 'd': it->predec(); q -= 1; break;
      case 'I': { P r = it->postinc(); showPos(T, *r, err, q); q += 1; break; }
      case 'D': { P r = it->postdec(); showPos(T, *r, err, q); q -= 1; break; }
      case 'a': it->addeq(st.n); q += st.n; break;
      case 's': it->subeq(st.n); q -= st.n; break;
      case 'p': it = it->plus(st.n); q += st.n; break;
      case 'm': it = it->minus(st.n); q -= st.n; break;
      case 'n': it = it->nplus(st.n); q += st.n; break;
    }
    out.push_back(showPos(T, *it, err, q));
    if (q >= 0 && q < n && it->deref() != T.expect(q)) note(err, "after the history *it yields " + S(it->deref()) + " at position " + S(q));
  }
  res.impl = "[" + join(out.begin(), out.end(), ",") + "]";
  stat("op_hist");
  stat("hist_len_" + S((long)sts.size() > 8 ? 9 : (long)sts.size()));
  if (!err.empty()) res.oracle = "FAIL " + err;
  return res;
}

// ------------------------------------------------------------------------------------------------
// whole-range observations for the iterator kinds: enumeration by begin/!=/++/* (what range-for does)
// ------------------------------------------------------------------------------------------------
template <class A>
Result enumKind(A& a) {
  Result res;
  std::string err;
  Vals out, outc;
  long i = 0;
  for (auto it = a.mbegin(); it != a.mend(); ++it, ++i) {
    if (i >= (long)a.vals.size()) { note(err, "range yields more than size() elements"); break; }
    out.push_back(a.val(*it));
    std::string c2 = a.chk(*it, i);
    if (!c2.empty()) note(err, c2);
  }
  i = 0;
  for (auto it = a.cbegin(); it != a.cend(); ++it, ++i) {
    if (i >= (long)a.vals.size()) { note(err, "const range yields more than size() elements"); break; }
    outc.push_back(a.val(*it));
  }
  Vals expect;
  for (std::size_t j = 0; j < a.vals.size(); ++j) expect.push_back(a.expect((long)j));
  if (out != expect) note(err, "range enumerates " + listStr(out) + ", expected " + listStr(expect));
  if (outc != out) note(err, "const range enumerates " + listStr(outc));
  res.impl = listStr(out);
  stat("op_enum");
  stat("size_" + std::to_string(a.vals.size() > 8 ? 9 : a.vals.size()));
  if (!err.empty()) res.oracle = "FAIL " + err;
  return res;
}

// transformed ranges: values and the sequence of calls of f, via real range-for
template <class A>
Result enumTransformed(A& a, const Vals& base) {
  Result res;
  std::string err;
  Vals out, expect;
  a.log.clear();
  for (auto&& e : a.view) out.push_back(e);
  Vals calls = a.log;
  for (long b : base) expect.push_back(3 * b + 1);
  if (out != expect) note(err, "transformed range enumerates " + listStr(out) + ", expected " + listStr(expect));
  if (calls != base) note(err, "f was applied to " + listStr(calls) + ", expected once to each of " + listStr(base));
  a.log.clear();
  Vals outc;
  for (auto&& e : std::as_const(a.view)) outc.push_back(e);
  if (outc != out || a.log != base) note(err, "const transformed range differs");
  res.impl = listStr(out) + " calls=" + listStr(calls);
  stat("op_enum_transformed");
  if (!err.empty()) res.oracle = "FAIL " + err;
  return res;
}

static std::string pairList(const std::vector<std::pair<long, long>>& v) {
  std::vector<std::string> s;
  for (auto& p : v) s.push_back(std::to_string(p.first) + ":" + std::to_string(p.second));
  return "[" + join(s.begin(), s.end(), ",") + "]";
}

// ------------------------------------------------------------------------------------------------
// parsing helpers
// ------------------------------------------------------------------------------------------------
static bool parseVals(const std::string& s, Vals& out, std::size_t maxLen, long maxAbs) {
  if (s.size() < 2 || s.front() != '[' || s.back() != ']') return false;
  std::string t = s.substr(1, s.size() - 2);
  out.clear();
  if (t.empty()) return true;
  for (auto& w : split(t, ',')) {
    if (!isInt(w)) return false;
    long v = std::stol(w);
    if (v > maxAbs || v < -maxAbs) return false;
    out.push_back(v);
  }
  return out.size() <= maxLen;
}
static bool parseFromTo(const std::string& s, long& f, long& t) {
  auto c = s.find(':');
  if (c == std::string::npos) return false;
  std::string a = s.substr(0, c), b = s.substr(c + 1);
  if (a.size() > 20 || b.size() > 20) return false;
  auto ok = [](const std::string& x) {
    if (x.empty()) return false;
    size_t i = x[0] == '-' ? 1 : 0;
    if (i == x.size()) return false;
    for (; i < x.size(); ++i) if (x[i] < '0' || x[i] > '9') return false;
    return true;
  };
  if (!ok(a) || !ok(b)) return false;
  try { f = std::stol(a); t = std::stol(b); } catch (...) { return false; }
  return true;
}
// kind token "name+k"
static bool splitPlus(const std::string& s, std::string& name, long& k) {
  auto c = s.find('+');
  if (c == std::string::npos) { name = s; k = 0; return true; }
  name = s.substr(0, c);
  std::string r = s.substr(c + 1);
  if (!isInt(r) || r[0] == '-') return false;
  k = std::stol(r);
  return k <= 64;
}

template <class T> struct TypeLimits {
  static bool fits(long f, long t) {
    if (f > t) return false;
    if constexpr (std::is_same_v<T, unsigned long>) return f >= 0;
    else return f >= (long)std::numeric_limits<T>::min() && t <= (long)std::numeric_limits<T>::max();
  }
};

template <class T, bool HIGH = false>
Result execIntegralRange(const std::string& op, long f, long t, const std::vector<long>& arg) {
  using CV = IRConv<T, HIGH>;
  Result res;
  std::string err;
  const __int128 ext = (__int128)t - (__int128)f;  // number of elements (the bounds may span the whole type)
  Dune::IntegralRange<T> r(CV::to(f), CV::to(t));
  stat("op_rg_" + op);
  if (f == t) stat("range_empty");
  auto enumerate = [&](auto&& range, Vals& out) {
    for (auto v : range) {
      out.push_back(CV::from((T)v));
      if ((__int128)out.size() > ext) { note(err, "range yields more than to-from values"); break; }
    }
  };
  Vals expect;
  if (ext <= 4096) for (long v = f; v < t; ++v) expect.push_back(v);
  if (op == "size") {
    auto s = r.size();
    res.impl = std::to_string((unsigned long)s);
    if ((unsigned long)s != (unsigned long)ext) note(err, "size() is " + res.impl + ", expected " + std::to_string((unsigned long)ext));
  } else if (op == "empty") {
    res.impl = r.empty() ? "true" : "false";
    if (r.empty() != (f == t)) note(err, "empty() is " + res.impl);
  } else if (op == "contains") {
    long x = arg.at(0);
    if (!HIGH && !TypeLimits<T>::fits(x, x)) return badOp();
    bool got = r.contains(CV::to(x));
    res.impl = got ? "true" : "false";
    if (got != (f <= x && x < t)) note(err, "contains(" + std::to_string(x) + ") is " + res.impl);
  } else if (op == "at") {
    long i = arg.at(0);
    if (i < 0 || (__int128)i >= ext) return badOp();
    long got = CV::from(r[(T)i]);
    res.impl = std::to_string(got);
    if (got != f + i) note(err, "range[i] is " + res.impl);
  } else if (op == "enum") {
    if (ext > 4096) return badOp();
    Vals out;
    enumerate(r, out);
    if (out != expect) note(err, "range enumerates " + listStr(out) + ", expected " + listStr(expect));
    // what the standard library makes of the iterators (std::distance and the iterator-pair constructor use operator-)
    if (std::distance(r.begin(), r.end()) != (std::ptrdiff_t)ext) note(err, "std::distance(begin(), end()) is not to-from");
    std::vector<T> copy(r.begin(), r.end());
    if (copy.size() != expect.size()) note(err, "std::vector(begin(), end()) has " + std::to_string(copy.size()) + " entries");
    res.impl = listStr(out);
  } else if (op == "enum_to") {  // Dune::range(to), IntegralRange<T>(to): the range starts at 0
    if (HIGH || f != 0 || ext > 4096) return badOp();
    Vals o1, o2;
    enumerate(Dune::range((T)t), o1);
    enumerate(Dune::IntegralRange<T>((T)t), o2);
    if (o1 != expect) note(err, "range(to) enumerates " + listStr(o1) + ", expected " + listStr(expect));
    if (o2 != o1) note(err, "IntegralRange(to) enumerates " + listStr(o2));
    res.impl = listStr(o1);
  } else if (op == "enum_pair") {  // IntegralRange<T>(std::pair(from, to)), Dune::range(from, to)
    if (HIGH || ext > 4096) return badOp();
    Vals o1, o2;
    enumerate(Dune::IntegralRange<T>(std::pair<T, T>((T)f, (T)t)), o1);
    enumerate(Dune::range((T)f, (T)t), o2);
    if (o1 != expect) note(err, "IntegralRange(pair) enumerates " + listStr(o1) + ", expected " + listStr(expect));
    if (o2 != o1) note(err, "range(from, to) enumerates " + listStr(o2));
    res.impl = listStr(o1);
  } else if (op == "itcmp" || op == "tcmp" || op == "itadv" || op == "tadv") {
    // two positions of a range of ANY extent (up to the whole type), given by their values x and y; the oracle
    // works in 128 bit integers.  The difference of two iterators is judged against the true difference when the
    // signed difference type can hold it, otherwise against that value reduced modulo 2^bits (what the type
    // holds); the comparisons against the order of the positions, whatever their distance.
    using D = std::make_signed_t<T>;
    static_assert(std::is_same_v<D, typename std::iterator_traits<typename Dune::IntegralRange<T>::iterator>::difference_type>);
    using I128 = __int128;
    const int bits = 8 * (int)sizeof(T);
    const I128 DMAX = (I128)std::numeric_limits<D>::max(), DMIN = (I128)std::numeric_limits<D>::min();
    long x = arg.at(0), y = arg.at(1);
    auto inside = [&](I128 v) { return v >= (I128)f && v <= (I128)t; };
    if (!inside(x)) return badOp();
    // the iterator at value v: begin() moved there in steps of at most max(difference_type), alternating += and +
    auto itAt = [&](long v) {
      auto it = r.begin();
      I128 rem = (I128)v - (I128)f;
      bool alt = false;
      while (rem > 0) {
        D sgo = (D)std::min(rem, DMAX);
        if (alt) it = it + sgo; else it += sgo;
        alt = !alt;
        rem -= (I128)sgo;
      }
      if (CV::from((T)*it) != v) note(err, "begin() advanced to the value " + std::to_string(v) + " yields " + std::to_string(CV::from((T)*it)));
      if (!(it == Dune::IntegralRange<T>(CV::to(v), CV::to(t)).begin()) || it != Dune::IntegralRange<T>(CV::to(f), CV::to(v)).end())
        note(err, "begin() advanced to the value " + std::to_string(v) + " differs from the end() of the range [from, value)");
      return it;
    };
    auto wrapD = [&](I128 d) {  // d modulo 2^bits, read as signed
      unsigned __int128 m = (unsigned __int128)d;
      if (bits < 128) m &= (((unsigned __int128)1) << bits) - 1;
      I128 sv = (I128)m;
      if (sv > DMAX) sv -= ((I128)1) << bits;
      return (long)sv;
    };
    auto b2 = [](bool v) { return std::string(v ? "true" : "false"); };
    if (op == "tadv") {
      // the same moves on an iterator of a transformed range over the integral range (IteratorFacade: +=, -=, +, -,
      // n+it, [] forwarded to / derived from the IntegralRangeIterator), with the identity as the function
      const long n = y;
      I128 tgt = (I128)x + (I128)n;
      if (!inside(tgt) || (I128)n < DMIN || (I128)n > DMAX || -(I128)n < DMIN || -(I128)n > DMAX) return badOp();
      auto idf = [](T v) { return v; };
      auto view = Dune::transformedRangeView(n >= 0 ? Dune::IntegralRange<T>(CV::to(x), CV::to(t)) : Dune::IntegralRange<T>(CV::to(f), CV::to(x)), idf);
      auto it = (n >= 0) ? view.begin() : view.end();
      const D dn = (D)n, mn = (D)(-n);
      Vals got;
      got.push_back(CV::from((T)*(it + dn)));
      got.push_back(CV::from((T)*(dn + it)));
      { auto c = it; auto& rr = (c += dn); if (&rr != &c) note(err, "it += n does not return *this"); got.push_back(CV::from((T)*c)); }
      got.push_back(CV::from((T)it[dn]));
      got.push_back(CV::from((T)*(it - mn)));
      { auto c = it; auto& rr = (c -= mn); if (&rr != &c) note(err, "it -= n does not return *this"); got.push_back(CV::from((T)*c)); }
      static const char* nm[] = {"it + n", "n + it", "it += n", "it[n]", "it - (-n)", "it -= (-n)"};
      for (int i = 0; i < 6; ++i)
        if ((I128)got[i] != tgt) note(err, std::string("transformed range: ") + nm[i] + " from the value " + std::to_string(x) + " with n = " + std::to_string(n) + " yields " + std::to_string(got[i]));
      if (n >= -64 && n <= 64) {
        auto c = it;
        for (long i = 0; i < (n < 0 ? -n : n); ++i) { if (n > 0) ++c; else --c; }
        if (!(c == it + dn)) note(err, "transformed range: it + n differs from n single steps");
      }
      if ((it + dn) - it != dn) note(err, "transformed range: (it + n) - it is not n");
      res.impl = listStr(got);
      stat(n == 0 ? "wide_tadv_zero" : (n == (long)DMAX || -(I128)n == DMAX) ? "wide_tadv_extreme" : "wide_tadv_other");
    } else if (op == "itadv") {
      const long n = y;
      I128 tgt = (I128)x + (I128)n;
      if (!inside(tgt) || (I128)n < DMIN || (I128)n > DMAX || -(I128)n < DMIN || -(I128)n > DMAX) return badOp();
      auto it = itAt(x);
      const D dn = (D)n, mn = (D)(-n);
      Vals got;
      got.push_back(CV::from((T)*(it + dn)));
      got.push_back(CV::from((T)*(dn + it)));
      { auto c = it; auto& rr = (c += dn); if (&rr != &c) note(err, "it += n does not return *this"); got.push_back(CV::from((T)*c)); }
      got.push_back(CV::from((T)it[dn]));
      got.push_back(CV::from((T)*(it - mn)));
      { auto c = it; auto& rr = (c -= mn); if (&rr != &c) note(err, "it -= n does not return *this"); got.push_back(CV::from((T)*c)); }
      static const char* nm[] = {"it + n", "n + it", "it += n", "it[n]", "it - (-n)", "it -= (-n)"};
      for (int i = 0; i < 6; ++i)
        if ((I128)got[i] != tgt) note(err, std::string(nm[i]) + " from the value " + std::to_string(x) + " with n = " + std::to_string(n) + " yields " + std::to_string(got[i]));
      // n single steps arrive at the same iterator (bounded number of steps)
      if (n >= -64 && n <= 64) {
        auto c = it;
        for (long i = 0; i < (n < 0 ? -n : n); ++i) { if (n > 0) ++c; else --c; }
        if (!(c == it + dn)) note(err, "it + n differs from n single steps");
      }
      if ((it + dn) - it != dn) note(err, "(it + n) - it is not n");
      res.impl = listStr(got);
      stat(n == 0 ? "wide_adv_zero" : (n == (long)DMAX || -(I128)n == DMAX) ? "wide_adv_extreme" : "wide_adv_other");
    } else {
      if (!inside(y)) return badOp();
      const I128 d = (I128)x - (I128)y;
      const bool repr = d >= DMIN && d <= DMAX;
      bool lt, le, gt, ge, eq, ne;
      long dd;
      if (op == "itcmp") {
        auto X = itAt(x), Y = itAt(y);
        lt = X < Y; le = X <= Y; gt = X > Y; ge = X >= Y; eq = X == Y; ne = X != Y;
        dd = (long)(X - Y);
      } else {
        // iterators of a transformed range (IteratorFacade over the IntegralRangeIterator): begin()/end() of the view
        // over the sub-range between the two values
        const long lo = std::min(x, y), hi = std::max(x, y);
        std::vector<long> log;
        auto view = Dune::transformedRangeView(Dune::IntegralRange<T>(CV::to(lo), CV::to(hi)), LogF{&log});
        auto Bg = view.begin(), En = view.end();
        const auto& X = (x <= y) ? Bg : En;
        const auto& Y = (x <= y) ? En : Bg;
        lt = X < Y; le = X <= Y; gt = X > Y; ge = X >= Y; eq = X == Y; ne = X != Y;
        dd = (long)(X - Y);
        if (!log.empty()) note(err, "comparing iterators of the transformed range called the function");
      }
      res.impl = b2(lt) + " " + b2(le) + " " + b2(gt) + " " + b2(ge) + " " + b2(eq) + " " + b2(ne) + " " + std::to_string(dd);
      const std::string where = "iterators at the values " + std::to_string(x) + " and " + std::to_string(y) + " of the range [" +
                                std::to_string(f) + "," + std::to_string(t) + ")";
      if (eq != (d == 0) || ne != (d != 0)) note(err, "== / != of the " + where + " gave " + b2(eq) + " / " + b2(ne));
      // the order of the positions, whatever their distance (for the transformed range: repaired by
      // fixes/C16_facade_order_by_base.patch; before, the facade took the sign of the wrapping difference)
      {
        if (lt != (d < 0)) note(err, "operator< of the " + where + " gave " + b2(lt));
        if (le != (d <= 0)) note(err, "operator<= of the " + where + " gave " + b2(le));
        if (gt != (d > 0)) note(err, "operator> of the " + where + " gave " + b2(gt));
        if (ge != (d >= 0)) note(err, "operator>= of the " + where + " gave " + b2(ge));
      }
      // in every case: a strict order on the pair
      if (((lt && gt) || (lt && eq) || (gt && eq) || !(lt || gt || eq) || le == gt || ge == lt))
        note(err, "the comparisons of the " + where + " do not form a strict order");
      if (repr ? (I128)dd != d : dd != wrapD(d)) note(err, "difference of the " + where + " is " + std::to_string(dd));
      stat(std::string("wide_") + op + (d == 0 ? "_equal" : repr ? "_representable" : "_beyond_difference_type"));
    }
  } else return badOp();
  if (!err.empty()) res.oracle = "FAIL " + err;
  return res;
}

// StaticIntegralRange catalogue (compile-time bounds)
template <class T, long F, long TO>
Result execStaticRange(const std::string& op, const std::vector<long>& arg) {
  Result res;
  std::string err;
  Dune::StaticIntegralRange<T, (T)TO, (T)F> r;
  stat("op_sir_" + op);
  if (op == "size") {
    auto s = r.size();
    res.impl = std::to_string((unsigned long)decltype(s)::value);
    if ((long)decltype(s)::value != TO - F) note(err, "static size is " + res.impl);
    Dune::IntegralRange<T> dyn = r;  // conversion to the dynamic range
    if ((long)dyn.size() != TO - F || (dyn.size() > 0 && (long)*dyn.begin() != F)) note(err, "conversion to IntegralRange differs");
  } else if (op == "empty") {
    res.impl = decltype(r.empty())::value ? "true" : "false";
    if (decltype(r.empty())::value != (F == TO)) note(err, "static empty is " + res.impl);
  } else if (op == "contains") {
    long x = arg.at(0);
    if (!TypeLimits<T>::fits(x, x)) return badOp();
    bool got = r.contains((T)x);
    res.impl = got ? "true" : "false";
    if (got != (F <= x && x < TO)) note(err, "contains(" + std::to_string(x) + ") is " + res.impl);
  } else if (op == "at") {
    long i = arg.at(0);
    if (i < 0 || i >= TO - F) return badOp();
    long got = (long)r[(typename decltype(r)::size_type)i];
    res.impl = std::to_string(got);
    if (got != F + i) note(err, "range[i] is " + res.impl);
  } else if (op == "enum") {
    Vals out, expect, viaSeq;
    for (auto v : r) {
      out.push_back((long)v);
      if ((long)out.size() > TO - F) break;
    }
    for (long v = F; v < TO; ++v) expect.push_back(v);
    Dune::Hybrid::forEach(r.to_integer_sequence(), [&](auto i) { viaSeq.push_back((long)decltype(i)::value); });
    if (out != expect) note(err, "static range enumerates " + listStr(out) + ", expected " + listStr(expect));
    if (viaSeq != expect) note(err, "integer_sequence of the static range is " + listStr(viaSeq));
    res.impl = listStr(out);
  } else return badOp();
  if (!err.empty()) res.oracle = "FAIL " + err;
  return res;
}

// ------------------------------------------------------------------------------------------------
// hybrid helpers: compile-time containers/indices against their run-time twins
// ------------------------------------------------------------------------------------------------
template <std::size_t I>
using TT = std::tuple_element_t<I, std::tuple<int, long, short, long long, int, long, short, long>>;
template <std::size_t... I>
auto mkTuple(const Vals& v, std::index_sequence<I...>) { return std::tuple<TT<I>...>((TT<I>)v[I]...); }
template <std::size_t... I>
auto mkTupleVector(const Vals& v, std::index_sequence<I...>) { return Dune::TupleVector<TT<I>...>((TT<I>)v[I]...); }
template <std::size_t... I>
auto mkArray(const Vals& v, std::index_sequence<I...>) { return std::array<long, sizeof...(I)>{v[I]...}; }

// compile-time lengths offered per container kind: tuple 0..6, tvec {0,1,3,6}, arr {0,2,5}
template <int WHICH, class F>
bool withLen(std::size_t n, F&& f) {
  switch (n) {
    case 0: f(std::make_index_sequence<0>{}); return true;
    case 1: if constexpr (WHICH != 2) { f(std::make_index_sequence<1>{}); return true; } else return false;
    case 2: if constexpr (WHICH != 1) { f(std::make_index_sequence<2>{}); return true; } else return false;
    case 3: if constexpr (WHICH != 2) { f(std::make_index_sequence<3>{}); return true; } else return false;
    case 4: if constexpr (WHICH == 0) { f(std::make_index_sequence<4>{}); return true; } else return false;
    case 5: if constexpr (WHICH != 1) { f(std::make_index_sequence<5>{}); return true; } else return false;
    case 6: if constexpr (WHICH != 2) { f(std::make_index_sequence<6>{}); return true; } else return false;
    default: return false;
  }
}
// call f(integral_constant<T,v>) for v in [0,N)
template <class T, long N, class F>
bool withConst(long v, F&& f) {
  if constexpr (N == 0) return false;
  else {
    if (v == N - 1) { f(std::integral_constant<T, (T)(N - 1)>{}); return true; }
    return withConst<T, N - 1>(v, f);
  }
}

using S0 = std::integer_sequence<int>;
using S1 = std::integer_sequence<int, 5>;
using S2 = std::integer_sequence<int, 3, 1, 4, 1, 5>;
using S3 = std::integer_sequence<int, 0, 1, 2, 3, 4, 5, 6, 7>;
using S4 = std::integer_sequence<int, -2, 7, -2, 9>;
using S5 = std::integer_sequence<int, 2, 4, 6>;
using S6 = std::integer_sequence<int, 7, 0>;
template <int... i>
Vals seqVals(std::integer_sequence<int, i...>) { return Vals{(long)i...}; }
static const std::vector<Vals>& seqCatalogue() {
  static const std::vector<Vals> c = {seqVals(S0{}), seqVals(S1{}), seqVals(S2{}), seqVals(S3{}),
                                      seqVals(S4{}), seqVals(S5{}), seqVals(S6{})};
  return c;
}
template <class F>
bool withSeq(const Vals& v, F&& f) {
  if (v == seqVals(S0{})) { f(S0{}); return true; }
  if (v == seqVals(S1{})) { f(S1{}); return true; }
  if (v == seqVals(S2{})) { f(S2{}); return true; }
  if (v == seqVals(S3{})) { f(S3{}); return true; }
  if (v == seqVals(S4{})) { f(S4{}); return true; }
  if (v == seqVals(S5{})) { f(S5{}); return true; }
  if (v == seqVals(S6{})) { f(S6{}); return true; }
  return false;
}

template <class X> long asLong(const X& x) { return (long)x; }

static std::string sd(const std::string& s, const std::string& d) { return "s=" + s + " d=" + d; }

// container ops on a compile-time container `st` and the std::vector twin `dy`
template <class St>
Result hybridContainerOp(St&& st, Vals& dy, const std::string& op, const std::vector<long>& arg, bool sizeIsStatic) {
  namespace H = Dune::Hybrid;
  Result res;
  std::string err;
  const long n = (long)dy.size();
  stat("hy_" + op);
  if (op == "size") {
    auto s = H::size(st);
    if (sizeIsStatic) {
      if constexpr (!Dune::IsIntegralConstant<decltype(s)>::value) note(err, "size of a compile-time container is not an integral constant");
    }
    long sv = (long)s, dv = (long)H::size(dy);
    if (sv != n) note(err, "static size " + std::to_string(sv) + " expected " + std::to_string(n));
    if (dv != n) note(err, "dynamic size " + std::to_string(dv));
    res.impl = sd(std::to_string(sv), std::to_string(dv));
  } else if (op == "elementAt") {
    if (arg.size() != 1) return badOp();
    long i = arg[0];
    if (i < 0 || i >= n) return badOp();
    long sv = 0;
    bool done = withConst<std::size_t, 8>(i, [&](auto ic) {
      if constexpr (decltype(ic)::value < std::decay_t<decltype(H::size(st))>::value) sv = asLong(H::elementAt(st, ic));
    });
    if (!done) return badOp();
    long dv = asLong(H::elementAt(dy, (std::size_t)i));
    if (sv != dy[i]) note(err, "static elementAt gives " + std::to_string(sv) + ", element is " + std::to_string(dy[i]));
    if (dv != dy[i]) note(err, "dynamic elementAt gives " + std::to_string(dv));
    res.impl = sd(std::to_string(sv), std::to_string(dv));
  } else if (op == "forEach") {
    if (!arg.empty()) return badOp();
    Vals s, d;
    H::forEach(st, [&](auto&& e) { s.push_back(asLong(e)); });
    H::forEach(dy, [&](auto&& e) { d.push_back(asLong(e)); });
    if (s != dy) note(err, "static forEach visits " + listStr(s) + ", expected " + listStr(dy));
    if (d != dy) note(err, "dynamic forEach visits " + listStr(d));
    res.impl = sd(listStr(s), listStr(d));
  } else if (op == "accumulate") {
    if (arg.size() != 1) return badOp();
    long init = arg[0];
    if (init > 1000 || init < -1000) return badOp();
    auto f = [](long acc, auto&& e) { return 3 * acc + asLong(e); };
    long sv = H::accumulate(st, init, f);
    long dv = H::accumulate(dy, init, f);
    long ex = init;
    for (long v : dy) ex = 3 * ex + v;
    if (sv != ex) note(err, "static accumulate gives " + std::to_string(sv) + ", left fold gives " + std::to_string(ex));
    if (dv != ex) note(err, "dynamic accumulate gives " + std::to_string(dv));
    res.impl = sd(std::to_string(sv), std::to_string(dv));
  } else return badOp();
  if (!err.empty()) res.oracle = "FAIL " + err;
  return res;
}

template <class Seq>
Result hybridSwitchSeq(Seq seq, const Vals& cases, long v) {
  namespace H = Dune::Hybrid;
  Result res;
  std::string err;
  stat("hy_switchCases_seq");
  long expect = -1;
  for (long c : cases) if (c == v) { expect = 100 + v; break; }
  long d = -5;
  H::switchCases(seq, (int)v, [&](auto i) { d = 100 + (long)i; }, [&] { d = -1; });
  // with a return value
  long d2 = H::switchCases(seq, (int)v, [&](auto i) { return 100 + (long)i; }, [&] { return -1L; });
  std::string s = "n/a";
  bool st = withConst<int, 10>(v, [&](auto ic) {
    long r = -5;
    H::switchCases(seq, ic, [&](auto i) { r = 100 + (long)decltype(i)::value; }, [&] { r = -1; });
    if (r != expect) note(err, "switchCases with a compile-time value gives " + std::to_string(r) + ", expected " + std::to_string(expect));
    s = std::to_string(r);
  });
  (void)st;
  if (d != expect || d2 != expect) note(err, "switchCases with a run-time value gives " + std::to_string(d) + ", expected " + std::to_string(expect));
  res.impl = sd(s, std::to_string(d));
  if (expect >= 0) stat("switch_hit"); else stat("switch_else");
  if (!err.empty()) res.oracle = "FAIL " + err;
  return res;
}

// static integral ranges over std::size_t with bounds in [0,8): from = F, to = F+L
static const std::vector<std::pair<long, long>>& staticRanges() {
  static const std::vector<std::pair<long, long>> c = {{0, 0}, {0, 1}, {0, 4}, {2, 5}, {3, 3}, {1, 8}, {7, 8}};
  return c;
}
template <class F>
bool withStaticRange(long from, long to, F&& f) {
#define SR(A, B) if (from == A && to == B) { f(Dune::index_constant<A>{}, Dune::index_constant<B>{}); return true; }
  SR(0, 0) SR(0, 1) SR(0, 4) SR(2, 5) SR(3, 3) SR(1, 8) SR(7, 8)
#undef SR
  return false;
}

// integer_sequence helpers of integersequence.hh on a catalogue sequence, against the vector twin
template <class Seq>
Result seqHelperOp(Seq seq, const Vals& v, const std::string& op, const std::vector<long>& arg) {
  Result res;
  std::string err;
  const long n = (long)v.size();
  stat("hy_seq_" + op);
  auto so = [](bool has, long x) { return has ? std::to_string(x) : std::string("none"); };
  if (op == "get") {
    if (arg.size() != 1 || arg[0] < 0 || arg[0] >= n) return badOp();
    long i = arg[0], sv = -99;
    bool done = withConst<std::size_t, 8>(i, [&](auto ic) {
      if constexpr (decltype(ic)::value < Seq::size()) sv = (long)decltype(Dune::get<decltype(ic)::value>(seq))::value;
    });
    if (!done) return badOp();
    long dv = (long)Dune::get(seq, (std::size_t)i);
    if (sv != v[i]) note(err, "get<i>(seq) is " + std::to_string(sv) + ", entry is " + std::to_string(v[i]));
    if (dv != v[i]) note(err, "get(seq, i) is " + std::to_string(dv));
    res.impl = sd(std::to_string(sv), std::to_string(dv));
  } else if (op == "info") {
    if (!arg.empty()) return badOp();
    long fr = 0, hd = 0, bk = 0;
    Vals tl, srt, pf, pb, esrt = v;
    std::sort(esrt.begin(), esrt.end());
    if constexpr (Seq::size() > 0) {
      fr = (long)decltype(Dune::front(seq))::value;
      hd = (long)decltype(Dune::head(seq))::value;
      bk = (long)decltype(Dune::back(seq))::value;
      tl = seqVals(Dune::tail(seq));
      if (fr != v.front() || hd != v.front()) note(err, "front/head of the sequence is " + std::to_string(fr));
      if (bk != v.back()) note(err, "back of the sequence is " + std::to_string(bk));
      if (tl != Vals(v.begin() + 1, v.end())) note(err, "tail of the sequence is " + listStr(tl));
    }
    srt = seqVals(Dune::sorted(seq));
    if (srt != esrt) note(err, "sorted(seq) is " + listStr(srt) + ", std::sort gives " + listStr(esrt));
    pf = seqVals(Dune::push_front<42>(seq));
    pb = seqVals(Dune::push_back<43>(seq));
    Vals epf = v, epb = v;
    epf.insert(epf.begin(), 42);
    epb.push_back(43);
    if (pf != epf) note(err, "push_front gives " + listStr(pf));
    if (pb != epb) note(err, "push_back gives " + listStr(pb));
    long sz = (long)decltype(Dune::size(seq))::value;
    bool em = decltype(Dune::empty(seq))::value;
    if (sz != n) note(err, "size(seq) is " + std::to_string(sz));
    if (em != (n == 0)) note(err, "empty(seq) is wrong");
    res.impl = "front=" + so(n > 0, fr) + " head=" + so(n > 0, hd) + " back=" + so(n > 0, bk) + " size=" + std::to_string(sz) +
               " empty=" + (em ? "true" : "false") + " tail=" + (n > 0 ? listStr(tl) : std::string("none")) + " sorted=" + listStr(srt) +
               " pf=" + listStr(pf) + " pb=" + listStr(pb);
  } else if (op == "contains") {
    if (arg.size() != 1 || arg[0] < 0 || arg[0] >= 10) return badOp();
    bool got = false;
    withConst<int, 10>(arg[0], [&](auto ic) { got = decltype(Dune::contains(seq, ic))::value; });
    bool expect = std::find(v.begin(), v.end(), arg[0]) != v.end();
    if (got != expect) note(err, "contains(seq, value) is wrong");
    res.impl = got ? "true" : "false";
  } else if (op == "difference" || op == "equal") {
    if (arg.size() != 1 || arg[0] < 0 || arg[0] >= (long)seqCatalogue().size()) return badOp();
    const Vals& o = seqCatalogue()[arg[0]];
    bool ok = withSeq(o, [&](auto other) {
      if (op == "difference") {
        Vals got = seqVals(Dune::difference(seq, other)), expect;
        for (long x : v) if (std::find(o.begin(), o.end(), x) == o.end()) expect.push_back(x);
        if (got != expect) note(err, "difference is " + listStr(got) + ", expected " + listStr(expect));
        res.impl = listStr(got);
      } else {
        bool got = decltype(Dune::equal(seq, other))::value;
        if (got != (v == o)) note(err, "equal(seq, other) is wrong");
        res.impl = got ? "true" : "false";
      }
    });
    if (!ok) return badOp();
  } else return badOp();
  if (!err.empty()) res.oracle = "FAIL " + err;
  return res;
}

// switchCases without else branch: only defined when the value is among the cases
template <class Seq>
Result hybridSwitchSeq3(Seq seq, const Vals& cases, long v) {
  namespace H = Dune::Hybrid;
  Result res;
  std::string err;
  stat("hy_switchCases3_seq");
  bool member = std::find(cases.begin(), cases.end(), v) != cases.end();
  std::string s = "n/a", d = "n/a";
  if (member) {
    long r = -5;
    H::switchCases(seq, (int)v, [&](auto i) { r = 100 + (long)i; });
    if (r != 100 + v) note(err, "three-argument switchCases with a run-time value gives " + std::to_string(r));
    d = std::to_string(r);
    withConst<int, 10>(v, [&](auto ic) {
      long r2 = -5;
      H::switchCases(seq, ic, [&](auto i) { r2 = 100 + (long)decltype(i)::value; });
      if (r2 != 100 + v) note(err, "three-argument switchCases with a compile-time value gives " + std::to_string(r2));
      s = std::to_string(r2);
    });
  }
  res.impl = sd(s, d);
  if (!member) res.oracle = "ok trivial";
  if (!err.empty()) res.oracle = "FAIL " + err;
  return res;
}

static Result execHybrid(const std::vector<std::string>& w) {
  namespace H = Dune::Hybrid;
  if (w.size() < 4) return badOp();
  const std::string &ck = w[1], &vs = w[2], &op = w[3];
  std::vector<long> arg;
  for (size_t i = 4; i < w.size(); ++i) {
    if (!isInt(w[i])) return badOp();
    arg.push_back(std::stol(w[i]));
  }
  Result res;
  std::string err;
  stat("hyc_" + ck);
  if (ck == "tuple" || ck == "tvec" || ck == "arr") {
    Vals v;
    if (!parseVals(vs, v, 8, 1000)) return badOp();
    bool ok;
    if (ck == "tuple") ok = withLen<0>(v.size(), [&](auto idx) { auto t = mkTuple(v, idx); res = hybridContainerOp(t, v, op, arg, true); });
    else if (ck == "tvec") ok = withLen<1>(v.size(), [&](auto idx) { auto t = mkTupleVector(v, idx); res = hybridContainerOp(t, v, op, arg, true); });
    else ok = withLen<2>(v.size(), [&](auto idx) { auto t = mkArray(v, idx); res = hybridContainerOp(t, v, op, arg, true); });
    return ok ? res : badOp();
  }
  if (ck == "iseq") {
    Vals v;
    if (!parseVals(vs, v, 16, 1000)) return badOp();
    bool ok;
    if (op == "switchCases") {
      if (arg.size() != 1 || arg[0] < -1000 || arg[0] > 1000) return badOp();
      ok = withSeq(v, [&](auto seq) { res = hybridSwitchSeq(seq, v, arg[0]); });
    } else if (op == "switchCases3") {
      if (arg.size() != 1 || arg[0] < -1000 || arg[0] > 1000) return badOp();
      ok = withSeq(v, [&](auto seq) { res = hybridSwitchSeq3(seq, v, arg[0]); });
    } else if (op == "get" || op == "info" || op == "contains" || op == "difference" || op == "equal") {
      ok = withSeq(v, [&](auto seq) { res = seqHelperOp(seq, v, op, arg); });
    } else
      ok = withSeq(v, [&](auto seq) { res = hybridContainerOp(seq, v, op, arg, true); });
    return ok ? res : badOp();
  }
  if (ck == "irange") {
    long f, t;
    if (!parseFromTo(vs, f, t)) return badOp();
    if (op == "switchCases") {
      // IntegralRange<int> (dynamic) against StaticIntegralRange (bounds in [0,8])
      if (arg.size() != 1 || arg[0] < -1000 || arg[0] > 1000 || f < -1000 || t > 1000 || f > t) return badOp();
      long v = arg[0];
      long expect = (f <= v && v < t) ? 100 + v : -1;
      long d = H::switchCases(Dune::IntegralRange<int>((int)f, (int)t), (int)v, [&](auto i) { return 100 + (long)i; }, [&] { return -1L; });
      std::string s = "n/a";
      withStaticRange(f, t, [&](auto fc, auto tc) {
        auto sr = Dune::StaticIntegralRange<int, (int)decltype(tc)::value, (int)decltype(fc)::value>{};
        long r = H::switchCases(sr, (int)v, [&](auto i) { return 100 + (long)i; }, [&] { return -1L; });
        if (r != expect) note(err, "switchCases over a static range gives " + std::to_string(r) + ", expected " + std::to_string(expect));
        s = std::to_string(r);
      });
      if (d != expect) note(err, "switchCases over a dynamic range gives " + std::to_string(d) + ", expected " + std::to_string(expect));
      res.impl = sd(s, std::to_string(d));
      stat("hy_switchCases_range");
      if (!err.empty()) res.oracle = "FAIL " + err;
      return res;
    }
    if (op == "switchCases3") {
      if (arg.size() != 1 || arg[0] < -1000 || arg[0] > 1000 || f < -1000 || t > 1000 || f > t) return badOp();
      long v = arg[0];
      bool member = f <= v && v < t;
      std::string s = "n/a", d = "n/a";
      if (member) {
        long r = -5;
        H::switchCases(Dune::IntegralRange<int>((int)f, (int)t), (int)v, [&](auto i) { r = 100 + (long)i; });
        if (r != 100 + v) note(err, "three-argument switchCases over a dynamic range gives " + std::to_string(r));
        d = std::to_string(r);
        withStaticRange(f, t, [&](auto fc, auto tc) {
          auto sr = Dune::StaticIntegralRange<int, (int)decltype(tc)::value, (int)decltype(fc)::value>{};
          long r2 = -5;
          H::switchCases(sr, (int)v, [&](auto i) { r2 = 100 + (long)i; });
          if (r2 != 100 + v) note(err, "three-argument switchCases over a static range gives " + std::to_string(r2));
          s = std::to_string(r2);
        });
      }
      res.impl = sd(s, d);
      stat("hy_switchCases3_range");
      if (!member) res.oracle = "ok trivial";
      if (!err.empty()) res.oracle = "FAIL " + err;
      return res;
    }
    // Hybrid::integralRange(static bounds) vs Hybrid::integralRange(run-time bounds)
    Vals twin;
    for (long x = f; x < t; ++x) twin.push_back(x);
    bool ok = withStaticRange(f, t, [&](auto fc, auto tc) {
      auto sr = H::integralRange(fc, tc);
      auto dr = H::integralRange((std::size_t)f, (std::size_t)t);
      // the dynamic range must behave as the vector twin
      Vals dvals;
      H::forEach(dr, [&](auto&& e) { dvals.push_back(asLong(e)); });
      res = hybridContainerOp(sr, twin, op, arg, true);
      if (dvals != twin && res.oracle.rfind("ok", 0) == 0) res.oracle = "FAIL dynamic integralRange enumerates " + listStr(dvals);
      if ((long)H::size(dr) != t - f && res.oracle.rfind("ok", 0) == 0) res.oracle = "FAIL dynamic integralRange size";
      if constexpr (decltype(fc)::value == 0) {  // the one-argument forms start at 0
        Vals s1, d1;
        H::forEach(H::integralRange(tc), [&](auto&& e) { s1.push_back(asLong(e)); });
        H::forEach(H::integralRange((std::size_t)t), [&](auto&& e) { d1.push_back(asLong(e)); });
        if ((s1 != twin || d1 != twin) && res.oracle.rfind("ok", 0) == 0) res.oracle = "FAIL integralRange(end) enumerates " + listStr(s1) + " / " + listStr(d1);
      }
    });
    return ok ? res : badOp();
  }
  if (ck == "none") {
    if (vs != "[]") return badOp();
    if (op == "ifElse") {
      if (arg.size() != 1 || (arg[0] != 0 && arg[0] != 1)) return badOp();
      bool c = arg[0] == 1;
      int calls = 0;
      auto ifF = [&](auto id) { calls += 1; return id(111L); };
      auto elF = [&](auto id) { calls += 10; return id(222L); };
      long s = c ? H::ifElse(std::true_type{}, ifF, elF) : H::ifElse(std::false_type{}, ifF, elF);
      int sc = calls;
      calls = 0;
      long d = H::ifElse(c, ifF, elF);
      int dc = calls;
      // one-branch form
      int only = 0;
      if (c) H::ifElse(std::true_type{}, [&](auto) { only = 1; }); else H::ifElse(std::false_type{}, [&](auto) { only = 1; });
      long expect = c ? 111 : 222;
      int ecalls = c ? 1 : 10;
      if (s != expect || sc != ecalls) note(err, "static ifElse took the wrong branch");
      if (d != expect || dc != ecalls) note(err, "dynamic ifElse took the wrong branch");
      if (only != (c ? 1 : 0)) note(err, "one-branch ifElse called the branch wrongly");
      res.impl = sd(std::to_string(s), std::to_string(d));
      stat("hy_ifElse");
    } else if (op == "equal_to" || op == "plus" || op == "minus" || op == "max" || op == "min") {
      if (arg.size() != 2 || arg[0] < 0 || arg[0] > 7 || arg[1] < 0 || arg[1] > 7) return badOp();
      long x = arg[0], y = arg[1];
      auto apply = [&](auto&& a, auto&& b) {
        if (op == "equal_to") return (long)H::equal_to(a, b);
        if (op == "plus") return (long)H::plus(a, b);
        if (op == "minus") return (long)H::minus(a, b);
        if (op == "max") return (long)H::max(a, b);
        return (long)H::min(a, b);
      };
      long expect = op == "equal_to" ? (x == y) : op == "plus" ? x + y : op == "minus" ? x - y : op == "max" ? std::max(x, y) : std::min(x, y);
      long s = -99, m = -99, d = apply((int)x, (int)y);
      withConst<int, 8>(x, [&](auto xc) {
        m = apply(xc, (int)y);
        withConst<int, 8>(y, [&](auto yc) {
          s = apply(xc, yc);
          if constexpr (!Dune::IsIntegralConstant<decltype(H::equal_to(xc, yc))>::value) note(err, "equal_to of two integral constants is not an integral constant");
          if constexpr (!Dune::IsIntegralConstant<decltype(H::plus(xc, yc))>::value) note(err, "plus of two integral constants is not an integral constant");
        });
      });
      if (s != expect) note(err, "static " + op + " gives " + std::to_string(s));
      if (d != expect) note(err, "dynamic " + op + " gives " + std::to_string(d));
      if (m != expect) note(err, "mixed " + op + " gives " + std::to_string(m));
      auto show = [&](long r) { return op == "equal_to" ? std::string(r ? "true" : "false") : std::to_string(r); };
      res.impl = sd(show(s), show(d));
      stat("hy_" + op);
    } else return badOp();
    if (!err.empty()) res.oracle = "FAIL " + err;
    return res;
  }
  return badOp();
}

// ------------------------------------------------------------------------------------------------
// dispatch on the kind token
// ------------------------------------------------------------------------------------------------
// f(adapter) is called with the adapter for `kind` over the container described by `spec`
template <class F>
bool withKind(const std::string& kindTok, const std::string& spec, F&& f) {
  std::string kind;
  long k = 0;
  if (!splitPlus(kindTok, kind, k)) return false;
  const bool plus = kindTok.find('+') != std::string::npos;
  auto needPlus = [&](bool want) { return plus == want; };
  // integral ranges: spec = from:to
  if (kind.rfind("ir_", 0) == 0 || kind == "trir") {
    long fr, to;
    if (!needPlus(false) || !parseFromTo(spec, fr, to) || fr > to || to - fr > 64) return false;
    auto go = [&](auto tag) {
      using T = decltype(tag);
      if (!TypeLimits<T>::fits(fr, to)) return false;
      IntRangeKind<T> a(fr, to);
      f(a);
      return true;
    };
    if (kind == "ir_i8") return go((signed char)0);
    if (kind == "ir_u8") return go((unsigned char)0);
    if (kind == "ir_i16") return go((short)0);
    if (kind == "ir_i32") return go((int)0);
    if (kind == "ir_u32") return go((unsigned)0);
    if (kind == "ir_i64") return go((long)0);
    if (kind == "ir_u64") return go((unsigned long)0);
    if (kind == "ir_u64h") { IntRangeKind<unsigned long, true> a(fr, to); f(a); return true; }
    if (kind == "trir") {
      if (!TypeLimits<int>::fits(fr, to) || fr < -100000 || to > 100000) return false;
      TransformedIRKind a(fr, to);
      f(a);
      return true;
    }
    return false;
  }
  Vals v;
  if (!parseVals(spec, v, 12, 1000000)) return false;
  const std::size_t n = v.size();
  using namespace Dune;
  if (kind == "dynv" && needPlus(false)) { DenseVecKind<DynamicVector<long>> a(v); f(a); return true; }
  if (kind == "fvec" && needPlus(false)) {
    switch (n) {
      case 1: { DenseVecKind<FieldVector<long, 1>> a(v); f(a); return true; }
      case 3: { DenseVecKind<FieldVector<long, 3>> a(v); f(a); return true; }
      case 6: { DenseVecKind<FieldVector<long, 6>> a(v); f(a); return true; }
      default: return false;
    }
  }
  if (kind == "dmat" && needPlus(false)) { DenseMatKind<DynamicMatrix<long>> a(v); f(a); return true; }
  if (kind == "fmat" && needPlus(false)) {
    switch (n) {
      case 2: { DenseMatKind<FieldMatrix<long, 2, 2>> a(v); f(a); return true; }
      case 3: { DenseMatKind<FieldMatrix<long, 3, 2>> a(v); f(a); return true; }
      default: return false;
    }
  }
  if (kind == "diag" && needPlus(false)) {
    switch (n) {
      case 2: { DiagKind<2> a(v); f(a); return true; }
      case 3: { DiagKind<3> a(v); f(a); return true; }
      default: return false;
    }
  }
  if (kind == "al3" && needPlus(true)) { ArrayListKind<3> a(v, k); f(a); return true; }
  if (kind == "al100" && needPlus(true)) { ArrayListKind<100> a(v, k); f(a); return true; }
  if (kind == "al3p" && needPlus(true)) { ArrayListKind<3, true> a(v, k); f(a); return true; }
  if (kind == "sll" && needPlus(false)) { SLListKind<0> a(v); f(a); return true; }
  if (kind == "sllmod" && needPlus(false)) { SLListKind<1> a(v); f(a); return true; }
  if (kind == "sllmi" && needPlus(false)) { SLListKind<2> a(v); f(a); return true; }
  if (kind == "iidv" && needPlus(true)) { IndexedDenseKind a(v, k); f(a); return true; }
  if (kind == "trfun" && needPlus(false)) { TransformedFunKind a(v); f(a); return true; }
  if (kind == "nfadv" && needPlus(false)) { AdvOnlyKind a(v); f(a); return true; }
  if (kind == "gira" && needPlus(false)) { GenericKind<RandomAccessIteratorFacade, 2> a(v); f(a); return true; }
  if (kind == "gibi" && needPlus(false)) { GenericKind<BidirectionalIteratorFacade, 1> a(v); f(a); return true; }
  if (kind == "gifw" && needPlus(false)) { GenericKind<ForwardIteratorFacade, 0> a(v); f(a); return true; }
  if (kind == "owra" && needPlus(false)) { OneWayKind<RandomAccessIteratorFacade, 2> a(v); f(a); return true; }
  if (kind == "owbi" && needPlus(false)) { OneWayKind<BidirectionalIteratorFacade, 1> a(v); f(a); return true; }
  if (kind == "iiv" && needPlus(true)) { IndexedKind<std::vector<long>, 2> a(v, k); f(a); return true; }
  if (kind == "iil" && needPlus(true)) { IndexedKind<std::list<long>, 1> a(v, k); f(a); return true; }
  if (kind == "iif" && needPlus(true)) { IndexedKind<std::forward_list<long>, 0> a(v, k); f(a); return true; }
  if (kind == "trv" && needPlus(false)) { TransformedKind<std::vector<long>, 2> a(v); f(a); return true; }
  if (kind == "trl" && needPlus(false)) { TransformedKind<std::list<long>, 1> a(v); f(a); return true; }
  if (kind == "trf" && needPlus(false)) { TransformedKind<std::forward_list<long>, 0> a(v); f(a); return true; }
  if (kind == "spdv" && needPlus(false)) { SparseKind a(v); f(a); return true; }
  return false;
}

static Result execRange(const std::vector<std::string>& w) {
  if (w.size() < 4) return badOp();
  const std::string& kind = w[1];
  Result res;
  // IteratorRange over a sub-range of a DynamicVector / an SLList
  if (kind == "itr" || kind == "itrsl") {
    if (w.size() != 6 || w[3] != "enum" || !isInt(w[4]) || !isInt(w[5])) return badOp();
    Vals v;
    if (!parseVals(w[2], v, 12, 1000000)) return badOp();
    long a = std::stol(w[4]), b = std::stol(w[5]);
    if (a < 0 || a > b || b > (long)v.size()) return badOp();
    Vals out, expect(v.begin() + a, v.begin() + b);
    std::string err;
    if (kind == "itr") {
      auto dvv = DenseVecKind<Dune::DynamicVector<long>>::mk(v);
      Dune::IteratorRange<Dune::DynamicVector<long>::Iterator> r(dvv.begin() + a, dvv.begin() + b);
      for (auto&& e : r) out.push_back(e);
      Dune::IteratorRange<Dune::DynamicVector<long>::ConstIterator> rc(std::as_const(dvv).begin() + a, std::as_const(dvv).end() - ((long)v.size() - b));
      Vals oc;
      for (auto&& e : rc) oc.push_back(e);
      if (oc != out) note(err, "const IteratorRange differs");
      if ((long)(r.end() - r.begin()) != b - a) note(err, "end()-begin() of the IteratorRange is not its length");
    } else {
      Dune::SLList<long> l;
      for (long x : v) l.push_back(x);
      auto ib = l.begin();
      for (long i = 0; i < a; ++i) ++ib;
      auto ie = ib;
      for (long i = a; i < b; ++i) ++ie;
      Dune::IteratorRange<Dune::SLList<long>::iterator> r(ib, ie);
      for (auto&& e : r) out.push_back(e);
    }
    if (out != expect) note(err, "IteratorRange enumerates " + listStr(out) + ", expected " + listStr(expect));
    res.impl = listStr(out);
    stat("op_rg_" + kind);
    if (!err.empty()) res.oracle = "FAIL " + err;
    return res;
  }
  if (kind == "spdiag") {  // sparseRange over one row of a DiagonalMatrix: the entry paired with the ROW index
    if (w.size() != 5 || w[3] != "enum" || !isInt(w[4])) return badOp();
    Vals v;
    if (!parseVals(w[2], v, 12, 1000000)) return badOp();
    long row = std::stol(w[4]);
    if ((v.size() != 2 && v.size() != 3) || row < 0 || row >= (long)v.size()) return badOp();
    std::vector<std::pair<long, long>> out, outc, expect = {{v[row], row}};
    std::string err;
    auto run = [&](auto& d) {
      for (std::size_t i = 0; i < v.size(); ++i) d.diagonal(i) = v[i];
      for (auto&& [e, i] : Dune::sparseRange(d[row])) out.push_back({(long)e, (long)i});
      for (auto&& [e, i] : Dune::sparseRange(std::as_const(d)[row])) outc.push_back({(long)e, (long)i});
    };
    if (v.size() == 2) { Dune::DiagonalMatrix<long, 2> d; run(d); }
    else { Dune::DiagonalMatrix<long, 3> d; run(d); }
    if (out != expect) note(err, "sparse range over the diagonal row enumerates " + pairList(out) + ", expected " + pairList(expect));
    if (outc != out) note(err, "const sparse range differs");
    res.impl = pairList(out);
    stat("op_rg_spdiag");
    if (!err.empty()) res.oracle = "FAIL " + err;
    return res;
  }
  std::vector<long> arg;
  for (size_t i = 4; i < w.size(); ++i) {
    long x;
    if (!isLong(w[i], x)) return badOp();
    arg.push_back(x);
  }
  const std::string& op = w[3];
  if ((op == "contains" || op == "at" || op == "vat") ? arg.size() != 1
      : (op == "itcmp" || op == "tcmp" || op == "itadv" || op == "tadv") ? arg.size() != 2 : !arg.empty()) return badOp();
  if (kind.rfind("sir_", 0) == 0) {
    long f, t;
    if (!parseFromTo(w[2], f, t)) return badOp();
#define SIR(K, T, F, TO) if (kind == K && f == F && t == TO) return execStaticRange<T, F, TO>(op, arg);
    SIR("sir_i32", int, 0, 0) SIR("sir_i32", int, 0, 5) SIR("sir_i32", int, 2, 7) SIR("sir_i32", int, -3, 2)
    SIR("sir_u64", std::size_t, 0, 4) SIR("sir_u64", std::size_t, 3, 3) SIR("sir_u64", std::size_t, 1, 9)
    SIR("sir_u8", unsigned char, 250, 255) SIR("sir_i8", signed char, -128, -125) SIR("sir_i16", short, -7, -2)
#undef SIR
    return badOp();
  }
  if (kind.rfind("ir_", 0) == 0) {
    long f, t;
    if (!parseFromTo(w[2], f, t) || f > t) return badOp();
#define IR(K, T) if (kind == K) { if (!TypeLimits<T>::fits(f, t)) return badOp(); return execIntegralRange<T>(op, f, t, arg); }
    IR("ir_i8", signed char) IR("ir_u8", unsigned char) IR("ir_i16", short)
    IR("ir_i32", int) IR("ir_u32", unsigned) IR("ir_i64", long) IR("ir_u64", unsigned long)
#undef IR
    if (kind == "ir_u64h") return execIntegralRange<unsigned long, true>(op, f, t, arg);
    return badOp();
  }
  if (op == "vsize" || op == "vempty" || op == "vat") {  // TransformedRangeView::size(), empty(), operator[]
    if (kind != "trv") return badOp();
    Vals v;
    if (!parseVals(w[2], v, 12, 1000000)) return badOp();
    std::vector<long> c(v.begin(), v.end()), log;
    auto view = Dune::transformedRangeView(c, LogF{&log});
    std::string err;
    if (op == "vsize") {
      res.impl = std::to_string(view.size());
      if ((long)view.size() != (long)v.size() || (long)std::as_const(view).size() != (long)v.size()) note(err, "size() of the view is " + res.impl);
    } else if (op == "vempty") {
      res.impl = view.empty() ? "true" : "false";
      if (view.empty() != v.empty()) note(err, "empty() of the view is " + res.impl);
    } else {
      long i = arg.at(0);
      if (i < 0 || i >= (long)v.size()) return badOp();
      long got = view[(std::size_t)i], gotc = std::as_const(view)[(std::size_t)i];
      res.impl = std::to_string(got);
      if (got != 3 * v[i] + 1 || gotc != got)
        note(err, "view[i] is " + res.impl + " (const view: " + std::to_string(gotc) + "), f(c[i]) is " + std::to_string(3 * v[i] + 1));
      if (log != std::vector<long>{v[i], v[i]}) note(err, "view[i] applied f to " + listStr(log));
    }
    stat("op_rg_" + op);
    if (!err.empty()) res.oracle = "FAIL " + err;
    return res;
  }
  if (op != "enum") return badOp();
  bool ok = withKind(kind, w[2], [&](auto& a) {
    using A = std::decay_t<decltype(a)>;
    if constexpr (requires { a.log; a.view; }) {
      Vals base;
      if constexpr (requires { a.from; }) { for (long x = a.from; x < a.to; ++x) base.push_back(x); }
      else base = a.vals;
      res = enumTransformed(a, base);
    } else if constexpr (std::is_same_v<A, SparseKind>) {
      std::vector<std::pair<long, long>> out, expect;
      std::string err;
      for (auto&& [e, i] : a.view) out.push_back({(long)e, (long)i});
      for (std::size_t i = 0; i < a.vals.size(); ++i) expect.push_back({a.vals[i], (long)i});
      if (out != expect) note(err, "sparse range enumerates " + pairList(out) + ", expected " + pairList(expect));
      res.impl = pairList(out);
      stat("op_enum_sparse");
      if (!err.empty()) res.oracle = "FAIL " + err;
    } else
      res = enumKind(a);
  });
  return ok ? res : badOp();
}

static Result exec(const std::string& line) {
  std::vector<std::string> w = words(line);
  if (w.empty()) return badOp();
  if (w[0] == "hy") return execHybrid(w);
  if (w[0] == "rg") return execRange(w);
  if (w[0] != "it" || w.size() < 6) return badOp();
  Result res;
  bool ok = withKind(w[1], w[2], [&](auto& a) {
    stat("kind_" + w[1].substr(0, w[1].find('+')));
    Tab T = makeTab(a);
    res = (w[3] == "hist") ? execHist(T, w) : execIt(T, w, 3);
  });
  return ok ? res : badOp();
}

// ------------------------------------------------------------------------------------------------
// generator
// ------------------------------------------------------------------------------------------------
struct KSpec {
  const char* name;
  int cat;
  bool beforeBegin, mixedRel, nplus, hasIndex;
  int plusMax;                 // -1: no "+k" suffix
  std::vector<int> sizes;      // allowed sizes; empty = 0..8
  bool fromTo;                 // container spec is from:to
  long tmin, tmax;             // value limits for fromTo kinds
  bool keepsType = true, hasConv = false, hasBeforeEnd = false, hasFind = false;
  long straddle = 0;           // a value the ranges of a fromTo kind should also straddle (largest signed value of an unsigned type)
};
static const std::vector<KSpec>& kinds() {
  const long LMAX = std::numeric_limits<long>::max(), LMIN = std::numeric_limits<long>::min();
  static const std::vector<KSpec> k = {
      {"dynv", 2, true, true, false, true, -1, {}, false, 0, 0},
      {"fvec", 2, true, true, false, true, -1, {1, 3, 6}, false, 0, 0},
      {"dmat", 2, true, true, false, true, -1, {}, false, 0, 0},
      {"fmat", 2, true, true, false, true, -1, {2, 3}, false, 0, 0},
      {"diag", 1, true, true, false, true, -1, {2, 3}, false, 0, 0},
      {"al3", 2, false, false, false, false, 7, {}, false, 0, 0},
      {"al100", 2, false, false, false, false, 3, {}, false, 0, 0},
      {"sll", 0, false, true, false, false, -1, {}, false, 0, 0},
      {"sllmod", 0, false, true, false, false, -1, {}, false, 0, 0},
      {"gira", 2, true, true, false, false, -1, {}, false, 0, 0},
      {"gibi", 1, true, true, false, false, -1, {}, false, 0, 0},
      {"gifw", 0, true, true, false, false, -1, {}, false, 0, 0},
      {"owra", 2, true, true, false, false, -1, {}, false, 0, 0},
      {"owbi", 1, true, true, false, false, -1, {}, false, 0, 0},
      {"iiv", 2, false, true, false, true, 9, {}, false, 0, 0},
      {"iil", 1, false, true, false, true, 9, {}, false, 0, 0},
      {"iif", 0, false, true, false, true, 9, {}, false, 0, 0},
      {"trv", 2, false, true, true, false, -1, {}, false, 0, 0},
      {"trl", 1, false, true, false, false, -1, {}, false, 0, 0},
      {"trf", 0, false, true, false, false, -1, {}, false, 0, 0},
      {"spdv", 2, false, true, true, false, -1, {}, false, 0, 0},
      {"trir", 2, false, true, true, false, -1, {}, true, -100000, 100000},
      {"ir_i8", 2, false, true, true, false, -1, {}, true, -128, 127},
      {"ir_u8", 2, false, true, true, false, -1, {}, true, 0, 255},
      {"ir_i16", 2, false, true, true, false, -1, {}, true, -32768, 32767},
      {"ir_i32", 2, false, true, true, false, -1, {}, true, -2147483648L, 2147483647L},
      {"ir_u32", 2, false, true, true, false, -1, {}, true, 0, 4294967295L},
      {"ir_i64", 2, false, true, true, false, -1, {}, true, LMIN, LMAX},
      {"ir_u64", 2, false, true, true, false, -1, {}, true, 0, LMAX},
      {"ir_u64h", 2, false, true, true, false, -1, {}, true, LMIN, LMAX},
      {"al3p", 2, false, false, false, false, 7, {}, false, 0, 0},
      {"sllmi", 0, false, true, false, false, -1, {}, false, 0, 0},
      {"iidv", 2, false, true, false, true, 9, {}, false, 0, 0},
      {"trfun", 2, false, true, true, false, -1, {}, false, 0, 0},
      {"nfadv", 2, false, true, true, false, -1, {}, false, 0, 0},
  };
  static bool init = false;
  if (!init) {
    init = true;
    auto& kk = const_cast<std::vector<KSpec>&>(k);
    for (auto& x : kk) {
      std::string nm = x.name;
      auto in = [&](std::initializer_list<const char*> l) { for (auto* y : l) if (nm == y) return true; return false; };
      x.keepsType = !in({"iiv", "iil", "iif", "iidv"});
      x.hasConv = in({"dynv", "fvec", "dmat", "fmat", "diag", "al3", "al100", "al3p", "sll", "sllmod", "sllmi", "gira", "gibi", "gifw", "owra", "owbi"});
      x.hasBeforeEnd = in({"dynv", "fvec", "dmat", "fmat", "diag"});
      x.hasFind = in({"dynv", "fvec"});
      if (nm == "ir_u32") x.straddle = 2147483647L;   // 2^31 - 1
      if (nm == "ir_u8") x.straddle = 127;
      if (nm == "ir_u64h") x.straddle = -1;           // relative to 2^63: the values 2^63-1 | 2^63
    }
  }
  return k;
}

static std::string genVals(Rng& r, long n, long maxAbs) {
  Vals v;
  int style = (int)r.below(4);
  for (long i = 0; i < n; ++i) {
    long x;
    if (style == 0) x = r.range(-3, 3);               // many duplicates
    else if (style == 1) x = 10 * (i + 1) + r.range(0, 3);
    else if (style == 2) x = r.range(-maxAbs, maxAbs);
    else x = r.coin() ? 0 : r.range(-9, 9);
    v.push_back(x);
  }
  return listStr(v);
}

// container spec token for a kind; returns the number of positions n
static std::string genSpec(Rng& r, const KSpec& k, long& n) {
  if (k.fromTo) {
    n = r.coin(1, 8) ? 0 : r.range(0, r.coin(1, 6) ? 12 : 6);
    // the difference type of narrow types must be able to hold n
    long from;
    long span = k.tmax - (k.tmin < 0 ? 0 : 0);
    (void)span;
    switch (r.below(k.straddle != 0 ? 8 : 6)) {
      case 6: case 7: from = k.straddle - r.range(0, n) + (n > 0 ? 1 : 0); break;  // the range contains straddle and straddle+1
      case 0: from = k.tmin; break;
      case 1: from = k.tmax - n; break;
      case 2: from = (k.tmin < 0) ? -r.range(0, n) : 0; break;  // straddles zero for signed types
      case 3: from = k.tmin + r.range(0, 2); break;
      case 4: from = k.tmax - n - r.range(0, 2); break;
      default: from = (k.tmin < 0 ? r.range(-50, 50) : r.range(0, 100)); break;
    }
    if (from < k.tmin) from = k.tmin;
    if (from > k.tmax - n) from = k.tmax - n;
    return std::to_string(from) + ":" + std::to_string(from + n);
  }
  if (k.sizes.empty()) n = r.coin(1, 8) ? 0 : r.range(0, r.coin(1, 6) ? 10 : 5);
  else n = k.sizes[r.below(k.sizes.size())];
  return genVals(r, n, r.coin(1, 4) ? 1000000 : 50);
}

static std::string genIt(Rng& r) {
  const KSpec& k = r.pick(kinds());
  long n = 0;
  std::string spec = genSpec(r, k, n);
  std::string kind = k.name;
  if (k.plusMax >= 0) kind += "+" + std::to_string(r.coin(1, 3) ? 0 : r.range(0, k.plusMax));
  const long lo = k.beforeBegin ? -1 : 0;
  std::ostringstream os;
  os << "it " << kind << " " << spec << " ";
  auto pos = [&](long a, long b) -> long {  // boundary-biased position in [a,b]
    if (a > b) return NOPOS;
    switch (r.below(5)) {
      case 0: return a;
      case 1: return b;
      default: return r.range(a, b);
    }
  };
  std::vector<std::string> ops = {"preinc", "postinc", "deref", "eq", "ne", "steps", "eq", "ne"};
  if (k.hasIndex) ops.push_back("index");
  if (k.cat >= 1) for (auto o : {"predec", "postdec", "incdec", "decinc", "steps"}) ops.push_back(o);
  if (k.cat >= 2)
    for (auto o : {"addeq", "subeq", "plus", "minus", "at", "diff", "lt", "le", "gt", "ge", "lt", "le", "gt", "ge", "diff"}) ops.push_back(o);
  if (k.nplus) ops.push_back("nplus");
  if (k.hasConv) ops.push_back("conv");
  if (k.hasBeforeEnd) ops.push_back("beforeend");
  if (k.hasFind) ops.push_back("find");
  for (int j = 0; j < 3; ++j) ops.push_back("hist");
  std::string op = r.pick(ops);
  std::string c1 = r.coin() ? "m" : "c";
  std::string c2 = r.coin() ? "m" : "c";
  auto fallback = [&]() { os << "eq " << n << " " << n << " " << c1 << c2; return os.str(); };
  if (op == "conv") {
    os << op << " " << pos(lo, n) << " m";
    return os.str();
  }
  if (op == "beforeend") {
    os << op << " " << n << " " << c1;
    return os.str();
  }
  if (op == "find") {
    os << op << " " << (r.coin(1, 4) ? n + r.range(0, 4) : pos(0, n)) << " " << c1;
    return os.str();
  }
  if (op == "hist") {
    long q = pos(lo, n);
    const long q0 = q;
    std::ostringstream hs;
    long len = r.coin(1, 5) ? r.range(9, 24) : r.range(1, 8);
    for (long j = 0; j < len; ++j) {
      std::vector<std::string> cand = {"i", "I"};
      if (k.cat >= 1) { cand.push_back("d"); cand.push_back("D"); }
      if (k.cat >= 2) {
        cand.push_back("a"); cand.push_back("s");
        if (k.keepsType) { cand.push_back("p"); cand.push_back("m"); }
        if (k.keepsType && k.nplus) cand.push_back("n");
      }
      std::string st = r.pick(cand);
      long t = q;
      if (st == "i" || st == "I") t = q + 1;
      else if (st == "d" || st == "D") t = q - 1;
      else {
        t = pos(lo, n);  // boundary-biased target
        long delta = (st == "s" || st == "m") ? q - t : t - q;
        st += std::to_string(delta);
      }
      if (t < lo || t > n) {  // step not possible here: turn around
        if (t > n && k.cat >= 1) { st = "d"; t = q - 1; }
        else if (t < lo) { st = "i"; t = q + 1; }
        else break;
        if (t < lo || t > n) break;
      }
      if (!hs.str().empty()) hs << ";";
      hs << st;
      q = t;
    }
    if (hs.str().empty()) return fallback();
    os << op << " " << q0 << " " << c1 << " : " << hs.str();
    return os.str();
  }
  if (op == "preinc" || op == "postinc" || op == "incdec") {
    long p = pos(lo, n - 1);
    if (p == NOPOS) return fallback();
    os << op << " " << p << " " << c1;
  } else if (op == "predec" || op == "postdec" || op == "decinc") {
    long p = pos(lo + 1, n);
    if (p == NOPOS) return fallback();
    os << op << " " << p << " " << c1;
  } else if (op == "deref") {
    long p = pos(0, n - 1);
    if (p == NOPOS) return fallback();
    os << op << " " << p << " " << c1;
  } else if (op == "index") {
    os << op << " " << pos(lo, n) << " " << c1;
  } else if (op == "steps" || op == "addeq" || op == "plus" || op == "nplus") {
    long p = pos(lo, n);
    long t = (op == "steps" && k.cat < 1) ? pos(p, n) : pos(lo, n);
    os << op << " " << p << " " << (t - p) << " " << c1;
  } else if (op == "subeq" || op == "minus") {
    long p = pos(lo, n), t = pos(lo, n);
    os << op << " " << p << " " << (p - t) << " " << c1;
  } else if (op == "at") {
    long p = pos(lo, n), t = pos(0, n - 1);
    if (t == NOPOS) return fallback();
    os << op << " " << p << " " << (t - p) << " " << c1;
  } else {
    long p = pos(lo, n), q;
    switch (r.below(4)) {
      case 0: q = p; break;
      case 1: q = (p + 1 <= n) ? p + 1 : p; break;
      case 2: q = (p - 1 >= lo) ? p - 1 : p; break;
      default: q = pos(lo, n); break;
    }
    bool rel = !(op == "eq" || op == "ne");
    if (rel && !k.mixedRel) c2 = c1;
    os << op << " " << p << " " << q << " " << c1 << c2;
  }
  return os.str();
}

static std::string genRange(Rng& r) {
  std::ostringstream os;
  int w = (int)r.below(10);
  if (w < 4) {  // integral ranges
    std::vector<const KSpec*> irs;
    for (auto& k : kinds()) if (std::string(k.name).rfind("ir_", 0) == 0) irs.push_back(&k);
    const KSpec& k = *irs[r.below(irs.size())];
    if (r.coin(1, 2)) {
      // two positions of a range of any extent of the type: bounds and values biased to the limits of the type,
      // to each other, and to distances around max(difference_type)
      const __int128 lo = k.tmin, hi = k.tmax;
      const __int128 half = (hi - lo) / 2;  // = max(difference_type) (for ir_u64: the reachable half of the type)
      auto anyv = [&](__int128 a, __int128 b) -> long {  // a value in [a, b]
        if (a >= b) return (long)a;
        unsigned __int128 span = (unsigned __int128)(b - a);
        switch (r.below(6)) {
          case 0: return (long)a;
          case 1: return (long)b;
          case 2: { __int128 c = a + (__int128)r.below(4); return (long)(c <= b ? c : b); }
          case 3: { __int128 c = b - (__int128)r.below(4); return (long)(c >= a ? c : a); }
          default: {
            unsigned __int128 u = ((unsigned __int128)r.below(1ul << 62) << 62) ^ (unsigned __int128)r.below(1ul << 62);
            return (long)(a + (__int128)(u % (span + 1)));
          }
        }
      };
      long f = anyv(lo, hi), t = anyv(lo, hi);
      if (r.coin(1, 2)) { f = (long)lo; t = (long)hi; }
      if (f > t) std::swap(f, t);
      long x = anyv(f, t), y;
      switch (r.below(6)) {
        case 0: y = x; break;
        case 1: y = anyv(f, t); break;
        case 2: y = (x < t) ? x + 1 : x; break;
        default: {  // a distance around max(difference_type), either side
          __int128 dist = half + (__int128)r.range(-2, 2);
          if (r.coin(1, 3)) dist = (__int128)anyv(half + 1 - (1 + half), (hi - lo) - (1 + half)) + (1 + half);  // anywhere beyond max(difference_type)
          __int128 c = r.coin() ? (__int128)x + dist : (__int128)x - dist;
          if (c < (__int128)f) c = f;
          if (c > (__int128)t) c = t;
          y = (long)c;
        }
      }
      if (r.coin()) std::swap(x, y);
      std::string op = r.pick(std::vector<std::string>{"itcmp", "itcmp", "itcmp", "tcmp", "tcmp", "itadv", "itadv", "tadv", "size", "contains", "empty"});
      if (op == "size" || op == "empty") { os << "rg " << k.name << " " << f << ":" << t << " " << op; return os.str(); }
      if (op == "contains") {
        long c = r.coin() ? x : anyv(lo, hi);
        if (std::string(k.name) == "ir_u64h" || std::string(k.name) == "ir_u64") c = x;
        os << "rg " << k.name << " " << f << ":" << t << " contains " << c;
        return os.str();
      }
      if (op == "itadv" || op == "tadv") {
        __int128 n = (__int128)y - (__int128)x;  // move from x to y when difference_type can hold n and -n
        if (n > half || n < -half) n = (n > 0) ? half : -half;
        if ((__int128)x + n > (__int128)t || (__int128)x + n < (__int128)f) n = 0;
        y = (long)n;
      }
      os << "rg " << k.name << " " << f << ":" << t << " " << op << " " << x << " " << y;
      return os.str();
    }
    long n;
    std::string spec = genSpec(r, k, n);
    long f, t;
    parseFromTo(spec, f, t);
    std::string op = r.pick(std::vector<std::string>{"size", "empty", "enum", "enum", "contains", "at", "enum_to", "enum_pair"});
    if (op == "at" && n == 0) op = "size";
    if (std::string(k.name) == "ir_u64h" && (op == "enum_to" || op == "enum_pair")) op = "enum";
    if (op == "enum_to") { spec = "0:" + std::to_string(n); f = 0; t = n; }
    os << "rg " << k.name << " " << spec << " " << op;
    if (op == "contains") {
      long x;
      switch (r.below(5)) {
        case 0: x = f; break;
        case 1: x = t; break;
        case 2: x = (t > k.tmin) ? t - 1 : t; break;
        case 3: x = (f > k.tmin) ? f - 1 : f; break;
        default: x = (f < k.tmax - 20 ? f + r.range(0, 20) : f); break;
      }
      os << " " << x;
    }
    if (op == "at") os << " " << r.range(0, n - 1);
    return os.str();
  }
  if (w == 4) {  // static integral ranges
    struct S { const char* k; long f, t; };
    static const std::vector<S> cat = {{"sir_i32", 0, 0}, {"sir_i32", 0, 5}, {"sir_i32", 2, 7}, {"sir_i32", -3, 2},
                                       {"sir_u64", 0, 4}, {"sir_u64", 3, 3}, {"sir_u64", 1, 9}, {"sir_u8", 250, 255},
                                       {"sir_i8", -128, -125}, {"sir_i16", -7, -2}};
    const S& s = r.pick(cat);
    std::string op = r.pick(std::vector<std::string>{"size", "empty", "enum", "contains", "at"});
    if (op == "at" && s.f == s.t) op = "enum";
    os << "rg " << s.k << " " << s.f << ":" << s.t << " " << op;
    if (op == "contains") {
      long x = r.range(s.f - 2, s.t + 1);
      if (std::string(s.k) == "sir_u64" || std::string(s.k) == "sir_u8") x = std::max(0L, x);
      if (std::string(s.k) == "sir_u8") x = std::min(255L, x);
      if (std::string(s.k) == "sir_i8") x = std::max(-128L, x);
      os << " " << x;
    }
    if (op == "at") os << " " << r.range(0, s.t - s.f - 1);
    return os.str();
  }
  if (w == 5 && r.coin(1, 3)) {  // TransformedRangeView members / sparse range over a diagonal row
    if (r.coin()) {
      long n = r.range(0, 6);
      std::string op = r.pick(std::vector<std::string>{"vsize", "vempty", "vat"});
      if (op == "vat" && n == 0) op = "vempty";
      os << "rg trv " << genVals(r, n, 50) << " " << op;
      if (op == "vat") os << " " << r.range(0, n - 1);
    } else {
      long n = r.range(2, 3);
      os << "rg spdiag " << genVals(r, n, 50) << " enum " << r.range(0, n - 1);
    }
    return os.str();
  }
  if (w == 5) {  // IteratorRange
    long n = r.range(0, 8);
    long a = r.range(0, n), b = r.range(a, n);
    os << "rg " << (r.coin() ? "itr" : "itrsl") << " " << genVals(r, n, 50) << " enum " << a << " " << b;
    return os.str();
  }
  // range-for over a kind (transformed and sparse ranges twice as often)
  std::vector<const KSpec*> ks;
  for (auto& k : kinds()) {
    std::string nm = k.name;
    if (nm.rfind("ir_", 0) == 0) continue;
    ks.push_back(&k);
    if (nm.rfind("tr", 0) == 0 || nm == "spdv") { ks.push_back(&k); ks.push_back(&k); }
  }
  const KSpec& k = *ks[r.below(ks.size())];
  long n;
  std::string spec = genSpec(r, k, n);
  std::string kind = k.name;
  if (k.plusMax >= 0) kind += "+" + std::to_string(r.range(0, k.plusMax));
  os << "rg " << kind << " " << spec << " enum";
  return os.str();
}

static std::string genHybrid(Rng& r) {
  std::ostringstream os;
  int w = (int)r.below(10);
  if (w < 5) {
    std::string ck = r.pick(std::vector<std::string>{"tuple", "tvec", "arr", "iseq"});
    std::string vals;
    long n;
    if (ck == "iseq") {
      const Vals& v = r.pick(seqCatalogue());
      vals = listStr(v);
      n = (long)v.size();
    } else {
      n = ck == "tuple" ? r.range(0, 6) : ck == "tvec" ? r.pick(std::vector<long>{0, 1, 3, 6}) : r.pick(std::vector<long>{0, 2, 5});
      vals = genVals(r, n, 1000);
    }
    std::string op = r.pick(std::vector<std::string>{"size", "elementAt", "forEach", "accumulate"});
    if (op == "elementAt" && n == 0) op = "forEach";
    os << "hy " << ck << " " << vals << " " << op;
    if (op == "elementAt") os << " " << r.range(0, n - 1);
    if (op == "accumulate") os << " " << r.range(-5, 5);
    return os.str();
  }
  if (w == 5 && r.coin()) {  // integer_sequence helpers
    const Vals& v = r.pick(seqCatalogue());
    std::string op = r.pick(std::vector<std::string>{"get", "info", "contains", "difference", "equal"});
    if (op == "get" && v.empty()) op = "info";
    os << "hy iseq " << listStr(v) << " " << op;
    if (op == "get") os << " " << r.range(0, (long)v.size() - 1);
    if (op == "contains") os << " " << ((!v.empty() && r.coin() && v[0] >= 0 && v[0] < 10) ? v[0] : r.range(0, 9));
    if (op == "difference" || op == "equal") os << " " << r.below(seqCatalogue().size());
    return os.str();
  }
  if (w == 5) {
    const Vals& v = r.pick(seqCatalogue());
    long x = (!v.empty() && r.coin(2, 3)) ? v[r.below(v.size())] : r.range(-3, 11);
    os << "hy iseq " << listStr(v) << " " << (r.coin(1, 3) ? "switchCases3" : "switchCases") << " " << x;
    return os.str();
  }
  if (w == 6) {
    auto sr = r.pick(staticRanges());
    long f = sr.first, t = sr.second;
    if (r.coin(1, 4)) { f = r.range(-20, 20); t = f + r.range(0, 10); }
    long x;
    switch (r.below(4)) {
      case 0: x = f; break;
      case 1: x = t; break;
      case 2: x = t - 1; break;
      default: x = r.range(f - 2, t + 2); break;
    }
    os << "hy irange " << f << ":" << t << " " << (r.coin(1, 3) ? "switchCases3" : "switchCases") << " " << x;
    return os.str();
  }
  if (w == 7) {
    auto sr = r.pick(staticRanges());
    long f = sr.first, t = sr.second;
    std::string op = r.pick(std::vector<std::string>{"size", "elementAt", "forEach", "accumulate"});
    if (op == "elementAt" && f == t) op = "forEach";
    os << "hy irange " << f << ":" << t << " " << op;
    if (op == "elementAt") os << " " << r.range(0, t - f - 1);
    if (op == "accumulate") os << " " << r.range(-5, 5);
    return os.str();
  }
  if (w == 8) {
    os << "hy none [] ifElse " << r.below(2);
    return os.str();
  }
  long x = r.range(0, 7), y = r.coin(1, 3) ? x : r.range(0, 7);
  os << "hy none [] " << r.pick(std::vector<std::string>{"equal_to", "equal_to", "plus", "minus", "max", "min"}) << " " << x << " " << y;
  return os.str();
}

static std::string gen(Rng& r, long, const Args&) {
  int w = (int)r.below(20);
  if (w < 14) return genIt(r);
  if (w < 17) return genRange(r);
  return genHybrid(r);
}

int main(int argc, char** argv) { return dv::run(argc, argv, gen, exec); }
