// MPI variant of the harness main loop (see hcommon.hh for the file protocol).
// Rank 0 generates / reads the op line and broadcasts it; every rank runs exec(line) collectively and returns its
// local Result; rank 0 writes  impl = "r0{...} r1{...} ..."  and  oracle = first FAIL of any rank (or ok / ok trivial
// if all agree).  A per-case alarm() turns a deadlock into a crash that identifies the op.
#ifndef DV_HCOMMON_MPI_HH
#define DV_HCOMMON_MPI_HH
#include <mpi.h>
#include <unistd.h>

#include "hcommon.hh"

extern "C" void dv_sched_seed(uint64_t s);
extern "C" long dv_sched_choices();
extern "C" long dv_sched_multi();

namespace dv {

inline void bcastString(std::string& s, MPI_Comm comm = MPI_COMM_WORLD) {
  int rank;
  MPI_Comm_rank(comm, &rank);
  int len = (int)s.size();
  MPI_Bcast(&len, 1, MPI_INT, 0, comm);
  s.resize(len);
  if (len) MPI_Bcast(&s[0], len, MPI_CHAR, 0, comm);
}

// every rank contributes a string; every rank receives all of them (rank order)
inline std::vector<std::string> allgatherStrings(const std::string& local, MPI_Comm comm = MPI_COMM_WORLD) {
  int size, rank;
  MPI_Comm_size(comm, &size);
  MPI_Comm_rank(comm, &rank);
  int len = (int)local.size();
  std::vector<int> lens(size), displ(size);
  MPI_Allgather(&len, 1, MPI_INT, lens.data(), 1, MPI_INT, comm);
  int total = 0;
  for (int i = 0; i < size; ++i) { displ[i] = total; total += lens[i]; }
  std::string all(total, '\0');
  MPI_Allgatherv(local.data(), len, MPI_CHAR, total ? &all[0] : nullptr, lens.data(), displ.data(), MPI_CHAR, comm);
  std::vector<std::string> out(size);
  for (int i = 0; i < size; ++i) out[i] = all.substr(displ[i], lens[i]);
  return out;
}

// gen is called on rank 0 only; exec on all ranks with the same line.  schedSeed: the PMPI scheduler is reseeded
// for every case from (seed, case index) unless --sched 0 is given.
inline int runMpi(int argc, char** argv,
                  const std::function<std::string(Rng&, long, const Args&)>& gen,
                  const std::function<Result(const std::string&)>& exec) {
  int rank, size;
  MPI_Comm_rank(MPI_COMM_WORLD, &rank);
  MPI_Comm_size(MPI_COMM_WORLD, &size);
  Args a = parseArgs(argc, argv);
  long caseTimeout = a.get("case-timeout", 120);
  bool sched = a.get("sched", 1) != 0;
  std::ofstream impl, oracle, ops;
  std::vector<std::string> replayLines;
  if (rank == 0) {
    impl.open(a.out + ".impl");
    oracle.open(a.out + ".oracle");
    if (a.replay.empty()) ops.open(a.out + ".ops");
    else {
      std::ifstream in(a.replay);
      std::string l;
      while (std::getline(in, l)) replayLines.push_back(l);
    }
  }
  long n = a.replay.empty() ? a.cases : (long)replayLines.size();
  MPI_Bcast(&n, 1, MPI_LONG, 0, MPI_COMM_WORLD);
  Rng rng(a.seed);
  for (long i = 0; i < n; ++i) {
    std::string line;
    if (rank == 0) {
      line = a.replay.empty() ? gen(rng, i, a) : replayLines[i];
      if (a.replay.empty()) ops << line << "\n" << std::flush;
    }
    dv_sched_seed(0);
    bcastString(line);
    dv_sched_seed(sched ? (a.seed * 1000003ull + (uint64_t)i + 1) : 0);
    alarm((unsigned)caseTimeout);
    Result r;
    try {
      r = exec(line);
    } catch (std::exception& e) {
      r.impl = "HARNESS-EXCEPTION";
      r.oracle = std::string("FAIL unexpected exception escaped: ") + e.what();
    } catch (...) {
      r.impl = "HARNESS-EXCEPTION";
      r.oracle = "FAIL unexpected non-std exception escaped";
    }
    dv_sched_seed(0);
    auto impls = allgatherStrings(r.impl);
    auto oracles = allgatherStrings(r.oracle);
    alarm(0);
    if (rank == 0) {
      std::string im, orc = "ok trivial";
      for (int p = 0; p < size; ++p) {
        if (p) im += " ";
        im += "r" + std::to_string(p) + "{" + impls[p] + "}";
      }
      bool anyNontrivial = false;
      for (int p = 0; p < size; ++p) {
        if (oracles[p].rfind("ok", 0) != 0) { orc = "FAIL rank " + std::to_string(p) + ": " + oracles[p].substr(oracles[p].rfind("FAIL", 0) == 0 ? 5 : 0); break; }
        if (oracles[p] == "ok") anyNontrivial = true;
      }
      if (orc == "ok trivial" && anyNontrivial) orc = "ok";
      for (auto& c : im) if (c == '\n') c = ' ';
      for (auto& c : orc) if (c == '\n') c = ' ';
      impl << im << "\n" << std::flush;
      oracle << orc << "\n" << std::flush;
    }
  }
  long ch = dv_sched_choices(), mu = dv_sched_multi(), chs = 0, mus = 0;
  MPI_Reduce(&ch, &chs, 1, MPI_LONG, MPI_SUM, 0, MPI_COMM_WORLD);
  MPI_Reduce(&mu, &mus, 1, MPI_LONG, MPI_SUM, 0, MPI_COMM_WORLD);
  if (rank == 0) {
    stat("sched_choices", chs);
    stat("sched_choices_with_alternatives", mus);
    stat("np_" + std::to_string(size), n);
    writeStats(a.out);
  }
  return 0;
}

}  // namespace dv
#endif
