// C09 correspondence harness, second translation unit: the configuration DUNE_FMatrix_WITH_CHECKING.
//
// densematrix.hh compiles five extra tests into the closed forms of solve() (n = 1, 2, 3) and invert() (n = 1, 2) when
// DUNE_FMatrix_WITH_CHECKING is defined:  if (Simd::anyTrue(absreal(det) < FMatrixPrecision<>::absolute_limit())) throw.
// For a matrix of SIMD numbers this is where a lane mask is reduced to one bool: the call has to throw exactly if the
// scalar call throws for at least one lane.  The main translation unit (cxx_c09.cc) is the default configuration; this
// one compiles the very same headers once more with the macro defined.  To keep the two sets of inline functions
// (DenseMatrix<...>::solve etc. are the same entities otherwise: one definition rule) apart, the whole library lives in
// another namespace here: every token `Dune` is renamed, exceptions.cc is included at the end to define the renamed
// exception classes.
//
//   matc <solve|inv> <shape> <n> <piv> <limit> <A> [<b>]     shape: 2 4 (double), 2x2 (nested double), f4 (float),
//                                                           d4 (DynamicMatrix<LoopSIMD<double,4>>); limit = absolute_limit()
#define DUNE_FMatrix_WITH_CHECKING 1
#define Dune DuneChk
#include <config.h>

#include <array>
#include <cmath>
#include <cstdint>
#include <cstring>
#include <string>
#include <vector>

#include <dune/common/exceptions.hh>
#include <dune/common/dynmatrix.hh>
#include <dune/common/dynvector.hh>
#include <dune/common/fmatrix.hh>
#include <dune/common/fvector.hh>
#include <dune/common/precision.hh>
#include <dune/common/simd/loop.hh>
#include <dune/common/simd/simd.hh>

#include "hcommon.hh"

namespace {

using Dune::LoopSIMD;
using dv::Result;

template <class T> struct Cod;
template <> struct Cod<double> {
  static double parse(const std::string& s) {
    if (!s.empty() && s[0] == 'x') { uint64_t b = std::stoull(s.substr(1), nullptr, 16); double x; std::memcpy(&x, &b, 8); return x; }
    return (double)std::stoll(s);
  }
  static std::string show(double x) {
    if (x != x) return "x7ff8000000000000";
    uint64_t b; std::memcpy(&b, &x, 8);
    char buf[32]; std::snprintf(buf, sizeof buf, "x%016llx", (unsigned long long)b);
    return buf;
  }
  static bool same(double a, double b) { return (a != a && b != b) || std::memcmp(&a, &b, 8) == 0; }
};
template <> struct Cod<float> {
  static float parse(const std::string& s) {
    if (!s.empty() && s[0] == 'x') { uint32_t b = (uint32_t)std::stoul(s.substr(1), nullptr, 16); float x; std::memcpy(&x, &b, 4); return x; }
    return (float)std::stoll(s);
  }
  static std::string show(float x) {
    if (x != x) return "x7fc00000";
    uint32_t b; std::memcpy(&b, &x, 4);
    char buf[32]; std::snprintf(buf, sizeof buf, "x%08x", b);
    return buf;
  }
  static bool same(float a, float b) { return (a != a && b != b) || std::memcmp(&a, &b, 4) == 0; }
};

// raw (storage order) access: the oracle never goes through Simd::lane or any LoopSIMD operator
template <class V> struct RawT {
  using scalar = V;
  static constexpr std::size_t n = 1;
  static scalar& at(V& v, std::size_t) { return v; }
  static const scalar& at(const V& v, std::size_t) { return v; }
};
template <class T, std::size_t S, std::size_t A> struct RawT<LoopSIMD<T, S, A>> {
  using V = LoopSIMD<T, S, A>;
  using scalar = typename RawT<T>::scalar;
  static constexpr std::size_t n = S * RawT<T>::n;
  static scalar& at(V& v, std::size_t k) { return RawT<T>::at(static_cast<std::array<T, S>&>(v)[k / RawT<T>::n], k % RawT<T>::n); }
  static const scalar& at(const V& v, std::size_t k) { return RawT<T>::at(static_cast<const std::array<T, S>&>(v)[k / RawT<T>::n], k % RawT<T>::n); }
};
template <class V> using ScalarOf = typename RawT<V>::scalar;

std::vector<std::string> listToks(const std::string& s) {
  std::string t = s;
  if (t.size() < 2 || t.front() != '[' || t.back() != ']') throw std::runtime_error("bad list " + s);
  t = t.substr(1, t.size() - 2);
  if (t.empty()) return {};
  return dv::split(t, ',');
}

template <class V> std::string showLanesOf(const V& v) {
  std::string s;
  for (std::size_t l = 0; l < RawT<V>::n; ++l) { if (l) s += ","; s += Cod<ScalarOf<V>>::show(RawT<V>::at(v, l)); }
  return s;
}

Result badOp() { Result r; r.impl = "bad-op"; r.oracle = "ok trivial"; return r; }

// MatV / MatS: matrix of SIMD numbers / of scalars (FieldMatrix or DynamicMatrix, already sized n x n)
template <class V, class MatV, class MatS, class VecV, class VecS>
Result run(const std::string& what, int n, bool piv, const std::vector<std::string>& ta, const std::vector<std::string>& tb,
           MatV& A, std::vector<MatS>& a, VecV& b, VecV& x, std::vector<VecS>& bs, std::vector<VecS>& xs) {
  using T = ScalarOf<V>;
  constexpr std::size_t S = RawT<V>::n;
  Result res;
  if (ta.size() != (std::size_t)n * n * S) throw std::runtime_error("matrix data size");
  for (int i = 0; i < n; ++i) for (int j = 0; j < n; ++j) for (std::size_t l = 0; l < S; ++l) {
    const T v = Cod<T>::parse(ta[(i * n + j) * S + l]);
    RawT<V>::at(A[i][j], l) = v;
    a[l][i][j] = v;
  }
  auto cmp = [&](const V& got, std::size_t l, T want, const std::string& where) {
    if (res.oracle == "ok" && !Cod<T>::same(RawT<V>::at(got, l), want))
      res.oracle = "FAIL " + what + " (checked configuration) " + where + " lane " + std::to_string(l) + " is " + Cod<T>::show(RawT<V>::at(got, l))
                   + ", scalar algorithm on that lane's data gives " + Cod<T>::show(want);
  };
  if (what == "solve") {
    if (tb.size() != (std::size_t)n * S) throw std::runtime_error("vector data size");
    for (int i = 0; i < n; ++i) for (std::size_t l = 0; l < S; ++l) {
      const T v = Cod<T>::parse(tb[i * S + l]);
      RawT<V>::at(b[i], l) = v;
      bs[l][i] = v;
    }
    bool threw = false, anyThrow = false;
    try { A.solve(x, b, piv); } catch (Dune::FMatrixError&) { threw = true; }
    for (std::size_t l = 0; l < S; ++l) { try { a[l].solve(xs[l], bs[l], piv); } catch (Dune::FMatrixError&) { anyThrow = true; } }
    if (threw) {
      res.impl = "ERR:FMatrix";
      if (!anyThrow) res.oracle = "FAIL solve (checked configuration) reports a singular matrix although the scalar algorithm succeeds in every lane";
      return res;
    }
    res.impl = "[";
    for (int i = 0; i < n; ++i) { if (i) res.impl += ","; res.impl += showLanesOf<V>(x[i]); }
    res.impl += "]";
    if (anyThrow) { res.oracle = "FAIL solve (checked configuration) succeeds although the scalar algorithm reports a singular matrix in some lane"; return res; }
    for (int i = 0; i < n; ++i) for (std::size_t l = 0; l < S; ++l) cmp(x[i], l, xs[l][i], "x[" + std::to_string(i) + "]");
    return res;
  }
  if (what == "inv") {
    bool threw = false, anyThrow = false;
    try { A.invert(piv); } catch (Dune::FMatrixError&) { threw = true; }
    for (std::size_t l = 0; l < S; ++l) { try { a[l].invert(piv); } catch (Dune::FMatrixError&) { anyThrow = true; } }
    if (threw) {
      res.impl = "ERR:FMatrix";
      if (!anyThrow) res.oracle = "FAIL invert (checked configuration) reports a singular matrix although the scalar algorithm succeeds in every lane";
      return res;
    }
    res.impl = "[";
    for (int i = 0; i < n; ++i) for (int j = 0; j < n; ++j) { if (i || j) res.impl += ","; res.impl += showLanesOf<V>(A[i][j]); }
    res.impl += "]";
    if (anyThrow) { res.oracle = "FAIL invert (checked configuration) succeeds although the scalar algorithm reports a singular matrix in some lane"; return res; }
    for (int i = 0; i < n; ++i) for (int j = 0; j < n; ++j) for (std::size_t l = 0; l < S; ++l)
      cmp(A[i][j], l, a[l][i][j], "entry[" + std::to_string(i) + "][" + std::to_string(j) + "]");
    return res;
  }
  Result r; r.impl = "ERR:NoSuchOp"; r.oracle = "ok trivial"; return r;
}

template <class V, int n>
Result runField(const std::string& what, bool piv, const std::vector<std::string>& ta, const std::vector<std::string>& tb) {
  using T = ScalarOf<V>;
  constexpr std::size_t S = RawT<V>::n;
  Dune::FieldMatrix<V, n, n> A;
  std::vector<Dune::FieldMatrix<T, n, n>> a(S);
  Dune::FieldVector<V, n> b, x;
  std::vector<Dune::FieldVector<T, n>> bs(S), xs(S);
  return run<V>(what, n, piv, ta, tb, A, a, b, x, bs, xs);
}
template <class V, int... Ns>
Result fieldSizes(const std::string& what, int n, bool piv, const std::vector<std::string>& ta, const std::vector<std::string>& tb) {
  Result r = badOp();
  (void)((n == Ns ? (r = runField<V, Ns>(what, piv, ta, tb), true) : false) || ...);
  return r;
}
template <class V>
Result runDyn(const std::string& what, int n, bool piv, const std::vector<std::string>& ta, const std::vector<std::string>& tb) {
  using T = ScalarOf<V>;
  constexpr std::size_t S = RawT<V>::n;
  if (n < 1 || n > 4) return badOp();
  Dune::DynamicMatrix<V> A(n, n);
  std::vector<Dune::DynamicMatrix<T>> a(S);
  for (auto& m : a) m.resize(n, n);
  Dune::DynamicVector<V> b(n), x(n);
  std::vector<Dune::DynamicVector<T>> bs(S), xs(S);
  for (auto& v : bs) v.resize(n);
  for (auto& v : xs) v.resize(n);
  return run<V>(what, n, piv, ta, tb, A, a, b, x, bs, xs);
}

}  // namespace

// called by exec() of cxx_c09.cc
void c09_checked_exec(const std::vector<std::string>& w, std::string& impl, std::string& oracle) {
  Result r = badOp();
  if (w.size() == 7 || w.size() == 8) {
    const std::string &what = w[1], &shape = w[2];
    const int n = std::stoi(w[3]);
    const bool piv = w[4] == "1";
    const double limit = Cod<double>::parse(w[5]);
    const auto ta = listToks(w[6]);
    std::vector<std::string> tb;
    if (w.size() == 8) tb = listToks(w[7]);
    const double old = Dune::FMatrixPrecision<>::absolute_limit();
    Dune::FMatrixPrecision<>::set_absolute_limit(limit);
    if (shape == "2") r = fieldSizes<LoopSIMD<double, 2>, 1, 2, 3>(what, n, piv, ta, tb);
    else if (shape == "4") r = fieldSizes<LoopSIMD<double, 4>, 1, 2, 3, 4>(what, n, piv, ta, tb);
    else if (shape == "2x2") r = fieldSizes<LoopSIMD<LoopSIMD<double, 2>, 2>, 2, 3>(what, n, piv, ta, tb);
    else if (shape == "f4") r = fieldSizes<LoopSIMD<float, 4>, 1, 2, 3>(what, n, piv, ta, tb);
    else if (shape == "d4") r = runDyn<LoopSIMD<double, 4>>(what, n, piv, ta, tb);
    Dune::FMatrixPrecision<>::set_absolute_limit(old);
  }
  impl = r.impl;
  oracle = r.oracle;
}

// the renamed exception classes need their out-of-line members
#include <dune/common/exceptions.cc>
