// C05 correspondence harness: Dune::Interface + Dune::BufferedCommunicator / DatatypeCommunicator on top of the real
// RemoteIndices::rebuild, against the Lean model, with the property's own definition as oracle.
//
// One case = one distributed decomposition plus a communication scenario on one line:
//
//   c05 <P> <flags> <ign> <S> <T> <pay> <pol> <comm> <cont> <rounds> : e;e;e;...
//
//   <flags>  P digits, digit of rank r = 1: the rank uses two index set objects (source, target: redistribution),
//            0: one index set (RemoteIndices(set, set))
//   <ign>    0/1: rebuild<ign>() (1 = the public flags are ignored)
//   <S> <T>  source / target attribute set as a bit mask over the attributes {0 owner,1 overlap,2 copy,3 ghost};
//            the harness realises every mask with the enumset.hh classes (EmptySet, EnumItem, EnumRange, Combine,
//            NegateSet, AllSet; table `setTable`).  A mask followed by `a` (e.g. `5a`) asks for the alternative
//            realisation of the same set by nested Combine / NegateSet<Combine<..>> / combine(combine(..),..)
//            (table `Alt`; needs Combine::Type, fixes/C05_combine_type)
//   <pay>    s1: std::vector<long> (SizeOne, one long per index)        s3: std::vector<FieldVector<long,3>> (SizeOne)
//            v<k>: VariableSize CommPolicy, index with global index g carries 1+((g+k) mod 3) longs
//            w<k>: the same with (g+k) mod 3 longs (indices without any component occur)
//   <pol>    copy | add        (what the recording gather/scatter policy does with a scattered value)
//            cgs               (the stock Dune::CopyGatherScatter<Data>; SizeOne payloads, BufferedCommunicator only;
//                               no call log, final containers are compared)
//   <comm>   buf (BufferedCommunicator) | dt (DatatypeCommunicator, copy only)
//   <cont>   c1: ranks with one index set communicate inside one container (forward(data)), c2: always two containers
//   <rounds> life of the one communicator object after its first build, items separated by `.`:
//              a string over {f,b}   forward()/backward() calls, in this order
//              r<S>-<T>              free() of the communicator, Interface::free(), Interface::build with the new
//                                    attribute sets on the same Interface object, build() of the communicator
//              n<S>-<T>              a new Interface object built with the new sets, then build() of the same
//                                    communicator object again WITHOUT free() (fixes/C05_build_twice)
//              m<k>                  the user assigns new values between two communications: every component (l,j) of
//                                    every container of every rank becomes v + 1000003*(k+1) + 7*l + j   (k = 0..9)
//              l<r>                  rank r is LATE for its next communication: it enters it only when all other ranks
//                                    have finished the communications of this build, or after --lag-us microseconds
//                                    (a schedule; the model ignores it).  With a correct sendRecv the others block until r
//                                    arrives; a sendRecv that returns with a send still pending lets them run ahead and
//                                    overwrite (m<k>, next gather) or release the buffer the late rank has yet to read.
//            e.g. `fb.r5-10a.ff.n3-3.b`, `l1.f.m2.f`; at most 8 communications and 3 rebuilds
//   e = <s>,<r>,<g>,<l>,<attr>,<pub>    entry of set s (0 source, 1 target) on rank r: global g, local l
//                                         (entries with s=1 for a one-set rank are ignored)
//
// Answer of a rank:  I <q>:[send locals]|[recv locals] ... ;S [selection];D [src]|[tgt];D ...;I ...;D ...  (one I per
// build, one D per round; a rank
// with one container prints D [data]; entries whose value the property leaves open — copy policy with several senders,
// or anything computed from such an entry — are printed as *).  A dt case that would need overlapping receive
// buffers prints `skip` instead of the D parts.
#include <config.h>

#include <algorithm>
#include <array>
#include <map>
#include <memory>
#include <set>

#include <dune/common/enumset.hh>
#include <dune/common/fvector.hh>
#include <dune/common/parallel/communicator.hh>
#include <dune/common/parallel/indexset.hh>
#include <dune/common/parallel/interface.hh>
#include <dune/common/parallel/mpihelper.hh>
#include <dune/common/parallel/plocalindex.hh>
#include <dune/common/parallel/remoteindices.hh>
#include <dune/common/parallel/selection.hh>

#include "hcommon_mpi.hh"

// request discipline observed through the profiling interface (harness/pmpi_c05.cc)
extern "C" void dv_req_case_begin();
extern "C" const char* dv_req_case_end();
extern "C" void dv_req_comm(long idx);
extern "C" void dv_req_checkpoint(const char* where);
extern "C" long dv_req_sends();
extern "C" long dv_req_recvs();
extern "C" long dv_req_audits();

using namespace dv;

static MPI_Comm gSide = MPI_COMM_NULL;  // side channel of the harness (late-rank tokens), never seen by the code under test
static long gLagUs = 4000;

enum Flags { owner = 0, overlap = 1, copy = 2, ghost = 3 };
typedef Dune::ParallelLocalIndex<Flags> LocalIndex;
typedef Dune::ParallelIndexSet<int, LocalIndex, 7> PIS;
typedef Dune::RemoteIndices<PIS> RI;

// ---- attribute sets: every mask through the classes of enumset.hh -------------------------------------------------
template <int i> using It = Dune::EnumItem<Flags, i>;
template <int a, int b> using Rg = Dune::EnumRange<Flags, a, b>;
template <class A, class B> using Cb = Dune::Combine<A, B, Flags>;
template <class A> using Ng = Dune::NegateSet<A>;
typedef Dune::EmptySet<Flags> M0;
typedef It<0> M1;
typedef It<1> M2;
typedef Rg<0, 1> M3;
typedef It<2> M4;
typedef Cb<It<0>, It<2>> M5;
typedef Rg<1, 2> M6;
typedef Ng<It<3>> M7;
typedef It<3> M8;
typedef Cb<It<3>, It<0>> M9;
typedef Cb<It<1>, It<3>> M10;
typedef Ng<It<2>> M11;
typedef Rg<2, 3> M12;
typedef Cb<Rg<2, 3>, It<0>> M13;
typedef Cb<It<1>, Rg<2, 3>> M14;
typedef Dune::AllSet<Flags> M15;

struct AnySet {  // run-time choice among the compile-time sets; `contains` is the real one
  bool (*f)(const Flags&);
  bool contains(const Flags& a) const { return f(a); }
};
static const AnySet setTable[16] = {
    {&M0::contains}, {&M1::contains}, {&M2::contains},   {&M3::contains},   {&M4::contains},   {&M5::contains},
    {&M6::contains}, {&M7::contains}, {&M8::contains},   {&M9::contains},   {&M10::contains},  {&M11::contains},
    {&M12::contains}, {&M13::contains}, {&M14::contains}, {&M15::contains}};

// the same sixteen sets written with nested Combine, NegateSet<Combine<..>> and the combine() function: all of these need
// the member typedef Combine::Type.  Everything depends on the template parameter F so that a tree without that typedef
// still compiles; the cases that ask for these sets are then reported as failures (exec).
template <class C, class = void> struct HasTypeMember : std::false_type {};
template <class C> struct HasTypeMember<C, std::void_t<typename C::Type>> : std::true_type {};
template <class F, bool ok> struct Alt {
  static const AnySet* table() { return nullptr; }
};
template <class F> struct Alt<F, true> {
  template <int i> using I = Dune::EnumItem<F, i>;
  template <int a, int b> using R = Dune::EnumRange<F, a, b>;
  template <class A, class B> using C = Dune::Combine<A, B>;  // third parameter defaulted: A::Type
  template <class A> using N = Dune::NegateSet<A>;
  typedef N<Dune::AllSet<F>> A0;
  typedef N<C<R<1, 2>, I<3>>> A1;
  typedef N<C<C<I<0>, I<2>>, I<3>>> A2;
  typedef N<C<I<2>, I<3>>> A3;
  typedef N<C<R<0, 1>, I<3>>> A4;
  typedef decltype(Dune::combine(I<0>(), I<2>())) A5;
  typedef N<C<I<0>, I<3>>> A6;
  typedef decltype(Dune::combine(Dune::combine(I<0>(), I<1>()), I<2>())) A7;
  typedef N<C<C<I<0>, I<1>>, I<2>>> A8;
  typedef N<C<I<1>, I<2>>> A9;
  typedef C<C<I<1>, Dune::EmptySet<F>>, I<3>> A10;
  typedef C<C<I<0>, I<1>>, I<3>> A11;
  typedef N<C<I<0>, I<1>>> A12;
  typedef C<C<I<2>, I<3>>, I<0>> A13;
  typedef N<C<I<0>, Dune::EmptySet<F>>> A14;
  typedef C<C<R<0, 1>, I<2>>, I<3>> A15;
  static const AnySet* table() {
    static const AnySet t[16] = {{&A0::contains},  {&A1::contains},  {&A2::contains},  {&A3::contains},
                                 {&A4::contains},  {&A5::contains},  {&A6::contains},  {&A7::contains},
                                 {&A8::contains},  {&A9::contains},  {&A10::contains}, {&A11::contains},
                                 {&A12::contains}, {&A13::contains}, {&A14::contains}, {&A15::contains}};
    return t;
  }
};
static const AnySet* altTable() { return Alt<Flags, HasTypeMember<Cb<It<0>, It<1>>>::value>::table(); }

// round four: second use of the objects -- `setIndexSet` on a built Selection (frees and rebuilds) for the other index set,
// `free()` + `setIndexSet` back to the first one (third use; must reproduce the first result), a default-constructed
// UncachedSelection that gets its index set by `setIndexSet`; `second` = the selection of `is2`
template <class Set> static std::vector<long> selectionOf(const PIS& is, const PIS& is2, bool& agree, std::vector<long>& second) {
  Dune::Selection<Set, int, LocalIndex, 7> sel(is);
  Dune::UncachedSelection<Set, int, LocalIndex, 7> usel(is);
  std::vector<long> a(sel.begin(), sel.end()), b;
  for (auto it = usel.begin(); it != usel.end(); ++it) b.push_back(*it);
  agree = a == b;
  sel.setIndexSet(is2);
  second.assign(sel.begin(), sel.end());
  Dune::UncachedSelection<Set, int, LocalIndex, 7> usel2;
  usel2.setIndexSet(is2);
  std::vector<long> b2;
  for (auto it = usel2.begin(); it != usel2.end(); ++it) b2.push_back(*it);
  agree = agree && second == b2;
  sel.free();
  sel.setIndexSet(is);
  agree = agree && a == std::vector<long>(sel.begin(), sel.end());
  usel2.setIndexSet(is);
  std::vector<long> b3;
  for (auto it = usel2.begin(); it != usel2.end(); ++it) b3.push_back(*it);
  agree = agree && a == b3;
  return a;
}
static std::vector<long> selection(int mask, const PIS& is, const PIS& is2, bool& agree, std::vector<long>& second) {
  switch (mask) {
#define CASE(i) case i: return selectionOf<M##i>(is, is2, agree, second);
    CASE(0) CASE(1) CASE(2) CASE(3) CASE(4) CASE(5) CASE(6) CASE(7) CASE(8) CASE(9) CASE(10) CASE(11) CASE(12) CASE(13)
    CASE(14) CASE(15)
#undef CASE
  }
  return {};
}

// ---- payload containers --------------------------------------------------------------------------------------------
typedef std::vector<long> S1;
typedef std::vector<Dune::FieldVector<long, 3>> S3;
struct VV {  // blocks of different length in one allocation
  typedef long value_type;
  std::vector<long> flat;
  std::vector<int> off, sz;
};
namespace Dune {
template <> struct CommPolicy<VV> {
  typedef VV Type;
  typedef long IndexedType;
  typedef VariableSize IndexedTypeFlag;
  static const void* getAddress(const VV& v, int i) { return v.flat.data() + v.off[i]; }
  static int getSize(const VV& v, int i) { return v.sz[i]; }
};
}  // namespace Dune

static void mk(S1& d, const std::vector<int>& bs) { d.assign(bs.size(), 0); }
static void mk(S3& d, const std::vector<int>& bs) { d.assign(bs.size(), Dune::FieldVector<long, 3>(0)); }
static void mk(VV& d, const std::vector<int>& bs) {
  d.off.clear();
  d.sz = bs;
  int o = 0;
  for (int b : bs) { d.off.push_back(o); o += b; }
  d.flat.assign(o, 0);
}
static long& at(S1& d, long l, int) { return d[l]; }
static long& at(S3& d, long l, int j) { return d[l][j]; }
static long& at(VV& d, long l, int j) { return d.flat[d.off[l] + j]; }

// ---- recording gather/scatter policy ---------------------------------------------------------------------------------
struct Call {
  long l, j, v;
  bool operator<(const Call& o) const { return std::tie(l, j, v) < std::tie(o.l, o.j, o.v); }
  bool operator==(const Call& o) const { return l == o.l && j == o.j && v == o.v; }
};
static std::vector<Call> gLog, sLog;
static bool gAdd = false;
static void logv(std::vector<Call>& lg, long l, long x) { lg.push_back(Call{l, 0, x}); }
static void logv(std::vector<Call>& lg, long l, const Dune::FieldVector<long, 3>& x) {
  for (int j = 0; j < 3; ++j) lg.push_back(Call{l, j, x[j]});
}
template <class V> struct RecOne {
  typedef typename Dune::CommPolicy<V>::IndexedType T;
  static const T& gather(const V& v, std::size_t i) {
    logv(gLog, (long)i, v[i]);
    return v[i];
  }
  static void scatter(V& v, const T& x, std::size_t i) {
    logv(sLog, (long)i, x);
    if (gAdd) v[i] += x; else v[i] = x;
  }
};
struct RecVar {
  static long gather(const VV& v, int i, int j) {
    long x = v.flat[v.off[i] + j];
    gLog.push_back(Call{i, j, x});
    return x;
  }
  static void scatter(VV& v, long x, int i, int j) {
    sLog.push_back(Call{i, j, x});
    if (gAdd) v.flat[v.off[i] + j] += x; else v.flat[v.off[i] + j] = x;
  }
};
template <class V> struct Pol { typedef RecOne<V> type; };
template <> struct Pol<VV> { typedef RecVar type; };

// ---- the distributed case ----------------------------------------------------------------------------------------------
struct Ent {
  long g, l;
  int a;
  bool pub;
};
struct Phase {  // one build of the communicator and the communications that follow it
  int S = 0, T = 0;
  bool Salt = false, Talt = false;
  bool freeFirst = true;  // r: free() + Interface::free() before building again; n: build again without free()
  std::string rounds;     // over {f,b}: the communications
  struct Step { char kind; int arg; };  // f, b, m (arg = k), l (arg = rank)
  std::vector<Step> steps;
};
struct Case {
  int P = 0;
  std::vector<bool> two;
  bool ign = false;
  int S = 0, T = 0;  // the attribute sets of the current build
  int pay = 0;   // 0 s1, 1 s3, 2 v / w
  int vk = 0, vbase = 1;
  bool add = false, dt = false, c1 = false, cgs = false;
  std::vector<Phase> phases;
  std::vector<std::array<std::vector<Ent>, 2>> set;  // [rank][0 src / 1 tgt], sorted by global
  const std::vector<Ent>& tgt(int r) const { return two[r] ? set[r][1] : set[r][0]; }
  bool oneC(int r) const { return c1 && !two[r]; }
  int blk(long g) const { return pay == 0 ? 1 : (pay == 1 ? 3 : vbase + (int)(((g + vk) % 3 + 3) % 3)); }
};
static bool inMask(int m, int a) { return (m >> a) & 1; }

// the property's definition: the shared indices p -> q of a forward communication, ascending global index,
// as (local index in source set of p, local index in target set of q, global)
struct Shared { long lp, lq, g; };
static std::vector<Shared> sharedDef(const Case& c, int p, int q) {
  std::vector<Shared> out;
  if (p == q && !c.two[p]) return out;
  for (auto& e : c.set[p][0]) {
    if (!(c.ign || e.pub) || !inMask(c.S, e.a)) continue;
    for (auto& f : c.tgt(q))
      if (f.g == e.g && (c.ign || f.pub) && inMask(c.T, f.a)) out.push_back(Shared{e.l, f.l, e.g});
  }
  std::sort(out.begin(), out.end(), [](const Shared& x, const Shared& y) { return x.g < y.g; });
  return out;
}

struct Shadow {  // value and "left open by the property" flag per (local, component)
  std::vector<std::vector<long>> v;
  std::vector<std::vector<char>> open;
  std::vector<std::vector<std::vector<long>>> cand;  // candidates of an entry that became open in the last round
};
static long initVal(int r, int c, long l, int j) { return (long)(r + 1) * 100000 + (long)c * 50000 + l * 10 + j + 1; }
static std::vector<int> blockSizes(const Case& c, const std::vector<Ent>& s) {
  long n = 1;
  for (auto& e : s) n = std::max(n, e.l + 1);
  std::vector<int> bs((size_t)n, c.pay == 1 ? 3 : 1);
  for (auto& e : s) bs[(size_t)e.l] = c.blk(e.g);
  return bs;
}

template <class C> static std::string showL(const C& v) { return listStr(v); }

static bool parseCase(const std::string& line, Case& c, std::string& why) {
  size_t colon = line.find(" :");
  std::string head = colon == std::string::npos ? line : line.substr(0, colon);
  std::string body = colon == std::string::npos ? "" : line.substr(colon + 2);
  auto hw = words(head);
  if (hw.size() != 11 || hw[0] != "c05") { why = "header"; return false; }
  auto num = [&](const std::string& s, long lo, long hi, long& out) {
    if (s.empty() || s.size() > 6) return false;
    for (char ch : s) if (ch < '0' || ch > '9') return false;
    out = std::atol(s.c_str());
    return out >= lo && out <= hi;
  };
  long t;
  if (!num(hw[1], 1, 64, t)) { why = "P"; return false; }
  c.P = (int)t;
  if ((int)hw[2].size() != c.P) { why = "flags"; return false; }
  c.two.resize(c.P);
  for (int r = 0; r < c.P; ++r) {
    if (hw[2][r] != '0' && hw[2][r] != '1') { why = "flags"; return false; }
    c.two[r] = hw[2][r] == '1';
  }
  if (!num(hw[3], 0, 1, t)) { why = "ign"; return false; }
  c.ign = t;
  auto mask = [&](std::string m, int& out, bool& alt) {
    alt = !m.empty() && m.back() == 'a';
    if (alt) m.pop_back();
    long v;
    if (!num(m, 0, 15, v)) return false;
    out = (int)v;
    return true;
  };
  Phase ph0;
  if (!mask(hw[4], ph0.S, ph0.Salt)) { why = "S"; return false; }
  if (!mask(hw[5], ph0.T, ph0.Talt)) { why = "T"; return false; }
  c.S = ph0.S;
  c.T = ph0.T;
  if (hw[6] == "s1") c.pay = 0;
  else if (hw[6] == "s3") c.pay = 1;
  else if (hw[6] == "v0" || hw[6] == "v1" || hw[6] == "v2") { c.pay = 2; c.vk = hw[6][1] - '0'; c.vbase = 1; }
  else if (hw[6] == "w0" || hw[6] == "w1" || hw[6] == "w2") { c.pay = 2; c.vk = hw[6][1] - '0'; c.vbase = 0; }
  else { why = "pay"; return false; }
  if (hw[7] == "copy") c.add = false;
  else if (hw[7] == "add") c.add = true;
  else if (hw[7] == "cgs") c.cgs = true;
  else { why = "pol"; return false; }
  if (hw[8] == "buf") c.dt = false; else if (hw[8] == "dt") c.dt = true; else { why = "comm"; return false; }
  if (c.dt && c.add) { why = "dt-add"; return false; }
  if (c.cgs && (c.dt || c.pay == 2)) { why = "cgs"; return false; }
  if (hw[9] == "c1") c.c1 = true; else if (hw[9] == "c2") c.c1 = false; else { why = "cont"; return false; }
  {
    c.phases.assign(1, ph0);
    size_t nComm = 0;
    if (hw[10].empty() || hw[10].size() > 120) { why = "rounds"; return false; }
    size_t nExtra = 0;
    for (auto& item : split(hw[10], '.')) {
      if (item.empty()) { why = "rounds"; return false; }
      if (item[0] == 'r' || item[0] == 'n') {
        auto st = split(item.substr(1), '-');
        Phase ph;
        ph.freeFirst = item[0] == 'r';
        if (st.size() != 2 || !mask(st[0], ph.S, ph.Salt) || !mask(st[1], ph.T, ph.Talt)) { why = "rounds"; return false; }
        c.phases.push_back(ph);
      } else if (item[0] == 'm' || item[0] == 'l') {
        long v;
        if (!num(item.substr(1), 0, item[0] == 'm' ? 9 : c.P - 1, v)) { why = "rounds"; return false; }
        c.phases.back().steps.push_back(Phase::Step{item[0], (int)v});
        ++nExtra;
      } else {
        for (char ch : item) {
          if (ch != 'f' && ch != 'b') { why = "rounds"; return false; }
          c.phases.back().steps.push_back(Phase::Step{ch, 0});
        }
        c.phases.back().rounds += item;
        nComm += item.size();
      }
    }
    if (nComm == 0 || nComm > 8 || c.phases.size() > 4 || nExtra > 12) { why = "rounds"; return false; }
  }
  c.set.assign(c.P, {});
  for (auto& segRaw : split(body, ';')) {
    std::string seg;
    for (char ch : segRaw) if (ch != ' ') seg.push_back(ch);
    if (seg.empty()) continue;
    auto f = split(seg, ',');
    if (f.size() != 6) { why = "entry"; return false; }
    long s, r, l, a, pb, g;
    if (!num(f[0], 0, 1, s) || !num(f[1], 0, c.P - 1, r) || !num(f[3], 0, 999, l) || !num(f[4], 0, 3, a) ||
        !num(f[5], 0, 1, pb)) { why = "entry"; return false; }
    bool neg = !f[2].empty() && f[2][0] == '-';
    if (!num(neg ? f[2].substr(1) : f[2], 0, 99999, g)) { why = "entry"; return false; }
    if (neg) g = -g;
    if (s == 1 && !c.two[r]) continue;
    for (auto& e : c.set[r][s]) if (e.g == g || e.l == l) { why = "duplicate"; return false; }
    c.set[r][s].push_back(Ent{g, l, (int)a, pb == 1});
  }
  for (auto& rs : c.set)
    for (auto& s : rs) std::sort(s.begin(), s.end(), [](const Ent& x, const Ent& y) { return x.g < y.g; });
  return true;
}

// are the receive buffers of the derived-datatype variant free of overlap (otherwise the MPI calls are erroneous)?
static bool dtFeasiblePhase(const Case& c, const std::string& rounds) {
  bool f = rounds.find('f') != std::string::npos, b = rounds.find('b') != std::string::npos;
  for (int r = 0; r < c.P; ++r) {
    std::multiset<long> snd, rcv;
    for (int q = 0; q < c.P; ++q) {
      for (auto& s : sharedDef(c, r, q)) snd.insert(s.lp);
      for (auto& s : sharedDef(c, q, r)) rcv.insert(s.lq);
    }
    auto dupl = [](const std::multiset<long>& m) { for (long x : m) if (m.count(x) > 1) return true; return false; };
    if (f && dupl(rcv)) return false;
    if (b && dupl(snd)) return false;
    if (c.oneC(r) && (f || b)) for (long x : snd) if (rcv.count(x)) return false;
  }
  return true;
}
static bool dtFeasible(const Case& c0) {
  Case c = c0;
  for (auto& ph : c0.phases) {
    c.S = ph.S;
    c.T = ph.T;
    if (!dtFeasiblePhase(c, ph.rounds)) return false;
  }
  return true;
}

template <class Data> static Result runCase(const Case& c0) {
  typedef typename Pol<Data>::type GS;
  Case c = c0;  // c.S / c.T follow the builds
  int rank;
  MPI_Comm_rank(MPI_COMM_WORLD, &rank);
  const int P = c.P;
  Result res;
  std::string fail;
  auto failIf = [&](bool cond, const std::string& m) { if (cond && fail.empty()) fail = m; };
  bool nontrivial = false;

  // ---- real objects of this rank
  PIS sets[2];
  for (int s = 0; s < 2; ++s) {
    sets[s].beginResize();
    for (auto& e : c.set[rank][s]) sets[s].add((int)e.g, LocalIndex((size_t)e.l, (Flags)e.a, e.pub));
    sets[s].endResize();
  }
  PIS& srcSet = sets[0];
  PIS& tgtSet = c.two[rank] ? sets[1] : sets[0];
  RI ri(srcSet, tgtSet, MPI_COMM_WORLD);
  if (c.ign) ri.template rebuild<true>(); else ri.template rebuild<false>();
  std::vector<std::unique_ptr<Dune::Interface>> ifaces;  // all Interface objects stay alive until the case ends
  Dune::Interface* iface = nullptr;
  std::vector<std::string> obs;

  // (re)build the interface for the attribute sets of phase `ph` and compare it with its definition (oracle 1);
  // returns false (on all ranks together) if some rank's interface is wrong: a wrong interface makes the
  // communication itself meaningless (message sizes no longer match: MPI would abort or hang)
  long ifEntries = 0;
  auto buildInterface = [&](const Phase& ph, bool first) -> bool {
    c.S = ph.S;
    c.T = ph.T;
    const AnySet S = ph.Salt ? altTable()[ph.S] : setTable[ph.S], T = ph.Talt ? altTable()[ph.T] : setTable[ph.T];
    if (first || !ph.freeFirst) {
      ifaces.emplace_back(new Dune::Interface());
      iface = ifaces.back().get();
    } else {
      iface->free();
    }
    iface->build(ri, S, T);
    std::map<int, std::pair<std::vector<long>, std::vector<long>>> got;
    std::string o = "I";
    for (auto& kv : static_cast<const Dune::Interface&>(*iface).interfaces()) {
      std::vector<long> sl, rl;
      for (size_t i = 0; i < kv.second.first.size(); ++i) sl.push_back((long)kv.second.first[i]);
      for (size_t i = 0; i < kv.second.second.size(); ++i) rl.push_back((long)kv.second.second[i]);
      // a neighbour with two empty lists says the same as no entry: not printed, not an error
      if (sl.empty() && rl.empty()) { dv::stat("interface_empty_entries"); continue; }
      o += " " + std::to_string(kv.first) + ":" + showL(sl) + "|" + showL(rl);
      got[kv.first] = std::make_pair(sl, rl);
    }
    obs.push_back(o);
    int nb = 0;
    for (int q = 0; q < P; ++q) {
      std::vector<long> es, er;
      for (auto& sd : sharedDef(c, rank, q)) es.push_back(sd.lp);
      for (auto& sd : sharedDef(c, q, rank)) er.push_back(sd.lq);
      ifEntries += (long)(es.size() + er.size());
      auto it = got.find(q);
      std::string who = "interface of rank " + std::to_string(rank) + " for " + std::to_string(q) + ": ";
      if (es.empty() && er.empty()) {
        failIf(it != got.end(), who + "entry although nothing is shared");
        continue;
      }
      nontrivial = true;
      ++nb;
      if (q == rank && rank == 0) dv::stat("self_neighbour_rank0");
      if (it == got.end()) { failIf(true, who + "missing, expected send " + showL(es) + " receive " + showL(er)); continue; }
      failIf(it->second.first != es, who + "send list " + showL(it->second.first) + " expected " + showL(es));
      failIf(it->second.second != er, who + "receive list " + showL(it->second.second) + " expected " + showL(er));
    }
    if (rank == 0) dv::stat("neighbours_rank0_" + std::to_string(std::min(nb, 4)) + (nb >= 4 ? "plus" : ""));
    for (auto& kv : got) failIf(kv.first < 0 || kv.first >= P, "interface entry for a rank outside the communicator");
    int bad = fail.empty() ? 0 : 1, anyBad = 0;
    MPI_Allreduce(&bad, &anyBad, 1, MPI_INT, MPI_MAX, MPI_COMM_WORLD);
    return !anyBad;
  };
  auto stopInterfaceWrong = [&]() {
    res.impl = join(obs.begin(), obs.end(), ";") + ";interface-wrong";
    res.oracle = fail.empty() ? "ok" : "FAIL " + fail;
    return res;
  };

  // ---- observation 1: the interface of the first build
  if (!buildInterface(c.phases[0], true)) return stopInterfaceWrong();

  // ---- observation 2: Selection / UncachedSelection of the source set with the source attribute set
  {
    bool agree = true;
    std::vector<long> sel2, exp2;
    std::vector<long> sel = selection(c.S, srcSet, tgtSet, agree, sel2), exp;
    for (auto& e : c.set[rank][0]) if (inMask(c.S, e.a)) exp.push_back(e.l);
    for (auto& e : c.tgt(rank)) if (inMask(c.S, e.a)) exp2.push_back(e.l);
    failIf(!agree, "Selection and UncachedSelection differ (first use, setIndexSet on a built object, or after free)");
    failIf(sel != exp, "Selection " + showL(sel) + " expected " + showL(exp));
    failIf(sel2 != exp2, "Selection after setIndexSet(target index set) " + showL(sel2) + " expected " + showL(exp2));
    stat(sel2 != sel ? "selection_second_use_differs_from_first" : "selection_second_use_same");
    obs.push_back("S " + showL(sel) + " " + showL(sel2));
  }

  // ---- containers: real ones of this rank, shadows of all ranks
  std::vector<std::array<Shadow, 2>> sh(P);
  for (int r = 0; r < P; ++r)
    for (int k = 0; k < 2; ++k) {
      if (k == 1 && c.oneC(r)) continue;
      auto bs = blockSizes(c, k == 0 ? c.set[r][0] : c.tgt(r));
      sh[r][k].v.resize(bs.size());
      sh[r][k].open.resize(bs.size());
      sh[r][k].cand.resize(bs.size());
      for (size_t l = 0; l < bs.size(); ++l) {
        sh[r][k].open[l].assign(bs[l], 0);
        sh[r][k].cand[l].resize(bs[l]);
        for (int j = 0; j < bs[l]; ++j) sh[r][k].v[l].push_back(initVal(r, k, (long)l, j));
      }
    }
  auto contOf = [&](int r, int k) -> Shadow& { return sh[r][(k == 1 && c.oneC(r)) ? 0 : k]; };
  Data data[2];
  const bool one = c.oneC(rank);
  for (int k = 0; k < (one ? 1 : 2); ++k) {
    auto& s = sh[rank][k];
    std::vector<int> bs;
    for (auto& b : s.v) bs.push_back((int)b.size());
    mk(data[k], bs);
    for (size_t l = 0; l < s.v.size(); ++l)
      for (size_t j = 0; j < s.v[l].size(); ++j) at(data[k], (long)l, (int)j) = s.v[l][j];
  }
  Data& srcData = data[0];
  Data& tgtData = one ? data[0] : data[1];

  if (c.dt && !dtFeasible(c0)) {
    obs.push_back("skip");
    res.impl = join(obs.begin(), obs.end(), ";");
    res.oracle = fail.empty() ? (nontrivial ? "ok" : "ok trivial") : "FAIL " + fail;
    if (rank == 0) stat("dt_skipped");
    return res;
  }

  Dune::BufferedCommunicator bc;
  Dune::DatatypeCommunicator<PIS> dc;
  // destroyed before the communicators and the containers: the last look at the buffers of pending sends
  struct FinalLook { ~FinalLook() { dv_req_checkpoint("the end of the communicator's life"); } } finalLook;
  gAdd = c.add;
  auto buildComm = [&](const Phase& ph) {
    const AnySet S = ph.Salt ? altTable()[ph.S] : setTable[ph.S], T = ph.Talt ? altTable()[ph.T] : setTable[ph.T];
    if (c.dt) dc.build(ri, S, srcData, T, tgtData);
    else if constexpr (std::is_same<Data, VV>::value) bc.build(srcData, tgtData, *iface);
    else { if (!c.c1) bc.build(srcData, tgtData, *iface); else bc.template build<Data>(*iface); }
  };

  long nCalls = 0, nOpen = 0, commIdx = 0;
  for (size_t k = 0; k < c.phases.size(); ++k) {
  const Phase& ph = c.phases[k];
  if (k > 0) {
    // life cycle: the same communicator object is built again for other attribute sets
    dv_req_checkpoint("the rebuild of the communicator");
    if (ph.freeFirst) { if (c.dt) dc.free(); else bc.free(); }
    if (!buildInterface(ph, false)) return stopInterfaceWrong();
  }
  buildComm(ph);
  // late ranks: tokens "I have finished the communications of this build" travel on the harness's side channel
  std::vector<int> lagItems;  // rank of every l item of this phase, in order
  for (auto& st : ph.steps) if (st.kind == 'l') lagItems.push_back(st.arg);
  std::vector<int> lagGot(lagItems.size(), 0);
  size_t lagSeen = 0;
  for (const Phase::Step& step : ph.steps) {
    if (step.kind == 'm') {
      auto f = [&](long v, long l, long j) { return v + 1000003L * (step.arg + 1) + 7 * l + j; };
      for (int r = 0; r < P; ++r)
        for (int kk = 0; kk < 2; ++kk) {
          if (kk == 1 && c.oneC(r)) continue;
          Shadow& s = sh[r][kk];
          for (size_t l = 0; l < s.v.size(); ++l)
            for (size_t j = 0; j < s.v[l].size(); ++j) {
              s.v[l][j] = f(s.v[l][j], (long)l, (long)j);
              for (auto& x : s.cand[l][j]) x = f(x, (long)l, (long)j);
            }
        }
      for (int kk = 0; kk < (one ? 1 : 2); ++kk)
        for (size_t l = 0; l < sh[rank][kk].v.size(); ++l)
          for (size_t j = 0; j < sh[rank][kk].v[l].size(); ++j) {
            long& x = at(data[kk], (long)l, (int)j);
            x = f(x, (long)l, (long)j);
          }
      continue;
    }
    if (step.kind == 'l') {
      size_t li = lagSeen++;
      if (step.arg == rank && P > 1) {
        double t0 = MPI_Wtime();
        while (lagGot[li] < P - 1 && (MPI_Wtime() - t0) * 1e6 < (double)gLagUs) {
          int flag = 0;
          MPI_Status st;
          PMPI_Iprobe(MPI_ANY_SOURCE, 1000 + (int)li, gSide, &flag, &st);
          if (flag) {
            int tok;
            PMPI_Recv(&tok, 1, MPI_INT, st.MPI_SOURCE, 1000 + (int)li, gSide, MPI_STATUS_IGNORE);
            ++lagGot[li];
          } else usleep(30);
        }
        stat(lagGot[li] == P - 1 ? "late_rank_everybody_else_had_finished" : "late_rank_waited_full_time");
      }
      continue;
    }
    const char dir = step.kind;
    const bool fwd = dir == 'f';
    gLog.clear();
    sLog.clear();
    dv_req_comm(commIdx++);
    if (c.dt) { if (fwd) dc.forward(); else dc.backward(); }
    else if constexpr (!std::is_same<Data, VV>::value) {
      typedef Dune::CopyGatherScatter<Data> CGS;
      if (c.cgs) {
        if (one) { if (fwd) bc.template forward<CGS>(srcData); else bc.template backward<CGS>(srcData); }
        else { if (fwd) bc.template forward<CGS>(srcData, tgtData); else bc.template backward<CGS>(srcData, tgtData); }
      }
      else if (one) { if (fwd) bc.template forward<GS>(srcData); else bc.template backward<GS>(srcData); }
      else { if (fwd) bc.template forward<GS>(srcData, tgtData); else bc.template backward<GS>(srcData, tgtData); }
    }
    else if (one) { if (fwd) bc.template forward<GS>(srcData); else bc.template backward<GS>(srcData); }
    else { if (fwd) bc.template forward<GS>(srcData, tgtData); else bc.template backward<GS>(srcData, tgtData); }

    // oracle 2: what the definition says about this round, for every rank (this rank's part is compared)
    std::vector<std::array<Shadow, 2>> pre = sh;
    auto preOf = [&](int r, int k) -> Shadow& { return pre[r][(k == 1 && c.oneC(r)) ? 0 : k]; };
    std::vector<Call> expG, expS;
    bool openInvolved = false;
    for (int q = 0; q < P; ++q) {        // q = receiving rank
      // deliveries per (local, comp) of q's receiving container
      std::map<std::pair<long, int>, std::vector<std::pair<long, bool>>> del;
      for (int p = 0; p < P; ++p) {
        // forward: p gathers from its source container at lp, q scatters to its target container at lq
        // backward: roles exchanged: sender p is the target side of the forward pair (q' = p), receiver q the source side
        auto shd = fwd ? sharedDef(c, p, q) : sharedDef(c, q, p);
        for (auto& s : shd) {
          long lsend = fwd ? s.lp : s.lq, lrecv = fwd ? s.lq : s.lp;
          Shadow& from = preOf(p, fwd ? 0 : 1);
          int nb = c.blk(s.g);
          for (int j = 0; j < nb; ++j) {
            long v = from.v[lsend][j];
            bool op = from.open[lsend][j];
            del[std::make_pair(lrecv, j)].push_back(std::make_pair(v, op));
            if (p == rank) expG.push_back(Call{lsend, j, v});
            if (q == rank) { expS.push_back(Call{lrecv, j, v}); if (op) openInvolved = true; }
            if (p == rank && op) openInvolved = true;
          }
        }
      }
      Shadow& to = contOf(q, fwd ? 1 : 0);
      for (auto& l : to.cand) for (auto& cj : l) cj.clear();
      for (auto& kv : del) {
        long l = kv.first.first;
        int j = kv.first.second;
        bool anyOpen = false;
        for (auto& d : kv.second) anyOpen = anyOpen || d.second;
        if (c.add) {
          long sum = to.v[l][j];
          for (auto& d : kv.second) sum += d.first;
          to.v[l][j] = sum;
          to.open[l][j] = to.open[l][j] || anyOpen;
        } else if (kv.second.size() == 1) {
          to.v[l][j] = kv.second[0].first;
          to.open[l][j] = kv.second[0].second;
        } else {
          to.open[l][j] = 1;
          if (!anyOpen) for (auto& d : kv.second) to.cand[l][j].push_back(d.first);
        }
      }
    }
    // compare this rank
    std::string rd = std::string("round ") + dir + " on rank " + std::to_string(rank) + ": ";
    if (!c.dt && !c.cgs) {
      auto canonCalls = [&](std::vector<Call> v) {
        if (openInvolved) for (auto& x : v) x.v = 0;
        std::sort(v.begin(), v.end());
        return v;
      };
      auto showCalls = [](const std::vector<Call>& v) {
        std::string s;
        for (auto& x : v) s += "(" + std::to_string(x.l) + "," + std::to_string(x.j) + "," + std::to_string(x.v) + ")";
        return s;
      };
      auto eg = canonCalls(expG), gg = canonCalls(gLog), es = canonCalls(expS), gs = canonCalls(sLog);
      // every shared source entry has to be gathered; how often the policy is asked is not part of the property
      {
        std::set<Call> have(gg.begin(), gg.end());
        bool covered = true;
        for (auto& x : eg) covered = covered && have.count(x) > 0;
        failIf(!covered, rd + "gather calls (local,comp,value) " + showCalls(gg) + " do not cover the expected " + showCalls(eg));
      }
      failIf(es != gs, rd + "scatter calls (local,comp,value) " + showCalls(gs) + " expected " + showCalls(es));
      nCalls += (long)sLog.size();
      if (!expS.empty()) nontrivial = true;
    }
    std::string o = "D ";
    for (int k = 0; k < (one ? 1 : 2); ++k) {
      Shadow& s = sh[rank][k];
      std::vector<std::string> items;
      for (size_t l = 0; l < s.v.size(); ++l)
        for (size_t j = 0; j < s.v[l].size(); ++j) {
          long real = at(data[k], (long)l, (int)j);
          if (s.open[l][j]) {
            items.push_back("*");
            ++nOpen;
            auto& cd = s.cand[l][j];
            failIf(!cd.empty() && std::find(cd.begin(), cd.end(), real) == cd.end(),
                   rd + "container " + std::to_string(k) + " entry " + std::to_string(l) + "." + std::to_string(j) + " = " +
                       std::to_string(real) + " is none of the values sent to it");
          } else {
            items.push_back(std::to_string(real));
            failIf(real != s.v[l][j], rd + "container " + std::to_string(k) + " entry " + std::to_string(l) + "." +
                                          std::to_string(j) + " = " + std::to_string(real) + " expected " +
                                          std::to_string(s.v[l][j]));
          }
        }
      o += (k ? "|" : "") + listStr(items);
    }
    obs.push_back(o);
  }
  // end of the communications of this build: tell the late ranks, collect what the own late items did not consume
  if (!lagItems.empty() && P > 1) {
    std::vector<MPI_Request> tq;
    static int token = 1;
    for (size_t li = 0; li < lagItems.size(); ++li)
      if (lagItems[li] != rank) {
        tq.emplace_back();
        PMPI_Isend(&token, 1, MPI_INT, lagItems[li], 1000 + (int)li, gSide, &tq.back());
      }
    for (size_t li = 0; li < lagItems.size(); ++li)
      if (lagItems[li] == rank)
        for (; lagGot[li] < P - 1; ++lagGot[li]) {
          int tok;
          PMPI_Recv(&tok, 1, MPI_INT, MPI_ANY_SOURCE, 1000 + (int)li, gSide, MPI_STATUS_IGNORE);
        }
    if (!tq.empty()) PMPI_Waitall((int)tq.size(), tq.data(), MPI_STATUSES_IGNORE);
  }
  }
  res.impl = join(obs.begin(), obs.end(), ";");
  res.oracle = fail.empty() ? (nontrivial ? "ok" : "ok trivial") : "FAIL " + fail;
  if (rank == 0) {
    stat("interface_entries_rank0", ifEntries);
    stat("scatter_calls_rank0", nCalls);
    stat("open_entries_rank0", nOpen);
  }
  return res;
}

static Result exec(const std::string& line) {
  int rank, size;
  MPI_Comm_rank(MPI_COMM_WORLD, &rank);
  MPI_Comm_size(MPI_COMM_WORLD, &size);
  Case c;
  std::string why;
  Result res;
  if (!parseCase(line, c, why) || c.P != size) {
    res.impl = "bad-op";
    res.oracle = "ok trivial " + (why.empty() ? std::string("np") : why);
    return res;
  }
  {
    bool alt = false;
    for (auto& ph : c.phases) alt = alt || ph.Salt || ph.Talt;
    if (alt && altTable() == nullptr) {
      res.impl = "no-combine-type";
      res.oracle = "FAIL Dune::Combine has no member typedef Type: Combine<Combine<A,B>,C>, NegateSet<Combine<A,B>> and "
                   "combine(combine(a,b),c) cannot be instantiated, the attribute set of this case cannot be written";
      return res;
    }
  }
  if (rank == 0) {
    bool any2 = false, all2 = true;
    for (int r = 0; r < c.P; ++r) { any2 = any2 || c.two[r]; all2 = all2 && c.two[r]; }
    stat(all2 ? "sets_two" : (any2 ? "sets_mixed" : "sets_one"));
    stat(c.pay == 0 ? "pay_s1" : (c.pay == 1 ? "pay_s3" : (c.vbase ? "pay_var" : "pay_var_with_empty")));
    stat(c.cgs ? "pol_stock_CopyGatherScatter" : (c.add ? "pol_add" : "pol_copy"));
    stat(c.dt ? "comm_datatype" : "comm_buffered");
    stat(c.c1 ? "cont_one" : "cont_two");
    {
      size_t nComm = 0, nFree = 0, nNoFree = 0;
      bool alt = false;
      for (size_t k = 0; k < c.phases.size(); ++k) {
        nComm += c.phases[k].rounds.size();
        if (k > 0) (c.phases[k].freeFirst ? nFree : nNoFree) += 1;
        alt = alt || c.phases[k].Salt || c.phases[k].Talt;
      }
      if (c.phases.size() == 1) stat(std::string("rounds_") + c.phases[0].rounds);
      stat("communications_" + std::to_string(nComm));
      stat("rebuilds_after_free", (long)nFree);
      stat("rebuilds_without_free", (long)nNoFree);
      if (c.phases.size() > 1) stat("cases_with_rebuild");
      if (alt) stat("sets_nested_combine_or_negated");
    }
    stat(c.S == c.T ? "sets_S_eq_T" : "sets_S_ne_T");
    stat(c.ign ? "ignorePublic" : "publicOnly");
  }
  if (rank == 0) {
    size_t nm = 0, nl = 0;
    for (auto& ph : c.phases) for (auto& st : ph.steps) { nm += st.kind == 'm'; nl += st.kind == 'l'; }
    stat("items_new_values_between_communications", (long)nm);
    stat("items_late_rank", (long)nl);
    if (nl) stat("cases_with_late_rank");
    if (nm) stat("cases_with_new_values");
    // is the number of completed sends sensitive to the bound of the send-wait loop?  (a neighbour that is sent to sits at a
    // position >= the number of neighbours that are received from, on some rank, in some communication of the case)
    bool sens = false;
    Case cc = c;
    for (auto& ph : c.phases) {
      cc.S = ph.S;
      cc.T = ph.T;
      for (int fwd = 0; fwd < 2; ++fwd) {
        if (ph.rounds.find(fwd ? 'f' : 'b') == std::string::npos) continue;
        for (int r = 0; r < c.P; ++r) {
          std::vector<std::pair<bool, bool>> nb;  // per neighbour (rank order): sends to it, receives from it
          for (int q = 0; q < c.P; ++q) {
            bool a = !sharedDef(cc, r, q).empty(), b = !sharedDef(cc, q, r).empty();
            if (a || b) nb.push_back(fwd ? std::make_pair(a, b) : std::make_pair(b, a));
          }
          size_t nRecv = 0;
          for (auto& x : nb) nRecv += x.second;
          for (size_t i = nRecv; i < nb.size(); ++i) sens = sens || nb[i].first;
        }
      }
    }
    if (sens && !c.dt) stat("cases_send_beyond_number_of_receives");
  }
  dv_req_case_begin();
  switch (c.pay) {
    case 0: res = runCase<S1>(c); break;
    case 1: res = runCase<S3>(c); break;
    default: res = runCase<VV>(c); break;
  }
  // the communicators, interfaces and containers of the case are gone now
  std::string reqVerdict = dv_req_case_end();
  {
    // a wrong value seen by some rank is the primary evidence; the request discipline explains it
    int valueFail = res.oracle.rfind("ok", 0) == 0 ? 0 : 1, anyValueFail = 0;
    dv_sched_seed(0);
    MPI_Allreduce(&valueFail, &anyValueFail, 1, MPI_INT, MPI_MAX, MPI_COMM_WORLD);
    auto all = allgatherStrings(reqVerdict);
    std::string firstReq;
    for (auto& v : all) if (firstReq.empty()) firstReq = v;
    if (valueFail && !firstReq.empty()) res.oracle += "  [cause: " + firstReq + "]";
    else if (!anyValueFail && !reqVerdict.empty()) res.oracle = "FAIL " + reqVerdict;
  }
  if (rank == 0) {
    static long ls = 0, lr = 0, la = 0;
    stat("requests_tracked_sends_rank0", dv_req_sends() - ls);
    stat("requests_tracked_receives_rank0", dv_req_recvs() - lr);
    stat("request_buffer_audits_rank0", dv_req_audits() - la);
    ls = dv_req_sends();
    lr = dv_req_recvs();
    la = dv_req_audits();
  }
  return res;
}

// ------------------------------------------------------------------------------------------------------------------
static std::string gen(Rng& rng, long, const Args& args) {
  int P;
  MPI_Comm_size(MPI_COMM_WORLD, &P);
  bool thorough = args.tier == "thorough";
  int kind = (int)rng.below(100);
  std::vector<int> two(P);
  for (int r = 0; r < P; ++r) two[r] = kind < 45 ? 0 : (kind < 85 ? 1 : (int)rng.below(2));
  int ign = rng.coin(1, 3);
  // attribute sets: the classical owner -> overlap/copy patterns, symmetric, asymmetric, empty, all
  static const int nice[][2] = {{1, 2}, {1, 6}, {1, 14}, {1, 1}, {3, 3}, {15, 15}, {1, 15}, {15, 1}, {5, 10}, {2, 1}, {7, 8}};
  int S, T;
  if (rng.coin(7, 10)) { auto& n = nice[rng.below(sizeof(nice) / sizeof(nice[0]))]; S = n[0]; T = n[1]; }
  else { S = (int)rng.below(16); T = rng.coin(1, 4) ? S : (int)rng.below(16); }
  int pk = (int)rng.below(10);
  std::string pay = pk < 4 ? "s1" : (pk < 6 ? "s3" : (pk < 9 ? "v" : "w") + std::to_string(rng.below(3)));
  bool dt = rng.coin(1, 5);
  bool add = !dt && rng.coin(2, 5);
  bool cgs = !dt && !add && pay[0] == 's' && rng.coin(1, 4);
  std::string cont = rng.coin() ? "c1" : "c2";
  static const char* rds[] = {"f", "b", "ff", "fb", "bf", "bb", "fbf", "ffb", "bfb"};
  // schedules and user activity between the communications of one build: a rank that is late for a communication
  // (l<r>), new values in the containers (m<k>).  The classical exposure of a sendRecv that returns too early is
  // `l<q>.f.m<k>.f`: q is late for the first forward, its neighbours run ahead, assign new values and gather again.
  auto decorate = [&](const std::string& fb) {
    std::vector<std::string> items;
    for (char ch : fb) items.push_back(std::string(1, ch));
    const size_t n = fb.size();
    std::vector<std::string> before(n + 1);  // items inserted before communication i (n: after the last)
    if (P > 1 && rng.coin(1, 5)) {
      size_t i = rng.below(n);
      before[i] += "l" + std::to_string(rng.below(P)) + ".";
      if (i + 1 < n && rng.coin(3, 4)) before[i + 1] += "m" + std::to_string(rng.below(10)) + ".";
      if (rng.coin(1, 6)) before[rng.below(n)] += "l" + std::to_string(rng.below(P)) + ".";
    }
    if (n > 1 && rng.coin(1, 5)) before[1 + rng.below(n - 1)] += "m" + std::to_string(rng.below(10)) + ".";
    if (rng.coin(1, 25)) before[0] += "m" + std::to_string(rng.below(10)) + ".";
    std::string out;
    bool lastWasComm = false;
    for (size_t i = 0; i < n; ++i) {
      if (!before[i].empty()) { if (!out.empty() && lastWasComm) out += "."; out += before[i]; lastWasComm = false; }
      out.push_back(fb[i]);
      lastWasComm = true;
    }
    return out;
  };
  std::string roundsPlain = rds[rng.below(rng.coin(1, 4) ? 2 : 9)];
  std::string rounds = decorate(roundsPlain);
  int nRebuild = rng.coin(3, 10) ? 1 + (int)rng.below(rng.coin(1, 3) ? 3 : 1) : 0;

  int nG = (int)rng.range(0, thorough ? 12 : 8);
  if (rng.coin(1, 30)) nG = 0;
  long base = rng.coin(1, 5) ? -(long)rng.below(4) : (long)rng.below(50);
  int pubKind = (int)rng.below(20);  // 0: none public, 1..9: all public, else mostly
  double dens = 0.4 + 0.12 * (double)rng.below(5);
  // attribute style: 0 = one owner per global index, others overlap/copy (grid like); 1 = random
  int attrStyle = (int)rng.below(2);
  std::vector<std::string> segs;
  struct GenEnt { int s, r; long g; int a; bool pub; };
  std::vector<GenEnt> ents;
  std::vector<std::array<std::vector<long>, 2>> freeLoc(P);
  for (int r = 0; r < P; ++r)
    for (int s = 0; s < 2; ++s) {
      int n = nG + 3;
      std::vector<long> pool;
      bool gaps = rng.coin(1, 4);
      for (int i = 0; i < n; ++i) pool.push_back(gaps ? i * 2 + (long)rng.below(2) : i);
      if (rng.coin(2, 3)) for (size_t i = pool.size(); i > 1; --i) std::swap(pool[i - 1], pool[rng.below(i)]);
      freeLoc[r][s] = pool;
    }
  long g = base - 1;
  for (int i = 0; i < nG; ++i) {
    g += 1 + (rng.coin(1, 4) ? (long)rng.below(3) : 0);
    for (int s = 0; s < 2; ++s) {
      std::vector<int> on;
      for (int r = 0; r < P; ++r) if ((double)rng.below(1000) < dens * 1000) on.push_back(r);
      if (on.empty()) on.push_back((int)rng.below(P));
      int ownerPos = (int)rng.below(on.size());
      for (size_t k = 0; k < on.size(); ++k) {
        int r = on[k];
        if (s == 1 && !two[r]) continue;
        int attr = attrStyle == 0 ? ((int)k == ownerPos ? 0 : 1 + (int)rng.below(rng.coin(1, 5) ? 3 : 2)) : (int)rng.below(4);
        bool pub = pubKind == 0 ? false : (pubKind <= 9 ? true : rng.coin(5, 6));
        long l = freeLoc[r][s].back();
        freeLoc[r][s].pop_back();
        segs.push_back(std::to_string(s) + "," + std::to_string(r) + "," + std::to_string(g) + "," + std::to_string(l) + "," +
                       std::to_string(attr) + "," + (pub ? "1" : "0"));
        ents.push_back(GenEnt{s, r, g, attr, pub});
      }
    }
  }
  // half of the time aim the attribute sets at a pair of entries that really is shared (keeps trivial cases rare)
  if (!ents.empty() && rng.coin()) {
    for (int tries = 0; tries < 20; ++tries) {
      const GenEnt& e = ents[rng.below(ents.size())];
      const GenEnt& f = ents[rng.below(ents.size())];
      if (e.s != 0 || e.g != f.g) continue;
      if (f.s != (two[f.r] ? 1 : 0)) continue;
      if (e.r == f.r && !two[e.r]) continue;
      if (!ign && (!e.pub || !f.pub)) continue;
      S = (1 << e.a) | (rng.coin(1, 3) ? (int)rng.below(16) : 0);
      T = (1 << f.a) | (rng.coin(1, 3) ? (int)rng.below(16) : 0);
      break;
    }
  }
  if (rng.coin()) for (size_t i = segs.size(); i > 1; --i) std::swap(segs[i - 1], segs[rng.below(i)]);
  std::string flags;
  for (int r = 0; r < P; ++r) flags.push_back((char)('0' + two[r]));
  auto maskStr = [&](int m) { return std::to_string(m) + (rng.coin(1, 5) ? "a" : ""); };
  // life cycle: the communicator is built again for attribute sets that mostly keep the neighbours but change the
  // message sizes (one attribute more or less), sometimes for unrelated sets
  {
    int cs = S, ct = T;
    size_t nComm = roundsPlain.size();
    for (int k = 0; k < nRebuild; ++k) {
      int kind2 = (int)rng.below(6);
      int ns = cs, nt = ct;
      if (kind2 == 0) { ns = (int)rng.below(16); nt = (int)rng.below(16); }
      else if (kind2 == 1) { ns = ct; nt = cs; }
      else if (kind2 == 2) { ns = cs; nt = ct; }  // identical layout
      else { if (rng.coin()) nt = ct ^ (1 << rng.below(4)); else ns = cs ^ (1 << rng.below(4)); if (rng.coin(1, 3)) nt |= ct; }
      std::string more = rds[rng.below(rng.coin(1, 3) ? 2 : 9)];
      if (rng.coin(1, 12)) more = "";
      if (nComm + more.size() > 8) more = more.substr(0, 8 - nComm);
      nComm += more.size();
      rounds += std::string(".") + (rng.coin(2, 3) ? "r" : "n") + maskStr(ns) + "-" + maskStr(nt) +
                (more.empty() ? "" : "." + decorate(more));
      cs = ns;
      ct = nt;
    }
  }
  return "c05 " + std::to_string(P) + " " + flags + " " + std::to_string(ign) + " " + maskStr(S) + " " + maskStr(T) + " " + pay +
         " " + (cgs ? "cgs" : (add ? "add" : "copy")) + " " + (dt ? "dt" : "buf") + " " + cont + " " + rounds + " : " +
         join(segs.begin(), segs.end(), ";");
}

int main(int argc, char** argv) {
  // Open MPI, shared memory: with the default eager limit (4 kB) the small messages of the cases are copied out of the send
  // buffer when the send is posted; a low limit makes every message of >= 16 bytes a rendezvous (payload read from the
  // send buffer when the receive is matched), the transport large production messages get.  DV_C05_EAGER=0 leaves the
  // default.  (An MCA parameter the installed MPI does not know is ignored.)
  {
    const char* e = std::getenv("DV_C05_EAGER");
    std::string v = e ? e : "64";
    if (v != "0") setenv("OMPI_MCA_btl_vader_eager_limit", v.c_str(), 0);
  }
  Dune::MPIHelper::instance(argc, argv);
  MPI_Comm_dup(MPI_COMM_WORLD, &gSide);
  std::cout << std::unitbuf;
  gLagUs = parseArgs(argc, argv).get("lag-us", 4000);
  {
    // number of items the translator (tools/translators/tr_c05.py) could not read from the source (fail-soft)
    Args a = parseArgs(argc, argv);
    int rank;
    MPI_Comm_rank(MPI_COMM_WORLD, &rank);
    if (rank == 0 && a.get("trfallbacks", -1) >= 0) stat("translator_fallbacks", a.get("trfallbacks", 0));
  }
  return runMpi(argc, argv, gen, exec);
}
