// C19 correspondence harness: Dune::MPIGuard and the futures of the non-blocking operations, real code vs. the
// Lean model (lean/DuneVerif/Model/C19.lean), with oracles that evaluate the property's statement directly.
//
// op lines (one whole distributed case per line; P = number of processes is implied):
//
//   guard <def|helper|mpicomm|cc|seq> <[colour of every rank]> : <section>;<section>;...
//       section = two letters per rank:  arm  n  MPIGuard guard(comm)                      (old guard deleted first)
//                                             m  MPIGuard guard(comm,false); guard.reactivate()
//                                             a  guard.reactivate() on the existing guard   (new one if none)
//                                        act  t  finalize(true)    d  finalize()    f  finalize(false)
//                                             r  reactivate() as checkpoint (finalize + re-arm)
//                                             x  exception thrown inside the section (guard destroyed by unwinding)
//                                             q  scope left without finalize (destructor of the armed guard)
//       The end of the case must be matched in every communicator: a rank whose last call is a successful
//       reactivate() holds an armed guard whose destructor enters one more collective, so either no member or every
//       member of a communicator ends that way (last act r and nobody failed in the last section); other lines are
//       rejected (bad-op) -- they are deadlocks by construction of the test case, not of the guard.
//       communicator: def = MPIGuard(bool) [world], helper = MPIGuard(MPIHelper&) [world], mpicomm = MPIGuard(MPI_Comm)
//       and cc = MPIGuard(Communication<MPI_Comm>) on the communicator obtained by splitting the world by colour,
//       seq = MPIGuard(Communication<No_Comm>) (every rank on its own).
//       answer per rank: one letter per section:  E MPIGuardError   - nothing   X the user's exception   ? other
//
//   fut <mpi|seq> <op> <void|int|vec|ref|bool> <wrap> red=<sum|min|max> root=<r> vals=<v0/v1/...> : <step>;<step>;...
//       op = none (default constructed) ibarrier ibroadcast igather iscatter iallgather iallreduce iallreduce1 p2p
//       type = payload: void, int (rvalue), vec = std::vector<int> (rvalue), ref = lvalue buffers (int& / std::vector<int>&,
//              impl::Buffer<T&>), bool (rvalue; values 0/1, reduced with min/max)
//       wrap = raw        the future returned by the operation, move constructed into a local
//              assigned   move assigned into a default-constructed future of the same class (operator=(MPIFuture&&))
//              erased     Dune::Future<R> holding it
//              voidcast   Dune::Future<void> holding it (get() discards the payload, as mpi_collective_benchmark.cc does)
//              movedfrom  Dune::Future<R> a(fut); Dune::Future<R> b(std::move(a)); the calls are made on a (null)
//              null       Dune::Future<R>() (only with op none)
//              reused     (round three) a future VARIABLE that already served a previous operation of the same kind
//                         (other values; constructed from it, result taken with get()) is re-used:  f = <operation>;
//                         i.e. operator=(MPIFuture&&) / the defaulted move assignment of PseudoFuture into a used target.
//                         Exists for every class that can be move assigned, also the two-buffer MPIFuture<R,S> and the
//                         reference payloads, which have no default constructor (so `assigned` does not exist for them)
//              reusedw    the same, but the previous operation was only waited for (the variable is still valid and
//                         still owns the previous result and send object when it is assigned to)
//              reusedd    the same, previous operation: get_send_data() then get() (variable owns nothing any more)
//              erasedreused  Dune::Future<R> variable that served a previous operation (get()), then  ef = Dune::Future<R>(<operation>)
//       step = one letter per rank: v valid()  y ready()  w wait()  g get()  s while(!ready());  - nothing
//              d get_send_data() (round three): the send object of a two-buffer operation (mpi igather / iscatter /
//                iallgather / two-argument iallreduce; wrap raw or reused*), at most once per rank (a second call
//                dereferences the emptied buffer: undefined, outside the property -> bad-op); it waits first, so on a
//                future whose result has been taken it throws InvalidFutureException
//              c the environment completes the operation (the harness waits, through MPI_Request_get_status on the
//                request handle, until MPI reports completion; the future is not touched)
//       Until `c` (or wait/get/spin) the interposed MPI_Test answers "not complete" to the first MPI_Test of a ready()
//       call -- a legal MPI outcome -- so that ready() is deterministic.
//       answer per rank: T/F, ok, [data] (or _ where the payload is not specified), ERR:InvalidFuture, c, -,
//       and * for ready()/polling on an invalid future (result taken, default constructed, moved from): the property
//       speaks about wait/get on invalid futures only (MPIFuture::ready answers true there, PseudoFuture::ready and
//       Dune::Future::ready throw), so the answer is not compared
//
// Oracles (independent of the Lean model):
//   futures, round four: a completion claim (ready() == true, wait()/get()/get_send_data() returning on a valid future)
//           must be backed by MPI having reported the request of the POSTED operation complete to the future (the
//           interposed MPI_Wait/MPI_Test/MPI_Request_get_status/MPI_Testall/MPI_Waitall compare the handle they are
//           asked about with the one the interposed MPI_I* call produced): "becomes ready once the operation has completed".
//   guard   for every section and communicator: failed := some member's act in {f,x,q}; every member with act in
//           {t,d,f,r} must observe E iff failed; x must see its own exception, q nothing; no deadlock (collective
//           counts of the members of a communicator, observed through the interposed MPI_Allreduce, agree; a rank that
//           waits in a collective which a finished member will never enter is reported instead of hanging).
//   future  shadow flags `taken` (a get() returned) and `completed`: valid() == !taken; wait()/get() on a taken or
//           default constructed future throw InvalidFutureException; the first get() returns exactly the data of the
//           operation (computed from vals), ready() is true once completed and false while MPI_Test says "not yet".
//           get_send_data() hands back exactly the send object of THIS operation (value; identity for lvalue buffers).
//   ownership (round three)  the interposed MPI_I* calls record the send and receive buffers of the posted operation;
//           when the calls of the case start (the future has reached the object they are made on, through whatever
//           move construction / assignment / wrapper) both must still be live memory (ASan shadow: not freed) -- a
//           future that let go of a buffer of its operation in flight would make MPI read/write freed memory.
#include <config.h>

#include <mpi.h>
#include <unistd.h>

#include <cassert>
#include <chrono>
#include <cstring>
#include <functional>
#include <memory>
#include <type_traits>

#include <dune/common/binaryfunctions.hh>
#include <dune/common/exceptions.hh>
#include <dune/common/parallel/communication.hh>
#include <dune/common/parallel/future.hh>
#include <dune/common/parallel/mpicommunication.hh>
#include <dune/common/parallel/mpifuture.hh>
#include <dune/common/parallel/mpiguard.hh>
#include <dune/common/parallel/mpihelper.hh>

#include "hcommon_mpi.hh"

#if defined(__SANITIZE_ADDRESS__)
#define DV_HAVE_ASAN 1
#elif defined(__has_feature)
#if __has_feature(address_sanitizer)
#define DV_HAVE_ASAN 1
#endif
#endif
#ifdef DV_HAVE_ASAN
#include <sanitizer/asan_interface.h>
#endif

using namespace dv;

// =====================================================================================================================
// interposition through the MPI profiling interface
// =====================================================================================================================
namespace ip {
// ---- guard mode: observe the collectives of the guard's communicator, turn a deadlock into a verdict ----
bool guardMode = false;
MPI_Comm guardComm = MPI_COMM_NULL;
MPI_Comm ctrl = MPI_COMM_NULL;  // private duplicate of the world for the "I have finished" notes
const int TAG_DONE = 4711;
long issued = 0;        // collectives this rank has started on guardComm in this case
bool deadlock = false;  // a member of my communicator finished the case with fewer collectives than I need
std::vector<long> doneCount;  // per world rank: collectives issued when it finished the case (-1 = not finished)
std::vector<int> members;     // world ranks of my communicator
struct Pending { MPI_Request req; char* s; char* r; };
std::vector<Pending> unfinished;
long totalCollectives = 0;

bool isGuardComm(MPI_Comm c) {
  if (c == guardComm) return true;
  if (c == MPI_COMM_NULL || guardComm == MPI_COMM_NULL) return false;
  int res = MPI_UNEQUAL;
  PMPI_Comm_compare(c, guardComm, &res);
  return res == MPI_IDENT;
}
void pollDone() {
  for (;;) {
    int flag = 0;
    MPI_Status st;
    PMPI_Iprobe(MPI_ANY_SOURCE, TAG_DONE, ctrl, &flag, &st);
    if (!flag) return;
    long c = 0;
    PMPI_Recv(&c, 1, MPI_LONG, st.MPI_SOURCE, TAG_DONE, ctrl, MPI_STATUS_IGNORE);
    doneCount[st.MPI_SOURCE] = c;
  }
}
bool someoneLeftEarly() {
  for (int m : members)
    if (doneCount[m] >= 0 && doneCount[m] < issued) return true;
  return false;
}
void guardBegin(MPI_Comm comm, const std::vector<int>& mem) {
  int size;
  PMPI_Comm_size(MPI_COMM_WORLD, &size);
  guardComm = comm;
  guardMode = comm != MPI_COMM_NULL;
  issued = 0;
  deadlock = false;
  doneCount.assign(size, -1);
  members = mem;
}
// returns "" or a description of the mismatch
std::string guardEnd() {
  if (!guardMode) return "";  // sequential communicator: no collectives, nothing to reconcile (same decision on every rank)
  int size, rank;
  PMPI_Comm_size(MPI_COMM_WORLD, &size);
  PMPI_Comm_rank(MPI_COMM_WORLD, &rank);
  std::vector<MPI_Request> sreq;
  long mine = issued;
  for (int j = 0; j < size; ++j)
    if (j != rank) {
      MPI_Request r;
      PMPI_Isend(&mine, 1, MPI_LONG, j, TAG_DONE, ctrl, &r);
      sreq.push_back(r);
    }
  doneCount[rank] = mine;
  for (int j = 0; j < size; ++j)
    while (doneCount[j] < 0) {
      long c = 0;
      PMPI_Recv(&c, 1, MPI_LONG, j, TAG_DONE, ctrl, MPI_STATUS_IGNORE);
      doneCount[j] = c;
    }
  if (!sreq.empty()) PMPI_Waitall((int)sreq.size(), sreq.data(), MPI_STATUSES_IGNORE);
  std::string msg;
  if (guardMode) {
    long mx = 0;
    bool differ = false;
    for (int m : members) mx = std::max(mx, doneCount[m]);
    for (int m : members) differ = differ || doneCount[m] != mx;
    if (differ || deadlock) {
      std::vector<long> cs;
      for (int m : members) cs.push_back(doneCount[m]);
      msg = "deadlock: members " + listStr(members) + " of the communicator issued " + listStr(cs) +
            " collectives in this case (a rank would wait forever in the collective a finished rank never enters)";
    }
    // complete what is still open so that the communicator stays usable: everybody tops up to the maximum
    for (long k = mine; k < mx; ++k) {
      Pending p;
      p.s = (char*)std::malloc(sizeof(int));
      p.r = (char*)std::malloc(sizeof(int));
      int zero = 0;
      std::memcpy(p.s, &zero, sizeof(int));
      PMPI_Iallreduce(p.s, p.r, 1, MPI_INT, MPI_SUM, guardComm, &p.req);
      unfinished.push_back(p);
    }
    for (auto& p : unfinished) {
      PMPI_Wait(&p.req, MPI_STATUS_IGNORE);
      std::free(p.s);
      std::free(p.r);
    }
    unfinished.clear();
  }
  guardMode = false;
  guardComm = MPI_COMM_NULL;
  return msg;
}

// ---- future mode: capture the request handle, steer MPI_Test ----
bool futMode = false;
bool haveReq = false;
MPI_Request lastReq = MPI_REQUEST_NULL;
int pendingBudget = 0;  // number of MPI_Test calls on an active request that are still answered "not complete"
long testCalls = 0, forced = 0;
// round four -- "becomes ready once THE OPERATION has completed": a future may claim completion (ready() == true, wait()/
// get()/get_send_data() returning) only after MPI has reported the request of the posted operation complete to it.
// `completedVia` is set by the interposed completion calls when the request they are asked about is the one the
// interposed MPI_I* call of this case produced and MPI reports it complete.  A future that does not hold the request of
// its operation (request kept in a local, freed, lost in a move) waits on MPI_REQUEST_NULL and claims completion with
// `completedVia` still false.
bool completedVia = false;
void capture(MPI_Request* r) {
  if (futMode && r) { lastReq = *r; haveReq = true; completedVia = false; }
}
inline bool isPosted(MPI_Request r) { return futMode && haveReq && r == lastReq; }
// the buffers of the operation posted last (what MPI reads from / writes to until the request completes)
struct BufRec {
  bool have = false;
  const void* send = nullptr; size_t sendBytes = 0;
  const void* recv = nullptr; size_t recvBytes = 0;
};
BufRec lastBuf;
size_t bytesOf(long count, MPI_Datatype dt) {
  int ts = 0;
  PMPI_Type_size(dt, &ts);
  return count > 0 && ts > 0 ? (size_t)count * (size_t)ts : 0;
}
void captureBuf(const void* sb, size_t sbytes, const void* rb, size_t rbytes) {
  if (!futMode) return;
  lastBuf.have = true;
  lastBuf.send = (sb == MPI_IN_PLACE) ? nullptr : sb;
  lastBuf.sendBytes = lastBuf.send ? sbytes : 0;
  lastBuf.recv = rb;
  lastBuf.recvBytes = rb ? rbytes : 0;
}
void resetCapture() {
  haveReq = false;
  completedVia = false;
  lastReq = MPI_REQUEST_NULL;
  lastBuf = BufRec();
  pendingBudget = 0;
}
}  // namespace ip

extern "C" {
int MPI_Allreduce(const void* sb, void* rb, int count, MPI_Datatype dt, MPI_Op op, MPI_Comm comm) {
  if (!ip::guardMode || !ip::isGuardComm(comm)) return PMPI_Allreduce(sb, rb, count, dt, op, comm);
  int tsize = 0;
  PMPI_Type_size(dt, &tsize);
  size_t bytes = (size_t)count * (size_t)tsize;
  const void* src = (sb == MPI_IN_PLACE) ? rb : sb;
  if (ip::deadlock) {  // the case is already lost: stay local
    if (sb != MPI_IN_PLACE) std::memcpy(rb, sb, bytes);
    return MPI_SUCCESS;
  }
  ++ip::issued;
  ++ip::totalCollectives;
  ip::Pending p;
  p.s = (char*)std::malloc(bytes ? bytes : 1);
  p.r = (char*)std::malloc(bytes ? bytes : 1);
  std::memcpy(p.s, src, bytes);
  PMPI_Iallreduce(p.s, p.r, count, dt, op, comm, &p.req);
  for (long spins = 0;; ++spins) {
    int flag = 0;
    PMPI_Test(&p.req, &flag, MPI_STATUS_IGNORE);
    if (flag) {
      std::memcpy(rb, p.r, bytes);
      std::free(p.s);
      std::free(p.r);
      return MPI_SUCCESS;
    }
    ip::pollDone();
    if (ip::someoneLeftEarly()) {
      ip::deadlock = true;
      ip::unfinished.push_back(p);
      if (sb != MPI_IN_PLACE) std::memcpy(rb, sb, bytes);
      return MPI_SUCCESS;
    }
    if (spins > 100) usleep(spins > 2000 ? 500 : 30);
  }
}

int MPI_Test(MPI_Request* req, int* flag, MPI_Status* st) {
  if (ip::futMode) {
    ++ip::testCalls;
    if (*req != MPI_REQUEST_NULL && ip::pendingBudget > 0) {
      --ip::pendingBudget;
      ++ip::forced;
      *flag = 0;
      return MPI_SUCCESS;
    }
  }
  const bool posted = ip::isPosted(*req);
  int rc = PMPI_Test(req, flag, st);
  if (posted && *flag) ip::completedVia = true;
  return rc;
}
int MPI_Wait(MPI_Request* req, MPI_Status* st) {
  const bool posted = ip::isPosted(*req);
  int rc = PMPI_Wait(req, st);
  if (posted) ip::completedVia = true;
  return rc;
}
int MPI_Waitall(int count, MPI_Request reqs[], MPI_Status sts[]) {
  bool posted = false;
  for (int i = 0; i < count; ++i) posted = posted || ip::isPosted(reqs[i]);
  int rc = PMPI_Waitall(count, reqs, sts);
  if (posted) ip::completedVia = true;
  return rc;
}
// the same steering for the other ways of asking "is it complete?" (a ready() written with them stays deterministic)
int MPI_Request_get_status(MPI_Request req, int* flag, MPI_Status* st) {
  if (ip::futMode) {
    ++ip::testCalls;
    if (req != MPI_REQUEST_NULL && ip::pendingBudget > 0) {
      --ip::pendingBudget;
      ++ip::forced;
      *flag = 0;
      return MPI_SUCCESS;
    }
  }
  const bool posted = ip::isPosted(req);
  int rc = PMPI_Request_get_status(req, flag, st);
  if (posted && *flag) ip::completedVia = true;
  return rc;
}
int MPI_Testall(int count, MPI_Request reqs[], int* flag, MPI_Status sts[]) {
  if (ip::futMode) {
    ++ip::testCalls;
    bool active = false;
    for (int i = 0; i < count; ++i) active = active || reqs[i] != MPI_REQUEST_NULL;
    if (active && ip::pendingBudget > 0) {
      --ip::pendingBudget;
      ++ip::forced;
      *flag = 0;
      return MPI_SUCCESS;
    }
  }
  bool posted = false;
  for (int i = 0; i < count; ++i) posted = posted || ip::isPosted(reqs[i]);
  int rc = PMPI_Testall(count, reqs, flag, sts);
  if (posted && *flag) ip::completedVia = true;
  return rc;
}
int MPI_Ibarrier(MPI_Comm comm, MPI_Request* request) {
  int rc = PMPI_Ibarrier(comm, request);
  ip::capture(request);
  return rc;
}
int MPI_Ibcast(void* buffer, int count, MPI_Datatype datatype, int root, MPI_Comm comm, MPI_Request* request) {
  int rc = PMPI_Ibcast(buffer, count, datatype, root, comm, request);
  ip::capture(request);
  ip::captureBuf(nullptr, 0, buffer, ip::bytesOf(count, datatype));
  return rc;
}
int MPI_Igather(const void* sendbuf, int sendcount, MPI_Datatype sendtype, void* recvbuf, int recvcount,
                MPI_Datatype recvtype, int root, MPI_Comm comm, MPI_Request* request) {
  int rc = PMPI_Igather(sendbuf, sendcount, sendtype, recvbuf, recvcount, recvtype, root, comm, request);
  ip::capture(request);
  {
    int me = -1, sz = 0;
    PMPI_Comm_rank(comm, &me);
    PMPI_Comm_size(comm, &sz);
    ip::captureBuf(sendbuf, ip::bytesOf(sendcount, sendtype), me == root ? recvbuf : nullptr,
                   me == root ? ip::bytesOf((long)recvcount * sz, recvtype) : 0);
  }
  return rc;
}
int MPI_Iscatter(const void* sendbuf, int sendcount, MPI_Datatype sendtype, void* recvbuf, int recvcount,
                 MPI_Datatype recvtype, int root, MPI_Comm comm, MPI_Request* request) {
  int rc = PMPI_Iscatter(sendbuf, sendcount, sendtype, recvbuf, recvcount, recvtype, root, comm, request);
  ip::capture(request);
  {
    int me = -1, sz = 0;
    PMPI_Comm_rank(comm, &me);
    PMPI_Comm_size(comm, &sz);
    ip::captureBuf(me == root ? sendbuf : nullptr, me == root ? ip::bytesOf((long)sendcount * sz, sendtype) : 0, recvbuf,
                   ip::bytesOf(recvcount, recvtype));
  }
  return rc;
}
int MPI_Iallgather(const void* sendbuf, int sendcount, MPI_Datatype sendtype, void* recvbuf, int recvcount,
                   MPI_Datatype recvtype, MPI_Comm comm, MPI_Request* request) {
  int rc = PMPI_Iallgather(sendbuf, sendcount, sendtype, recvbuf, recvcount, recvtype, comm, request);
  ip::capture(request);
  {
    int sz = 0;
    PMPI_Comm_size(comm, &sz);
    ip::captureBuf(sendbuf, ip::bytesOf(sendcount, sendtype), recvbuf, ip::bytesOf((long)recvcount * sz, recvtype));
  }
  return rc;
}
int MPI_Iallreduce(const void* sendbuf, void* recvbuf, int count, MPI_Datatype datatype, MPI_Op op, MPI_Comm comm,
                   MPI_Request* request) {
  int rc = PMPI_Iallreduce(sendbuf, recvbuf, count, datatype, op, comm, request);
  ip::capture(request);
  ip::captureBuf(sendbuf, ip::bytesOf(count, datatype), recvbuf, ip::bytesOf(count, datatype));
  return rc;
}
int MPI_Isend(const void* buf, int count, MPI_Datatype datatype, int dest, int tag, MPI_Comm comm, MPI_Request* request) {
  int rc = PMPI_Isend(buf, count, datatype, dest, tag, comm, request);
  ip::capture(request);
  ip::captureBuf(buf, ip::bytesOf(count, datatype), nullptr, 0);
  return rc;
}
int MPI_Irecv(void* buf, int count, MPI_Datatype datatype, int source, int tag, MPI_Comm comm, MPI_Request* request) {
  int rc = PMPI_Irecv(buf, count, datatype, source, tag, comm, request);
  ip::capture(request);
  ip::captureBuf(nullptr, 0, buf, ip::bytesOf(count, datatype));
  return rc;
}
}  // extern "C"

// =====================================================================================================================
// common
// =====================================================================================================================
static int g_rank = 0, g_size = 1;
static MPI_Comm g_futComm = MPI_COMM_NULL;  // duplicate of the world used by the futures

static Result badOp() {
  Result r;
  r.impl = "bad-op";
  r.oracle = "ok trivial";
  return r;
}
static std::string stripSpaces(const std::string& s) {
  std::string t;
  for (char c : s) if (c != ' ') t.push_back(c);
  return t;
}

// =====================================================================================================================
// guard
// =====================================================================================================================
struct UserFailure {};

static std::map<std::string, MPI_Comm>& splitCache() {
  static std::map<std::string, MPI_Comm> m;
  return m;
}
static MPI_Comm commForColours(const std::vector<long>& col) {
  std::string key = listStr(col);
  auto it = splitCache().find(key);
  if (it != splitCache().end()) return it->second;
  if (splitCache().size() > 150) {  // every rank sees the same sequence of cases, so this is collective as well
    for (auto& kv : splitCache()) PMPI_Comm_free(&kv.second);
    splitCache().clear();
  }
  MPI_Comm c;
  PMPI_Comm_split(MPI_COMM_WORLD, (int)col[g_rank], g_rank, &c);
  splitCache()[key] = c;
  return c;
}

// `defaulted`: the guard is constructed as the op-line comment says, `MPIGuard guard(comm)`, i.e. with the DEFAULT
// argument of the constructor's `active` parameter (round four: rounds one to three passed `true` explicitly, so the
// declared default of none of the constructors was ever exercised -- mutation M2).  Arm `n` uses the default, arm `a`
// on a rank without guard object passes `true` explicitly, arm `m` passes `false`.
static Dune::MPIGuard* makeGuard(const std::string& ctor, MPI_Comm comm, bool active, bool defaulted = false) {
  if (defaulted) {
    stat("guard_ctor_default_arg");
    if (ctor == "def") return new Dune::MPIGuard();
    if (ctor == "helper") return new Dune::MPIGuard(Dune::MPIHelper::instance());
    if (ctor == "mpicomm") return new Dune::MPIGuard(comm);
    if (ctor == "cc") return new Dune::MPIGuard(Dune::Communication<MPI_Comm>(comm));
    return new Dune::MPIGuard(Dune::Communication<Dune::No_Comm>());
  }
  stat(active ? "guard_ctor_explicit_true" : "guard_ctor_explicit_false");
  if (ctor == "def") return new Dune::MPIGuard(active);
  if (ctor == "helper") return new Dune::MPIGuard(Dune::MPIHelper::instance(), active);
  if (ctor == "mpicomm") return new Dune::MPIGuard(comm, active);
  if (ctor == "cc") return new Dune::MPIGuard(Dune::Communication<MPI_Comm>(comm), active);
  return new Dune::MPIGuard(Dune::Communication<Dune::No_Comm>(), active);
}

static bool failsAct(char a) { return a == 'f' || a == 'x' || a == 'q'; }
static bool reachesAct(char a) { return a == 't' || a == 'd' || a == 'f' || a == 'r'; }

// the end of a case is matched in every communicator (colour class): a member that ends with a successful reactivate()
// (last act r, nobody of the communicator failed in the last section) owes one more collective (its destructor);
// either no member or every member does
static bool endMatched(const std::string& last, const std::vector<long>& eff) {
  const int P = (int)eff.size();
  for (int i = 0; i < P; ++i) {
    bool failed = false;
    int members = 0, rs = 0;
    for (int j = 0; j < P; ++j)
      if (eff[j] == eff[i]) {
        ++members;
        failed = failed || failsAct(last[2 * j + 1]);
        rs += last[2 * j + 1] == 'r';
      }
    if (!failed && rs != 0 && rs != members) return false;
  }
  return true;
}

static Result execGuard(const std::string& ctor, const std::string& groups, const std::string& body) {
  static const std::string ctors[] = {"def", "helper", "mpicomm", "cc", "seq"};
  if (std::find(std::begin(ctors), std::end(ctors), ctor) == std::end(ctors)) return badOp();
  if (groups.size() < 2 || groups.front() != '[' || groups.back() != ']') return badOp();
  std::vector<long> col;
  try { col = parseList(groups); } catch (...) { return badOp(); }
  const int P = (int)col.size();
  if (P != g_size) return badOp();
  for (long c : col) if (c < 0) return badOp();
  std::vector<std::string> secs;
  for (auto& s : split(body, ';')) secs.push_back(stripSpaces(s));
  if (secs.empty()) return badOp();
  for (auto& s : secs) {
    if ((int)s.size() != 2 * P) return badOp();
    for (int i = 0; i < P; ++i) {
      if (std::string("nma").find(s[2 * i]) == std::string::npos) return badOp();
      if (std::string("tdfrxq").find(s[2 * i + 1]) == std::string::npos) return badOp();
    }
  }

  // effective colour = communicator membership
  std::vector<long> eff(P);
  for (int i = 0; i < P; ++i) eff[i] = ctor == "seq" ? i : (ctor == "def" || ctor == "helper") ? 0 : col[i];
  if (!endMatched(secs.back(), eff)) return badOp();
  std::vector<int> members;
  for (int i = 0; i < P; ++i) if (eff[i] == eff[g_rank]) members.push_back(i);
  MPI_Comm comm = MPI_COMM_NULL;
  if (ctor == "def" || ctor == "helper") comm = MPI_COMM_WORLD;
  else if (ctor != "seq") comm = commForColours(eff);
  stat("guard_ctor_" + ctor);
  stat("guard_sections", (long)secs.size());
  stat("guard_groups_" + std::to_string([&] { std::vector<long> u(eff); std::sort(u.begin(), u.end()); return (long)(std::unique(u.begin(), u.end()) - u.begin()); }()));

  ip::guardBegin(comm, members);
  Dune::MPIGuard* guard = nullptr;
  bool armed = false;  // the harness knows: the last call was a reactivate() checkpoint that returned normally
  std::string obs;
  for (auto& s : secs) {
    const char arm = s[2 * g_rank], act = s[2 * g_rank + 1];
    char o = '?';
    stat(std::string("guard_path_") + (guard ? (armed ? "armed" : "inactive") : "none") + "_" + arm + act);
    try {
      if (!(guard && armed)) {
        if (arm == 'n') { delete guard; guard = nullptr; guard = makeGuard(ctor, comm, true, /*defaulted*/ true); }
        else if (arm == 'm') { delete guard; guard = nullptr; guard = makeGuard(ctor, comm, false); guard->reactivate(); }
        else { if (guard) guard->reactivate(); else guard = makeGuard(ctor, comm, true); }
      }
      armed = false;
      switch (act) {
        case 't': guard->finalize(true); o = '-'; break;
        case 'd': guard->finalize(); o = '-'; break;
        case 'f': guard->finalize(false); o = '-'; break;
        case 'r': guard->reactivate(); o = '-'; armed = true; break;
        case 'x':
          try {
            std::unique_ptr<Dune::MPIGuard> scope(guard);  // the guard lives in the scope that is left by the exception
            guard = nullptr;
            throw UserFailure();
          } catch (UserFailure&) { o = 'X'; }
          break;
        case 'q': {
          std::unique_ptr<Dune::MPIGuard> scope(guard);
          guard = nullptr;
        }
          o = '-';
          break;
      }
    } catch (Dune::MPIGuardError&) { o = 'E'; }
    catch (Dune::Exception&) { o = '?'; }
    catch (std::exception&) { o = '?'; }
    catch (...) { o = '?'; }
    obs.push_back(o);
    stat(std::string("guard_obs_") + (o == '-' ? "none" : std::string(1, o)));
  }
  if (guard && armed) stat("guard_end_armed");
  try { delete guard; } catch (...) {}
  guard = nullptr;
  std::string dl = ip::guardEnd();

  // oracle: the statement itself
  Result r;
  r.impl = obs;
  std::string fail;
  for (size_t k = 0; k < secs.size() && fail.empty(); ++k) {
    bool failed = false;
    std::vector<int> who;
    for (int m : members) if (failsAct(secs[k][2 * m + 1])) { failed = true; who.push_back(m); }
    const char act = secs[k][2 * g_rank + 1];
    char expect = act == 'x' ? 'X' : act == 'q' ? '-' : (failed ? 'E' : '-');
    if (failed) stat("guard_section_failed"); else stat("guard_section_clean");
    if (failed && (int)who.size() < (int)members.size()) stat("guard_section_partial_failure");
    if (obs[k] != expect) {
      std::ostringstream os;
      os << "section " << k << ": ";
      if (reachesAct(act)) {
        if (failed) os << "failing ranks " << listStr(who) << " but this rank reached the checkpoint (act " << act << ") and observed '" << obs[k] << "' instead of MPIGuardError";
        else os << "no rank of the communicator failed but this rank (act " << act << ") observed '" << obs[k] << "'";
      } else os << "act " << act << " observed '" << obs[k] << "' expected '" << expect << "'";
      fail = os.str();
    }
  }
  if (fail.empty() && !dl.empty()) fail = dl;
  if (!fail.empty()) r.oracle = "FAIL " + fail;
  return r;
}

// =====================================================================================================================
// futures
// =====================================================================================================================
static const int SENT = -777;

static std::vector<int> toVec(const int& x) { return {x}; }
static std::vector<int> toVec(const bool& x) { return {x ? 1 : 0}; }
static std::vector<int> toVec(const std::vector<int>& v) { return v; }

struct FutCase {
  std::string comm, op, type, wrap, red;
  int root = 0;
  std::vector<std::vector<int>> vals;
  std::vector<std::vector<int>> prevVals;  // contributions to the previous operation a re-used variable served
  std::vector<std::string> steps;
};
// the values of the previous operation on a re-used future variable: different from this operation's in every entry, and
// such that every reduction of them differs from the reduction of the current ones (sum/min/max shift by a constant)
static const int PREV_SHIFT = 1000003;
static int prevOf(const std::string& type, int v) { return type == "bool" ? 1 - v : v + PREV_SHIFT; }

struct Expect {
  bool startsInvalid = false;
  bool dontcare = false;     // payload not specified (igather on non-root, sequential iallgather)
  bool pseudo = false;
  std::vector<int> data;     // the data of the completed operation
  const void* refTarget = nullptr;  // for lvalue payloads: the object the reference must denote
  std::vector<int> sendData;        // two-buffer operations: the send object this rank passed in
  const void* sendTarget = nullptr; // ... and, for an lvalue send buffer, the object get_send_data() must denote
};

static int redOp(const std::string& r, int a, int b) {
  if (r == "sum") return a + b;
  if (r == "min") return std::min(a, b);
  return std::max(a, b);
}
static std::vector<int> reduceAll(const std::string& red, const std::vector<std::vector<int>>& vals) {
  std::vector<int> acc = vals[0];
  for (size_t i = 1; i < vals.size(); ++i)
    for (size_t j = 0; j < acc.size(); ++j) acc[j] = redOp(red, acc[j], vals[i][j]);
  return acc;
}

// the four calls of the future interface, on whatever object the case makes them (keeps runSteps out of the templates)
struct IFut {
  virtual ~IFut() {}
  virtual bool valid() = 0;
  virtual bool ready() = 0;
  virtual void wait() = 0;
  // false: get() returns void.  true: payload (and, for an lvalue result, the address of the object referred to)
  virtual bool get(std::vector<int>& payload, const void*& addr) = 0;
  // get_send_data(): only MPIFuture<R,S> with a second buffer has a send object
  virtual void getSend(std::vector<int>& payload, const void*& addr) = 0;
};
template <class F> struct HasSend : std::false_type {};
template <class R, class S> struct HasSend<Dune::MPIFuture<R, S>> : std::bool_constant<!std::is_void_v<S>> {};
struct NoSendObject {};
template <class F>
struct Adapter : IFut {
  F& f;
  explicit Adapter(F& ff) : f(ff) {}
  bool valid() override { return f.valid(); }
  bool ready() override { return f.ready(); }
  void wait() override { f.wait(); }
  bool get(std::vector<int>& payload, const void*& addr) override {
    using R = decltype(f.get());
    if constexpr (std::is_void_v<R>) {
      f.get();
      return false;
    } else {
      R got = f.get();
      payload = toVec(got);
      if constexpr (std::is_lvalue_reference_v<R>) addr = (const void*)&got;
      return true;
    }
  }
  void getSend(std::vector<int>& payload, const void*& addr) override {
    if constexpr (HasSend<F>::value) {
      using S = decltype(f.get_send_data());
      S got = f.get_send_data();
      payload = toVec(got);
      if constexpr (std::is_lvalue_reference_v<S>) addr = (const void*)&got;
    } else
      throw NoSendObject();
  }
};

// ownership oracle: are the buffers of the operation posted last still live memory?  ("" = yes)
static std::string buffersOfOperationLive() {
#ifdef DV_HAVE_ASAN
  const ip::BufRec& b = ip::lastBuf;
  if (!b.have) return "";
  if (b.send && b.sendBytes && __asan_region_is_poisoned(const_cast<void*>(b.send), b.sendBytes))
    return "the send object of the operation (" + std::to_string(b.sendBytes) +
           " bytes handed to MPI when it was posted) has been destroyed while the operation may still be in flight: the future does not own it";
  if (b.recv && b.recvBytes && __asan_region_is_poisoned(const_cast<void*>(b.recv), b.recvBytes))
    return "the receive object of the operation (" + std::to_string(b.recvBytes) +
           " bytes handed to MPI when it was posted) has been destroyed while the operation may still be in flight: the future does not own it";
#endif
  return "";
}

// run this rank's letters on the future
static Result runSteps(IFut& f, const FutCase& c, const Expect& ex) {
  Result res;
  std::vector<std::string> out;
  std::string fail;
  bool taken = ex.startsInvalid, completed = ex.pseudo || ex.startsInvalid, envComplete = false, interesting = false;
  auto note = [&](const std::string& m) { if (fail.empty()) fail = m; };
  // the future claims that its operation is complete: MPI must have said so about the posted request (see ip::completedVia)
  auto claimsCompletion = [&](const std::string& where, const char* how) {
    if (!ip::haveReq) return;  // no operation was posted (default constructed futures, the sequential communicator)
    stat("fut_completion_claims");
    if (!ip::completedVia) {
      stat("fut_completion_unbacked");
      note(where + how + " although MPI never reported the request of the posted operation complete to this future "
           "(the future does not hold the request of its operation)");
    }
  };
  {
    std::string own = buffersOfOperationLive();
    if (!own.empty()) { note("before the first call: " + own); stat("fut_ownership_lost"); }
    else if (ip::lastBuf.have) stat("fut_ownership_checked");
  }
  for (size_t k = 0; k < c.steps.size(); ++k) {
    const char op = c.steps[k][g_rank];
    std::string o;
    ip::pendingBudget = 0;
    std::string where = "step " + std::to_string(k) + " (" + std::string(1, op) + "): ";
    try {
      switch (op) {
        case '-': o = "-"; break;
        case 'c':
          if (!completed && !envComplete && ip::haveReq) {
            for (long spins = 0;; ++spins) {
              int flag = 0;
              PMPI_Request_get_status(ip::lastReq, &flag, MPI_STATUS_IGNORE);
              if (flag) break;
              if (spins > 100) usleep(spins > 2000 ? 500 : 30);
            }
          }
          envComplete = true;
          o = "c";
          break;
        case 'v': {
          interesting = true;
          bool v = f.valid();
          o = v ? "T" : "F";
          if (v == taken)
            note(where + "valid() = " + o + (taken ? " although the result has been taken / the future was default constructed or moved from"
                                                   : " although the result has not been taken yet"));
          break;
        }
        case 'y': {
          interesting = true;
          bool known = completed || envComplete;
          ip::pendingBudget = known ? 0 : 1;
          long before = ip::forced;
          bool r = f.ready();
          ip::pendingBudget = 0;
          o = taken ? "*" : r ? "T" : "F";  // the property says nothing about ready() on an invalid future
          stat(std::string("fut_ready_") + (r ? "true" : "false") + (taken ? "_invalid" : known ? "_complete" : "_pending"));
          if (!taken) {
            if (known && !r) note(where + "ready() = false although the operation has completed");
            if (!known && r && ip::forced > before) note(where + "ready() = true although MPI_Test reported the operation as not complete");
            if (r) { completed = true; claimsCompletion(where, "ready() = true"); }
          }
          break;
        }
        case 's': {
          interesting = true;
          auto t0 = std::chrono::steady_clock::now();
          bool r = false;
          for (long spins = 0;; ++spins) {
            r = f.ready();
            if (r) break;
            if (spins > 100) usleep(spins > 2000 ? 500 : 30);
            if (std::chrono::steady_clock::now() - t0 > std::chrono::seconds(60)) break;
          }
          o = !r ? "TIMEOUT" : taken ? "*" : "T";
          if (!r) note(where + "ready() never became true although every process takes part in the operation");
          if (r) completed = true;
          if (r && !taken) claimsCompletion(where, "ready() = true (polling)");
          break;
        }
        case 'w': {
          interesting = true;
          if (!taken) stat(completed || envComplete ? "fut_wait_complete" : "fut_wait_may_block");
          f.wait();
          o = "ok";
          if (taken) note(where + "wait() on an invalid future returned instead of throwing InvalidFutureException");
          else claimsCompletion(where, "wait() returned");
          completed = true;
          break;
        }
        case 'g': {
          interesting = true;
          if (!taken) stat(completed || envComplete ? "fut_get_complete" : "fut_get_may_block");
          std::vector<int> g;
          const void* addr = nullptr;
          bool payload = f.get(g, addr);
          if (!taken) claimsCompletion(where, "get() returned");
          if (!payload) {
            o = "ok";
            if (taken) note(where + "get() on an invalid future returned instead of throwing InvalidFutureException");
          } else {
            o = ex.dontcare ? "_" : listStr(g);
            if (taken) note(where + "get() on an invalid future returned " + listStr(g) + " instead of throwing InvalidFutureException");
            else if (!ex.dontcare && g != ex.data)
              note(where + "get() returned " + listStr(g) + " but the data of the completed operation is " + listStr(ex.data));
            if (!taken && addr && ex.refTarget && addr != ex.refTarget) note(where + "get() returned a reference to a different object");
          }
          taken = true;
          completed = true;
          break;
        }
        case 'd': {
          interesting = true;
          if (!taken) stat(completed || envComplete ? "fut_senddata_complete" : "fut_senddata_may_block");
          std::vector<int> g;
          const void* addr = nullptr;
          f.getSend(g, addr);
          if (!taken) claimsCompletion(where, "get_send_data() returned");
          o = listStr(g);
          if (taken) note(where + "get_send_data() on an invalid future returned " + listStr(g) + " instead of throwing InvalidFutureException");
          else {
            if (g != ex.sendData)
              note(where + "get_send_data() returned " + listStr(g) + " but the send object of this operation is " + listStr(ex.sendData));
            if (addr && ex.sendTarget && addr != ex.sendTarget) note(where + "get_send_data() returned a reference to a different object than the one passed in");
          }
          completed = true;  // it waits first
          break;
        }
        default: o = "?";
      }
    } catch (Dune::InvalidFutureException&) {
      o = ((op == 'y' || op == 's') && taken) ? "*" : "ERR:InvalidFuture";
      if ((op == 'y' || op == 's') && taken) stat("fut_ready_throws_invalid");
      if ((op == 'w' || op == 'g' || op == 'd') && !taken) note(where + "InvalidFutureException although the future is valid (result not taken)");
      if ((op == 'y' || op == 's') && !taken) note(where + "ready() threw InvalidFutureException although the future is valid");
      if (op == 'v') note(where + "valid() threw");
    } catch (NoSendObject&) {
      o = "ERR:NoSendObject";
      note(where + "the case asks for get_send_data() on a future without a send object");
    } catch (Dune::Exception& e) {
      o = "ERR:Other";
      note(where + "unexpected Dune exception");
    } catch (std::exception& e) {
      o = "ERR:std";
      note(where + "unexpected std exception");
    }
    out.push_back(o);
    stat(std::string("fut_call_") + (op == '-' ? "none" : std::string(1, op)));
    if (o.rfind("ERR:InvalidFuture", 0) == 0) stat("fut_invalid_future_errors");
  }
  // leave cleanly: a future that still owns an active request is completed before it is destroyed
  ip::pendingBudget = 0;
  try { if (f.valid()) f.wait(); } catch (...) {}
  res.impl = join(out.begin(), out.end(), ",");
  if (!fail.empty()) res.oracle = "FAIL " + fail;
  else if (!interesting) res.oracle = "ok trivial";
  return res;
}

// can the class be default constructed and move assigned?  (MPIFuture<R,S> with a second buffer has no default
// constructor, a reference payload cannot be default constructed)
template <class F> struct CanAssign : std::false_type {};
template <class R> struct CanAssign<Dune::MPIFuture<R, void>> : std::bool_constant<!std::is_reference_v<R>> {};
template <class T> struct CanAssign<Dune::PseudoFuture<T>> : std::bool_constant<!std::is_reference_v<T>> {};

static Result badOp();

// the previous life of a re-used future variable: how the previous operation was consumed before the variable is
// assigned to.  g: get();  w: wait() only (still valid);  d: get_send_data() then get()
template <class F>
static void servePrevious(F& f, char mode) {
  ip::pendingBudget = 0;
  if (mode == 'w') { f.wait(); return; }
  if constexpr (HasSend<F>::value) {
    if (mode == 'd') (void)f.get_send_data();
  }
  f.get();
}

// hand the future to runSteps: directly, move assigned (into a fresh or into a used variable), or through the
// type-erased Dune::Future.  mk(1) posts the operation of the case, mk(0) the previous operation a re-used variable
// served (same kind, values prevVals); both return the future by value.
// (one instantiation per future class: the factory is type-erased)
template <class FT>
static Result driveT(const std::function<FT(int)>& mk, const FutCase& c, Expect ex) {
  using R = decltype(std::declval<FT&>().get());
  auto post = [&]() { ip::resetCapture(); return mk(1); };
  if (c.wrap == "erased") {
    Dune::Future<R> ef(post());
    Adapter<Dune::Future<R>> a(ef);
    return runSteps(a, c, ex);
  }
  if (c.wrap == "erasedreused") {
    Dune::Future<R> ef(mk(0));
    servePrevious(ef, 'g');
    ef = Dune::Future<R>(post());
    Adapter<Dune::Future<R>> a(ef);
    return runSteps(a, c, ex);
  }
  if (c.wrap == "voidcast") {
    Dune::Future<void> ef(post());
    Adapter<Dune::Future<void>> a(ef);
    return runSteps(a, c, ex);
  }
  if (c.wrap == "movedfrom") {
    Dune::Future<R> from(post());
    Dune::Future<R> to(std::move(from));
    Adapter<Dune::Future<R>> a(from);
    ex.startsInvalid = true;
    Result r = runSteps(a, c, ex);
    bool ok = true;
    try { ok = !from.valid() && (to.valid() || c.op == "none"); if (to.valid()) to.wait(); } catch (...) { ok = false; }
    if (!ok && r.oracle.rfind("FAIL", 0) != 0) r.oracle = "FAIL after Future b(std::move(a)) either a is still valid or b is not";
    return r;
  }
  if (c.wrap == "null") {
    Dune::Future<R> ef;
    Adapter<Dune::Future<R>> a(ef);
    ex.startsInvalid = true;
    return runSteps(a, c, ex);
  }
  if (c.wrap == "assigned") {
    if constexpr (CanAssign<FT>::value) {
      FT local;
      local = post();
      Adapter<FT> a(local);
      return runSteps(a, c, ex);
    } else
      return badOp();
  }
  if (c.wrap == "reused" || c.wrap == "reusedw" || c.wrap == "reusedd") {
    if constexpr (std::is_move_assignable_v<FT>) {
      FT local(mk(0));
      servePrevious(local, c.wrap == "reused" ? 'g' : c.wrap == "reusedw" ? 'w' : 'd');
      local = post();
      Adapter<FT> a(local);
      return runSteps(a, c, ex);
    } else
      return badOp();
  }
  FT local(post());
  Adapter<FT> a(local);
  return runSteps(a, c, ex);
}

template <class Mk>
static Result drive(Mk&& mk, const FutCase& c, const Expect& ex) {
  using FT = std::decay_t<decltype(mk(1))>;
  return driveT<FT>(std::function<FT(int)>(std::forward<Mk>(mk)), c, ex);
}

// lvalue payloads of the operations (type ref): one set of objects per generation (0 = previous operation of a
// re-used variable, 1 = the operation of the case)
static int g_slot[2], g_outSlot[2];
static std::vector<int> g_inVec[2], g_outVec[2];
static std::string refHolds(const Result& r, bool wrong, const std::string& holds, const std::string& want) {
  if (r.oracle.rfind("ok", 0) == 0 && wrong) return "FAIL after completion the referenced object holds " + holds + " instead of " + want;
  return r.oracle;
}

template <class Op>
static Result futAllreduce(const FutCase& c, Expect ex, Dune::Communication<MPI_Comm>& cc) {
  auto V = [&](int gen) -> const std::vector<int>& { return (gen ? c.vals : c.prevVals)[g_rank]; };
  ex.data = reduceAll(c.red, c.vals);
  if (c.op == "iallreduce") {
    ex.sendData = V(1);
    if (c.type == "int") return drive([&](int gen) { return cc.template iallreduce<Op>(int(V(gen)[0]), int(SENT)); }, c, ex);
    if (c.type == "vec")
      return drive([&](int gen) { return cc.template iallreduce<Op>(std::vector<int>(V(gen)), std::vector<int>(V(gen).size(), SENT)); }, c, ex);
    ex.refTarget = &g_outSlot[1];
    ex.sendTarget = &g_slot[1];
    Result r = drive([&](int gen) {
      g_slot[gen] = V(gen)[0];
      g_outSlot[gen] = SENT;
      return cc.template iallreduce<Op>(g_slot[gen], g_outSlot[gen]);  // MPIFuture<int&, int&>
    }, c, ex);
    r.oracle = refHolds(r, g_outSlot[1] != ex.data[0], std::to_string(g_outSlot[1]), std::to_string(ex.data[0]));
    return r;
  }
  if (c.type == "int") return drive([&](int gen) { return cc.template iallreduce<Op>(int(V(gen)[0])); }, c, ex);
  if (c.type == "vec") return drive([&](int gen) { return cc.template iallreduce<Op>(std::vector<int>(V(gen))); }, c, ex);
  ex.refTarget = &g_slot[1];
  Result r = drive([&](int gen) {
    g_slot[gen] = V(gen)[0];
    return cc.template iallreduce<Op>(g_slot[gen]);
  }, c, ex);
  r.oracle = refHolds(r, g_slot[1] != ex.data[0], std::to_string(g_slot[1]), std::to_string(ex.data[0]));
  return r;
}
template <class Op>
static Result futAllreduceBool(const FutCase& c, Expect ex, Dune::Communication<MPI_Comm>& cc) {
  auto mine = [&](int gen) { return (gen ? c.vals : c.prevVals)[g_rank][0] != 0; };
  ex.data = reduceAll(c.red, c.vals);
  if (c.op == "iallreduce") {
    ex.sendData = c.vals[g_rank];
    return drive([&](int gen) { return cc.template iallreduce<Op>(bool(mine(gen)), bool(!mine(gen))); }, c, ex);
  }
  return drive([&](int gen) { return cc.template iallreduce<Op>(bool(mine(gen))); }, c, ex);
}
template <class Op>
static Result futAllreduceSeq(const FutCase& c, Expect ex, Dune::Communication<Dune::No_Comm>& sc) {
  auto V = [&](int gen) -> const std::vector<int>& { return (gen ? c.vals : c.prevVals)[g_rank]; };
  ex.data = V(1);
  if (c.type == "bool") {
    if (c.op == "iallreduce") return drive([&](int gen) { return sc.template iallreduce<Op>(bool(V(gen)[0] != 0), bool(V(gen)[0] == 0)); }, c, ex);
    return drive([&](int gen) { return sc.template iallreduce<Op>(bool(V(gen)[0] != 0)); }, c, ex);
  }
  if (c.op == "iallreduce") {
    if (c.type == "int") return drive([&](int gen) { return sc.template iallreduce<Op>(int(V(gen)[0]), int(SENT)); }, c, ex);
    return drive([&](int gen) { return sc.template iallreduce<Op>(std::vector<int>(V(gen)), std::vector<int>(V(gen).size(), SENT)); }, c, ex);
  }
  if (c.type == "int") return drive([&](int gen) { return sc.template iallreduce<Op>(int(V(gen)[0])); }, c, ex);
  if (c.type == "vec") return drive([&](int gen) { return sc.template iallreduce<Op>(std::vector<int>(V(gen))); }, c, ex);
  ex.refTarget = &g_slot[1];  // PseudoFuture<int&>
  return drive([&](int gen) {
    g_slot[gen] = V(gen)[0];
    return sc.template iallreduce<Op>(g_slot[gen]);
  }, c, ex);
}

static bool allowedType(const std::string& comm, const std::string& op, const std::string& ty) {
  auto in = [&](std::initializer_list<const char*> l) { for (auto x : l) if (ty == x) return true; return false; };
  const bool mpi = comm == "mpi";
  if (op == "none") return in({"void", "int"});
  if (op == "ibarrier") return in({"void"});
  if (op == "ibroadcast") return in({"int", "vec", "ref", "bool"});
  if (op == "igather" || op == "iscatter" || op == "iallgather") return mpi ? in({"int", "ref"}) : in({"int"});
  if (op == "iallreduce") return mpi ? in({"int", "vec", "ref", "bool"}) : in({"int", "vec", "bool"});
  if (op == "iallreduce1") return in({"int", "vec", "ref", "bool"});
  if (op == "p2p") return mpi && in({"int", "vec", "bool", "ref"});  // ref (round four): isend/irecv with lvalue buffers
  return false;
}
// two-buffer operations of Communication<MPI_Comm>: the future is an MPIFuture<R,S> that owns a send object
static bool hasSendObject(const std::string& comm, const std::string& op) {
  return comm == "mpi" && (op == "igather" || op == "iscatter" || op == "iallgather" || op == "iallreduce");
}
static bool allowedWrap(const std::string& comm, const std::string& op, const std::string& ty, const std::string& wrap) {
  if (wrap == "raw" || wrap == "erased" || wrap == "voidcast" || wrap == "movedfrom") return true;
  if (wrap == "null") return op == "none";
  if (wrap == "assigned")
    return ty != "ref" && (comm == "seq" || op == "none" || op == "ibarrier" || op == "ibroadcast" || op == "iallreduce1" || op == "p2p");
  // a used variable of the same class is assigned to: every class but PseudoFuture<T&> (reference member) can be
  if (wrap == "reused" || wrap == "reusedw") return op != "none" && !(comm == "seq" && ty == "ref");
  if (wrap == "reusedd") return hasSendObject(comm, op);
  if (wrap == "erasedreused") return op != "none";
  return false;
}
// get_send_data() can be called where the calls are made on the MPIFuture<R,S> itself
static bool allowsSendData(const std::string& comm, const std::string& op, const std::string& wrap) {
  return hasSendObject(comm, op) && (wrap == "raw" || wrap == "reused" || wrap == "reusedw" || wrap == "reusedd");
}

static Result execFut(const std::vector<std::string>& hdr, const std::string& body) {
  if (hdr.size() != 7) return badOp();
  FutCase c;
  c.comm = hdr[0]; c.op = hdr[1]; c.type = hdr[2]; c.wrap = hdr[3];
  if (hdr[4].rfind("red=", 0) != 0 || hdr[5].rfind("root=", 0) != 0 || hdr[6].rfind("vals=", 0) != 0) return badOp();
  c.red = hdr[4].substr(4);
  if (c.red != "sum" && c.red != "min" && c.red != "max") return badOp();
  try {
    c.root = std::stoi(hdr[5].substr(5));
    for (auto& part : split(hdr[6].substr(5), '/')) {
      std::vector<int> v;
      if (part != "_") for (auto& w : split(part, ',')) { size_t pos = 0; v.push_back(std::stoi(w, &pos)); if (pos != w.size()) return badOp(); }
      c.vals.push_back(v);
    }
  } catch (...) { return badOp(); }
  const int P = (int)c.vals.size();
  if (P != g_size) return badOp();
  if (c.comm != "mpi" && c.comm != "seq") return badOp();
  if (!allowedType(c.comm, c.op, c.type) || !allowedWrap(c.comm, c.op, c.type, c.wrap) || c.root < 0 || c.root >= P) return badOp();
  size_t l0 = c.vals[0].size();
  for (auto& v : c.vals) {
    if (c.type == "void") { if (!v.empty()) return badOp(); }
    else if (c.type == "vec") { if (v.size() != l0 || (c.op == "p2p" && l0 < 1)) return badOp(); }
    else if (c.type == "bool") { if (v.size() != 1 || (v[0] != 0 && v[0] != 1) || c.red == "sum") return badOp(); }
    else if (v.size() != 1) return badOp();
  }
  for (auto& s : split(body, ';')) c.steps.push_back(stripSpaces(s));
  for (auto& s : c.steps) {
    if ((int)s.size() != P) return badOp();
    for (char ch : s) if (std::string("vywgcs-d").find(ch) == std::string::npos) return badOp();
  }
  for (int r = 0; r < P; ++r) {  // get_send_data(): only where there is a send object, at most once per rank
    int ds = 0;
    for (auto& s : c.steps) ds += s[r] == 'd';
    if (ds > 1 || (ds == 1 && !allowsSendData(c.comm, c.op, c.wrap))) return badOp();
  }
  for (auto& v : c.vals) {
    std::vector<int> pv;
    for (int x : v) pv.push_back(prevOf(c.type, x));
    c.prevVals.push_back(pv);
  }
  stat("fut_" + c.comm + "_" + c.op + "_" + c.type);
  stat("fut_wrap_" + c.wrap);
  stat("fut_steps", (long)c.steps.size());

  Expect ex;
  ip::futMode = true;
  ip::resetCapture();
  Result r;
  // gen 1 = the operation of the case, gen 0 = the previous operation of a re-used variable
  auto V = [&](int gen) -> const std::vector<std::vector<int>>& { return gen ? c.vals : c.prevVals; };
  auto mine = [&](int gen) -> const std::vector<int>& { return V(gen)[g_rank]; };
  auto firsts = [&](int gen) { std::vector<int> f; for (auto& v : V(gen)) f.push_back(v[0]); return f; };
  const int rk = g_rank, root = c.root;

  if (c.comm == "seq") {
    ex.pseudo = true;
    Dune::Communication<Dune::No_Comm> sc;
    if (c.op == "none") {
      ex.startsInvalid = true;
      if (c.type == "void") r = drive([&](int) { return Dune::PseudoFuture<void>(); }, c, ex);
      else r = drive([&](int) { return Dune::PseudoFuture<int>(); }, c, ex);
    } else if (c.op == "ibarrier") r = drive([&](int) { return sc.ibarrier(); }, c, ex);
    else if (c.op == "ibroadcast") {
      ex.data = mine(1);
      if (c.type == "int") r = drive([&](int gen) { return sc.ibroadcast(int(mine(gen)[0]), 0); }, c, ex);
      else if (c.type == "bool") r = drive([&](int gen) { return sc.ibroadcast(bool(mine(gen)[0] != 0), 0); }, c, ex);
      else if (c.type == "vec") r = drive([&](int gen) { return sc.ibroadcast(std::vector<int>(mine(gen)), 0); }, c, ex);
      else {
        ex.refTarget = &g_slot[1];
        r = drive([&](int gen) { g_slot[gen] = mine(gen)[0]; return sc.ibroadcast(g_slot[gen], 0); }, c, ex);  // PseudoFuture<int&>
      }
    } else if (c.op == "igather") {
      ex.data = {mine(1)[0]};
      r = drive([&](int gen) { return sc.igather(int(mine(gen)[0]), std::vector<int>(1, SENT), 0); }, c, ex);
    } else if (c.op == "iscatter") {
      ex.data = {mine(1)[0]};
      r = drive([&](int gen) { return sc.iscatter(std::vector<int>(1, mine(gen)[0]), int(SENT), 0); }, c, ex);
    } else if (c.op == "iallgather") {
      ex.dontcare = true;  // the sequential iallgather's payload belongs to C07 (DESIGN.md section 6 #17)
      r = drive([&](int gen) { return sc.iallgather(int(mine(gen)[0]), std::vector<int>(1, SENT)); }, c, ex);
    } else if (c.type == "bool") {
      if (c.red == "min") r = futAllreduceSeq<Dune::Min<bool>>(c, ex, sc);
      else r = futAllreduceSeq<Dune::Max<bool>>(c, ex, sc);
    } else if (c.red == "sum") r = futAllreduceSeq<std::plus<int>>(c, ex, sc);
    else if (c.red == "min") r = futAllreduceSeq<Dune::Min<int>>(c, ex, sc);
    else r = futAllreduceSeq<Dune::Max<int>>(c, ex, sc);
  } else {
    Dune::Communication<MPI_Comm> cc(g_futComm);
    if (c.op == "none") {
      ex.startsInvalid = true;
      if (c.type == "void") r = drive([&](int) { return Dune::MPIFuture<void>(); }, c, ex);
      else r = drive([&](int) { return Dune::MPIFuture<int>(); }, c, ex);
    } else if (c.op == "ibarrier") r = drive([&](int) { return cc.ibarrier(); }, c, ex);
    else if (c.op == "ibroadcast") {
      ex.data = c.vals[root];
      if (c.type == "int") r = drive([&](int gen) { return cc.ibroadcast(int(mine(gen)[0]), root); }, c, ex);
      else if (c.type == "bool") r = drive([&](int gen) { return cc.ibroadcast(bool(mine(gen)[0] != 0), root); }, c, ex);
      else if (c.type == "vec") r = drive([&](int gen) { return cc.ibroadcast(std::vector<int>(mine(gen)), root); }, c, ex);
      else {
        ex.refTarget = &g_slot[1];
        r = drive([&](int gen) { g_slot[gen] = mine(gen)[0]; return cc.ibroadcast(g_slot[gen], root); }, c, ex);
        r.oracle = refHolds(r, g_slot[1] != ex.data[0], std::to_string(g_slot[1]), std::to_string(ex.data[0]));
      }
    } else if (c.op == "igather") {
      if (rk == root) ex.data = firsts(1); else ex.dontcare = true;
      ex.sendData = {mine(1)[0]};
      if (c.type == "int")
        r = drive([&](int gen) { return cc.igather(int(mine(gen)[0]), std::vector<int>(rk == root ? P : 0, SENT), root); }, c, ex);
      else {
        ex.refTarget = &g_outVec[1];
        ex.sendTarget = &g_slot[1];
        r = drive([&](int gen) {
          g_slot[gen] = mine(gen)[0];
          g_outVec[gen].assign(rk == root ? P : 0, SENT);
          return cc.igather(g_slot[gen], g_outVec[gen], root);  // MPIFuture<std::vector<int>&, int&>
        }, c, ex);
        r.oracle = refHolds(r, rk == root && g_outVec[1] != ex.data, listStr(g_outVec[1]), listStr(ex.data));
      }
    } else if (c.op == "iscatter") {
      ex.data = {mine(1)[0]};
      ex.sendData = rk == root ? firsts(1) : std::vector<int>();
      if (c.type == "int")
        r = drive([&](int gen) { return cc.iscatter(rk == root ? firsts(gen) : std::vector<int>(), int(SENT), root); }, c, ex);
      else {
        ex.refTarget = &g_outSlot[1];
        ex.sendTarget = &g_inVec[1];
        r = drive([&](int gen) {
          g_inVec[gen] = rk == root ? firsts(gen) : std::vector<int>();
          g_outSlot[gen] = SENT;
          return cc.iscatter(g_inVec[gen], g_outSlot[gen], root);  // MPIFuture<int&, std::vector<int>&>
        }, c, ex);
        r.oracle = refHolds(r, g_outSlot[1] != ex.data[0], std::to_string(g_outSlot[1]), std::to_string(ex.data[0]));
      }
    } else if (c.op == "iallgather") {
      ex.data = firsts(1);
      ex.sendData = {mine(1)[0]};
      if (c.type == "int") r = drive([&](int gen) { return cc.iallgather(int(mine(gen)[0]), std::vector<int>(P, SENT)); }, c, ex);
      else {
        ex.refTarget = &g_outVec[1];
        ex.sendTarget = &g_slot[1];
        r = drive([&](int gen) {
          g_slot[gen] = mine(gen)[0];
          g_outVec[gen].assign(P, SENT);
          return cc.iallgather(g_slot[gen], g_outVec[gen]);
        }, c, ex);
        r.oracle = refHolds(r, g_outVec[1] != ex.data, listStr(g_outVec[1]), listStr(ex.data));
      }
    } else if (c.op == "iallreduce" || c.op == "iallreduce1") {
      if (c.type == "bool") {
        if (c.red == "min") r = futAllreduceBool<Dune::Min<bool>>(c, ex, cc);
        else r = futAllreduceBool<Dune::Max<bool>>(c, ex, cc);
      } else if (c.red == "sum") r = futAllreduce<std::plus<int>>(c, ex, cc);
      else if (c.red == "min") r = futAllreduce<Dune::Min<int>>(c, ex, cc);
      else r = futAllreduce<Dune::Max<int>>(c, ex, cc);
    } else {  // p2p: root sends to root+1
      const int dst = (root + 1) % P;
      ex.data = c.vals[root];
      auto src = [&](int gen) -> const std::vector<int>& { return V(gen)[root]; };
      if (P < 2 || (rk != root && rk != dst)) { r.impl = "idle"; r.oracle = "ok trivial"; }
      else if (c.type == "ref") {
        // round four: isend / irecv with lvalue buffers -> MPIFuture<int&> (impl::Buffer<int&>) created by the
        // point-to-point members; get() hands back a reference to the caller's object
        if (rk == root) {
          ex.refTarget = &g_slot[1];
          r = drive([&](int gen) { g_slot[gen] = src(gen)[0]; return cc.isend(g_slot[gen], dst, 19); }, c, ex);
          r.oracle = refHolds(r, g_slot[1] != ex.data[0], std::to_string(g_slot[1]), std::to_string(ex.data[0]));
        } else {
          ex.refTarget = &g_outSlot[1];
          r = drive([&](int gen) { g_outSlot[gen] = SENT; return cc.irecv(g_outSlot[gen], root, 19); }, c, ex);
          r.oracle = refHolds(r, g_outSlot[1] != ex.data[0], std::to_string(g_outSlot[1]), std::to_string(ex.data[0]));
        }
      } else if (rk == root) {
        if (c.type == "int") r = drive([&](int gen) { return cc.isend(int(src(gen)[0]), dst, 19); }, c, ex);
        else if (c.type == "bool") r = drive([&](int gen) { return cc.isend(bool(src(gen)[0] != 0), dst, 19); }, c, ex);
        else r = drive([&](int gen) { return cc.isend(std::vector<int>(src(gen)), dst, 19); }, c, ex);
      } else {
        if (c.type == "int") r = drive([&](int) { return cc.irecv(int(SENT), root, 19); }, c, ex);
        else if (c.type == "bool") r = drive([&](int gen) { return cc.irecv(bool(src(gen)[0] == 0), root, 19); }, c, ex);  // buffer starts with the wrong value
        else r = drive([&](int gen) { return cc.irecv(std::vector<int>(src(gen).size(), SENT), root, 19); }, c, ex);
      }
    }
  }
  ip::futMode = false;
  ip::pendingBudget = 0;
  return r;
}

// =====================================================================================================================
// executor / generator
// =====================================================================================================================
static Result exec(const std::string& line) {
  size_t p = line.find(" : ");
  if (p == std::string::npos) return badOp();
  std::vector<std::string> hdr = words(line.substr(0, p));
  std::string body = line.substr(p + 3);
  if (hdr.empty()) return badOp();
  if (hdr[0] == "guard" && hdr.size() == 3) return execGuard(hdr[1], hdr[2], body);
  if (hdr[0] == "fut") return execFut(std::vector<std::string>(hdr.begin() + 1, hdr.end()), body);
  return badOp();
}

static long ipow(long b, int e) { long r = 1; while (e-- > 0) r *= b; return r; }

struct FutKind { const char* comm; const char* op; const char* type; };
static const std::vector<FutKind>& futKinds() {
  static const std::vector<FutKind> k = {
      {"mpi", "ibarrier", "void"},   {"mpi", "ibroadcast", "int"},  {"mpi", "ibroadcast", "vec"}, {"mpi", "ibroadcast", "ref"},
      {"mpi", "igather", "int"},     {"mpi", "iscatter", "int"},    {"mpi", "iallgather", "int"}, {"mpi", "iallreduce", "int"},
      {"mpi", "iallreduce", "vec"},  {"mpi", "iallreduce1", "int"}, {"mpi", "iallreduce1", "vec"}, {"mpi", "iallreduce1", "ref"},
      {"mpi", "p2p", "int"},         {"mpi", "p2p", "vec"},         {"mpi", "none", "void"},      {"mpi", "none", "int"},
      {"seq", "ibarrier", "void"},   {"seq", "ibroadcast", "int"},  {"seq", "ibroadcast", "vec"}, {"seq", "igather", "int"},
      {"seq", "iscatter", "int"},    {"seq", "iallgather", "int"},  {"seq", "iallreduce", "int"}, {"seq", "iallreduce", "vec"},
      {"seq", "iallreduce1", "int"}, {"seq", "iallreduce1", "vec"}, {"seq", "none", "void"},      {"seq", "none", "int"},
      // round two: bool payloads, lvalue buffers of the two-argument operations, PseudoFuture<int&>
      {"mpi", "ibroadcast", "bool"}, {"mpi", "iallreduce", "bool"}, {"mpi", "iallreduce1", "bool"}, {"mpi", "p2p", "bool"},
      {"mpi", "iallreduce", "ref"},  {"mpi", "igather", "ref"},     {"mpi", "iscatter", "ref"},    {"mpi", "iallgather", "ref"},
      {"seq", "ibroadcast", "bool"}, {"seq", "iallreduce", "bool"}, {"seq", "iallreduce1", "bool"}, {"seq", "ibroadcast", "ref"},
      {"seq", "iallreduce1", "ref"},
      // round four: point-to-point with lvalue buffers
      {"mpi", "p2p", "ref"}};
  return k;
}
static const std::vector<std::string> kWraps = {"raw", "erased", "assigned", "voidcast", "movedfrom", "null",
                                                 "reused", "reusedw", "reusedd", "erasedreused"};
// the wrappers that exist for a kind, in a fixed order
static std::vector<std::string> wrapsOf(const FutKind& k) {
  std::vector<std::string> w;
  for (auto& x : kWraps) if (allowedWrap(k.comm, k.op, k.type, x)) w.push_back(x);
  return w;
}

// all call sequences over `alpha` with length 1..maxLen, in order of length
static std::vector<std::string> allSeqs(const std::string& alpha, int maxLen) {
  std::vector<std::string> out, cur = {""};
  for (int l = 1; l <= maxLen; ++l) {
    std::vector<std::string> nxt;
    for (auto& s : cur) for (char ch : alpha) nxt.push_back(s + ch);
    out.insert(out.end(), nxt.begin(), nxt.end());
    cur = nxt;
  }
  return out;
}

static std::string genVals(Rng& rng, const FutKind& k, int P, int& L) {
  std::string ty = k.type;
  std::vector<std::string> parts;
  L = ty == "void" ? 0 : ty == "vec" ? (int)rng.range(std::string(k.op) == "p2p" ? 1 : 0, 3) : 1;
  static const std::vector<long> edge = {0, 1, -1, 7, 100, -100, 12345, -777, 2147483, -2147483};
  for (int i = 0; i < P; ++i) {
    if (L == 0) { parts.push_back("_"); continue; }
    std::vector<long> v;
    for (int j = 0; j < L; ++j) v.push_back(ty == "bool" ? (long)rng.below(2) : rng.coin(1, 3) ? rng.pick(edge) : rng.range(-50, 50));
    parts.push_back(join(v.begin(), v.end(), ","));
  }
  return join(parts.begin(), parts.end(), "/");
}

static std::string futLine(Rng& rng, const FutKind& k, int P, const std::vector<std::string>& steps, const std::string& wrap) {
  int L;
  std::string vals = genVals(rng, k, P, L);
  static const std::vector<std::string> reds = {"sum", "min", "max"}, redsBool = {"min", "max"};
  std::ostringstream os;
  os << "fut " << k.comm << " " << k.op << " " << k.type << " " << wrap << " red=" << rng.pick(std::string(k.type) == "bool" ? redsBool : reds) << " root=" << rng.below(P)
     << " vals=" << vals << " : " << join(steps.begin(), steps.end(), ";");
  return os.str();
}

static std::string randomSection(Rng& rng, int P, bool last, int failPct) {
  std::string s;
  for (int i = 0; i < P; ++i) {
    s.push_back("nma"[rng.below(3)]);
    char act;
    if ((int)rng.below(100) < failPct) act = "fxq"[rng.below(100) < 45 ? 0 : rng.below(100) < 65 ? 1 : 2];
    else act = "tdr"[rng.below(100) < 55 ? 0 : rng.below(100) < 40 ? 1 : 2];
    (void)last;  // the caller makes the end matched (matchEnd)
    s.push_back(act);
  }
  return s;
}
// make the end of a case matched (see endMatched): per communicator either nobody or everybody ends with a successful reactivate()
static void matchEnd(Rng& rng, std::string& last, const std::vector<long>& eff) {
  const int P = (int)eff.size();
  for (int guard = 0; guard < 2 * P && !endMatched(last, eff); ++guard)
    for (int i = 0; i < P; ++i) {
      bool failed = false;
      int members = 0, rs = 0;
      for (int j = 0; j < P; ++j)
        if (eff[j] == eff[i]) { ++members; failed = failed || failsAct(last[2 * j + 1]); rs += last[2 * j + 1] == 'r'; }
      if (failed || rs == 0 || rs == members) continue;
      const bool all = rng.coin();
      for (int j = 0; j < P; ++j)
        if (eff[j] == eff[i]) {
          if (all) last[2 * j + 1] = 'r';
          else if (last[2 * j + 1] == 'r') last[2 * j + 1] = 't';
        }
    }
}
static std::vector<long> effOf(const std::string& ctor, const std::vector<long>& col) {
  std::vector<long> eff(col.size());
  for (size_t i = 0; i < col.size(); ++i) eff[i] = ctor == "seq" ? (long)i : (ctor == "def" || ctor == "helper") ? 0 : col[i];
  return eff;
}
static std::string randomGroups(Rng& rng, int P, const std::string& ctor) {
  std::vector<long> col(P, 0);
  if ((ctor == "mpicomm" || ctor == "cc") && P >= 2 && rng.coin(1, 3))
    for (int i = 0; i < P; ++i) col[i] = (long)rng.below(P >= 4 ? 3 : 2);
  return listStr(col);
}

static const std::vector<std::string> kCtors = {"cc", "mpicomm", "def", "helper", "seq"};
static int g_seqLen = 3;

static long guardEnumSize(int P) { return P <= 3 ? (long)kCtors.size() * ipow(3, P) : 0; }
// every path of one rank through arm + act: guard object before (none / inactive / armed by reactivate() / destroyed),
// way of arming, act, and what a second rank does in the same section
static long pathEnumPerCtor(int P) { return 4L * 3 * 6 * (P >= 2 ? 6 : 1); }
static long pathEnumSize(int P) { return pathEnumPerCtor(P) * (P <= 2 ? (long)kCtors.size() : 1); }
// call sequences of one operation kind: over valid/ready/wait/get, and for the two-buffer operations also
// get_send_data() (at most once, see the header)
static std::vector<std::string> seqsOf(const FutKind& k, int maxLen) {
  if (!hasSendObject(k.comm, k.op)) return allSeqs("vywg", maxLen);
  std::vector<std::string> out;
  for (auto& s : allSeqs("vywgd", maxLen)) if (std::count(s.begin(), s.end(), 'd') <= 1) out.push_back(s);
  return out;
}
// the wrappers of a kind on which a given call sequence can be made
static std::vector<std::string> wrapsFor(const FutKind& k, const std::string& seq) {
  std::vector<std::string> w;
  const bool d = seq.find('d') != std::string::npos;
  for (auto& x : wrapsOf(k)) if (!d || allowsSendData(k.comm, k.op, x)) w.push_back(x);
  return w;
}
struct EnumItem { int kind; std::string seq; };
static const std::vector<EnumItem>& futEnum() {
  static int builtFor = -1;
  static std::vector<EnumItem> items;
  if (builtFor != g_seqLen) {
    items.clear();
    for (size_t k = 0; k < futKinds().size(); ++k)
      for (auto& s : seqsOf(futKinds()[k], g_seqLen)) items.push_back({(int)k, s});
    builtFor = g_seqLen;
  }
  return items;
}
static long futEnumSize() { return (long)futEnum().size(); }
// --wrapenum 1 (thorough tier): every wrapper of every operation x every call sequence up to length 3 (otherwise the
// wrappers rotate over the sequences, shifted by the seed)
static bool g_wrapEnum = false;
struct WrapEnumItem { int kind; std::string wrap, seq; };
static const std::vector<WrapEnumItem>& wrapEnum() {
  static const std::vector<WrapEnumItem> items = [] {
    std::vector<WrapEnumItem> v;
    for (size_t k = 0; k < futKinds().size(); ++k)
      for (auto& s : seqsOf(futKinds()[k], 3))
        for (auto& w : wrapsFor(futKinds()[k], s)) v.push_back({(int)k, w, s});
    return v;
  }();
  return items;
}
static long wrapEnumSize() { return g_wrapEnum ? (long)wrapEnum().size() : 0; }

static std::string gen(Rng& rng, long i, const Args& a) {
  const int P = g_size;
  static const std::vector<int> pcts = {0, 0, 15, 35, 60, 100};
  const std::vector<long> zeros(P, 0);
  // 1. every failure subset x both failure modes in one section (P <= 3), for every constructor, among other sections
  long ge = guardEnumSize(P);
  if (i < ge) {
    std::string ctor = kCtors[i / ipow(3, P)];
    long combo = i % ipow(3, P);
    std::string sec;
    for (int r = 0; r < P; ++r) { sec.push_back("nma"[rng.below(3)]); sec.push_back("tfx"[combo % 3]); combo /= 3; }
    std::vector<std::string> secs;
    int before = (int)rng.below(3), after = (int)rng.below(3);
    for (int k = 0; k < before; ++k) secs.push_back(randomSection(rng, P, false, rng.pick(pcts)));
    secs.push_back(sec);
    for (int k = 0; k < after; ++k) secs.push_back(randomSection(rng, P, k == after - 1, rng.pick(pcts)));
    matchEnd(rng, secs.back(), effOf(ctor, zeros));
    return "guard " + ctor + " " + listStr(zeros) + " : " + join(secs.begin(), secs.end(), ";");
  }
  i -= ge;
  // 1b. every path of rank 0 through one section
  long pe = pathEnumSize(P);
  if (i < pe) {
    const long per = pathEnumPerCtor(P);
    std::string ctor = P <= 2 ? kCtors[i / per] : kCtors[i % (long)kCtors.size()];
    long x = i % per;
    static const char* prevs[] = {"", "nt", "nr", "nx"};
    const std::string prev = prevs[x % 4]; x /= 4;
    const char arm = "nma"[x % 3]; x /= 3;
    const char act = "tdfrxq"[x % 6]; x /= 6;
    const char other = "tdfrxq"[x % 6];
    std::vector<std::string> secs;
    auto sec = [&](const std::string& r0, const std::string& r1) {
      std::string s2 = r0;
      for (int r = 1; r < P; ++r) s2 += r == 1 ? r1 : std::string("nt");
      return s2;
    };
    if (!prev.empty()) secs.push_back(sec(prev, "nt"));
    secs.push_back(sec(std::string(1, arm) + act, std::string("n") + other));
    if (!endMatched(secs.back(), effOf(ctor, zeros)) || rng.coin()) {  // closing section: everybody re-arms and succeeds
      std::string t;
      for (int r = 0; r < P; ++r) t += "at";
      secs.push_back(t);
    }
    return "guard " + ctor + " " + listStr(zeros) + " : " + join(secs.begin(), secs.end(), ";");
  }
  i -= pe;
  // 2. every non-blocking operation x every call sequence over valid/ready/wait/get up to length g_seqLen; the wrappers
  //    of the operation rotate over the sequences
  long fe = futEnumSize();
  if (i < fe) {
    const EnumItem& it = futEnum()[i];
    const FutKind& k = futKinds()[it.kind];
    std::vector<std::string> steps;
    for (char ch : it.seq) steps.push_back(std::string(P, ch));
    const std::vector<std::string> ws = wrapsFor(k, it.seq);
    return futLine(rng, k, P, steps, ws[(size_t)(i + (long)(a.seed % 1009)) % ws.size()]);
  }
  i -= fe;
  // 2b. (thorough) every wrapper x every sequence up to length 3
  long we = wrapEnumSize();
  if (i < we) {
    const WrapEnumItem& it = wrapEnum()[i];
    std::vector<std::string> steps;
    for (char ch : it.seq) steps.push_back(std::string(P, ch));
    return futLine(rng, futKinds()[it.kind], P, steps, it.wrap);
  }
  // 3. random
  if (rng.coin(1, 2)) {
    std::string ctor = rng.pick(kCtors);
    int n = (int)rng.range(1, P >= 4 ? 5 : 6);
    std::vector<std::string> secs;
    for (int k = 0; k < n; ++k) secs.push_back(randomSection(rng, P, k == n - 1, rng.pick(pcts)));
    std::string groups = randomGroups(rng, P, ctor);
    matchEnd(rng, secs.back(), effOf(ctor, parseList(groups)));
    return "guard " + ctor + " " + groups + " : " + join(secs.begin(), secs.end(), ";");
  }
  const FutKind& k = rng.pick(futKinds());
  int n = (int)rng.range(1, 6);
  static const std::string alpha = "vywgcs-";
  static const std::vector<int> w = {18, 18, 16, 26, 10, 6, 6};
  const std::string wrap = rng.pick(wrapsOf(k));
  const bool sendData = allowsSendData(k.comm, k.op, wrap);
  std::vector<bool> asked(P, false);  // get_send_data() at most once per rank
  std::vector<std::string> steps;
  bool same = rng.coin(1, 4);
  for (int s = 0; s < n; ++s) {
    std::string st;
    for (int r = 0; r < P; ++r) {
      if (same && r > 0) { st.push_back(st[0]); continue; }
      int x = (int)rng.below(100), acc = 0;
      char ch = '-';
      for (size_t q = 0; q < w.size(); ++q) { acc += w[q]; if (x < acc) { ch = alpha[q]; break; } }
      if (sendData && !asked[same ? 0 : r] && rng.coin(1, 6)) { ch = 'd'; asked[same ? 0 : r] = true; }
      st.push_back(ch);
    }
    steps.push_back(st);
  }
  return futLine(rng, k, P, steps, wrap);
}

int main(int argc, char** argv) {
  Dune::MPIHelper::instance(argc, argv);
  MPI_Comm_rank(MPI_COMM_WORLD, &g_rank);
  MPI_Comm_size(MPI_COMM_WORLD, &g_size);
  PMPI_Comm_dup(MPI_COMM_WORLD, &ip::ctrl);
  PMPI_Comm_dup(MPI_COMM_WORLD, &g_futComm);
  // a future destroyed with an active collective request makes ~MPIFuture call MPI_Cancel, which Open MPI rejects;
  // let that return an error code instead of aborting so that the case's verdict (e.g. stale data) is still written
  PMPI_Comm_set_errhandler(MPI_COMM_WORLD, MPI_ERRORS_RETURN);
  PMPI_Comm_set_errhandler(g_futComm, MPI_ERRORS_RETURN);
  std::cout << std::unitbuf;
  // --random R : number of random cases after the enumerations;  --seqlen L : exhaustive call-sequence length
  Args a = parseArgs(argc, argv);
  g_seqLen = (int)a.get("seqlen", a.tier == "thorough" ? 4 : 3);
  g_wrapEnum = a.get("wrapenum", 0) != 0;  // --wrapenum 1 : add the exhaustive wrapper enumeration (thorough tier, P <= 4)
  long total = guardEnumSize(g_size) + pathEnumSize(g_size) + futEnumSize() + wrapEnumSize() + a.get("random", 300);
  std::vector<std::string> av(argv, argv + argc);
  if (a.replay.empty() && a.extra.find("exact-cases") == a.extra.end()) { av.push_back("--cases"); av.push_back(std::to_string(total)); }
  if (a.extra.find("case-timeout") == a.extra.end()) { av.push_back("--case-timeout"); av.push_back("100"); }
  std::vector<char*> avp;
  for (auto& s : av) avp.push_back(&s[0]);
  avp.push_back(nullptr);
  int rc = runMpi((int)av.size(), avp.data(), gen, exec);
  if (g_rank == 0) std::cerr << "collectives observed on guard communicators (rank 0): " << ip::totalCollectives << "\n";
  return rc;
}
