// C15: the debug allocator in its compile-time configuration DEBUG_ALLOCATOR_KEEP=1 (released blocks stay recorded and
// inaccessible until the manager is destroyed).  The configuration macro changes the body of member templates of a
// non-template class, so it cannot live in the same program under the same names as the default configuration: this
// translation unit renames the library's names (namespace DebugMemory, class DebugAllocator) before it includes the
// header and the .cc file of the tree under test.
#include <config.h>

// everything the header includes that must keep its names is included first
#include <sys/mman.h>
#include <exception>
#include <typeinfo>
#include <vector>
#include <iostream>
#include <cstring>
#include <cstdint>
#include <cstdlib>
#include <new>
#include <unistd.h>
#include <dune/common/mallocallocator.hh>

#define DEBUG_ALLOCATOR_KEEP 1
#define DebugMemory DebugMemoryKeep
#define DebugAllocator DebugAllocatorKeep
#include <dune/common/debugallocator.hh>
#include <dune/common/debugallocator.cc>   // page_size, allocation_error, alloc_man of the renamed namespace

#include "cxx_c15_shared.hh"

#define C15_MGR_FACTORY c15MgrFactoryKeep
#include "cxx_c15_mgr.inc"
