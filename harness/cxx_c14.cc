// C14 correspondence harness: Dune::Std extents / layout_left / layout_right / layout_stride / mdspan / mdarray / span
// against the Lean model (lean/Driver/C14.lean), with an independent oracle:
//   * expected offsets come from the naive enumeration order of the index space (a counter running over the
//     column-major resp. row-major enumeration) or, for strided layouts, from repeated addition,
//   * injectivity through a std::set, range and gap checks by counting, stride(r) by comparing neighbouring tuples,
//   * views/arrays: pointer identity of the returned references against data() + expected offset and a shadow
//     std::vector; ASan guards the exact-size heap storage.
//
// op lines
//   map     IT PAT LAY CTOR EXTS [STRIDES]      extents construction + whole mapping table
//   conv    IT PAT LAY KIND EXTS [STRIDES]      KIND: stride | dyn | lr | toleft | toright
//   mdspan  IT PAT LAY ACC  EXTS [STRIDES]      ACC: access form call | arr | span | br, or constructor form
//                                               acc (custom accessor + data handle, element type long long) |
//                                               accil (accessor viewing every second entry: access(p,i) = p[2i+1]) | vdyn | vfull |
//                                               adyn | sdyn | sfull (variadic/array/span of rank_dynamic resp. rank extents) |
//                                               def (default-construct, then assign) | swap
//   mdarray IT PAT LAY CTOR ACC EXTS [STRIDES] [pad=K]  (LAY = stride: the array's layout policy is PadLayout, a policy over
//                                                layout_stride::mapping; forms map mapval contmv copy mapcontal mapcontmval copyal allocval span spanal spanil spanilal)
//   mdarray IT PAT LAY CTOR ACC EXTS [pad=K]    CTOR: ext extval map mapval cont contmv copy conv span spanal strided alloc allocval variadic
//                                               arrext arrval arrcont (std::array container, fully static extents)
//                                               contmve extvalal contal contmval mapcontal mapcontmval copyal swap default
//                                               spanil spanilal stridedil (array built from a view with a non-trivial accessor policy)
//                                               pad=K (K = 1..6): the container handed to the constructor has K elements more than
//                                               required_span_size() (container-taking forms; std::array forms: K = 2 only)
//   bigmap  IT PAT LAY EXTS [STRIDES] : t;t;... mapping over a HUGE index space (extents up to the limit of the index type) observed
//                                               at the listed index tuples `[i,j,k]` only ("-" = none): strides, span, offsets,
//                                               conversions to layout_stride / to dextents of another wide index type and back,
//                                               size()/stride()/extent() of a view over it (no storage is touched)
//   span    N EXT [VIA] : op;op;...             op: first c | last c | sub o c|d | tfirst c | tlast c | tsub o c|d | at i | fb | iter | conv
//                                               VIA: ptr (default) | iters | range | carr | stdarr | def  (constructor of the initial span)
// IT: int|size|short|long, PAT: one char per dimension, 'd' = dynamic_extent, digit = static extent, "-" = rank 0,
// LAY: left|right|stride, EXTS/STRIDES: [a,b,c] (all `rank` extents; the constructor form decides what is passed).
#include <config.h>

#include <algorithm>
#include <array>
#include <map>
#include <memory>
#include <optional>
#include <set>
#include <stdexcept>
#include <tuple>
#include <utility>
#include <vector>

#include <dune/common/std/span.hh>
#include <dune/common/std/extents.hh>
#include <dune/common/std/layout_left.hh>
#include <dune/common/std/layout_right.hh>
#include <dune/common/std/layout_stride.hh>
#include <dune/common/std/mdspan.hh>
#include <dune/common/std/mdarray.hh>

#include "hcommon.hh"

using namespace dv;
namespace S = Dune::Std;
using VL = std::vector<long>;
constexpr std::size_t D = S::dynamic_extent;
static const long MAXEXT = 8, MAXSTRIDE = 1000;

struct BadOp {};

// ------------------------------------------------------------------------------------------------------------------
// index space, independent reference
// ------------------------------------------------------------------------------------------------------------------

// all index tuples, last index fastest (rank 0: the one empty tuple)
static std::vector<VL> tuplesRowMajor(const VL& ext) {
  std::vector<VL> out;
  for (long e : ext) if (e <= 0) return out;
  VL t(ext.size(), 0);
  while (true) {
    out.push_back(t);
    if (out.size() > 200000) return out;
    int k = (int)ext.size() - 1;
    while (k >= 0 && ++t[k] == ext[k]) { t[k] = 0; --k; }
    if (k < 0) break;
  }
  return out;
}
// first index fastest
static std::vector<VL> tuplesColMajor(const VL& ext) {
  std::vector<VL> out;
  for (long e : ext) if (e <= 0) return out;
  VL t(ext.size(), 0);
  while (true) {
    out.push_back(t);
    if (out.size() > 200000) return out;
    std::size_t k = 0;
    while (k < ext.size() && ++t[k] == ext[k]) { t[k] = 0; ++k; }
    if (k >= ext.size()) break;
  }
  return out;
}

enum { LEFT = 0, RIGHT = 1, STRIDE = 2 };

// expected offset of every tuple (keyed by the tuple): position in the naive enumeration / repeated addition
static std::map<VL, long> expectedOffsets(int lay, const VL& ext, const VL& str) {
  std::map<VL, long> m;
  if (lay == LEFT) {
    long c = 0;
    for (auto& t : tuplesColMajor(ext)) m[t] = c++;
  } else if (lay == RIGHT) {
    long c = 0;
    for (auto& t : tuplesRowMajor(ext)) m[t] = c++;
  } else {
    for (auto& t : tuplesRowMajor(ext)) {
      long o = 0;
      for (std::size_t r = 0; r < t.size(); ++r)
        for (long k = 0; k < t[r]; ++k) o += str[r];
      m[t] = o;
    }
  }
  return m;
}

// sufficient criterion for a strided mapping to be unique: ordered by stride, each stride covers the span below it
static bool stridesSortedUnique(const VL& ext, const VL& str) {
  std::vector<std::pair<long, long>> d;  // (stride, extent) of the dimensions that matter
  for (std::size_t r = 0; r < ext.size(); ++r) {
    if (ext[r] == 0) return true;
    if (ext[r] > 1) d.push_back({str[r], ext[r]});
  }
  std::sort(d.begin(), d.end());
  long need = 1;
  for (auto& p : d) {
    if (p.first < need) return false;
    need = p.first * p.second;
  }
  return true;
}

static VL canonStrides(int lay, const VL& ext);

struct MapObs {
  VL ext, str, offs;
  long rss = 0;
  bool exh = false;
};

static std::string blockStr(const MapObs& o) {
  return "ext=" + listStr(o.ext) + " rss=" + std::to_string(o.rss) + " str=" + listStr(o.str) +
         " exh=" + (o.exh ? "true" : "false") + " offs=" + listStr(o.offs);
}

// the property on one mapping: "" or what is wrong
static std::string checkMap(int lay, const VL& ext, const VL& str, const MapObs& o) {
  if (o.ext != ext) return "extents " + listStr(o.ext) + " expected " + listStr(ext);
  auto tuples = tuplesRowMajor(ext);
  auto exp = expectedOffsets(lay, ext, str);
  long n = (long)tuples.size();
  if ((long)o.offs.size() != n) return "number of offsets";
  std::map<VL, long> got;
  std::set<long> distinct;
  long maxExp = -1;
  for (long i = 0; i < n; ++i) {
    long off = o.offs[i];
    got[tuples[i]] = off;
    if (off < 0 || off >= o.rss)
      return "offset " + std::to_string(off) + " of " + listStr(tuples[i]) + " outside [0," + std::to_string(o.rss) + ")";
    if (off != exp[tuples[i]])
      return "offset " + std::to_string(off) + " of " + listStr(tuples[i]) + " expected " + std::to_string(exp[tuples[i]]);
    maxExp = std::max(maxExp, exp[tuples[i]]);
    distinct.insert(off);
  }
  bool mustBeUnique = lay != STRIDE || stridesSortedUnique(ext, str);
  if (mustBeUnique && (long)distinct.size() != n) return "two index tuples share an offset";
  if (lay != STRIDE) {
    if (o.rss != n) return "required_span_size " + std::to_string(o.rss) + " but " + std::to_string(n) + " index tuples";
    if ((long)distinct.size() != o.rss) return "gaps in the range";
    if (!o.exh) return "is_exhaustive() false";
  } else {
    long want = ext.empty() ? 1 : (n == 0 ? 0 : maxExp + 1);
    if (o.rss != want) return "required_span_size " + std::to_string(o.rss) + " expected " + std::to_string(want);
    // (for strides that do not make a unique mapping - a violated precondition - nothing is demanded of is_exhaustive)
    if (o.exh && (long)distinct.size() == n && (long)distinct.size() != o.rss) return "is_exhaustive() true but the range has gaps";
    if (!o.exh && n > 0 && (long)distinct.size() == n && n == o.rss) return "is_exhaustive() false but the mapping fills its range";
  }
  // strides: definition and unit steps
  if (!ext.empty()) {
    if (o.str.size() != ext.size()) return "number of strides";
    for (std::size_t r = 0; r < ext.size(); ++r) {
      long want;
      if (lay == LEFT) { want = 1; for (std::size_t k = 0; k < r; ++k) want *= ext[k]; }
      else if (lay == RIGHT) { want = 1; for (std::size_t k = r + 1; k < ext.size(); ++k) want *= ext[k]; }
      else want = str[r];
      if (o.str[r] != want) return "stride(" + std::to_string(r) + ") = " + std::to_string(o.str[r]) + " expected " + std::to_string(want);
    }
    for (auto& t : tuples)
      for (std::size_t r = 0; r < ext.size(); ++r)
        if (t[r] + 1 < ext[r]) {
          VL u = t;
          ++u[r];
          if (got[u] - got[t] != o.str[r])
            return "step in dimension " + std::to_string(r) + " at " + listStr(t) + " is " + std::to_string(got[u] - got[t]) +
                   " but stride is " + std::to_string(o.str[r]);
        }
  }
  return "";
}

// ------------------------------------------------------------------------------------------------------------------
// parsed op line
// ------------------------------------------------------------------------------------------------------------------

struct Ctx {
  std::string kind, it, pat, layName, x, acc;
  VL patv;  // -1 = dynamic
  int lay = 0;
  VL ext, str;
  long pad = 0;             // mdarray: surplus elements of the container
  std::vector<VL> tuples;   // bigmap: the index tuples to observe
};

static VL parsePat(const std::string& p) {
  VL v;
  if (p == "-") return v;
  for (char c : p) {
    if (c == 'd') v.push_back(-1);
    else if (c >= '0' && c <= '9') v.push_back(c - '0');
    else throw BadOp{};
  }
  return v;
}
static VL strictList(const std::string& s) {
  if (s.size() < 2 || s.front() != '[' || s.back() != ']') throw BadOp{};
  for (char c : s) if (!(c == '[' || c == ']' || c == ',' || (c >= '0' && c <= '9'))) throw BadOp{};
  try { return parseList(s); } catch (...) { throw BadOp{}; }
}

// ------------------------------------------------------------------------------------------------------------------
// calls into the real code
// ------------------------------------------------------------------------------------------------------------------

template <class L> constexpr bool isStride = std::is_same_v<L, S::layout_stride>;

// a user-supplied layout policy: the mapping is Dune's own layout_stride::mapping (all addressing is done by the
// code under test); the policy only adds what mdarray requires of its layout, a mapping constructible from extents
// alone (then canonical row-major strides).  With padded strides this is a unique, strided, NON-exhaustive layout of
// an owning array (cf. std::layout_right_padded).
struct PadLayout {
  template <class E> class mapping {
    using Inner = S::layout_stride::mapping<E>;
    template <class> friend class mapping;
  public:
    using extents_type = E;
    using index_type = typename E::index_type;
    using size_type = typename E::size_type;
    using rank_type = typename E::rank_type;
    using layout_type = PadLayout;
    constexpr mapping() = default;
    constexpr mapping(const E& e) : inner_(e, rowMajor(e)) {}
    constexpr mapping(const E& e, const std::array<index_type, E::rank()>& s) : inner_(e, s) {}
    constexpr mapping(const Inner& m) : inner_(m) {}
    template <class OE, std::enable_if_t<std::is_constructible_v<E, OE>, int> = 0>
    constexpr mapping(const mapping<OE>& o) : inner_(o.inner_) {}
    constexpr const E& extents() const noexcept { return inner_.extents(); }
    constexpr index_type required_span_size() const noexcept { return inner_.required_span_size(); }
    template <class... I> constexpr index_type operator()(I... ii) const noexcept { return inner_(ii...); }
    constexpr index_type stride(rank_type r) const noexcept { return inner_.stride(r); }
    static constexpr bool is_always_unique() noexcept { return true; }
    static constexpr bool is_always_exhaustive() noexcept { return false; }
    static constexpr bool is_always_strided() noexcept { return true; }
    constexpr bool is_unique() const noexcept { return true; }
    constexpr bool is_exhaustive() const noexcept { return inner_.is_exhaustive(); }
    constexpr bool is_strided() const noexcept { return true; }
    friend constexpr bool operator==(const mapping& a, const mapping& b) noexcept { return a.inner_ == b.inner_; }
    const Inner& inner() const { return inner_; }
  private:
    static constexpr std::array<index_type, E::rank()> rowMajor(const E& e) {
      std::array<index_type, E::rank()> s{};
      index_type prod = 1;
      for (std::size_t r = E::rank(); r-- > 0;) { s[r] = prod; prod *= e.extent(r); }
      return s;
    }
    Inner inner_;
  };
};

template <class I> using OtherIndex = std::conditional_t<std::is_same_v<I, int>, std::size_t, int>;
// can a strided mapping be built from another mapping type over these extents?  (true for every rank once
// fixes/C14_stride_rank0.patch is applied; without it rank 0 is missing, which is reported as a failure)
template <class E> constexpr bool strideFromAny = std::is_constructible_v<S::layout_stride::mapping<E>, const S::layout_right::mapping<E>&>;
static const char* const RANK0_MSG = "layout_stride::mapping of rank 0 cannot be constructed from another rank-0 mapping (nor default-constructed)";
// Conversion partners of an extents type E whose dynamic extents sit at OTHER positions (and with another index type):
//   MODE 1: every static extent becomes dynamic and every dynamic extent becomes static,
//   MODE 2: only the first static and the first dynamic position are flipped (same rank_dynamic, other positions).
// A dynamic position k that becomes static gets the value FLIPV[k]; the conversion is legal iff the run-time extent
// equals it (checked by flipOk; otherwise the op violates the precondition and is answered bad-op).
static constexpr std::size_t FLIPV[4] = {2, 3, 1, 2};
template <class E, int MODE, class Seq = std::make_index_sequence<E::rank()>> struct FlipImpl;
template <class I, std::size_t... X, int MODE, std::size_t... K> struct FlipImpl<S::extents<I, X...>, MODE, std::index_sequence<K...>> {
  static constexpr std::size_t R = sizeof...(X);
  static constexpr std::size_t at(std::size_t k) {
    constexpr std::size_t pat[R + 1] = {X..., 0};
    std::size_t firstStatic = R, firstDyn = R;
    for (std::size_t q = R; q-- > 0;) {
      if (pat[q] == D) firstDyn = q; else firstStatic = q;
    }
    bool flip = MODE == 1 || k == firstStatic || k == firstDyn;
    if (!flip) return pat[k];
    return pat[k] == D ? FLIPV[k] : D;
  }
  using type = S::extents<OtherIndex<I>, at(K)...>;
};
template <class E, int MODE> using Flip = typename FlipImpl<E, MODE>::type;
template <class F> bool flipOk(const VL& ext) {
  for (std::size_t r = 0; r < F::rank(); ++r)
    if (F::static_extent(r) != D && long(F::static_extent(r)) != ext[r]) return false;
  return true;
}
template <class X> VL extOf(const X& e) {
  VL v;
  for (std::size_t r = 0; r < X::rank(); ++r) v.push_back(long(e.extent(r)));
  return v;
}

static Result rank0Failure() {
  Result r;
  r.impl = "uncompilable";
  r.oracle = std::string("FAIL ") + RANK0_MSG;
  return r;
}

template <class I, std::size_t R> std::array<I, R> toArr(const VL& t) {
  std::array<I, R> a{};
  for (std::size_t k = 0; k < R; ++k) a[k] = I(t[k]);
  return a;
}

template <class M> long callMap(const M& m, const VL& t) {
  using I = typename M::index_type;
  constexpr std::size_t R = M::extents_type::rank();
  return long(std::apply([&](auto... i) { return m(i...); }, toArr<I, R>(t)));
}

template <class M> MapObs observe(const M& m) {
  constexpr std::size_t R = M::extents_type::rank();
  MapObs o;
  for (std::size_t r = 0; r < R; ++r) o.ext.push_back(long(m.extents().extent(r)));
  if constexpr (R > 0)
    for (std::size_t r = 0; r < R; ++r) o.str.push_back(long(m.stride(r)));
  o.rss = long(m.required_span_size());
  o.exh = m.is_exhaustive();
  for (auto& t : tuplesRowMajor(o.ext)) o.offs.push_back(callMap(m, t));
  return o;
}

template <class E> E makeExt(const std::string& ctor, const VL& full) {
  using I = typename E::index_type;
  constexpr std::size_t R = E::rank(), RD = E::rank_dynamic();
  std::array<I, R> af{};
  std::array<I, RD> ad{};
  std::size_t j = 0;
  for (std::size_t r = 0; r < R; ++r) {
    af[r] = I(full[r]);
    if (E::static_extent(r) == D) ad[j++] = I(full[r]);
  }
  if (ctor == "vfull") return std::apply([](auto... e) { return E(e...); }, af);
  if (ctor == "vdyn") return std::apply([](auto... e) { return E(e...); }, ad);
  if (ctor == "afull") return E(af);
  if (ctor == "adyn") return E(ad);
  if (ctor == "sfull") return E(S::span<I, R>(af));
  if (ctor == "sdyn") return E(S::span<I, RD>(ad));
  throw BadOp{};
}

template <class L, class E> typename L::template mapping<E> makeMap(const E& e, const VL& str, bool viaSpan = false) {
  using M = typename L::template mapping<E>;
  if constexpr (isStride<L>) {
    // strides given in another integer type than index_type, as std::array or as Std::span
    auto sa = toArr<OtherIndex<typename E::index_type>, E::rank()>(str);
    if (viaSpan) return M(e, S::span<OtherIndex<typename E::index_type>, E::rank()>(sa));
    return M(e, sa);
  }
  else return M(e);
}

// element access in the requested syntactic form
template <class V, class I, std::size_t R> int& accessAt(V& v, const std::string& form, const std::array<I, R>& a) {
  if (form == "arr") return v[a];
  if (form == "span") return v[S::span<const I, R>(a)];
  if constexpr (R == 1)
    if (form == "br") return v[a[0]];
  return std::apply([&](auto... i) -> int& { return v(i...); }, a);
}
template <class V, class I, std::size_t R> const int& accessAtC(const V& v, const std::string& form, const std::array<I, R>& a) {
  if (form == "arr") return v[a];
  if (form == "span") return v[S::span<const I, R>(a)];
  if constexpr (R == 1)
    if (form == "br") return v[a[0]];
  return std::apply([&](auto... i) -> const int& { return v(i...); }, a);
}

static void orFail(Result& r, const std::string& what, const std::string& msg) {
  if (!msg.empty() && r.oracle.rfind("FAIL", 0) != 0) r.oracle = "FAIL " + what + ": " + msg;
}

// the extents `ext` with every dynamic extent replaced by 0 (what value-initialised extents must report)
template <class E> VL defaultExt() {
  VL d;
  for (std::size_t r = 0; r < E::rank(); ++r) d.push_back(E::static_extent(r) == D ? 0 : long(E::static_extent(r)));
  return d;
}

// The templates below only call into the code under test and record plain data; judging and printing is done by
// non-template functions (this keeps the amount of code generated per extents type x layout small).

struct MapRaw {
  MapObs o, def;
  VL sext, stridesAcc, defGot;
  long rank = 0, rdyn = 0;
  bool flags = false, eqSame = false, copyEq = false, shorterEq = false, hasShorter = false, hasDefault = false;
  std::vector<char> extEqPerturbed, mapEqPerturbed;  // per dimension: compared equal although the extent differs
};

template <class E, class L> MapRaw mapRaw(const Ctx& c) {
  using I = typename E::index_type;
  using M = typename L::template mapping<E>;
  using E2 = S::dextents<OtherIndex<I>, E::rank()>;
  constexpr std::size_t R = E::rank();
  MapRaw w;
  E e = makeExt<E>(c.x, c.ext);
  auto m = makeMap<L>(e, c.str, c.x[0] == 's');
  w.o = observe(m);
  for (std::size_t r = 0; r < R; ++r) w.sext.push_back(E::static_extent(r) == D ? -1 : long(E::static_extent(r)));
  w.rank = long(E::rank());
  w.rdyn = long(E::rank_dynamic());
  w.flags = m.is_unique() && m.is_strided();
  if constexpr (isStride<L>)
    for (auto x : m.strides()) w.stridesAcc.push_back(long(x));
  // comparisons: equal to an equal object of another extents type, different from a perturbed one
  E2 same = E2(toArr<OtherIndex<I>, R>(c.ext));
  w.eqSame = (e == same) && (same == e) && !(e != same);
  w.copyEq = (m == M(m));
  for (std::size_t r = 0; r < R; ++r) {
    VL pe = c.ext;
    pe[r] += 1;
    E2 other = E2(toArr<OtherIndex<I>, R>(pe));
    w.extEqPerturbed.push_back((e == other) || (other == e));
    bool meq = false;
    if (E::static_extent(r) == D) meq = (makeMap<L>(makeExt<E>("afull", pe), c.str) == m);
    w.mapEqPerturbed.push_back(meq);
  }
  if constexpr (R > 0) {
    S::dextents<OtherIndex<I>, R - 1> shorter{};
    w.hasShorter = true;
    w.shorterEq = (e == shorter);
  }
  // value-initialised objects
  if constexpr (!isStride<L> || strideFromAny<E>) {
    E e0{};
    M m0{};
    w.hasDefault = true;
    w.def = observe(m0);
    w.defGot = extOf(e0);
  }
  return w;
}

static Result mapJudge(const Ctx& c, const MapRaw& w, const VL& defaultExt) {
  long rdyn = 0;
  for (long p : c.patv) rdyn += p < 0;
  Result res;
  res.impl = "rank=" + std::to_string(w.rank) + " rdyn=" + std::to_string(w.rdyn) + " sext=" + listStr(w.sext) + " " + blockStr(w.o);
  if (w.rank != (long)c.patv.size() || w.rdyn != rdyn || w.sext != c.patv) orFail(res, "extents", "static pattern misreported");
  orFail(res, "mapping", checkMap(c.lay, c.ext, c.str, w.o));
  if (!w.flags) orFail(res, "mapping", "is_unique/is_strided");
  if (c.lay == STRIDE) {
    if (w.stridesAcc != c.str) orFail(res, "mapping", "strides() differs from the strides given");
    if (stridesSortedUnique(c.ext, c.str)) stat("stride_unique_by_criterion"); else stat("stride_outside_criterion");
    if (w.o.rss > (long)w.o.offs.size()) stat("stride_padded");
    if (w.o.exh) stat("stride_exhaustive");
  }
  if (!w.eqSame) orFail(res, "extents", "operator== false for equal extents of another type");
  if (!w.copyEq) orFail(res, "mapping", "operator== false for a copy");
  for (std::size_t r = 0; r < w.extEqPerturbed.size(); ++r) {
    if (w.extEqPerturbed[r]) orFail(res, "extents", "operator== true although extent " + std::to_string(r) + " differs");
    if (w.mapEqPerturbed[r]) orFail(res, "mapping", "operator== true although extent " + std::to_string(r) + " differs");
  }
  if (w.hasShorter && w.shorterEq) orFail(res, "extents", "operator== true for different ranks");
  // value-initialised objects: static extents as declared, dynamic extents 0; the default strided mapping is the row-major one
  if (w.hasDefault) {
    if (w.defGot != defaultExt) orFail(res, "extents", "value-initialised extents report " + listStr(w.defGot));
    orFail(res, "default mapping", checkMap(c.lay, defaultExt, canonStrides(RIGHT, defaultExt), w.def));
  } else orFail(res, "default mapping", RANK0_MSG);
  return res;
}

template <class E, class L> Result doMap(const Ctx& c) { return mapJudge(c, mapRaw<E, L>(c), defaultExt<E>()); }

struct ConvRaw {
  bool rank0 = false, hasMid = false, hasEq = false, eq = false, hasMidEq = false, midEq = false, hasFlip = false, sameRD = false;
  MapObs src, mid, fin;
  VL fe, be;  // flipped extents and the extents converted back
};

template <class E, class L> ConvRaw convRaw(const Ctx& c) {
  using I = typename E::index_type;
  using M = typename L::template mapping<E>;
  constexpr std::size_t R = E::rank();
  ConvRaw w;
  E e = makeExt<E>("afull", c.ext);
  M m = makeMap<L>(e, c.str);
  w.src = observe(m);
  if (c.x == "stride") {
    if constexpr (isStride<L> || strideFromAny<E>) {
      S::layout_stride::mapping<E> mid(m);
      M fin(mid);
      w.hasMid = true;
      w.mid = observe(mid);
      w.fin = observe(fin);
      // (operator== between a strided mapping and a left/right mapping does not compile in dune-common: it reads
      //  b.extents_/b.strides_; mapping equality is not part of C14, so only same-type comparison is used)
      if constexpr (isStride<L>) { w.hasMidEq = true; w.midEq = (mid == m); }
    } else w.rank0 = true;
    return w;
  }
  if (c.x == "dyn") {
    if constexpr (!isStride<L> || strideFromAny<E>) {
      using E2 = S::dextents<OtherIndex<I>, R>;
      typename L::template mapping<E2> mid(m);
      M fin(mid);
      w.hasMid = true;
      w.mid = observe(mid);
      w.fin = observe(fin);
      w.hasEq = true;
      w.eq = (mid.extents() == e) && (e == fin.extents());
    } else w.rank0 = true;
    return w;
  }
  if (c.x == "flip1" || c.x == "flip2") {
    auto run = [&](auto mode) {
      using F = Flip<E, decltype(mode)::value>;
      if (!flipOk<F>(c.ext)) throw BadOp{};
      if constexpr (!isStride<L> || strideFromAny<E>) {
        F ef(e);  // the extents alone, there and back
        E eb(ef);
        w.hasFlip = true;
        w.fe = extOf(ef);
        w.be = extOf(eb);
        typename L::template mapping<F> mid(m);
        M fin(mid);
        w.hasMid = true;
        w.mid = observe(mid);
        w.fin = observe(fin);
        w.hasEq = true;
        w.eq = (ef == e) && (e == eb) && (mid.extents() == e) && (e == fin.extents());
        w.sameRD = F::rank_dynamic() == E::rank_dynamic() && E::rank_dynamic() > 0;
      } else w.rank0 = true;
    };
    if (c.x == "flip1") run(std::integral_constant<int, 1>{}); else run(std::integral_constant<int, 2>{});
    return w;
  }
  if (c.x == "lr") {
    if constexpr (R <= 1 && !isStride<L>) {
      using O = std::conditional_t<std::is_same_v<L, S::layout_left>, S::layout_right, S::layout_left>;
      typename O::template mapping<E> mid(m);
      M fin(mid);
      w.hasMid = true;
      w.mid = observe(mid);
      w.fin = observe(fin);
      return w;
    } else throw BadOp{};
  }
  if (c.x == "toleft" || c.x == "toright") {
    if constexpr (isStride<L>) {
      if (c.x == "toleft") { S::layout_left::mapping<E> fin(m); w.fin = observe(fin); }
      else { S::layout_right::mapping<E> fin(m); w.fin = observe(fin); }
      return w;
    } else throw BadOp{};
  }
  throw BadOp{};
}

// precondition of the from-stride constructors (asserted by them): the strides are the canonical products
static void requireCanonical(const Ctx& c) {
  if (c.x != "toleft" && c.x != "toright") return;
  if (c.lay != STRIDE) throw BadOp{};
  if (c.str != canonStrides(c.x == "toleft" ? LEFT : RIGHT, c.ext)) throw BadOp{};
}

static Result convJudge(const Ctx& c, const ConvRaw& w) {
  if (w.rank0) return rank0Failure();
  Result res;
  auto same = [&](const char* what, const MapObs& o, int lay, const VL& str) {
    orFail(res, what, checkMap(lay, c.ext, str, o));
    if (o.offs != w.src.offs) orFail(res, what, "converted mapping addresses differently: " + listStr(o.offs) + " vs " + listStr(w.src.offs));
    if (o.rss != w.src.rss) orFail(res, what, "required_span_size changed");
  };
  std::string pre;
  if (w.hasEq) pre = std::string("eq=") + (w.eq ? "true" : "false") + " ";
  if (w.hasMid) res.impl = pre + "mid=" + blockStr(w.mid) + " fin=" + blockStr(w.fin);
  else res.impl = "fin=" + blockStr(w.fin);
  if (w.hasEq && !w.eq) orFail(res, "extents conversion", "operator== false");
  if (w.hasMidEq && !w.midEq) orFail(res, "to stride", "operator== false");
  if (w.hasFlip) {
    if (w.fe != c.ext) orFail(res, "extents conversion", "converted extents " + listStr(w.fe) + " differ from " + listStr(c.ext));
    if (w.be != c.ext) orFail(res, "extents conversion", "extents converted back " + listStr(w.be) + " differ from " + listStr(c.ext));
    stat(w.sameRD ? "conv_flip_same_rank_dynamic" : "conv_flip_other_rank_dynamic");
  }
  if (c.x == "stride") { same("to stride", w.mid, STRIDE, w.src.str); same("and back", w.fin, c.lay, c.str); }
  else if (c.x == "dyn") { same("to dextents", w.mid, c.lay, c.str); same("and back", w.fin, c.lay, c.str); }
  else if (c.x == "flip1" || c.x == "flip2") { same("to flipped extents", w.mid, c.lay, c.str); same("and back", w.fin, c.lay, c.str); }
  else if (c.x == "lr") { same("left<->right", w.mid, c.lay == LEFT ? RIGHT : LEFT, c.str); same("and back", w.fin, c.lay, c.str); }
  else same("from stride", w.fin, c.x == "toleft" ? LEFT : RIGHT, c.str);
  return res;
}

template <class E, class L> Result doConv(const Ctx& c) {
  requireCanonical(c);
  return convJudge(c, convRaw<E, L>(c));
}

static bool validAcc(const std::string& a, std::size_t rank) {
  return a == "call" || a == "arr" || a == "span" || (a == "br" && rank == 1);
}
static bool isCtorForm(const std::string& a) {
  return a == "vdyn" || a == "vfull" || a == "adyn" || a == "sdyn" || a == "sfull" || a == "def" || a == "swap";
}

// ------------------------------------------------------------------------------------------------------------------
// mdspan: the templates record plain data (positions of the returned references relative to the storage, values,
// sizes); `viewJudge` compares them with the independent expectation
// ------------------------------------------------------------------------------------------------------------------

// position of the element `p` in the storage starting at `base` (a value no offset can have if it is not an element)
static long posOf(const void* p, const void* base, std::size_t elemSize) {
  std::ptrdiff_t d = static_cast<const char*>(p) - static_cast<const char*>(base);
  if (d % (std::ptrdiff_t)elemSize != 0) return -1000000007L;
  return long(d / (std::ptrdiff_t)elemSize);
}

struct FlipRaw {
  bool applicable = false;
  VL ext, ext2, backExt, offs, vals, vals2, cont;
  long size = 0;
};
struct ViewRaw {
  long rss = 0, size = 0, size3 = 0, rank = 0, rdyn = 0;
  bool tooBig = false, handleOk = true, defaultOk = true, swapOk = true, accOk = true, empty = false, exhOk = true, flags = true, isAcc = false;
  long mul = 1, add = 0;  // the accessor of the view designates the storage entry mul * offset + add
  VL refOff, mapOff, elems, logged, store, copyOff, convOff, conv, convLogged, ext, ext3, stride, mstride, sext;
  FlipRaw flip[2];
};

// the view in the requested constructor form (strided mappings cannot be built from extents: always (p, mapping))
template <class MS, class E, class L, class M> MS buildMdspan(const Ctx& c, int* p, const E& e, const M& m, ViewRaw& w) {
  using I = typename E::index_type;
  constexpr std::size_t R = E::rank(), RD = E::rank_dynamic();
  const std::string& f = c.x;
  if constexpr (!isStride<L>) {
    std::array<I, R> af = toArr<I, R>(c.ext);
    std::array<I, RD> ad{};
    for (std::size_t r = 0, j = 0; r < R; ++r)
      if (E::static_extent(r) == D) ad[j++] = I(c.ext[r]);
    if (f == "arr") return MS(p, e);
    if (f == "span") return MS(p, af);
    if (f == "vfull") return std::apply([&](auto... x) { return MS(p, x...); }, af);
    if (f == "vdyn") return std::apply([&](auto... x) { return MS(p, x...); }, ad);
    if (f == "adyn") return MS(p, ad);
    if (f == "sdyn") return MS(p, S::span<I, RD>(ad));
    if (f == "sfull") return MS(p, S::span<I, R>(af));
  }
  if (f == "def") {
    if constexpr (RD > 0) {
      MS d;
      w.defaultOk = extOf(d.extents()) == defaultExt<E>() && d.size() == 0 && d.empty() && d.data_handle() == nullptr;
      d = MS(p, m);
      return d;
    } else throw BadOp{};
  }
  if (f == "swap") {
    // (without fixes/C14_stride_rank0.patch a rank-0 strided mapping has no usable default constructor)
    auto other = [&]() { if constexpr (!isStride<L> || strideFromAny<E>) return M{}; else return m; };
    MS a(p, m), b(static_cast<int*>(nullptr), other());
    swap(a, b);
    w.swapOk = a.data_handle() == nullptr && extOf(a.extents()) == defaultExt<E>();
    return b;
  }
  return MS(p, m);
}

// a view converted to an extents type with other dynamic positions (and back)
template <int MODE, class E, class L, class MS> void flipView(const Ctx& c, const MS& ms, const int* base, const std::vector<VL>& tuples, FlipRaw& f) {
  using F = Flip<E, MODE>;
  constexpr std::size_t R = E::rank();
  if (!flipOk<F>(c.ext)) return;
  if constexpr (!isStride<L> || strideFromAny<E>) {
    f.applicable = true;
    S::mdspan<const int, F, L> mf(ms);
    f.ext = extOf(mf.extents());
    f.size = long(mf.size());
    for (auto& t : tuples)
      f.offs.push_back(posOf(&std::apply([&](auto... i) -> const int& { return mf(i...); }, toArr<typename F::index_type, R>(t)), base, sizeof(int)));
    S::mdspan<const int, E, L> back(mf);
    f.backExt = extOf(back.extents());
  }
}

template <class E, class L> ViewRaw viewRaw(const Ctx& c, const std::vector<VL>& tuples) {
  using I = typename E::index_type;
  using M = typename L::template mapping<E>;
  constexpr std::size_t R = E::rank();
  ViewRaw w;
  const std::string acc = isCtorForm(c.x) ? "call" : c.x;
  E e = makeExt<E>("afull", c.ext);
  M m = makeMap<L>(e, c.str);
  w.rss = long(m.required_span_size());
  if (w.rss < 0 || w.rss > 1000000) { w.tooBig = true; return w; }
  std::vector<int> v(w.rss);
  for (long k = 0; k < w.rss; ++k) v[k] = int(k);
  using MS = S::mdspan<int, E, L>;
  MS ms = buildMdspan<MS, E, L, M>(c, v.data(), e, m, w);
  w.handleOk = ms.data_handle() == v.data();
  for (auto& t : tuples) {
    int& ref = accessAt(ms, acc, toArr<I, R>(t));
    w.refOff.push_back(posOf(&ref, v.data(), sizeof(int)));
    w.mapOff.push_back(callMap(m, t));
    w.elems.push_back(ref);
  }
  long n = 0;
  for (auto& t : tuples) accessAt(ms, acc, toArr<I, R>(t)) = int(100 + n++);
  w.store.assign(v.begin(), v.end());
  MS ms2 = ms;  // copy
  // conversion of element, extents and index type
  using E3 = std::conditional_t<(!isStride<L> || strideFromAny<E>), S::dextents<OtherIndex<I>, R>, E>;
  S::mdspan<const int, E3, L> ms3(ms);
  for (auto& t : tuples) {
    w.copyOff.push_back(posOf(&accessAt(ms2, "call", toArr<I, R>(t)), v.data(), sizeof(int)));
    const int& r3 = std::apply([&](auto... i) -> const int& { return ms3(i...); }, toArr<typename E3::index_type, R>(t));
    w.convOff.push_back(posOf(&r3, v.data(), sizeof(int)));
    w.conv.push_back(r3);
  }
  flipView<1, E, L>(c, ms, v.data(), tuples, w.flip[0]);
  flipView<2, E, L>(c, ms, v.data(), tuples, w.flip[1]);
  w.ext = extOf(ms.extents());
  w.ext3 = extOf(ms3.extents());
  for (std::size_t r = 0; r < R; ++r) {
    w.ext[r] = long(ms.extent(r));
    if constexpr (R > 0) { w.stride.push_back(long(ms.stride(r))); w.mstride.push_back(long(m.stride(r))); }
    w.sext.push_back(ms.static_extent(r) == D ? -1 : long(ms.static_extent(r)));
  }
  w.size = long(ms.size());
  w.size3 = long(ms3.size());
  w.empty = ms.empty();
  w.rank = long(ms.rank());
  w.rdyn = long(ms.rank_dynamic());
  w.exhOk = ms.is_exhaustive() == m.is_exhaustive();
  w.flags = ms.is_unique() && ms.is_strided();
  return w;
}

// a data handle that is not a raw pointer and an accessor policy that records every offset it is asked for
template <class T> struct Handle {
  T* base = nullptr;
  Handle() = default;
  explicit Handle(T* b) : base(b) {}
  template <class U, std::enable_if_t<std::is_convertible_v<U (*)[], T (*)[]>, int> = 0>
  Handle(const Handle<U>& o) : base(o.base) {}
};
template <class T> struct RecAcc {
  using element_type = T;
  using reference = T&;
  using data_handle_type = Handle<T>;
  using offset_policy = RecAcc;
  std::vector<std::size_t>* log = nullptr;
  RecAcc() = default;
  explicit RecAcc(std::vector<std::size_t>* l) : log(l) {}
  template <class U, std::enable_if_t<std::is_convertible_v<U (*)[], T (*)[]>, int> = 0>
  RecAcc(const RecAcc<U>& o) : log(o.log) {}
  reference access(data_handle_type p, std::size_t i) const {
    if (log) log->push_back(i);
    return p.base[i];
  }
  data_handle_type offset(data_handle_type p, std::size_t i) const { return data_handle_type(p.base + i); }
};

// an accessor policy whose access() is NOT p[i]: it views every second entry of the storage, starting at `start`
// (raw pointer handle, so code that bypasses the accessor still compiles - and reads the wrong entry); it logs the offsets
template <class T> struct Interleaved {
  using element_type = T;
  using reference = T&;
  using data_handle_type = T*;
  using offset_policy = Interleaved;
  std::vector<std::size_t>* log = nullptr;
  std::size_t start = 1;
  Interleaved() = default;
  explicit Interleaved(std::vector<std::size_t>* l, std::size_t st = 1) : log(l), start(st) {}
  template <class U, std::enable_if_t<std::is_convertible_v<U (*)[], T (*)[]>, int> = 0>
  Interleaved(const Interleaved<U>& o) : log(o.log), start(o.start) {}
  reference access(data_handle_type p, std::size_t i) const {
    if (log) log->push_back(i);
    return p[2 * i + start];
  }
  data_handle_type offset(data_handle_type p, std::size_t i) const { return p + 2 * i; }
};

// a view with the interleaved accessor over 2*rss+1 entries; the access form rotates over the tuples
template <class E, class L> ViewRaw viewRawIl(const Ctx& c, const std::vector<VL>& tuples) {
  using I = typename E::index_type;
  using M = typename L::template mapping<E>;
  constexpr std::size_t R = E::rank();
  ViewRaw w;
  w.isAcc = true;
  w.mul = 2;
  w.add = 1;
  E e = makeExt<E>("afull", c.ext);
  M m = makeMap<L>(e, c.str);
  w.rss = long(m.required_span_size());
  if (w.rss < 0 || w.rss > 1000000) { w.tooBig = true; return w; }
  std::vector<int> v(2 * w.rss + 1);
  for (std::size_t k = 0; k < v.size(); ++k) v[k] = int(k);
  std::vector<std::size_t> log;
  auto logged = [&]() { return log.size() == 1 ? long(log[0]) : -1L - long(log.size()); };
  using MS = S::mdspan<int, E, L, Interleaved<int>>;
  MS ms(v.data(), m, Interleaved<int>(&log));
  auto at = [&](auto& view, std::size_t n, const VL& t) -> decltype(auto) {
    auto a = toArr<I, R>(t);
    std::size_t form = n % (R == 1 ? 4 : 3);
    if (form == 1) return view[a];
    if (form == 2) return view[S::span<const I, R>(a)];
    if constexpr (R == 1)
      if (form == 3) return view[a[0]];
    return std::apply([&](auto... i) -> decltype(auto) { return view(i...); }, a);
  };
  std::size_t n = 0;
  for (auto& t : tuples) {
    log.clear();
    int& ref = at(ms, n++, t);
    w.logged.push_back(logged());
    w.refOff.push_back(posOf(&ref, v.data(), sizeof(int)));
    w.mapOff.push_back(callMap(m, t));
    w.elems.push_back(long(ref));
  }
  n = 0;
  for (auto& t : tuples) { at(ms, n + 1, t) = int(100 + n); ++n; }
  w.store.assign(v.begin(), v.end());
  MS ms2 = ms;
  using E3 = std::conditional_t<(!isStride<L> || strideFromAny<E>), S::dextents<OtherIndex<I>, R>, E>;
  S::mdspan<const int, E3, L, Interleaved<const int>> ms3(ms);
  n = 0;
  for (auto& t : tuples) {
    w.copyOff.push_back(posOf(&at(ms2, n + 2, t), v.data(), sizeof(int)));
    log.clear();
    const int& r3 = std::apply([&](auto... i) -> const int& { return ms3(i...); }, toArr<typename E3::index_type, R>(t));
    w.convLogged.push_back(logged());
    w.convOff.push_back(posOf(&r3, v.data(), sizeof(int)));
    w.conv.push_back(long(r3));
    ++n;
  }
  w.ext = extOf(ms.extents());
  w.ext3 = extOf(ms3.extents());
  for (std::size_t r = 0; r < R; ++r) w.sext.push_back(ms.static_extent(r) == D ? -1 : long(ms.static_extent(r)));
  w.size = long(ms.size());
  w.size3 = long(ms3.size());
  w.empty = ms.empty();
  w.rank = long(ms.rank());
  w.rdyn = long(ms.rank_dynamic());
  w.accOk = ms.accessor().log == &log && ms.accessor().start == 1 && ms.data_handle() == v.data() &&
            ms3.accessor().log == &log && ms3.accessor().start == 1;
  return w;
}

// the same observations through a view with a custom accessor policy / data handle and another element type
template <class E, class L> ViewRaw viewRawAcc(const Ctx& c, const std::vector<VL>& tuples) {
  using I = typename E::index_type;
  using M = typename L::template mapping<E>;
  using T = long long;
  constexpr std::size_t R = E::rank();
  ViewRaw w;
  w.isAcc = true;
  E e = makeExt<E>("afull", c.ext);
  M m = makeMap<L>(e, c.str);
  w.rss = long(m.required_span_size());
  if (w.rss < 0 || w.rss > 1000000) { w.tooBig = true; return w; }
  std::vector<T> v(w.rss);
  for (long k = 0; k < w.rss; ++k) v[k] = T(k);
  std::vector<std::size_t> log;
  auto logged = [&]() { return log.size() == 1 ? long(log[0]) : -1L - long(log.size()); };
  using MS = S::mdspan<T, E, L, RecAcc<T>>;
  MS ms(Handle<T>(v.data()), m, RecAcc<T>(&log));
  for (auto& t : tuples) {
    log.clear();
    T& ref = std::apply([&](auto... i) -> T& { return ms(i...); }, toArr<I, R>(t));
    w.logged.push_back(logged());
    w.refOff.push_back(posOf(&ref, v.data(), sizeof(T)));
    w.mapOff.push_back(callMap(m, t));
    w.elems.push_back(long(ref));
  }
  long n = 0;
  for (auto& t : tuples) ms[toArr<I, R>(t)] = T(100 + n++);
  w.store.assign(v.begin(), v.end());
  using E3 = std::conditional_t<(!isStride<L> || strideFromAny<E>), S::dextents<OtherIndex<I>, R>, E>;
  S::mdspan<const T, E3, L, RecAcc<const T>> ms3(ms);
  for (auto& t : tuples) {
    log.clear();
    const T& r3 = std::apply([&](auto... i) -> const T& { return ms3(i...); }, toArr<typename E3::index_type, R>(t));
    w.convLogged.push_back(logged());
    w.convOff.push_back(posOf(&r3, v.data(), sizeof(T)));
    w.conv.push_back(long(r3));
  }
  w.copyOff = w.convOff;
  w.ext = extOf(ms.extents());
  w.ext3 = extOf(ms3.extents());
  for (std::size_t r = 0; r < R; ++r) w.sext.push_back(ms.static_extent(r) == D ? -1 : long(ms.static_extent(r)));
  w.size = long(ms.size());
  w.size3 = long(ms3.size());
  w.empty = ms.empty();
  w.rank = long(ms.rank());
  w.rdyn = long(ms.rank_dynamic());
  w.accOk = ms.accessor().log == &log && ms.data_handle().base == v.data();
  return w;
}

static Result viewJudge(const Ctx& c, const ViewRaw& w, const std::vector<VL>& tuples) {
  Result res;
  if (w.tooBig) { res.impl = "rss=" + std::to_string(w.rss); res.oracle = "FAIL required_span_size out of any sensible range"; return res; }
  auto exp = expectedOffsets(c.lay, c.ext, c.str);
  std::size_t n = tuples.size();
  if (!w.handleOk) orFail(res, "mdspan", "data_handle()");
  if (!w.defaultOk) orFail(res, "mdspan", "default-constructed view is not the empty view over value-initialised extents");
  if (!w.swapOk) orFail(res, "mdspan", "swap did not exchange handle and mapping");
  if (!w.accOk) orFail(res, "mdspan", "accessor()/data_handle()");
  if (w.refOff.size() != n || w.convOff.size() != n || w.copyOff.size() != n) orFail(res, "mdspan", "number of observations");
  else {
    // (the storage has mul * rss + add entries; the accessor designates entry mul * offset + add)
    std::vector<long> shadow(w.mul * w.rss + w.add);
    for (std::size_t k = 0; k < shadow.size(); ++k) shadow[k] = long(k);
    for (std::size_t i = 0; i < n; ++i) {
      long e = exp[tuples[i]];
      long pos = w.mul * e + w.add;
      if (w.refOff[i] != w.mul * w.mapOff[i] + w.add) orFail(res, "mdspan", "reference is not accessor.access(data_handle, mapping(idx)) at " + listStr(tuples[i]));
      if (w.refOff[i] != pos) orFail(res, "mdspan", "reference is not the designated element at " + listStr(tuples[i]));
      if (w.isAcc && (w.logged[i] != e || w.convLogged[i] != e)) orFail(res, "mdspan", "the accessor was not asked for exactly the designated offset at " + listStr(tuples[i]));
      if (w.copyOff[i] != pos || w.convOff[i] != pos) orFail(res, "mdspan", "copy/conversion refers to a different element at " + listStr(tuples[i]));
      if (e >= 0 && e < w.rss) shadow[pos] = 100 + long(i);
    }
    if (shadow != w.store) orFail(res, "mdspan", "writes through the view did not hit exactly the designated elements");
  }
  if (w.ext != c.ext) orFail(res, "mdspan", "extents");
  if (w.ext3 != w.ext) orFail(res, "mdspan", "extent() inconsistent after conversion");
  if (w.stride != w.mstride) orFail(res, "mdspan", "stride() inconsistent");
  if (w.sext != c.patv) orFail(res, "mdspan", "static_extent()");
  if (w.size != (long)n || w.empty != (n == 0) || w.size3 != w.size) orFail(res, "mdspan", "size()/empty() do not count the index tuples");
  if (w.rank != (long)c.patv.size()) orFail(res, "mdspan", "rank");
  long rd = 0;
  for (long q : c.patv) rd += q < 0;
  if (w.rdyn != rd) orFail(res, "mdspan", "rank_dynamic");
  if (!w.exhOk || !w.flags) orFail(res, "mdspan", "is_exhaustive/is_unique/is_strided differ from the mapping");
  for (int k = 0; k < 2; ++k) {
    const FlipRaw& f = w.flip[k];
    if (!f.applicable) continue;
    stat("mdspan_flip_checked");
    if (f.ext != c.ext) orFail(res, "mdspan", "view converted to flipped extents reports extents " + listStr(f.ext));
    if (f.backExt != c.ext) orFail(res, "mdspan", "view converted back reports extents " + listStr(f.backExt));
    if (f.size != (long)n) orFail(res, "mdspan", "view converted to flipped extents reports another size");
    for (std::size_t i = 0; i < n && i < f.offs.size(); ++i)
      if (f.offs[i] != exp[tuples[i]]) { orFail(res, "mdspan", "view converted to flipped extents refers to a different element at " + listStr(tuples[i])); break; }
  }
  res.impl = "size=" + std::to_string(w.size) + " empty=" + (w.empty ? "true" : "false") + " ext=" + listStr(w.ext) +
             " elems=" + listStr(w.elems) + " store=" + listStr(w.store) + " conv=" + listStr(w.conv);
  return res;
}

template <class E, class L> Result doMdspan(const Ctx& c) {
  constexpr std::size_t R = E::rank();
  if (c.x != "acc" && c.x != "accil" && !validAcc(c.x, R) && !isCtorForm(c.x)) throw BadOp{};
  auto tuples = tuplesRowMajor(c.ext);
  if (c.x == "acc") return viewJudge(c, viewRawAcc<E, L>(c, tuples), tuples);
  if (c.x == "accil") return viewJudge(c, viewRawIl<E, L>(c, tuples), tuples);
  return viewJudge(c, viewRaw<E, L>(c, tuples), tuples);
}

// ------------------------------------------------------------------------------------------------------------------
// mdarray: everything after construction (sizes, initial contents, element access, views, copies, conversions)
// ------------------------------------------------------------------------------------------------------------------

struct ArrRaw {
  long csize = 0, size = 0, vsize = 0, cvsize = 0, ccsize = 0;
  VL ccVals;  // elements of a copy of the array made through its view
  bool empty = false, cv2ExtEq = true, otherEq = false, copyEq = true, copyIndep = true, copyNe = true;
  VL init, getC, refOff, after, view, vwOff, cvwOff, vw2Off, cv2Off, extracted, ext, stride, mstride;
  FlipRaw flip[2];
};

template <class E, class L, class A, class M> ArrRaw arrRaw(A& a, const M& m, const Ctx& c, const std::vector<VL>& tuples) {
  using I = typename E::index_type;
  constexpr std::size_t R = E::rank();
  ArrRaw w;
  w.csize = long(a.container_size());
  w.init.assign(a.container().begin(), a.container().end());
  // every element as seen through the (const) array right after construction (-1: outside the container, not read)
  for (auto& t : tuples) w.getC.push_back(callMap(m, t) < w.csize ? long(accessAtC(std::as_const(a), c.acc, toArr<I, R>(t))) : -1L);
  long n = 0;
  for (auto& t : tuples) {
    int& ref = accessAt(a, c.acc, toArr<I, R>(t));
    w.refOff.push_back(posOf(&ref, a.container_data(), sizeof(int)));
    ref = int(100 + n++);
  }
  w.after.assign(a.container().begin(), a.container().end());
  auto vw = a.to_mdspan();
  auto cvw = std::as_const(a).to_mdspan();
  S::mdspan<int, E, L> vw2 = a;                       // conversion operator
  S::mdspan<const int, E, L> cv2 = std::as_const(a);  // conversion operator of a const array
  for (auto& t : tuples) {
    int& r1 = accessAt(vw, "call", toArr<I, R>(t));
    w.vwOff.push_back(posOf(&r1, a.container_data(), sizeof(int)));
    w.cvwOff.push_back(posOf(&accessAtC(cvw, c.acc, toArr<I, R>(t)), a.container_data(), sizeof(int)));
    w.vw2Off.push_back(posOf(&accessAt(vw2, "call", toArr<I, R>(t)), a.container_data(), sizeof(int)));
    w.cv2Off.push_back(posOf(&accessAtC(cv2, "call", toArr<I, R>(t)), a.container_data(), sizeof(int)));
    w.view.push_back(r1);
  }
  w.cv2ExtEq = cv2.extents() == a.extents();
  typename A::container_type ex = A(a).extract_container();
  w.extracted.assign(ex.begin(), ex.end());
  if constexpr (std::is_same_v<typename A::container_type, std::vector<int>>) {
    // an array over the same container but with two different dynamic extents exchanged is a different array
    for (std::size_t r1 = 0; r1 < R; ++r1)
      for (std::size_t r2 = r1 + 1; r2 < R; ++r2)
        if (E::static_extent(r1) == D && E::static_extent(r2) == D && c.ext[r1] != c.ext[r2]) {
          VL pe = c.ext;
          std::swap(pe[r1], pe[r2]);
          A other(makeExt<E>("afull", pe), a.container());
          if (other == a || a == other) w.otherEq = true;
        }
    // arrays converted to an extents type with other dynamic positions (from the array and from its view)
    auto flipArr = [&](auto mode, FlipRaw& f) {
      using F = Flip<E, decltype(mode)::value>;
      if (!flipOk<F>(c.ext)) return;
      f.applicable = true;
      S::mdarray<int, F, L> af(a);
      S::mdarray<int, F, L> av(a.to_mdspan());  // (views of const elements are not accepted by this constructor)
      f.ext = extOf(af.extents());
      f.ext2 = extOf(av.extents());
      f.cont.assign(af.container().begin(), af.container().end());
      for (auto& t : tuples) {
        auto idx = toArr<typename F::index_type, R>(t);
        if (callMap(m, t) >= w.csize) break;
        f.offs.push_back(posOf(&af[idx], af.container_data(), sizeof(int)));
        f.vals.push_back(af[idx]);
        f.vals2.push_back(av[idx]);
      }
      f.backExt = extOf(E(af.extents()));
    };
    flipArr(std::integral_constant<int, 1>{}, w.flip[0]);
    flipArr(std::integral_constant<int, 2>{}, w.flip[1]);
  }
  A b(a);  // copies own their elements
  w.copyEq = (b == a);
  if (!tuples.empty()) {
    accessAt(b, "call", toArr<I, R>(tuples.front())) = -5;
    w.copyIndep = VL(a.container().begin(), a.container().end()) == w.after;
    w.copyNe = !(b == a);
  }
  for (std::size_t r = 0; r < R; ++r) {
    w.ext.push_back(long(a.extent(r)));
    if constexpr (R > 0) { w.stride.push_back(long(a.stride(r))); w.mstride.push_back(long(m.stride(r))); }
  }
  w.size = long(a.size());
  w.empty = a.empty();
  // sizes as reported by the views of the array, and a copy made through the view (owns exactly size() elements)
  w.vsize = long(vw.size());
  w.cvsize = long(cv2.size());
  S::mdarray<int, E, L> cc(vw);
  w.ccsize = long(cc.container_size());
  for (auto& t : tuples) w.ccVals.push_back(long(accessAtC(std::as_const(cc), "call", toArr<I, R>(t))));
  return w;
}

// want = number of index tuples (size()), span = required span of the array's mapping (left/right: the same number)
static Result arrJudge(const Ctx& c, const ArrRaw& w, const std::vector<VL>& tuples, long want, long span, const VL& expectInit, Result res) {
  auto exp = expectedOffsets(c.lay, c.ext, c.str);
  std::size_t n = tuples.size();
  if (w.csize != span + c.pad) orFail(res, "mdarray", "container_size " + std::to_string(w.csize) + " but the container handed over / the required span has " + std::to_string(span + c.pad) + " elements");
  if (c.pad) stat("mdarray_padded_container");
  if (w.init != expectInit) orFail(res, "mdarray", "initial contents");
  VL shadow(w.init);
  for (std::size_t i = 0; i < n; ++i) {
    long e = exp[tuples[i]];
    if (e < w.csize && e < (long)expectInit.size() && w.getC[i] != expectInit[e]) orFail(res, "mdarray", "element after construction at " + listStr(tuples[i]));
    if (w.refOff[i] != e) orFail(res, "mdarray", "reference is not the designated element at " + listStr(tuples[i]));
    if (e >= 0 && e < (long)shadow.size()) shadow[e] = 100 + long(i);
    if (w.vwOff[i] != e || w.cvwOff[i] != e || w.vw2Off[i] != e) orFail(res, "mdarray", "to_mdspan view refers to a different element at " + listStr(tuples[i]));
    if (w.cv2Off[i] != e) orFail(res, "mdarray", "const conversion to mdspan refers to a different element at " + listStr(tuples[i]));
  }
  if (w.after != shadow) orFail(res, "mdarray", "writes did not hit exactly the designated elements");
  if (!w.cv2ExtEq) orFail(res, "mdarray", "const conversion to mdspan changes the extents");
  if (w.extracted != w.after) orFail(res, "mdarray", "extract_container() does not return the elements");
  if (w.otherEq) orFail(res, "mdarray", "operator== true although the extents differ");
  for (int k = 0; k < 2; ++k) {
    const FlipRaw& f = w.flip[k];
    if (!f.applicable) continue;
    stat("mdarray_flip_checked");
    if (f.ext != c.ext || f.ext2 != c.ext) orFail(res, "mdarray", "array converted to flipped extents reports extents " + listStr(f.ext) + " / " + listStr(f.ext2));
    if (f.backExt != c.ext) orFail(res, "mdarray", "extents converted back differ");
    if (f.cont != w.after) orFail(res, "mdarray", "array converted to flipped extents has other elements");
    for (std::size_t i = 0; i < f.offs.size(); ++i) {
      long e = exp[tuples[i]];
      if (f.offs[i] != e || (e < (long)w.after.size() && (f.vals[i] != w.after[e] || f.vals2[i] != w.after[e]))) {
        orFail(res, "mdarray", "array converted to flipped extents holds a different element at " + listStr(tuples[i]));
        break;
      }
    }
  }
  if (!w.copyEq) orFail(res, "mdarray", "copy compares unequal");
  if (!w.copyIndep) orFail(res, "mdarray", "writing to a copy changed the original");
  if (!w.copyNe) orFail(res, "mdarray", "modified copy still compares equal");
  if (w.stride != w.mstride) orFail(res, "mdarray", "stride()");
  if (w.ext != c.ext) orFail(res, "mdarray", "extents");
  if (w.size != want || w.empty != (want == 0))
    orFail(res, "mdarray", "size()/empty(): size() = " + std::to_string(w.size) + " but the index space has " + std::to_string(want) + " index tuples");
  if (w.vsize != want || w.cvsize != want) orFail(res, "mdarray", "size() of the array's view does not count the index tuples");
  if (w.ccsize != span) orFail(res, "mdarray", "a copy made through the view owns " + std::to_string(w.ccsize) + " elements, not the required span " + std::to_string(span));
  for (std::size_t i = 0; i < n && i < w.ccVals.size(); ++i) {
    long e = exp[tuples[i]];
    if (e >= 0 && e < (long)w.after.size() && w.ccVals[i] != w.after[e]) { orFail(res, "mdarray", "a copy made through the view holds a different element at " + listStr(tuples[i])); break; }
  }
  res.impl = "csize=" + std::to_string(w.csize) + " size=" + std::to_string(w.size) + " vsize=" + std::to_string(w.vsize) +
             " ccsize=" + std::to_string(w.ccsize) + " ext=" + listStr(w.ext) +
             " init=" + listStr(w.init) + " cont=" + listStr(w.after) + " view=" + listStr(w.view);
  return res;
}


// deduction guides of mdarray / mdspan and default_accessor used directly: the deduced types, and that the deduced objects
// address the designated elements (cont has at least the required span of m)
template <class E, class L, class M>
void guideChecks(const E& e, const M& m, const std::vector<int>& cont, std::map<VL, long>& exp, const std::vector<VL>& tuples, Result& res) {
  using I = typename E::index_type;
  constexpr std::size_t R = E::rank();
  stat("guides_checked");
  S::mdarray g1(e, cont);
  S::mdarray g2(m, cont);
  S::mdarray g2m(m, std::vector<int>(cont));
  S::mdarray g2a(m, cont, std::allocator<int>());
  S::mdspan s1(g2.container_data(), m);
  S::mdspan s2(g1.container_data(), e);
  S::mdspan s3(static_cast<const int*>(cont.data()), m, S::default_accessor<const int>{});
  S::mdarray g3(s1);
  const std::allocator<int> al;  // (an rvalue allocator would select the guide (const Mapping&, Container&&): observation, outside C14)
  S::mdarray g3a(s1, al);
  S::mdspan s4(g2);
  using AR = S::mdarray<int, E, S::layout_right, std::vector<int>>;
  using AL = S::mdarray<int, E, L, std::vector<int>>;
  if (!std::is_same_v<decltype(g1), AR> || !std::is_same_v<decltype(g2), AL> || !std::is_same_v<decltype(g2m), AL> ||
      !std::is_same_v<decltype(g2a), AL> || !std::is_same_v<decltype(g3), AL> || !std::is_same_v<decltype(g3a), AL>)
    orFail(res, "mdarray", "a deduction guide of mdarray deduces another type");
  if (!std::is_same_v<decltype(s1), S::mdspan<int, E, L>> || !std::is_same_v<decltype(s2), S::mdspan<int, E>> ||
      !std::is_same_v<decltype(s3), S::mdspan<const int, E, L, S::default_accessor<const int>>> ||
      !std::is_same_v<decltype(s4), S::mdspan<int, E, L>>)
    orFail(res, "mdspan", "a deduction guide of mdspan deduces another type");
  if (g1.container() != cont || g2.container() != cont || g2m.container() != cont || g2a.container() != cont)
    orFail(res, "mdarray", "array built through a deduction guide does not own the elements handed over");
  S::default_accessor<int> da;
  S::default_accessor<const int> dac(da);
  bool ok = true;
  for (auto& t : tuples) {
    long o = exp[t];
    auto idx = toArr<I, R>(t);
    ok = ok && &accessAt(g2, "arr", idx) == g2.container_data() + o && &accessAt(s1, "arr", idx) == g2.container_data() + o &&
         &accessAtC(s3, "arr", idx) == cont.data() + o && &accessAt(s4, "arr", idx) == g2.container_data() + o &&
         accessAt(g3, "arr", idx) == cont[o] && accessAt(g3a, "arr", idx) == cont[o] &&
         da.offset(g2.container_data(), std::size_t(o)) == g2.container_data() + o && &da.access(g2.container_data(), std::size_t(o)) == g2.container_data() + o &&
         &dac.access(cont.data(), std::size_t(o)) == cont.data() + o;
  }
  if (!ok) orFail(res, "mdarray", "objects built through deduction guides / default_accessor do not address the designated elements");
  if (long(g3.container_size()) != long(m.required_span_size()) || long(g3a.container_size()) != long(m.required_span_size()))
    orFail(res, "mdarray", "array deduced from a view does not own the required span");
}

// an owning array with a strided (padded / permuted, in general non-exhaustive) layout: the policy PadLayout over Dune's
// layout_stride::mapping.  Only the constructor forms that are handed a mapping or a view.
static const std::set<std::string> STRIDE_ACTORS = {"map", "mapval", "contmv", "copy", "mapcontal", "mapcontmval", "copyal", "allocval",
                                                    "span", "spanal", "spanil", "spanilal"};
template <class E> Result doMdarrayStrided(const Ctx& c) {
  using I = typename E::index_type;
  using L = PadLayout;
  using A = S::mdarray<int, E, L>;
  using M = typename A::mapping_type;
  constexpr std::size_t R = E::rank();
  if (!validAcc(c.acc, R) || !STRIDE_ACTORS.count(c.x)) throw BadOp{};
  auto tuples = tuplesRowMajor(c.ext);
  auto exp = expectedOffsets(c.lay, c.ext, c.str);
  // the property speaks about stride vectors that make the mapping unique; the required span by enumeration
  std::set<long> seen;
  long span = 0;
  for (auto& t : tuples) { if (!seen.insert(exp[t]).second) throw BadOp{}; span = std::max(span, exp[t] + 1); }
  long want = (long)tuples.size();
  static const std::set<std::string> takesContainer = {"contmv", "copy", "mapcontal", "mapcontmval", "copyal"};
  if (c.pad != 0 && !takesContainer.count(c.x)) throw BadOp{};
  stat("mdarray_strided");
  if (span > want) stat("mdarray_strided_nonexhaustive");
  E e = makeExt<E>("afull", c.ext);
  M m(e, toArr<I, R>(c.str));
  if (long(m.required_span_size()) != span) {
    Result r; r.impl = "failed";
    r.oracle = "FAIL mdarray: required_span_size() " + std::to_string(long(m.required_span_size())) + " but the largest offset + 1 is " + std::to_string(span);
    return r;
  }
  std::vector<int> cont(span + c.pad), src(span), expectInit(span, 0);
  for (long k = 0; k < span + c.pad; ++k) cont[k] = int(10 + k);
  for (long k = 0; k < span; ++k) src[k] = int(3 * k + 1);
  std::vector<int> src2(2 * span + 1);
  for (std::size_t k = 0; k < src2.size(); ++k) src2[k] = int(3 * k + 1);
  std::vector<std::size_t> accLog;
  std::optional<A> aO;
  const std::string& k = c.x;
  Result res;
  if (k == "map") aO.emplace(m);
  else if (k == "mapval") { aO.emplace(m, 7); expectInit.assign(span, 7); }
  else if (k == "allocval") { aO.emplace(m, 7, std::allocator<int>()); expectInit.assign(span, 7); }
  else if (k == "contmv") { std::vector<int> tmp(cont); aO.emplace(m, std::move(tmp)); expectInit = cont; }
  else if (k == "copy") {
    A a0(m, cont); aO.emplace(a0); expectInit = cont; if (!(a0 == *aO)) orFail(res, "mdarray", "copy compares unequal");
    guideChecks<E, L>(e, m, cont, exp, tuples, res);
  }
  else if (k == "mapcontal") { aO.emplace(m, cont, std::allocator<int>()); expectInit = cont; }
  else if (k == "mapcontmval") { std::vector<int> tmp(cont); aO.emplace(m, std::move(tmp), std::allocator<int>()); expectInit = cont; }
  else if (k == "copyal") { A a0(m, cont); aO.emplace(a0, std::allocator<int>()); expectInit = cont; }
  else if (k == "span" || k == "spanal") {
    // from a view with the same (padded) mapping: the elements land at their offsets, the padding is value-initialised
    S::mdspan<int, E, L> sp(src.data(), m);
    if (k == "span") aO.emplace(sp); else aO.emplace(sp, std::allocator<int>());
    for (auto& t : tuples) expectInit[exp[t]] = src[exp[t]];
  }
  else {  // spanil, spanilal
    S::mdspan<int, E, L, Interleaved<int>> sp(src2.data(), m, Interleaved<int>(&accLog));
    if (k == "spanil") aO.emplace(sp); else aO.emplace(sp, std::allocator<int>());
    for (auto& t : tuples) expectInit[exp[t]] = src2[2 * exp[t] + 1];
    std::vector<std::size_t> wantLog;
    for (auto& t : tuples) wantLog.push_back(std::size_t(exp[t]));
    std::sort(wantLog.begin(), wantLog.end());
    std::sort(accLog.begin(), accLog.end());
    if (accLog != wantLog) orFail(res, "mdarray", "construction from a view did not fetch every element exactly once through the accessor of the view");
  }
  if (aO->is_exhaustive() != (span == want && want > 0) && R > 0) orFail(res, "mdarray", "is_exhaustive() of a strided array");
  return arrJudge(c, arrRaw<E, L>(*aO, m, c, tuples), tuples, want, span, VL(expectInit.begin(), expectInit.end()), res);
}

template <class E, class L> Result doMdarray(const Ctx& c) {
  if constexpr (isStride<L>) return doMdarrayStrided<E>(c);
  else {
    using I = typename E::index_type;
    using A = S::mdarray<int, E, L>;
    using M = typename A::mapping_type;
    constexpr std::size_t R = E::rank();
    if (!validAcc(c.acc, R)) throw BadOp{};
    E e = makeExt<E>("afull", c.ext);
    M m(e);
    auto tuples = tuplesRowMajor(c.ext);
    auto exp = expectedOffsets(c.lay, c.ext, c.str);
    long want = (long)tuples.size();  // left/right: required span = number of index tuples
    // the container handed to the container-taking constructors may be larger than the required span (c.pad surplus elements)
    static const std::set<std::string> takesContainer = {"cont", "contmv", "copy", "conv", "contmve", "contal", "contmval",
                                                         "mapcontal", "mapcontmval", "copyal", "swap"};
    const bool arrForm = c.x == "arrext" || c.x == "arrval" || c.x == "arrcont";
    if (c.pad != 0 && !(takesContainer.count(c.x) || (arrForm && c.pad == 2))) throw BadOp{};
    std::vector<int> cont(want + c.pad), src(want), expectInit(want, 0);
    for (long k = 0; k < want + c.pad; ++k) cont[k] = int(10 + k);
    for (long k = 0; k < want; ++k) src[k] = int(3 * k + 1);
    // interleaved storage for the views with a non-trivial accessor: the view shows entries 1, 3, 5, ...
    std::vector<int> src2(2 * want + 1);
    for (std::size_t k = 0; k < src2.size(); ++k) src2[k] = int(3 * k + 1);
    std::vector<std::size_t> accLog;
    std::optional<A> aO;
    const std::string& k = c.x;
    Result res;
    if (k == "ext") aO.emplace(e);
    else if (k == "extval") { aO.emplace(e, 7); expectInit.assign(want, 7); }
    else if (k == "map") aO.emplace(m);
    else if (k == "mapval") { aO.emplace(m, 7); expectInit.assign(want, 7); }
    else if (k == "spanil" || k == "spanilal" || k == "stridedil") {
      // built from a view whose accessor policy is not p[i]: the array must hold accessor.access(p, mapping(idx))
      expectInit.clear();
      for (long q = 0; q < want; ++q) expectInit.push_back(src2[2 * q + 1]);
      if (k == "stridedil") {
        if constexpr (strideFromAny<E>) {
          S::mdspan<int, E, S::layout_stride, Interleaved<int>> sp(src2.data(), S::layout_stride::mapping<E>(m), Interleaved<int>(&accLog));
          aO.emplace(sp);
        } else return rank0Failure();
      } else {
        S::mdspan<int, E, L, Interleaved<int>> sp(src2.data(), m, Interleaved<int>(&accLog));
        if (k == "spanil") aO.emplace(sp); else aO.emplace(sp, std::allocator<int>());
      }
      // every element is fetched through the accessor, exactly once, at the designated offset
      std::vector<std::size_t> wantLog;
      for (auto& t : tuples) wantLog.push_back(std::size_t(exp[t]));
      std::sort(wantLog.begin(), wantLog.end());
      std::sort(accLog.begin(), accLog.end());
      if (accLog != wantLog) orFail(res, "mdarray", "construction from a view did not fetch every element exactly once through the accessor of the view");
    }
    else if (k == "cont") { aO.emplace(e, cont); expectInit = cont; guideChecks<E, L>(e, m, cont, exp, tuples, res); }
    else if (k == "contmv") { std::vector<int> tmp(cont); aO.emplace(m, std::move(tmp)); expectInit = cont; }
    else if (k == "copy") { A a0(m, cont); aO.emplace(a0); expectInit = cont; if (!(a0 == *aO)) orFail(res, "mdarray", "copy compares unequal"); }
    else if (k == "conv") {
      using E2 = S::dextents<OtherIndex<I>, R>;
      S::mdarray<int, E2, L> a0(E2(e), cont);
      aO.emplace(a0);
      expectInit = cont;
    }
    else if (k == "span" || k == "spanal") {
      S::mdspan<int, E, L> sp(src.data(), m);
      if (k == "span") aO.emplace(sp); else aO.emplace(sp, std::allocator<int>());
      expectInit = src;
    }
    else if (k == "strided") {
      if constexpr (strideFromAny<E>) {
        S::mdspan<int, E, S::layout_stride> sp(src.data(), S::layout_stride::mapping<E>(m));
        aO.emplace(sp);
        expectInit = src;
      } else return rank0Failure();
    }
    else if (k == "contmve") { std::vector<int> tmp(cont); aO.emplace(e, std::move(tmp)); expectInit = cont; }
    else if (k == "extvalal") { aO.emplace(e, 7, std::allocator<int>()); expectInit.assign(want, 7); }
    else if (k == "contal") { aO.emplace(e, cont, std::allocator<int>()); expectInit = cont; }
    else if (k == "contmval") { std::vector<int> tmp(cont); aO.emplace(e, std::move(tmp), std::allocator<int>()); expectInit = cont; }
    else if (k == "mapcontal") { aO.emplace(m, cont, std::allocator<int>()); expectInit = cont; }
    else if (k == "mapcontmval") { std::vector<int> tmp(cont); aO.emplace(m, std::move(tmp), std::allocator<int>()); expectInit = cont; }
    else if (k == "copyal") { A a0(m, cont); aO.emplace(a0, std::allocator<int>()); expectInit = cont; }
    else if (k == "swap") {
      A x{E{}}, y(e, cont);
      swap(x, y);
      VL got;
      long prod0 = 1;
      for (std::size_t r = 0; r < R; ++r) { got.push_back(long(y.extent(r))); prod0 *= got.back(); }
      if (got != defaultExt<E>() || long(y.container_size()) != prod0) orFail(res, "mdarray", "swap did not exchange container and mapping");
      aO.emplace(x);
      expectInit = cont;
    }
    else if (k == "default") {
      if constexpr (E::rank_dynamic() > 0) {
        if (c.ext != defaultExt<E>()) throw BadOp{};
        aO.emplace();
      } else throw BadOp{};
    }
    else if (k == "alloc") aO.emplace(e, std::allocator<int>());
    else if (k == "allocval") { aO.emplace(m, 7, std::allocator<int>()); expectInit.assign(want, 7); }
    else if (k == "variadic") {
      if constexpr (R > 0) std::apply([&](auto... x) { aO.emplace(x...); }, toArr<I, R>(c.ext));
      else throw BadOp{};
    }
    else if (k == "arrext" || k == "arrval" || k == "arrcont") {
      // std::array container (Impl::ContainerConstructionTraits<std::array>): fully static extents only
      if constexpr (R > 0 && E::rank_dynamic() == 0) {
        constexpr std::size_t N0 = []() { std::size_t p = 1; for (std::size_t r = 0; r < R; ++r) p *= E::static_extent(r); return p; }();
        // (ContainerConstructionTraits<std::array<T,N>> only requires required_span_size() <= N: also a larger array)
        auto run = [&](auto np) {
          constexpr std::size_t N = decltype(np)::value;
          using A2 = S::mdarray<int, E, L, std::array<int, N>>;
          std::optional<A2> a2;
          if (k == "arrext") { a2.emplace(e); expectInit.assign(N, 0); }
          else if (k == "arrval") { a2.emplace(e, 7); expectInit.assign(N, 7); }
          else { std::array<int, N> ca{}; for (std::size_t q = 0; q < N; ++q) ca[q] = int(10 + q); a2.emplace(e, ca); expectInit = cont; }
          return arrJudge(c, arrRaw<E, L>(*a2, m, c, tuples), tuples, want, want, VL(expectInit.begin(), expectInit.end()), res);
        };
        if (c.pad == 2) return run(std::integral_constant<std::size_t, N0 + 2>{});
        return run(std::integral_constant<std::size_t, N0>{});
      } else throw BadOp{};
    }
    else throw BadOp{};
    return arrJudge(c, arrRaw<E, L>(*aO, m, c, tuples), tuples, want, want, VL(expectInit.begin(), expectInit.end()), res);
  }
}

// ------------------------------------------------------------------------------------------------------------------
// bigmap: mappings over huge index spaces (the limits of every index type), observed at sampled index tuples
// ------------------------------------------------------------------------------------------------------------------

using I128 = __int128;
// largest required_span_size() used with an index type (64-bit types: 2^61, so that the oracle's own long arithmetic is safe)
static long limitOf(const std::string& it) {
  if (it == "short") return 32767L;
  if (it == "int") return 2147483647L;
  if (it == "size" || it == "long") return 1L << 61;
  throw BadOp{};
}
// another index type that can hold every value of I (conversion partner, and the type the strides are passed in)
template <class I> using WideOther = std::conditional_t<std::is_same_v<I, std::size_t>, long long,
                                     std::conditional_t<std::is_same_v<I, long>, unsigned long, long>>;

struct BigObs {
  VL ext, str, offs, mext, mstr;
  long rss = 0, msize = 0;
};
static std::string blockBig(const BigObs& o) {
  return "ext=" + listStr(o.ext) + " rss=" + std::to_string(o.rss) + " str=" + listStr(o.str) + " offs=" + listStr(o.offs) +
         " msize=" + std::to_string(o.msize);
}

template <class L, class M> BigObs observeBig(const M& m, const std::vector<VL>& tuples) {
  using E = typename M::extents_type;
  constexpr std::size_t R = E::rank();
  BigObs o;
  for (std::size_t r = 0; r < R; ++r) o.ext.push_back(long(m.extents().extent(r)));
  if constexpr (R > 0)
    for (std::size_t r = 0; r < R; ++r) o.str.push_back(long(m.stride(r)));
  o.rss = long(m.required_span_size());
  for (auto& t : tuples) o.offs.push_back(callMap(m, t));
  // a view over the mapping: only size()/extent()/stride() are called, no element is touched
  S::mdspan<int, E, L> ms(static_cast<int*>(nullptr), m);
  o.msize = long(ms.size());
  for (std::size_t r = 0; r < R; ++r) {
    o.mext.push_back(long(ms.extent(r)));
    if constexpr (R > 0) o.mstr.push_back(long(ms.stride(r)));
  }
  return o;
}

struct BigRaw {
  bool rank0 = false;
  std::string early;  // the mapping itself is already wrong: the conversions (whose assertions may then fire) are not run
  BigObs src, smid, sfin, dmid, dfin;
};
static std::string checkBig(int lay, const VL& ext, const VL& str, const std::vector<VL>& tuples, const BigObs& o);

template <class E, class L> BigRaw bigRaw(const Ctx& c) {
  using I = typename E::index_type;
  using M = typename L::template mapping<E>;
  using W = WideOther<I>;
  constexpr std::size_t R = E::rank();
  BigRaw w;
  if constexpr (!strideFromAny<E>) { w.rank0 = true; return w; }
  else {
    E e = makeExt<E>("afull", c.ext);
    auto mk = [&]() { if constexpr (isStride<L>) return M(e, toArr<W, R>(c.str)); else return M(e); };
    M m = mk();
    w.src = observeBig<L>(m, c.tuples);
    w.early = checkBig(c.lay, c.ext, c.str, c.tuples, w.src);
    if (!w.early.empty()) return w;
    // to layout_stride and back
    S::layout_stride::mapping<E> smid(m);
    M sfin(smid);
    w.smid = observeBig<S::layout_stride>(smid, c.tuples);
    w.sfin = observeBig<L>(sfin, c.tuples);
    // to dextents of another wide index type and back
    using E2 = S::dextents<W, R>;
    typename L::template mapping<E2> dmid(m);
    M dfin(dmid);
    w.dmid = observeBig<L>(dmid, c.tuples);
    w.dfin = observeBig<L>(dfin, c.tuples);
    return w;
  }
}

// the property on one mapping over a huge index space, at the sampled tuples: "" or what is wrong
static std::string checkBig(int lay, const VL& ext, const VL& str, const std::vector<VL>& tuples, const BigObs& o) {
  std::size_t R = ext.size();
  if (o.ext != ext || o.mext != ext) return "extents " + listStr(o.ext) + " / " + listStr(o.mext) + " expected " + listStr(ext);
  I128 prod = 1;
  bool empty = false;
  for (long e : ext) { prod *= e; empty |= e == 0; }
  // strides
  VL wantStr(R, 1);
  for (std::size_t r = 0; r < R; ++r) {
    I128 w = 1;
    if (lay == LEFT) for (std::size_t k = 0; k < r; ++k) w *= ext[k];
    else if (lay == RIGHT) for (std::size_t k = r + 1; k < R; ++k) w *= ext[k];
    else w = str[r];
    wantStr[r] = long(w);
  }
  if (R > 0 && o.str != wantStr) return "strides " + listStr(o.str) + " expected " + listStr(wantStr);
  if (R > 0 && o.mstr != wantStr) return "strides reported by a view " + listStr(o.mstr) + " expected " + listStr(wantStr);
  // required span
  I128 wantRss;
  if (lay != STRIDE) wantRss = prod;
  else if (R == 0) wantRss = 1;
  else if (empty) wantRss = 0;
  else { wantRss = 1; for (std::size_t r = 0; r < R; ++r) wantRss += I128(ext[r] - 1) * str[r]; }
  if (I128(o.rss) != wantRss) return "required_span_size " + std::to_string(o.rss) + " expected " + std::to_string(long(wantRss));
  if (I128(o.msize) != prod) return "size() of a view " + std::to_string(o.msize) + " but the index space has " + std::to_string(long(prod)) + " index tuples";
  if (o.offs.size() != tuples.size()) return "number of offsets";
  bool unique = lay != STRIDE || stridesSortedUnique(ext, str);
  for (std::size_t i = 0; i < tuples.size(); ++i) {
    const VL& t = tuples[i];
    long off = o.offs[i];
    if (off < 0 || off >= o.rss) return "offset " + std::to_string(off) + " of " + listStr(t) + " outside [0," + std::to_string(o.rss) + ")";
    if (lay == STRIDE) {
      I128 w = 0;
      for (std::size_t r = 0; r < R; ++r) w += I128(t[r]) * str[r];
      if (I128(off) != w) return "offset " + std::to_string(off) + " of " + listStr(t) + " expected " + std::to_string(long(w));
    } else {
      // decode the offset digit by digit (fastest dimension first): it must give back the index tuple
      long rest = off;
      for (std::size_t q = 0; q < R; ++q) {
        std::size_t r = lay == LEFT ? q : R - 1 - q;
        if (rest % ext[r] != t[r]) return "offset " + std::to_string(off) + " of " + listStr(t) + " is not the position of this tuple in the " + (lay == LEFT ? "column" : "row") + "-major enumeration";
        rest /= ext[r];
      }
      if (rest != 0) return "offset " + std::to_string(off) + " of " + listStr(t) + " beyond the enumeration";
    }
    for (std::size_t j = 0; j < i; ++j) {
      if (tuples[j] == t) continue;
      if (unique && o.offs[j] == off) return "index tuples " + listStr(tuples[j]) + " and " + listStr(t) + " share the offset " + std::to_string(off);
      // unit steps between sampled neighbours
      for (int dir = 0; dir < 2; ++dir) {
        const VL& a = dir ? t : tuples[j];
        const VL& b = dir ? tuples[j] : t;
        long oa = dir ? off : o.offs[j], ob = dir ? o.offs[j] : off;
        std::size_t diff = R;
        bool ok = true;
        for (std::size_t r = 0; r < R && ok; ++r) {
          if (a[r] == b[r]) continue;
          if (b[r] == a[r] + 1 && diff == R) diff = r; else ok = false;
        }
        if (ok && diff < R && ob - oa != o.str[diff])
          return "step in dimension " + std::to_string(diff) + " at " + listStr(a) + " is " + std::to_string(ob - oa) + " but stride is " + std::to_string(o.str[diff]);
      }
    }
  }
  return "";
}

static Result bigJudge(const Ctx& c, const BigRaw& w) {
  if (w.rank0) return rank0Failure();
  Result res;
  if (!w.early.empty()) {
    res.impl = "src{" + blockBig(w.src) + "}";
    orFail(res, "mapping", w.early);
    return res;
  }
  res.impl = "src{" + blockBig(w.src) + "} smid{" + blockBig(w.smid) + "} sfin{" + blockBig(w.sfin) + "} dmid{" + blockBig(w.dmid) +
             "} dfin{" + blockBig(w.dfin) + "}";
  orFail(res, "mapping", checkBig(c.lay, c.ext, c.str, c.tuples, w.src));
  auto same = [&](const char* what, const BigObs& o, int lay, const VL& str) {
    orFail(res, what, checkBig(lay, c.ext, str, c.tuples, o));
    if (o.offs != w.src.offs) orFail(res, what, "converted mapping addresses differently: " + listStr(o.offs) + " vs " + listStr(w.src.offs));
    if (o.rss != w.src.rss) orFail(res, what, "required_span_size changed");
    if (o.str != w.src.str) orFail(res, what, "strides changed: " + listStr(o.str) + " vs " + listStr(w.src.str));
  };
  same("to stride", w.smid, STRIDE, w.src.str);
  same("and back", w.sfin, c.lay, c.str);
  same("to dextents", w.dmid, c.lay, c.str);
  same("and back", w.dfin, c.lay, c.str);
  long big = 0;
  for (long s : w.src.str) big = std::max(big, s);
  stat(big >= (1L << 31) ? "bigmap_stride_ge_2^31" : big >= (1L << 15) ? "bigmap_stride_ge_2^15" : "bigmap_stride_small");
  stat(w.src.rss >= (1L << 32) ? "bigmap_span_ge_2^32" : w.src.rss >= (1L << 31) - 1 ? "bigmap_span_ge_2^31-1" : w.src.rss >= 32767 ? "bigmap_span_ge_32767" : "bigmap_span_small");
  stat("bigmap_tuples", (long)c.tuples.size());
  return res;
}

// preconditions of a bigmap line (both sides answer bad-op otherwise): the required span - with extents 0 counted as 1,
// so that no stride of an empty index space overflows either - and every stride fit the index type
static void requireBigFits(const Ctx& c) {
  I128 lim = limitOf(c.it);
  I128 prod = 1;
  for (long e : c.ext) { prod *= std::max<long>(e, 1); if (prod > lim) throw BadOp{}; }
  if (c.lay == STRIDE) {
    I128 span = 1;
    for (std::size_t r = 0; r < c.ext.size(); ++r) {
      if (I128(c.str[r]) > lim) throw BadOp{};
      span += I128(std::max<long>(c.ext[r], 1) - 1) * c.str[r];
      if (span > lim) throw BadOp{};
    }
  }
  if (c.tuples.size() > 64) throw BadOp{};
  for (auto& t : c.tuples) {
    if (t.size() != c.ext.size()) throw BadOp{};
    for (std::size_t r = 0; r < t.size(); ++r) if (t[r] >= c.ext[r]) throw BadOp{};
  }
}

template <class E, class L> Result doBig(const Ctx& c) { return bigJudge(c, bigRaw<E, L>(c)); }

// ------------------------------------------------------------------------------------------------------------------
// dispatch over the instantiated extents types
// ------------------------------------------------------------------------------------------------------------------

struct Entry {
  Result (*fn)(const Ctx&);
  bool full;  // mdspan/mdarray instantiated as well
  bool big;   // bigmap instantiated as well
};
enum { F = 1, B = 2 };  // flags of a registered extents type

template <class E, int FLAGS> Result execE(const Ctx& c) {
  constexpr bool FULL = (FLAGS & F) != 0, BIG = (FLAGS & B) != 0;
  auto byLayout = [&](auto f) -> Result {
    if (c.lay == LEFT) return f(S::layout_left{});
    if (c.lay == RIGHT) return f(S::layout_right{});
    return f(S::layout_stride{});
  };
  if (c.kind == "map") return byLayout([&](auto l) { return doMap<E, decltype(l)>(c); });
  if (c.kind == "conv") return byLayout([&](auto l) { return doConv<E, decltype(l)>(c); });
  if constexpr (FULL) {
    if (c.kind == "mdspan") return byLayout([&](auto l) { return doMdspan<E, decltype(l)>(c); });
    if (c.kind == "mdarray") return byLayout([&](auto l) { return doMdarray<E, decltype(l)>(c); });
  }
  if constexpr (BIG) {
    if (c.kind == "bigmap") return byLayout([&](auto l) { return doBig<E, decltype(l)>(c); });
  }
  throw BadOp{};
}

static std::vector<std::pair<std::string, Entry>>& table() {
  static std::vector<std::pair<std::string, Entry>> t;
  return t;
}
template <class I, int FLAGS, std::size_t... X> void reg(const char* it, const char* pat) {
  table().push_back({std::string(it) + ":" + pat, Entry{&execE<S::extents<I, X...>, FLAGS>, (FLAGS & F) != 0, (FLAGS & B) != 0}});
}
static void registerTypes() {
  using sz = std::size_t;
  // rank 0
  reg<int, F | B>("int", "-");
  reg<sz, 0>("size", "-");
  // rank 1
  reg<int, F | B, D>("int", "d");
  reg<int, 0, 0>("int", "0");
  reg<int, 0, 1>("int", "1");
  reg<int, F, 3>("int", "3");
  reg<sz, B, D>("size", "d");
  reg<short, F | B, D>("short", "d");
  reg<short, 0, 2>("short", "2");
  // rank 2
  reg<int, B, D, D>("int", "dd");
  reg<int, F, D, 3>("int", "d3");
  reg<int, B, 2, D>("int", "2d");
  reg<int, F, 2, 3>("int", "23");
  reg<int, 0, 0, D>("int", "0d");
  reg<sz, F | B, D, D>("size", "dd");
  reg<sz, 0, 4, 0>("size", "40");
  reg<short, B, D, 2>("short", "d2");
  reg<short, 0, 1, 4>("short", "14");
  // rank 3
  reg<int, 0, D, D, D>("int", "ddd");
  reg<int, F, 2, D, 3>("int", "2d3");
  reg<int, B, D, 3, D>("int", "d3d");
  reg<int, 0, D, D, 0>("int", "dd0");
  reg<sz, B, D, D, D>("size", "ddd");
  reg<sz, B, 3, 1, D>("size", "31d");
  reg<short, F | B, D, D, D>("short", "ddd");
  // rank 4
  reg<int, F | B, D, D, D, D>("int", "dddd");
  reg<int, 0, 2, D, D, 3>("int", "2dd3");
  reg<int, 0, D, 1, D, 2>("int", "d1d2");
  reg<int, 0, 2, 3, 1, 2>("int", "2312");
  reg<sz, F | B, D, D, D, D>("size", "dddd");
  reg<sz, B, 3, D, 2, D>("size", "3d2d");
  reg<short, F, D, D, D, D>("short", "dddd");
  reg<short, 0, D, D, D, 4>("short", "ddd4");
  // a signed 64-bit index type
  reg<long, B, D, D>("long", "dd");
  reg<long, B, D, 3, D>("long", "d3d");
  reg<long, B, 2, D, D, D>("long", "2ddd");
}
static const Entry* findEntry(const std::string& key) {
  for (auto& kv : table()) if (kv.first == key) return &kv.second;
  return nullptr;
}

// ------------------------------------------------------------------------------------------------------------------
// span
// ------------------------------------------------------------------------------------------------------------------

struct SpanState {  // the harness' own bookkeeping of what the current span must refer to
  long off = 0, size = 0;
  std::string ext = "d";
};
static std::string spanObs(const std::string& ext, const int* data, std::size_t size) {
  VL el(data, data + size);
  return "ext=" + ext + " size=" + std::to_string(size) + " elems=" + listStr(el);
}
static long cnt(const std::string& s) {
  if (s.empty() || s.size() > 6) throw BadOp{};
  for (char ch : s) if (ch < '0' || ch > '9') throw BadOp{};
  return std::stol(s);
}

// observations that do not change the span
template <class SP> bool spanLook(const SP& sp, const std::vector<std::string>& w, const std::vector<int>& v, const int* base, const SpanState& st,
                                  std::string& out, Result& res) {
  if (w[0] == "at" && w.size() == 2) {
    long i = cnt(w[1]);
    try {
      int& r = sp.at(std::size_t(i));
      if (i >= st.size) orFail(res, "span", "at() beyond size() did not throw");
      else if (&r != base + st.off + i) orFail(res, "span", "at() refers to a different element");
      out = "at=" + std::to_string(r);
    } catch (std::out_of_range&) {
      if (i < st.size) orFail(res, "span", "at() threw for a valid index");
      out = "at=ERR:Range";
    }
    return true;
  }
  if (w[0] == "fb" && w.size() == 1) {
    if (st.size == 0) throw BadOp{};
    if (&sp.front() != base + st.off || &sp.back() != base + st.off + st.size - 1) orFail(res, "span", "front/back");
    out = "front=" + std::to_string(sp.front()) + " back=" + std::to_string(sp.back());
    return true;
  }
  if (w[0] == "iter" && w.size() == 1) {
    VL f, r;
    for (auto it = sp.begin(); it != sp.end(); ++it) f.push_back(*it);
    for (auto it = sp.rbegin(); it != sp.rend(); ++it) r.push_back(*it);
    VL wantF(v.begin() + st.off, v.begin() + st.off + st.size), wantR(wantF.rbegin(), wantF.rend());
    if (f != wantF || r != wantR) orFail(res, "span", "iteration does not visit exactly the elements");
    for (long i = 0; i < st.size; ++i) if (&sp[i] != base + st.off + i) orFail(res, "span", "operator[] refers to a different element");
    if (long(sp.size_bytes()) != st.size * long(sizeof(int)) || sp.empty() != (st.size == 0)) orFail(res, "span", "size_bytes/empty");
    out = "fwd=" + listStr(f) + " rev=" + listStr(r) + " bytes=" + std::to_string(sp.size_bytes()) + " empty=" + (sp.empty() ? "true" : "false");
    return true;
  }
  if (w[0] == "conv" && w.size() == 1) {
    S::span<const int> cs(sp);
    if (cs.data() != base + st.off || long(cs.size()) != st.size) orFail(res, "span", "converted span refers to different elements");
    VL el(cs.begin(), cs.end());
    out = "ext=d size=" + std::to_string(cs.size()) + " elems=" + listStr(el);
    return true;
  }
  return false;
}

// run-time sub-views; returns the new dynamic span
template <class SP> bool spanDyn(const SP& sp, const std::vector<std::string>& w, SpanState& st, S::span<int>& cur) {
  if (w[0] == "first" && w.size() == 2) {
    long c = cnt(w[1]);
    if (c > st.size) throw BadOp{};
    cur = sp.first(std::size_t(c));
    st.size = c;
    return true;
  }
  if (w[0] == "last" && w.size() == 2) {
    long c = cnt(w[1]);
    if (c > st.size) throw BadOp{};
    cur = sp.last(std::size_t(c));
    st.off += st.size - c;
    st.size = c;
    return true;
  }
  if (w[0] == "sub" && w.size() == 3) {
    long o = cnt(w[1]);
    if (o > st.size) throw BadOp{};
    if (w[2] == "d") {
      cur = sp.subspan(std::size_t(o));
      st.off += o;
      st.size -= o;
    } else {
      long c = cnt(w[2]);
      if (c > st.size - o) throw BadOp{};
      cur = sp.subspan(std::size_t(o), std::size_t(c));
      st.off += o;
      st.size = c;
    }
    return true;
  }
  return false;
}

// compile-time sub-views of the typed span (first operation only)
template <std::size_t X, std::size_t C> void tFirstLast(const S::span<int, X>& s, bool first, SpanState& st, S::span<int>& cur) {
  if constexpr (C <= X) {
    if (long(C) > st.size) throw BadOp{};
    if (first) { auto t = s.template first<C>(); static_assert(decltype(t)::extent == C); cur = t; }
    else { auto t = s.template last<C>(); static_assert(decltype(t)::extent == C); cur = t; st.off += st.size - long(C); }
    st.size = long(C);
    st.ext = std::to_string(C);
  } else throw BadOp{};
}
template <std::size_t X, std::size_t O, std::size_t C> void tSub(const S::span<int, X>& s, SpanState& st, S::span<int>& cur) {
  if constexpr (O <= X && (C == D || C <= X - O)) {
    if (long(O) > st.size || (C != D && long(C) > st.size - long(O))) throw BadOp{};
    auto t = s.template subspan<O, C>();
    cur = t;
    constexpr std::size_t ex = decltype(t)::extent;
    st.ext = ex == D ? "d" : std::to_string(ex);
    st.off += long(O);
    st.size = C == D ? st.size - long(O) : long(C);
    if (long(t.size()) != st.size) throw std::runtime_error("template subspan size");
  } else throw BadOp{};
}
template <std::size_t X, std::size_t... K> void tFirstLastSel(const S::span<int, X>& s, bool first, long c, SpanState& st, S::span<int>& cur,
                                                               std::index_sequence<K...>) {
  bool hit = false;
  ((long(K) == c ? (tFirstLast<X, K>(s, first, st, cur), hit = true) : false), ...);
  if (!hit) throw BadOp{};
}
template <std::size_t X, std::size_t O, std::size_t... K> void tSubSelC(const S::span<int, X>& s, long c, SpanState& st, S::span<int>& cur,
                                                                        std::index_sequence<K...>) {
  bool hit = false;
  if (c < 0) { tSub<X, O, D>(s, st, cur); return; }
  ((long(K) == c ? (tSub<X, O, K>(s, st, cur), hit = true) : false), ...);
  if (!hit) throw BadOp{};
}
template <std::size_t X, std::size_t... O> void tSubSel(const S::span<int, X>& s, long o, long c, SpanState& st, S::span<int>& cur,
                                                        std::index_sequence<O...>) {
  bool hit = false;
  ((long(O) == o ? (tSubSelC<X, O>(s, c, st, cur, std::make_index_sequence<5>{}), hit = true) : false), ...);
  if (!hit) throw BadOp{};
}

template <std::size_t X> Result doSpan(long n, const std::vector<std::string>& ops, const std::string& via) {
  std::vector<int> v(n);
  for (long k = 0; k < n; ++k) v[k] = int(10 + k);
  // storage of compile-time size for the C-array / std::array constructors
  constexpr std::size_t N = X == D ? 8 : (X == 0 ? 1 : X);
  int carr[N];
  std::array<int, N> sarr;
  for (std::size_t k = 0; k < N; ++k) carr[k] = sarr[k] = int(10 + k);
  const int* base = v.data();
  std::optional<S::span<int, X>> sO;
  if (via == "ptr") {
    sO.emplace(v.data(), std::size_t(n));
    S::span ded(v.data(), std::size_t(n));
    static_assert(std::is_same_v<decltype(ded), S::span<int>>);
    if (ded.data() != v.data() || long(ded.size()) != n) throw std::runtime_error("span deduction guide (pointer, size)");
  } else if (via == "iters") {
    sO.emplace(v.begin(), v.end());
    S::span ded(v.begin(), v.end());
    static_assert(std::is_same_v<decltype(ded), S::span<int>>);
    if (ded.data() != v.data() || long(ded.size()) != n) throw std::runtime_error("span deduction guide (first, last)");
  } else if (via == "range") {
    sO.emplace(v);
    S::span ded(v);  // (deduces span<const int> for a non-const range, unlike std::span; the elements are the same)
    static_assert(decltype(ded)::extent == D);
    if (ded.data() != v.data() || long(ded.size()) != n) throw std::runtime_error("span deduction guide (range)");
  } else if (via == "carr" || via == "stdarr") {
    if (X == 0 || n != long(N)) throw BadOp{};
    if constexpr (X == 0) throw BadOp{};
    else if (via == "carr") {
      sO.emplace(carr);
      base = carr;
      S::span ded(carr);
      static_assert(std::is_same_v<decltype(ded), S::span<int, N>>);
      if (ded.data() != carr || ded.size() != N) throw std::runtime_error("span deduction guide (C array)");
    } else {
      sO.emplace(sarr);
      base = sarr.data();
      S::span ded(sarr);
      static_assert(std::is_same_v<decltype(ded), S::span<int, N>>);
      S::span cded(std::as_const(sarr));
      static_assert(std::is_same_v<decltype(cded), S::span<const int, N>>);
      if (ded.data() != sarr.data() || ded.size() != N || cded.data() != sarr.data() || cded.size() != N) throw std::runtime_error("span deduction guide (std::array)");
    }
  } else if (via == "def") {
    if constexpr (X == D || X == 0) {
      if (n != 0) throw BadOp{};
      sO.emplace();
      base = nullptr;
    } else throw BadOp{};
  } else throw BadOp{};
  S::span<int, X>& s = *sO;
  stat("span_via_" + via);
  if (s.data() != base || long(s.size()) != n) throw std::runtime_error("span construction");
  S::span<int> cur(s);
  SpanState st;
  st.size = n;
  st.ext = X == D ? "d" : std::to_string(X);
  Result res;
  std::vector<std::string> obs;
  bool first = true;
  for (auto& op : ops) {
    auto w = words(op);
    if (w.empty()) throw BadOp{};
    std::string out;
    bool isT = w[0] == "tfirst" || w[0] == "tlast" || w[0] == "tsub";
    if (isT) {
      if (!first) throw BadOp{};
      if (w[0] == "tsub") {
        if (w.size() != 3) throw BadOp{};
        tSubSel<X>(s, cnt(w[1]), w[2] == "d" ? -1 : cnt(w[2]), st, cur, std::make_index_sequence<5>{});
      } else {
        if (w.size() != 2) throw BadOp{};
        tFirstLastSel<X>(s, w[0] == "tfirst", cnt(w[1]), st, cur, std::make_index_sequence<5>{});
      }
      out = spanObs(st.ext, cur.data(), cur.size());
    } else {
      bool done = first ? spanLook(s, w, v, base, st, out, res) : spanLook(cur, w, v, base, st, out, res);
      if (done && w[0] == "conv") st.ext = "d";
      if (!done) {
        S::span<int> nxt;
        done = first ? spanDyn(s, w, st, nxt) : spanDyn(cur, w, st, nxt);
        if (!done) throw BadOp{};
        cur = nxt;
        st.ext = "d";
        out = spanObs(st.ext, cur.data(), cur.size());
      }
    }
    // the sub-view refers to exactly the designated elements of the storage
    if (cur.data() != base + st.off || long(cur.size()) != st.size) orFail(res, "span", "sub-span does not refer to the designated elements after '" + op + "'");
    if (st.off < 0 || st.off + st.size > n) orFail(res, "span", "sub-span leaves the storage");
    obs.push_back(out);
    first = false;
    stat("spanop_" + w[0]);
  }
  res.impl = join(obs.begin(), obs.end(), ";");
  return res;
}

static Result execSpan(const std::string& line) {
  auto parts = line.find(" : ");
  if (parts == std::string::npos) throw BadOp{};
  auto hd = words(line.substr(0, parts));
  if (hd.size() != 3 && hd.size() != 4) throw BadOp{};
  std::string via = hd.size() == 4 ? hd[3] : "ptr";
  long n = cnt(hd[1]);
  if (n > 64) throw BadOp{};
  auto ops = split(line.substr(parts + 3), ';');
  if (hd[2] == "d") return doSpan<D>(n, ops, via);
  long x = cnt(hd[2]);
  if (x != n) throw BadOp{};
  switch (x) {
    case 0: return doSpan<0>(n, ops, via);
    case 1: return doSpan<1>(n, ops, via);
    case 2: return doSpan<2>(n, ops, via);
    case 3: return doSpan<3>(n, ops, via);
    case 4: return doSpan<4>(n, ops, via);
  }
  throw BadOp{};
}

// ------------------------------------------------------------------------------------------------------------------
// executor
// ------------------------------------------------------------------------------------------------------------------

static Result execInner(const std::string& line) {
  auto w = words(line);
  if (w.empty()) throw BadOp{};
  if (w[0] == "span") { stat("op_span"); return execSpan(line); }
  Ctx c;
  c.kind = w[0];
  const bool big = c.kind == "bigmap";
  if (big) {
    // `bigmap IT PAT LAY EXTS [STRIDES] : t;t;...`
    auto parts = line.find(" : ");
    if (parts == std::string::npos) throw BadOp{};
    std::string tl = line.substr(parts + 3);
    w = words(line.substr(0, parts));
    auto tw = words(tl);
    if (tw.size() != 1) throw BadOp{};
    if (tw[0] != "-")
      for (auto& seg : split(tw[0], ';')) c.tuples.push_back(strictList(seg));
  }
  std::size_t need = c.kind == "mdarray" ? 7 : big ? 5 : 6;
  if (c.kind != "map" && c.kind != "conv" && c.kind != "mdspan" && c.kind != "mdarray" && !big) throw BadOp{};
  if (w.size() < need) throw BadOp{};
  c.it = w[1];
  c.pat = w[2];
  c.layName = w[3];
  std::size_t p = 4;
  if (!big) c.x = w[p++];
  if (c.kind == "mdarray") {
    c.acc = w[p++];
    // optional last token: surplus elements of the container
    if (w.size() > need && w.back().rfind("pad=", 0) == 0) {
      const std::string k = w.back().substr(4);
      if (k.size() != 1 || k[0] < '1' || k[0] > '6') throw BadOp{};
      c.pad = k[0] - '0';
      w.pop_back();
    }
  }
  c.patv = parsePat(c.pat);
  if (c.layName == "left") c.lay = LEFT;
  else if (c.layName == "right") c.lay = RIGHT;
  else if (c.layName == "stride") c.lay = STRIDE;
  else throw BadOp{};
  c.ext = strictList(w[p++]);
  if (c.lay == STRIDE) {
    if (w.size() != p + 1) throw BadOp{};
    c.str = strictList(w[p++]);
    if (c.str.size() != c.patv.size()) throw BadOp{};
    for (long s : c.str) if (s > MAXSTRIDE && !big) throw BadOp{};
  } else if (w.size() != p) throw BadOp{};
  if (c.ext.size() != c.patv.size()) throw BadOp{};
  for (std::size_t r = 0; r < c.ext.size(); ++r) {
    if (c.ext[r] > MAXEXT && !big) throw BadOp{};
    if (c.patv[r] >= 0 && c.patv[r] != c.ext[r]) throw BadOp{};
  }
  const Entry* en = findEntry(c.it + ":" + c.pat);
  if (!en) throw BadOp{};
  if (big) {
    if (!en->big) throw BadOp{};
    requireBigFits(c);
    stat("op_bigmap");
    stat("bigmap_index_" + c.it);
    stat("bigmap_layout_" + c.layName);
    return en->fn(c);
  }
  stat("op_" + c.kind);
  stat("rank_" + std::to_string(c.patv.size()));
  stat("layout_" + c.layName);
  stat("index_" + c.it);
  stat(c.kind + "_" + c.x);
  bool zero = false, one = false;
  for (long e : c.ext) { zero |= e == 0; one |= e == 1; }
  if (zero) stat("has_extent_0");
  if (one) stat("has_extent_1");
  long rd = 0;
  for (long q : c.patv) rd += q < 0;
  stat(rd == 0 ? "pattern_all_static" : (rd == (long)c.patv.size() ? "pattern_all_dynamic" : "pattern_mixed"));
  stat("index_tuples", (long)tuplesRowMajor(c.ext).size());
  Result r = en->fn(c);
  if (r.oracle == "ok" && c.patv.empty() && c.kind == "map") r.oracle = "ok";
  return r;
}

static Result exec(const std::string& line) {
  try {
    return execInner(line);
  } catch (BadOp&) {
    Result r;
    r.impl = "bad-op";
    r.oracle = "ok trivial";
    stat("bad_op");
    return r;
  } catch (std::runtime_error& ex) {  // a construction self-check of the harness failed
    Result r;
    r.impl = "failed";
    r.oracle = std::string("FAIL ") + ex.what();
    return r;
  }
}

// ------------------------------------------------------------------------------------------------------------------
// generator
// ------------------------------------------------------------------------------------------------------------------

static long genExtent(Rng& r, long maxe) {
  long k = (long)r.below(20);
  if (k < 3) return 0;
  if (k < 7) return 1;
  if (k == 19) return std::min<long>(maxe + 2, MAXEXT) - (long)r.below(2);
  return 2 + (long)r.below(std::max<long>(maxe - 1, 1));
}
static VL genExts(Rng& r, const VL& patv, long maxe) {
  VL e;
  for (long p : patv) e.push_back(p >= 0 ? p : genExtent(r, maxe));
  return e;
}
static VL canonStrides(int lay, const VL& ext) {
  VL s(ext.size(), 1);
  for (std::size_t r = 0; r < ext.size(); ++r) {
    long w = 1;
    if (lay == LEFT) for (std::size_t k = 0; k < r; ++k) w *= ext[k];
    else for (std::size_t k = r + 1; k < ext.size(); ++k) w *= ext[k];
    s[r] = w;
  }
  return s;
}
// strides: mostly unique mappings (a permuted, possibly padded nesting), sometimes canonical, rarely arbitrary
static VL genStrides(Rng& r, const VL& ext) {
  std::size_t R = ext.size();
  long k = (long)r.below(20);
  if (k < 3) return canonStrides(LEFT, ext);
  if (k < 6) return canonStrides(RIGHT, ext);
  VL s(R, 1);
  if (k == 19) {
    for (auto& x : s) x = (long)r.below(7);
    return s;
  }
  std::vector<std::size_t> perm(R);
  for (std::size_t i = 0; i < R; ++i) perm[i] = i;
  for (std::size_t i = R; i > 1; --i) std::swap(perm[i - 1], perm[r.below(i)]);
  bool pad = r.coin(1, 2);
  long cur = 1 + (pad ? (long)r.below(3) : 0);
  for (std::size_t i = 0; i < R; ++i) {
    s[perm[i]] = cur;
    cur = cur * std::max<long>(ext[perm[i]], 1) + (pad ? (long)r.below(3) : 0);
    if (cur > MAXSTRIDE) cur = MAXSTRIDE;
  }
  return s;
}

static const std::vector<std::string> CTORS = {"vfull", "vdyn", "afull", "adyn", "sfull", "sdyn"};
static const std::vector<std::string> LAYS = {"left", "right", "stride"};
static const std::vector<std::string> ACCS = {"call", "arr", "span", "br"};
static const std::vector<std::string> MDSPAN_FORMS = {"call", "call", "arr", "arr", "span", "span", "br", "acc", "acc", "accil", "accil", "vdyn", "vfull", "adyn", "sdyn", "sfull", "def", "swap"};
static const std::vector<std::string> ACTORS = {"ext", "extval", "map", "mapval", "cont", "contmv", "copy", "conv",
                                                "span", "spanal", "strided", "alloc", "allocval", "variadic", "arrext", "arrval", "arrcont",
                                                "contmve", "extvalal", "contal", "contmval", "mapcontal", "mapcontmval", "copyal", "swap", "default",
                                                "spanil", "spanilal", "stridedil"};
// constructor forms that are handed a container (which may be larger than the required span)
static const std::set<std::string> PADDABLE = {"cont", "contmv", "copy", "conv", "contmve", "contal", "contmval", "mapcontal", "mapcontmval", "copyal", "swap"};

static std::string keyIt(const std::string& key) { return key.substr(0, key.find(':')); }
static std::string keyPat(const std::string& key) { return key.substr(key.find(':') + 1); }

static std::string genSpan(Rng& r) {
  long n;
  std::string ext;
  if (r.coin(1, 2)) { n = (long)r.below(5); ext = std::to_string(n); }
  else { n = (long)r.below(9); ext = "d"; }
  static const std::vector<std::string> VIAS = {"ptr", "ptr", "ptr", "iters", "iters", "range", "range", "carr", "stdarr", "def"};
  std::string via = r.pick(VIAS);
  if (via == "carr" || via == "stdarr") {
    if (ext == "d") n = 8;
    else if (n == 0) via = "def";
  }
  if (via == "def" && n != 0 && !r.coin(1, 8)) via = "iters";  // (def with n != 0: both sides answer bad-op)
  std::ostringstream os;
  os << "span " << n << " " << ext;
  if (via != "ptr" || r.coin(1, 4)) os << " " << via;
  os << " : ";
  long size = n;
  int nops = 1 + (int)r.below(4);
  for (int i = 0; i < nops; ++i) {
    if (i) os << ";";
    int k = (int)r.below(i == 0 ? 10 : 7);
    bool bad = r.coin(1, 40);
    auto upto = [&](long m) { return (long)r.below((uint64_t)m + 1); };
    if (k == 0) { long c = upto(size) + (bad ? size + 1 : 0); os << "first " << c; size = std::min(c, size); }
    else if (k == 1) { long c = upto(size); os << "last " << c; size = c; }
    else if (k == 2) {
      long o = upto(size);
      if (r.coin(1, 3)) { os << "sub " << o << " d"; size -= o; }
      else { long c = upto(size - o) + (bad ? 1 : 0); os << "sub " << o << " " << c; size = std::min(c, size - o); }
    }
    else if (k == 3) os << "at " << upto(size + 1);
    else if (k == 4) os << (size > 0 || bad ? "fb" : "iter");
    else if (k == 5) os << "iter";
    else if (k == 6) os << "conv";
    else if (k == 7) { long c = std::min<long>(upto(size), 4); os << "tfirst " << c; size = c; }
    else if (k == 8) { long c = std::min<long>(upto(size), 4); os << "tlast " << c; size = c; }
    else {
      long o = std::min<long>(upto(size), 4);
      if (r.coin(1, 3)) { os << "tsub " << o << " d"; size -= o; }
      else { long c = std::min<long>(upto(size - o), 4); os << "tsub " << o << " " << c; size = c; }
    }
  }
  return os.str();
}

static std::string genOne(Rng& r, const std::string& kind, const std::string& key, bool full, long maxe) {
  VL patv = parsePat(keyPat(key));
  std::size_t R = patv.size();
  VL ext = genExts(r, patv, maxe);
  if ((kind == "mdspan" || kind == "mdarray") && r.coin(1, 2)) {
    // make the conversions to the flipped extents types applicable: first dynamic extent (often all of them) as declared there
    bool all = r.coin();
    bool first = true;
    for (std::size_t q = 0; q < R; ++q)
      if (patv[q] < 0) { if (all || first) ext[q] = (long)FLIPV[q]; first = false; }
  }
  std::ostringstream os;
  os << kind << " " << keyIt(key) << " " << keyPat(key) << " ";
  if (kind == "map") {
    std::string lay = r.pick(LAYS);
    os << lay << " " << r.pick(CTORS) << " " << listStr(ext);
    if (lay == "stride") os << " " << listStr(genStrides(r, ext));
  } else if (kind == "conv" && r.coin(1, 3)) {
    // conversion to an extents type with other dynamic positions; the dynamic extents that become static must have
    // the value the partner type declares (rarely left as they are: usually a violated precondition, bad-op)
    int mode = r.coin() ? 1 : 2;
    if (!r.coin(1, 12)) {
      std::size_t firstStatic = R, firstDyn = R;
      for (std::size_t q = R; q-- > 0;) { if (patv[q] < 0) firstDyn = q; else firstStatic = q; }
      for (std::size_t q = 0; q < R; ++q)
        if (patv[q] < 0 && (mode == 1 || q == firstDyn)) ext[q] = (long)FLIPV[q];
    }
    std::string lay = r.pick(LAYS);
    os << lay << " flip" << mode << " " << listStr(ext);
    if (lay == "stride") os << " " << listStr(genStrides(r, ext));
  } else if (kind == "conv") {
    int k = (int)r.below(10);
    if (k < 3) {
      std::string lay = r.pick(LAYS);
      os << lay << " stride " << listStr(ext);
      if (lay == "stride") os << " " << listStr(genStrides(r, ext));
    } else if (k < 6) {
      std::string lay = r.pick(LAYS);
      os << lay << " dyn " << listStr(ext);
      if (lay == "stride") os << " " << listStr(genStrides(r, ext));
    } else if (k < 7 && R <= 1) {
      os << (r.coin() ? "left" : "right") << " lr " << listStr(ext);
    } else {
      bool left = r.coin();
      VL s = canonStrides(left ? LEFT : RIGHT, ext);
      if (r.coin(1, 12) && R > 0) s[r.below(R)] += 1;  // precondition violated: both sides answer bad-op
      os << "stride " << (left ? "toleft" : "toright") << " " << listStr(ext) << " " << listStr(s);
    }
  } else if (kind == "mdspan") {
    std::string lay = r.pick(LAYS);
    std::string acc = r.pick(MDSPAN_FORMS);
    if (acc == "br" && R != 1) acc = "call";
    bool anyDyn = false;
    for (long q : patv) anyDyn = anyDyn || q < 0;
    if (acc == "def" && !anyDyn) acc = "swap";
    os << lay << " " << acc << " " << listStr(ext);
    if (lay == "stride") os << " " << listStr(genStrides(r, ext));
  } else {  // mdarray
    std::string acc = r.pick(ACCS);
    if (acc == "br" && R != 1) acc = "arr";
    std::string ct = r.pick(ACTORS);
    if (ct == "variadic" && R == 0) ct = "ext";
    if (ct.rfind("arr", 0) == 0) {
      bool allStatic = R > 0;
      for (long q : patv) allStatic = allStatic && q >= 0;
      if (!allStatic) ct = ct == "arrext" ? "ext" : ct == "arrval" ? "extval" : "cont";
    }
    if (ct == "default") {
      bool anyDyn = false;
      for (long q : patv) anyDyn = anyDyn || q < 0;
      if (!anyDyn) ct = "swap";
      else if (!r.coin(1, 10))  // (rarely keep the extents: both sides answer bad-op)
        for (std::size_t q = 0; q < R; ++q) if (patv[q] < 0) ext[q] = 0;
    }
    if (r.coin(1, 4)) {
      // an array with a strided layout policy (padded / permuted strides, mostly unique; non-unique ones are bad-op on both sides)
      static const std::vector<std::string> SACT = {"map", "mapval", "contmv", "copy", "mapcontal", "mapcontmval", "copyal", "allocval",
                                                    "span", "span", "spanal", "spanal", "spanil", "spanilal"};
      if (!r.coin(1, 25)) ct = r.pick(SACT);
      // a third of them over an index space without extents 0/1 (then padded strides give a non-exhaustive array)
      if (r.coin(1, 3))
        for (std::size_t q = 0; q < R; ++q) if (patv[q] < 0) ext[q] = 2 + (long)r.below(3);
      os << "stride " << ct << " " << acc << " " << listStr(ext) << " " << listStr(genStrides(r, ext));
      if (PADDABLE.count(ct) ? r.coin(1, 2) : r.coin(1, 60)) os << " pad=" << 1 + r.below(6);
      return os.str();
    }
    os << (r.coin() ? "left" : "right") << " " << ct << " " << acc << " " << listStr(ext);
    // a container larger than the required span (rarely also where no container is handed over: bad-op on both sides)
    if (PADDABLE.count(ct) ? r.coin(1, 2) : r.coin(1, 60)) os << " pad=" << 1 + r.below(6);
    else if (ct.rfind("arr", 0) == 0 && r.coin(1, 2)) os << " pad=2";
  }
  (void)full;
  return os.str();
}


// ---- huge index spaces -------------------------------------------------------------------------------------------

// an extent for a dimension when the product of the remaining extents may still grow by the factor `budget`
static long genBigExtent(Rng& r, long budget, bool last) {
  int k = (int)r.below(24);
  if (k == 0) return 0;
  if (k < 4) return 1;
  if (budget < 2) return 1;
  if (k < 8) return std::min<long>(budget, 2 + (long)r.below(4));
  if (last ? k < 16 : k < 10) return budget - (long)r.below(std::min<long>(budget, 2));  // use up the whole budget (boundary)
  // log-uniform
  int bits = 0;
  while ((budget >> bits) > 1) ++bits;
  int b = r.coin() ? std::max(1, bits - (int)r.below(5)) : 1 + (int)r.below((uint64_t)bits);
  long hi = std::min<long>(budget, (1L << b) + (long)r.below(1L << b));
  return std::max<long>(2, hi - (long)r.below(3));
}

static std::string genBig(Rng& r) {
  static std::vector<std::string> keys;
  if (keys.empty())
    for (auto& kv : table()) if (kv.second.big) keys.push_back(kv.first);
  const std::string& key = r.pick(keys);
  const std::string it = keyIt(key);
  VL patv = parsePat(keyPat(key));
  std::size_t R = patv.size();
  long lim = limitOf(it);
  if (r.coin(1, 8)) lim = std::min<long>(lim, r.coin() ? (1L << 33) : 70000);  // sometimes just above 2^31 / 2^15
  long budget = lim;
  for (long p : patv) if (p > 0) budget /= p;
  // dynamic extents in a random order, so that the big ones are not always in front
  std::vector<std::size_t> dyn;
  for (std::size_t q = 0; q < R; ++q) if (patv[q] < 0) dyn.push_back(q);
  for (std::size_t i = dyn.size(); i > 1; --i) std::swap(dyn[i - 1], dyn[r.below(i)]);
  VL ext = patv;
  for (std::size_t i = 0; i < dyn.size(); ++i) {
    long e = genBigExtent(r, budget, i + 1 == dyn.size());
    ext[dyn[i]] = e;
    budget /= std::max<long>(e, 1);
  }
  std::string lay = r.pick(LAYS);
  VL str;
  if (lay == "stride") {
    int k = (int)r.below(10);
    if (k < 2) str = canonStrides(LEFT, [&] { VL x = ext; for (auto& v : x) v = std::max<long>(v, 1); return x; }());
    else if (k < 4) str = canonStrides(RIGHT, [&] { VL x = ext; for (auto& v : x) v = std::max<long>(v, 1); return x; }());
    else {
      // a permuted nesting, padded while the span stays below the limit
      std::vector<std::size_t> perm(R);
      for (std::size_t i = 0; i < R; ++i) perm[i] = i;
      for (std::size_t i = R; i > 1; --i) std::swap(perm[i - 1], perm[r.below(i)]);
      str.assign(R, 1);
      I128 cur = 1;
      long room = budget;  // factor by which the span may still grow
      for (std::size_t i = 0; i < R; ++i) {
        if (room >= 4 && r.coin(1, 3)) { long f = 2 + (long)r.below(2); cur *= f; room /= f; }
        else if (room >= 3 && r.coin(1, 3)) { cur += (long)r.below(3); room /= 3; }
        str[perm[i]] = long(cur);
        cur *= std::max<long>(ext[perm[i]], 1);
      }
    }
  }
  // sampled index tuples: corners, random interior points, and unit-step neighbours
  std::vector<VL> tuples;
  bool empty = false;
  for (long e : ext) empty |= e == 0;
  if (!empty) {
    int nt = 3 + (int)r.below(5);
    for (int i = 0; i < nt; ++i) {
      VL t(R);
      for (std::size_t q = 0; q < R; ++q) {
        int k = (int)r.below(6);
        t[q] = k == 0 ? 0 : k == 1 ? ext[q] - 1 : k == 2 ? std::min<long>(ext[q] - 1, (long)r.below(3)) : (long)r.below((uint64_t)ext[q]);
      }
      tuples.push_back(t);
      for (std::size_t q = 0; q < R; ++q)
        if (r.coin(1, 2)) {
          VL u = t;
          if (u[q] + 1 < ext[q]) { ++u[q]; tuples.push_back(u); }
          else if (u[q] > 0) { --u[q]; tuples.push_back(u); }
        }
    }
  }
  std::ostringstream os;
  os << "bigmap " << it << " " << keyPat(key) << " " << lay << " " << listStr(ext);
  if (lay == "stride") os << " " << listStr(str);
  os << " : ";
  if (tuples.empty()) os << "-";
  for (std::size_t i = 0; i < tuples.size(); ++i) os << (i ? ";" : "") << listStr(tuples[i]);
  return os.str();
}

// exhaustive part: every registered extents type x layout x all dynamic extents in 0..maxext
static std::vector<std::string> enumeration(Rng& r, long maxe) {
  std::vector<std::string> out;
  std::size_t rot = 0;
  for (auto& kv : table()) {
    VL patv = parsePat(keyPat(kv.first));
    std::vector<std::size_t> dynPos;
    for (std::size_t i = 0; i < patv.size(); ++i) if (patv[i] < 0) dynPos.push_back(i);
    VL cur(dynPos.size(), 0);
    while (true) {
      VL ext = patv;
      for (std::size_t i = 0; i < dynPos.size(); ++i) ext[dynPos[i]] = cur[i];
      for (auto& lay : LAYS) {
        std::ostringstream os;
        os << "map " << keyIt(kv.first) << " " << keyPat(kv.first) << " " << lay << " " << CTORS[rot++ % CTORS.size()] << " " << listStr(ext);
        if (lay == "stride") os << " " << listStr(genStrides(r, ext));
        out.push_back(os.str());
      }
      int k = (int)cur.size() - 1;
      while (k >= 0 && ++cur[k] > maxe) { cur[k] = 0; --k; }
      if (k < 0) break;
    }
  }
  return out;
}

static std::vector<std::string> g_enum;

static std::string gen(Rng& r, long i, const Args& a) {
  if (a.gets("mode", "mix") == "enum") return g_enum[(std::size_t)i % g_enum.size()];
  long maxe = a.tier == "thorough" ? 6 : 4;
  int k = (int)r.below(100);
  if (k < 8) return genSpan(r);
  if (k < 17) return genBig(r);
  std::string kind = k < 35 ? "map" : k < 57 ? "conv" : k < 78 ? "mdspan" : "mdarray";
  bool needFull = kind == "mdspan" || kind == "mdarray";
  while (true) {
    auto& kv = table()[r.below(table().size())];
    if (needFull && !kv.second.full) continue;
    return genOne(r, kind, kv.first, kv.second.full, maxe);
  }
}

int main(int argc, char** argv) {
  registerTypes();
  Args a = parseArgs(argc, argv);
  std::vector<std::string> av(argv, argv + argc);
  if (a.replay.empty() && a.gets("mode", "mix") == "enum") {
    Rng r(a.seed ^ 0x5151);
    g_enum = enumeration(r, a.get("maxext", 3));
    av.push_back("--cases");
    av.push_back(std::to_string(g_enum.size()));
  }
  std::vector<char*> ptrs;
  for (auto& s : av) ptrs.push_back(const_cast<char*>(s.c_str()));
  return dv::run((int)ptrs.size(), ptrs.data(), gen, exec);
}
