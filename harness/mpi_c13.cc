// C13 correspondence harness: Dune::IndicesSyncer on top of ParallelIndexSet + RemoteIndices::rebuild, run under
// mpirun -np P, against the Lean protocol model (lean/DuneVerif/Model/C13.lean), with an independent set-theoretic
// oracle for the property.
//
// op line (one distributed case):
//     np=<P> num=<d|c|s|l> ord=<a|f> del=<m|r> [re=<0|s|d|e>] [comm=<w|d|r0.r1...>] [glob=<i|l>] : <g>=<h>,<h>,...;<g>=<h>,...;...
//   one segment per global index g (decimal, distinct); holder token <h> = <rank><attr><status>
//     rank    the process as numbered by the communicator the RemoteIndices live on (see comm=)
//     attr    o|v|c        owner / overlap / copy  (enum values 0/1/2)
//     status  k  held at rebuild time and kept
//             d  held at rebuild time, deleted locally before the sync (index set entry + own remote entries)
//             a  not held at rebuild time; added locally before the sync together with remote entries for every
//                rebuild-time neighbour that holds g according to this line (any status)
//             n  not held before the sync (the copy exists only in other processes' belief)
//   num: d = IndicesSyncer::sync() (DefaultNumberer: new local index = size_t max, printed M),
//        c = sync(numberer, fixed) with the user numberer g -> 1000+g;
//        s|l = sync(numberer, fixed) with a numberer object that has state and counts its calls (the same object is
//            used for the second round): s hands out 2000, 2001, ...; l recycles the slots (local numbers) of the
//            copies this process deleted, front of the free list first, then 3000, 3001, ... (copies deleted again for
//            the second round give their slots back).  Which index gets which number depends on the order in which
//            the messages are processed, so these numbers are printed as S; the oracle checks that they are distinct
//            and come from the numberer's pool, and that it was called once per added index; calls, length of the free
//            list and next fresh number are printed after each sync (K, F, X) and compared with the model;
//        ord: a = arrival order, f = fixed order (only with num=c|s|l);  del: how status d is carried out:
//        m = RemoteIndexListModifier<.,.,true>::remove + modifier.repairLocalIndexPointers(), r = SLList modify
//        iterators + Dune::repairLocalIndexPointers as dune/common/parallel/test/syncertest.cc does;
//        re (second round, default 0): s = sync again with the same IndicesSyncer object; d = first delete the status-d
//        copies again (those the first sync restored), then sync with a new IndicesSyncer object; e = like d but with
//        the IndicesSyncer object of the first round (second use of an object whose index set and remote indices
//        were modified in between).  Nothing synchronises the processes between the two rounds.
//        comm (default w): the communicator handed to RemoteIndices (and so to the syncer).  P is always the size of
//            MPI_COMM_WORLD.  w = MPI_COMM_WORLD itself; d = MPI_Comm_dup of it (same numbering, other context);
//            r0.r1...rk-1 (distinct world ranks) = MPI_Comm_split: the communicator consists of exactly these world
//            processes and world process r_i has rank i in it, so the numbering differs from MPI_COMM_WORLD and with
//            k < P it is a proper sub-communicator; holder ranks must then be < k.  The remaining world processes
//            form a second communicator on which they run the same operations with empty index sets at the same
//            time.  The answer r<i>{..} is that of the process with rank i in the communicator (for i >= k: of the
//            (i-k)-th remaining process), i.e. the line is independent of where the communicator puts a process.
//        glob (default i): the global index type of the index set: i = int (value g), l = long (value g*(2^32+3), so
//            that neither half of the 64 bits alone identifies the index)
// answer of one rank:  A(<state before the first sync>) B(<state after it>) [C(<state after the second sync>)]
//   state = I[<g><attr>:<local>,...] N<q>[<g><ownattr><remoteattr>@<position in I>,...] ... [S<0|1>] [K<calls> F<free slots> X<next fresh>]
//   (S only after a sync, K F X only for num=s|l)
#include <config.h>

#include <mpi.h>

#include <algorithm>
#include <deque>
#include <list>
#include <map>
#include <memory>
#include <set>
#include <sstream>

#include <dune/common/parallel/indexset.hh>
#include <dune/common/parallel/indicessyncer.hh>
#include <dune/common/parallel/mpihelper.hh>
#include <dune/common/parallel/plocalindex.hh>
#include <dune/common/parallel/remoteindices.hh>

#include "hcommon_mpi.hh"

using namespace dv;

enum Attr { owner = 0, overlap = 1, copy = 2 };
typedef Dune::ParallelLocalIndex<Attr> LI;

// the global index value that stands for the integer g of the op line
template <class G> struct GMap;
template <> struct GMap<int> {
  static int to(int g) { return g; }
  static bool from(int v, int& g) { g = v; return true; }
};
template <> struct GMap<long> {
  static const long F = 4294967296L + 3;
  static long to(int g) { return (long)g * F; }
  static bool from(long v, int& g) { if (v % F != 0 || v / F > 1000000 || v / F < -1000000) return false; g = (int)(v / F); return true; }
};

static const char* ATTR = "ovc";
static std::string attrStr(int a) { return (a >= 0 && a < 3) ? std::string(1, ATTR[a]) : "?" + std::to_string(a); }

struct Tok { int rank, g, attr; char st; };
struct Case {
  int np = 0;
  char comm = 'w';            // w world, d dup, l list of world ranks
  std::vector<int> members;   // comm=l: world rank of communicator rank i
  char glob = 'i';
  int active() const { return comm == 'l' ? (int)members.size() : np; }   // size of the communicator of the case
  // role = number under which a world process appears in the op line and in the answer
  int roleOf(int wrank) const {
    if (comm != 'l') return wrank;
    int others = 0;
    for (size_t i = 0; i < members.size(); ++i) if (members[i] == wrank) return (int)i;
    for (int w = 0; w < wrank; ++w) if (std::find(members.begin(), members.end(), w) == members.end()) ++others;
    return (int)members.size() + others;
  }
  char num = 'd';   // d default numberer, c pure user numberer, s|l numberer objects with state (counter / free list)
  bool stateful() const { return num == 's' || num == 'l'; }
  bool fixed = false;
  char del = 'r';
  char re = '0';    // second round: 0 none, s sync again, d delete the status-d copies again and sync again with a new
                    // IndicesSyncer object, e = the same with the IndicesSyncer object of the first round
  bool redel() const { return re == 'd' || re == 'e'; }
  std::vector<Tok> toks;
  bool ok = false;
};

static Case parse(const std::string& line) {
  Case c;
  size_t sep = line.find(" : ");
  std::string head = sep == std::string::npos ? line : line.substr(0, sep);
  std::string body = sep == std::string::npos ? "" : line.substr(sep + 3);
  bool hn = false, hnum = false, hord = false, hdel = false, hre = false, hcomm = false, hglob = false;
  for (auto& w : words(head)) {
    if (w.rfind("np=", 0) == 0 && !hn) { c.np = std::atoi(w.c_str() + 3); hn = true; }
    else if ((w == "num=d" || w == "num=c" || w == "num=s" || w == "num=l") && !hnum) { c.num = w[4]; hnum = true; }
    else if (w == "ord=a" && !hord) { c.fixed = false; hord = true; }
    else if (w == "ord=f" && !hord) { c.fixed = true; hord = true; }
    else if ((w == "del=m" || w == "del=r") && !hdel) { c.del = w[4]; hdel = true; }
    else if ((w == "re=0" || w == "re=s" || w == "re=d" || w == "re=e") && !hre && hdel && !hcomm && !hglob) { c.re = w[3]; hre = true; }
    else if (w.rfind("comm=", 0) == 0 && !hcomm && hdel && hn && !hglob) {
      std::string v = w.substr(5);
      hcomm = true;
      if (v == "w" || v == "d") c.comm = v[0];
      else {
        c.comm = 'l';
        for (auto& m : split(v, '.')) {
          if (m.empty() || m.size() > 3) return c;
          for (char ch : m) if (ch < '0' || ch > '9') return c;
          int r = std::atoi(m.c_str());
          if (r >= c.np || std::find(c.members.begin(), c.members.end(), r) != c.members.end()) return c;
          c.members.push_back(r);
        }
      }
    }
    else if ((w == "glob=i" || w == "glob=l") && !hglob && hdel) { c.glob = w[5]; hglob = true; }
    else return c;
  }
  if (!hn || !hnum || !hord || !hdel || c.np < 1 || c.np > 64 || (c.fixed && c.num == 'd')) return c;
  std::set<int> gs;
  for (auto& seg0 : split(body, ';')) {
    std::string seg;
    for (char ch : seg0) if (ch != ' ') seg.push_back(ch);
    if (seg.empty()) continue;
    size_t eq = seg.find('=');
    if (eq == std::string::npos || eq == 0) return c;
    int g;
    try { size_t used; g = std::stoi(seg.substr(0, eq), &used); if (used != eq) return c; } catch (...) { return c; }
    if (!gs.insert(g).second) return c;
    std::set<int> ranks;
    for (auto& h : split(seg.substr(eq + 1), ',')) {
      if (h.size() < 3) return c;
      std::string rs = h.substr(0, h.size() - 2);
      for (char ch : rs) if (ch < '0' || ch > '9') return c;
      Tok t;
      t.rank = std::atoi(rs.c_str());
      t.g = g;
      const char* ap = std::strchr(ATTR, h[h.size() - 2]);
      if (!ap || !*ap) return c;
      t.attr = (int)(ap - ATTR);
      t.st = h[h.size() - 1];
      if (!std::strchr("kdan", t.st) || !t.st) return c;
      if (t.rank >= c.active() || !ranks.insert(t.rank).second) return c;
      c.toks.push_back(t);
    }
  }
  c.ok = true;
  return c;
}

// ---------------------------------------------------------------------------------------------------------
// independent oracle: the property evaluated set-theoretically from the op line (std::map / std::set only)
// ---------------------------------------------------------------------------------------------------------
struct RankState {
  std::map<int, int> held;                             // g -> attr
  std::map<int, long> local;                           // g -> local index number (-1 = numberer's value)
  std::map<int, std::map<int, int>> known;             // neighbour -> (g -> remote attr); key present = neighbour
};
typedef std::vector<RankState> World;

static World preState(const Case& c) {
  World w(c.np);
  std::map<int, std::map<int, int>> D, B;  // g -> rank -> attr : everything on the line / held at rebuild time
  for (auto& t : c.toks) {
    D[t.g][t.rank] = t.attr;
    if (t.st == 'k' || t.st == 'd') B[t.g][t.rank] = t.attr;
  }
  // rebuild: neighbours = ranks sharing a rebuild-time index; lists = the common indices
  std::vector<std::map<int, long>> baseLocal(c.np);
  for (int p = 0; p < c.np; ++p) {
    long n = 0;
    for (auto& gb : B) if (gb.second.count(p)) baseLocal[p][gb.first] = n++;
  }
  for (auto& gb : B)
    for (auto& pa : gb.second)
      for (auto& qa : gb.second)
        if (pa.first != qa.first) w[pa.first].known[qa.first];  // create the neighbour
  for (auto& t : c.toks) {
    RankState& s = w[t.rank];
    if (t.st == 'k') {
      s.held[t.g] = t.attr;
      s.local[t.g] = baseLocal[t.rank][t.g];
      for (auto& qa : B[t.g]) if (qa.first != t.rank) s.known[qa.first][t.g] = qa.second;
    } else if (t.st == 'a') {
      s.held[t.g] = t.attr;
      s.local[t.g] = 500 + t.g;
      for (auto& qa : D[t.g]) if (qa.first != t.rank && s.known.count(qa.first)) s.known[qa.first][t.g] = qa.second;
    }
  }
  return w;
}

// one collective sync: what every process believed before is made true at the processes concerned
static World closure(const World& pre) {
  World post = pre;
  int np = (int)pre.size();
  for (int p = 0; p < np; ++p)
    for (auto& qk : pre[p].known)            // q = neighbour of p
      for (auto& ga : qk.second) {           // p believes q holds g with attribute ga.second
        int q = qk.first, g = ga.first;
        RankState& s = post[q];
        if (!s.held.count(g)) { s.held[g] = ga.second; s.local[g] = -1; }
        s.known[p][g] = pre[p].held.at(g);   // q learns the sender ...
        for (auto& rk : pre[p].known)        // ... and every other holder the sender knew
          if (rk.first != q && rk.second.count(g)) s.known[rk.first][g] = rk.second.at(g);
      }
  return post;
}

// the status-d copies are deleted (again): index set entry and own remote entries
static World deleted(const Case& c, const World& w) {
  World r = w;
  for (auto& t : c.toks)
    if (t.st == 'd') {
      RankState& s = r[t.rank];
      s.held.erase(t.g);
      s.local.erase(t.g);
      for (auto& k : s.known) k.second.erase(t.g);
    }
  return r;
}

static World originalState(const Case& c) {
  Case b = c;
  b.toks.clear();
  for (auto t : c.toks) if (t.st == 'k' || t.st == 'd') { t.st = 'k'; b.toks.push_back(t); }
  return preState(b);
}

// ---------------------------------------------------------------------------------------------------------
// everything that touches the real classes, for one global index type G
template <class G>
struct Impl {
typedef Dune::ParallelIndexSet<G, LI, 3> PIS;  // chunk size 3: every resize moves the pairs
typedef Dune::RemoteIndices<PIS> RI;
typedef typename RI::RemoteIndexList RIL;
typedef Dune::RemoteIndex<G, Attr> RIdx;
typedef Dune::SLList<std::pair<G, Attr>, typename RI::Allocator> GList;
typedef typename PIS::IndexPair IPair;

static G toG(int g) { return GMap<G>::to(g); }
// the op-line integer of a global index value; values that stand for no integer are reported and mapped to a
// number no op line uses
static int fromG(const G& v, std::ostringstream& bad) {
  int g;
  if (GMap<G>::from(v, g)) return g;
  bad << " global index value " << v << " stands for no index of the case;";
  return 7000000 + (int)(((unsigned long)v) % 999983ul);
}
static int fromG(const G& v) { std::ostringstream dummy; return fromG(v, dummy); }

struct CustomNumberer {
  std::size_t operator()(const G& g) { return (std::size_t)(1000 + fromG(g)); }
};
// numberer object with state: recycles the slots of its free list (front first), then hands out fresh numbers
struct SlotNumberer {
  std::deque<std::size_t> free;
  std::size_t next = 2000;
  std::size_t calls = 0;
  std::set<std::size_t> pool;  // every number it may ever hand out from the free list (for the oracle)
  std::size_t first = 2000;    // first fresh number
  std::size_t operator()(const G&) {
    ++calls;
    if (!free.empty()) { std::size_t v = free.front(); free.pop_front(); return v; }
    return next++;
  }
  bool mayHaveHandedOut(std::size_t v) const { return pool.count(v) || (v >= first && v < next); }
};

struct ModHolder {
  Dune::RemoteIndexListModifier<PIS, typename RI::Allocator, true> m;  // must be constructed in place (its copy shares iterators)
  ModHolder(RI& ri, int q) : m(ri.template getModifier<true, true>(q)) {}
};

// delete the index set entries with a global index in gs together with the remote entries that refer to them
static void deleteLocalCopies(PIS& is, RI& ri, const std::set<int>& gs0, char method) {
  if (gs0.empty()) return;
  std::set<G> gs;
  for (int g : gs0) gs.insert(toG(g));
  if (method == 'm') {
    std::list<ModHolder> mods;
    std::vector<std::set<G>> has;
    for (auto it = ri.begin(); it != ri.end(); ++it) {
      std::set<G> hg;
      for (auto e = it->second.first->begin(); e != it->second.first->end(); ++e) hg.insert(e->localIndexPair().global());
      has.push_back(hg);
    }
    std::vector<int> nbs;
    for (auto it = ri.begin(); it != ri.end(); ++it) nbs.push_back(it->first);
    for (int q : nbs) mods.emplace_back(ri, q);
    is.beginResize();
    for (auto it = is.begin(); it != is.end(); ++it) {
      if (!gs.count(it->global())) continue;
      is.markAsDeleted(it);
      size_t k = 0;
      for (auto& mh : mods) { if (has[k].count(it->global())) mh.m.remove(it->global()); ++k; }
    }
    is.endResize();
    for (auto& mh : mods) mh.m.repairLocalIndexPointers();
  } else {
    std::map<int, GList> gl;
    Dune::storeGlobalIndicesOfRemoteIndices(gl, ri);
    is.beginResize();
    for (auto it = is.begin(); it != is.end(); ++it) {
      if (!gs.count(it->global())) continue;
      is.markAsDeleted(it);
      for (auto nb = ri.begin(); nb != ri.end(); ++nb) {
        RIL& rl = *nb->second.first;
        GList& g = gl[nb->first];
        auto rit = rl.beginModify();
        auto git = g.beginModify();
        while (rit != rl.end() && git->first < it->global()) { ++rit; ++git; }
        if (rit != rl.end() && git->first == it->global()) { rit.remove(); git.remove(); }
      }
    }
    is.endResize();
    Dune::repairLocalIndexPointers(gl, ri, is);
  }
}

static std::string localStr(std::size_t l, bool hide) {
  if (hide) return "S";
  if (l == std::numeric_limits<std::size_t>::max()) return "M";
  return std::to_string(l);
}

struct Observed {
  std::map<const void*, int> posOf;  // address of an index pair -> position in the index set
  std::map<int, int> gotHeld;        // global -> number of occurrences in the index set
};

// canonical text of this rank's state; everything that contradicts the expected state `w` goes to `bad`
static std::string observe(const Case& c, PIS& is, RI& ri, const RankState& w, bool afterSync, const SlotNumberer& numb,
                           const char* tag, std::ostringstream& bad0, Observed& ob) {
  std::ostringstream os, bad;
  std::set<std::size_t> counted;
  {
    os << "I[";
    int k = 0;
    bool first = true, havePrevG = false;
    G prevG = G();
    for (auto it = is.begin(); it != is.end(); ++it, ++k) {
      const IPair& pr = *it;
      ob.posOf[&pr] = k;
      if (!first) os << ",";
      first = false;
      const int pg = fromG(pr.global(), bad);
      auto e = w.held.find(pg);
      // a number assigned by a numberer object depends on the processing order: not printed
      bool hide = c.stateful() && e != w.held.end() && w.local.at(pg) < 0;
      os << pg << attrStr(pr.local().attribute()) << ":" << localStr(pr.local().local(), hide);
      if (havePrevG && !(prevG < pr.global())) bad << " index set not strictly ascending at " << pg << ";";
      prevG = pr.global();
      havePrevG = true;
      if (e == w.held.end()) bad << " index " << pg << " present but nobody held or announced it;";
      else {
        if (e->second != (int)pr.local().attribute())
          bad << " index " << pg << " has attribute " << attrStr(pr.local().attribute()) << " expected " << attrStr(e->second) << ";";
        long wl = w.local.at(pg);
        std::size_t got = pr.local().local();
        if (wl < 0 && c.stateful()) {
          // a number handed out by the numberer object: from its pool, never twice
          if (!numb.mayHaveHandedOut(got))
            bad << " index " << pg << " local number " << got << " was not handed out by the numberer (" << numb.calls << " calls);";
          if (!counted.insert(got).second) bad << " local number " << got << " given to two indices;";
        } else {
          std::size_t expectLocal = wl >= 0 ? (std::size_t)wl
                                    : (c.num == 'c' ? (std::size_t)(1000 + pg) : std::numeric_limits<std::size_t>::max());
          if (got != expectLocal)
            bad << " index " << pg << " local number " << localStr(got, false) << " expected " << localStr(expectLocal, false) << ";";
        }
      }
      if (pr.local().state() != Dune::VALID) bad << " index " << pg << " not in state VALID;";
      if (!pr.local().isPublic()) bad << " index " << pg << " lost its public flag;";
      ob.gotHeld[pg]++;
    }
    os << "]";
    for (auto& e : w.held)
      if (!ob.gotHeld.count(e.first)) bad << " index " << e.first << attrStr(e.second) << " missing from the index set;";
  }
  std::set<int> gotNb;
  for (auto nb = ri.begin(); nb != ri.end(); ++nb) {
    int q = nb->first;
    gotNb.insert(q);
    os << " N" << q << "[";
    if (nb->second.first != nb->second.second) bad << " neighbour " << q << ": send and receive list differ;";
    auto wk = w.known.find(q);
    if (wk == w.known.end()) bad << " neighbour " << q << " exists but no index is shared with it;";
    std::map<int, int> got;
    bool first = true, havePrev = false;
    G prev = G();
    for (auto e = nb->second.first->begin(); e != nb->second.first->end(); ++e) {
      if (!first) os << ",";
      first = false;
      const RIdx& re = *e;
      // locate the referenced pair without dereferencing the stored pointer (it may be null or stale):
      // RemoteIndex::operator== compares the pointer and the attribute
      auto po = ob.posOf.end();
      for (auto cand = ob.posOf.begin(); cand != ob.posOf.end(); ++cand)
        if (re == RIdx(re.attribute(), static_cast<const IPair*>(cand->first))) { po = cand; break; }
      if (po == ob.posOf.end()) {
        os << "?" << attrStr(re.attribute());
        bad << " neighbour " << q << ": entry does not reference an element of the index set;";
        continue;
      }
      int g = fromG(re.localIndexPair().global(), bad);
      os << g << attrStr(re.localIndexPair().local().attribute()) << attrStr(re.attribute()) << "@" << po->second;
      if (havePrev && !(prev < re.localIndexPair().global())) bad << " neighbour " << q << ": list not strictly ascending at " << g << ";";
      prev = re.localIndexPair().global();
      havePrev = true;
      got[g] = re.attribute();
      if (wk != w.known.end()) {
        auto we = wk->second.find(g);
        if (we == wk->second.end()) bad << " neighbour " << q << ": entry for " << g << " that nobody knew;";
        else if (we->second != (int)re.attribute())
          bad << " neighbour " << q << ": entry for " << g << " has remote attribute " << attrStr(re.attribute()) << " expected " << attrStr(we->second) << ";";
      }
    }
    os << "]";
    if (wk != w.known.end())
      for (auto& we : wk->second)
        if (!got.count(we.first)) bad << " neighbour " << q << ": entry for " << we.first << " (remote " << attrStr(we.second) << ") missing;";
  }
  for (auto& wk : w.known)
    if (!gotNb.count(wk.first)) bad << " neighbour " << wk.first << " missing;";
  if (afterSync) {
    os << " S" << (ri.isSynced() ? 1 : 0);
    if (!ri.isSynced()) bad << " remote indices not in sync after sync();";
    if (c.stateful()) os << " K" << numb.calls << " F" << numb.free.size() << " X" << numb.next;
  }
  if (!bad.str().empty()) bad0 << " [" << tag << "]" << bad.str();
  return os.str();
}

// the "in particular" sentence, evaluated separately: wherever a holder of g kept its copy, everything about g is as
// in the original state (only for pure deletion cases)
static void checkRestored(const Case& c, int rank, RI& ri, const Observed& ob, const char* tag, std::ostringstream& bad) {
  std::map<int, std::map<int, int>> D;
  for (auto& t : c.toks) D[t.g][t.rank] = t.attr;
  World orig = originalState(c);
  const RankState& o = orig[rank];
  for (auto& gd : D) {
    bool survivor = false;
    for (auto& t : c.toks) if (t.g == gd.first && t.st == 'k') survivor = true;
    if (!survivor) continue;
    int g = gd.first;
    bool heldO = o.held.count(g), heldN = ob.gotHeld.count(g);
    if (heldO != heldN) bad << " [" << tag << "] restore: index " << g << (heldO ? " not restored;" : " appeared;");
    for (auto& ok : o.known) {
      if (!ok.second.count(g)) continue;
      auto nb = ri.find(ok.first);
      bool found = false;
      if (nb != ri.end())
        for (auto e = nb->second.first->begin(); e != nb->second.first->end(); ++e) {
          bool valid = false;
          for (auto& cand : ob.posOf)
            if (*e == RIdx(e->attribute(), static_cast<const IPair*>(cand.first))) valid = true;
          if (!valid) continue;
          if (e->localIndexPair().global() == toG(g) && (int)e->attribute() == ok.second.at(g) &&
              (int)e->localIndexPair().local().attribute() == o.held.at(g)) found = true;
        }
      if (!found) bad << " [" << tag << "] restore: remote entry (" << ok.first << "," << g << ") not restored;";
    }
  }
}

// the case as seen by the process with number `rank` of the op line (its rank in `comm` if it is one of the
// communicator of the case; the other processes have no index and their own communicator)
static Result run(const Case& c, const std::string& line, MPI_Comm comm, const int rank) {
  Result res;
  int wrank;
  MPI_Comm_rank(MPI_COMM_WORLD, &wrank);

  std::map<int, std::map<int, int>> D;  // g -> rank -> attr
  for (auto& t : c.toks) D[t.g][t.rank] = t.attr;
  std::vector<Tok> mine;
  for (auto& t : c.toks) if (t.rank == rank) mine.push_back(t);
  std::sort(mine.begin(), mine.end(), [](const Tok& a, const Tok& b) { return a.g < b.g; });

  // 1. consistent state: index set + RemoteIndices::rebuild
  PIS is;
  is.beginResize();
  {
    std::size_t n = 0;
    for (auto& t : mine) if (t.st == 'k' || t.st == 'd') is.add(toG(t.g), LI(n++, Attr(t.attr), true));
  }
  is.endResize();
  RI ri(is, is, comm);
  ri.template rebuild<false>();

  // 2a. delete local copies and their remote entries
  std::set<int> delGs;
  bool anyAdd = false;
  for (auto& t : mine) { if (t.st == 'd') delGs.insert(t.g); anyAdd |= t.st == 'a'; }
  deleteLocalCopies(is, ri, delGs, c.del);
  // 2b. add new local indices together with what this process knows about their other holders
  if (anyAdd) {
    std::map<int, GList> gl;
    Dune::storeGlobalIndicesOfRemoteIndices(gl, ri);
    is.beginResize();
    for (auto& t : mine) {
      if (t.st != 'a') continue;
      is.add(toG(t.g), LI((std::size_t)(500 + t.g), Attr(t.attr), true));
      for (auto nb = ri.begin(); nb != ri.end(); ++nb) {
        auto& holders = D[t.g];
        auto h = holders.find(nb->first);
        if (h == holders.end()) continue;
        RIL& rl = *nb->second.first;
        GList& g = gl[nb->first];
        auto rit = rl.beginModify();
        auto git = g.beginModify();
        while (rit != rl.end() && git->first < toG(t.g)) { ++rit; ++git; }
        rit.insert(RIdx(Attr(h->second)));
        git.insert(std::make_pair(toG(t.g), Attr(t.attr)));
      }
    }
    is.endResize();
    Dune::repairLocalIndexPointers(gl, ri, is);
  }

  World pre = preState(c), want = closure(pre);
  std::ostringstream os, bad;
  SlotNumberer counting;
  if (c.num == 'l') {
    counting.next = counting.first = 3000;
    // the slots of the copies this process deleted (ascending global index)
    std::size_t n = 0;
    for (auto& t : mine) {
      if (t.st == 'd') { counting.free.push_back(n); counting.pool.insert(n); }
      if (t.st == 'k' || t.st == 'd') ++n;
    }
  }
  // the ranks enter the sync at different times (seeded by the op line), so that the messages of the neighbours
  // arrive in varying orders and fast ranks are already in their next sync while slow ones still receive
  uint64_t jitterSeed = 1469598103934665603ull;
  for (char ch : line) jitterSeed = (jitterSeed ^ (unsigned char)ch) * 1099511628211ull;
  Rng jitter(jitterSeed * 64 + (uint64_t)wrank);
  std::unique_ptr<Dune::IndicesSyncer<PIS>> syncer;
  auto doSync = [&]() {
    static const int DELAY[] = {0, 0, 0, 100, 300, 600, 1000, 1500};
    int d = DELAY[jitter.below(8)];
    if (d && c.np > 1) usleep(d);
    // re=s and re=e sync again with the same IndicesSyncer object, re=d (the index set was modified in between) with a new one
    // re=e: the same object again although index set and remote indices were modified in between
    if (!syncer || c.re == 'd') syncer.reset(new Dune::IndicesSyncer<PIS>(is, ri));
    // arrival order through the one-argument call (default argument of useFixedOrder), fixed order explicitly
    if (c.num == 'c') {
      CustomNumberer num;
      if (c.fixed) syncer->sync(num, true); else syncer->sync(num);
    } else if (c.stateful()) {
      if (c.fixed) syncer->sync(counting, true); else syncer->sync(counting);
    } else
      syncer->sync();
  };
  auto inserted = [&](const World& before, const World& after) {
    long n = 0;
    for (auto& h : after[rank].held) if (!before[rank].held.count(h.first)) ++n;
    return n;
  };
  bool pureDeletion = true;
  for (auto& t : c.toks) if (t.st == 'a' || t.st == 'n') pureDeletion = false;

  // 3. the state before the sync (ties the model's consistent state / deletion / announcement to the real code)
  {
    Observed ob;
    os << "A(" << observe(c, is, ri, pre[rank], false, counting, "before", bad, ob) << ")";
  }
  // 4. the operation under test
  doSync();
  long expectCalls = inserted(pre, want);
  {
    Observed ob;
    os << " B(" << observe(c, is, ri, want[rank], true, counting, "sync", bad, ob) << ")";
    if (c.stateful() && (long)counting.calls != expectCalls)
      bad << " [sync] numberer called " << counting.calls << " times for " << expectCalls << " new indices;";
    if (pureDeletion) checkRestored(c, rank, ri, ob, "sync", bad);
  }
  // with the counting numberer the numbers show in which order the messages were processed: compare with the
  // order by ascending source rank (statistics only)
  int orderDiffers = 0;
  if (c.num == 's' && !c.fixed) {
    std::map<int, std::size_t> byRank;
    std::size_t next = counting.first;
    for (int p = 0; p < c.np; ++p) {
      auto k = pre[p].known.find(rank);
      if (k == pre[p].known.end()) continue;
      for (auto& ga : k->second)
        if (!pre[rank].held.count(ga.first) && !byRank.count(ga.first)) byRank[ga.first] = next++;
    }
    for (auto it = is.begin(); it != is.end(); ++it) {
      auto e = byRank.find(fromG(it->global()));
      if (e != byRank.end() && e->second != it->local().local()) orderDiffers = 1;
    }
  }
  // 5. second round
  World pre2, want2;
  if (c.re != '0') {
    pre2 = c.redel() ? deleted(c, want) : want;
    want2 = closure(pre2);
    if (c.redel()) {
      std::set<int> gs2;
      for (auto& g : delGs) if (want[rank].held.count(g)) gs2.insert(g);
      std::set<int> present;
      for (auto it = is.begin(); it != is.end(); ++it)
        if (gs2.count(fromG(it->global()))) {
          present.insert(fromG(it->global()));
          if (c.num == 'l') { counting.free.push_back(it->local().local()); counting.pool.insert(it->local().local()); }
        }
      deleteLocalCopies(is, ri, present, c.del);
    }
    doSync();
    expectCalls += inserted(pre2, want2);
    Observed ob;
    os << " C(" << observe(c, is, ri, want2[rank], true, counting, "second sync", bad, ob) << ")";
    if (c.stateful() && (long)counting.calls != expectCalls)
      bad << " [second sync] numberer called " << counting.calls << " times for " << expectCalls << " new indices;";
    if (pureDeletion) checkRestored(c, rank, ri, ob, "second sync", bad);
  }

  {
    int any = 0;
    MPI_Allreduce(&orderDiffers, &any, 1, MPI_INT, MPI_MAX, MPI_COMM_WORLD);
    if (wrank == 0 && c.num == 's' && !c.fixed) stat(any ? "arrival_order_observed_other_than_rank_order" : "arrival_order_observed_rank_order");
  }
  res.impl = os.str();
  bool trivial = true;
  for (auto& s : pre) for (auto& k : s.known) if (!k.second.empty()) trivial = false;
  if (!bad.str().empty()) res.oracle = "FAIL" + bad.str();
  else res.oracle = trivial ? "ok trivial" : "ok";

  if (wrank == 0) {
    long del = 0, delOwner = 0, add = 0, notheld = 0, restored = 0, newnb = 0, lost = 0, several = 0, restored2 = 0, newnb2 = 0;
    for (auto& t : c.toks) { del += t.st == 'd'; delOwner += t.st == 'd' && t.attr == 0; add += t.st == 'a'; notheld += t.st == 'n'; }
    for (int p = 0; p < c.np; ++p) {
      for (auto& h : want[p].held) if (!pre[p].held.count(h.first)) ++restored;
      for (auto& k : want[p].known) if (!pre[p].known.count(k.first)) ++newnb;
      if (c.re != '0') {
        for (auto& h : want2[p].held) if (!pre2[p].held.count(h.first)) ++restored2;
        for (auto& k : want2[p].known) if (!want[p].known.count(k.first)) ++newnb2;
      }
    }
    // an index that a process does not hold and that is announced to it by two or more neighbours
    {
      std::map<std::pair<int, int>, int> announced;
      for (int p = 0; p < c.np; ++p)
        for (auto& qk : pre[p].known)
          for (auto& ga : qk.second)
            if (!pre[qk.first].held.count(ga.first)) announced[std::make_pair(qk.first, ga.first)]++;
      for (auto& a : announced) if (a.second >= 2) ++several;
    }
    for (auto& t : c.toks) if (t.st == 'd' && !want[t.rank].held.count(t.g)) ++lost;
    // some rank is told about indices it still holds in descending order across the messages of ascending sources
    {
      bool desc = false;
      for (int q = 0; q < c.np; ++q) {
        bool have = false;
        int maxSeen = 0;
        for (int p = 0; p < c.np; ++p) {
          auto k = pre[p].known.find(q);
          if (k == pre[p].known.end()) continue;
          bool haveHere = false;
          int maxHere = 0;
          for (auto& ga : k->second) {
            if (!pre[q].held.count(ga.first)) continue;
            if (have && ga.first < maxSeen) desc = true;
            if (!haveHere || ga.first > maxHere) { maxHere = ga.first; haveHere = true; }
          }
          if (haveHere && (!have || maxHere > maxSeen)) { maxSeen = maxHere; have = true; }
        }
      }
      if (desc) stat("held_indices_reannounced_in_descending_order_across_messages");
    }
    stat("globals", (long)D.size());
    stat("copies_deleted", del);
    stat("owner_copies_deleted", delOwner);
    stat("copies_added_locally", add);
    stat("copies_only_believed", notheld);
    stat("indices_inserted_by_sync", restored);
    stat("indices_announced_by_several_neighbours", several);
    stat("deleted_everywhere_not_restored", lost);
    stat("new_neighbours", newnb);
    stat(std::string("num_") + (c.num == 'c' ? "custom" : c.num == 's' ? "counting_object" : c.num == 'l' ? "freelist_object" : "default"));
    stat(std::string("order_") + (c.fixed ? "fixed" : "arrival"));
    if (del) stat(std::string("delete_via_") + (c.del == 'm' ? "modifier" : "sllist"));
    if (c.re == 's') stat("second_round_sync_again");
    if (c.re == 'd') stat("second_round_delete_and_sync");
    if (c.re == 'e') stat("second_round_delete_and_sync_same_object");
    if (c.re != '0') { stat("second_round_indices_inserted", restored2); stat("second_round_new_neighbours", newnb2); }
    if (trivial) stat("trivial");
    if (c.comm == 'w') stat("comm_world");
    else if (c.comm == 'd') stat("comm_dup");
    else {
      bool identity = true;
      for (size_t i = 0; i < c.members.size(); ++i) if (c.members[i] != (int)i) identity = false;
      stat((int)c.members.size() == c.np ? "comm_all_processes_renumbered" : "comm_sub_communicator");
      if (identity) stat("comm_split_with_world_numbering");
      // a process that receives an index while its communicator rank differs from its world rank
      bool hit = false;
      for (int p = 0; p < c.active(); ++p)
        if (c.members[p] != p)
          for (int q = 0; q < c.np; ++q) {
            auto k = pre[q].known.find(p);
            if (k != pre[q].known.end() && !k->second.empty()) hit = true;
          }
      if (hit) stat("index_announced_to_process_with_other_world_rank");
    }
    stat(std::string("global_index_type_") + (c.glob == 'l' ? "long" : "int"));
  }
  return res;
}
};  // Impl

static Result exec(const std::string& line) {
  Result res;
  int wrank, size;
  MPI_Comm_rank(MPI_COMM_WORLD, &wrank);
  MPI_Comm_size(MPI_COMM_WORLD, &size);
  Case c = parse(line);
  if (!c.ok) { res.impl = "bad-op"; res.oracle = "FAIL unparsable op line"; return res; }
  if (c.np != size) { res.impl = "ERR:np"; res.oracle = "FAIL op line is for another process count"; return res; }
  // a case takes milliseconds; a message sent to the wrong process or communicator is never received: do not wait
  // for the general per-case alarm of runMpi (it is re-armed for the next case there)
  {
    unsigned left = alarm(0);
    alarm(left ? std::min(left, 30u) : 30u);
  }

  // the communicator of the case
  MPI_Comm comm = MPI_COMM_WORLD;
  const int role = c.roleOf(wrank);
  if (c.comm == 'd') MPI_Comm_dup(MPI_COMM_WORLD, &comm);
  else if (c.comm == 'l') {
    bool member = role < c.active();
    MPI_Comm_split(MPI_COMM_WORLD, member ? 0 : 1, member ? role : wrank, &comm);
    int crank, csize;
    MPI_Comm_rank(comm, &crank);
    MPI_Comm_size(comm, &csize);
    if (crank != (member ? role : role - c.active()) || csize != (member ? c.active() : c.np - c.active())) {
      res.impl = "HARNESS";
      res.oracle = "FAIL harness: MPI_Comm_split did not give the requested numbering";
      return res;
    }
  }
  res = c.glob == 'l' ? Impl<long>::run(c, line, comm, role) : Impl<int>::run(c, line, comm, role);
  if (c.comm != 'w') MPI_Comm_free(&comm);

  // answer number i of the line is that of the process with role i: hand it to world process i
  if (c.comm == 'l') {
    auto impls = allgatherStrings(res.impl);
    auto oracles = allgatherStrings(res.oracle);
    for (int w = 0; w < size; ++w)
      if (c.roleOf(w) == wrank) { res.impl = impls[w]; res.oracle = oracles[w]; }
  }
  return res;
}

// ---------------------------------------------------------------------------------------------------------
static std::string gen(Rng& r, long, const Args& a) {
  int wsize;
  MPI_Comm_size(MPI_COMM_WORLD, &wsize);
  bool thorough = a.tier == "thorough";
  std::ostringstream os;
  // the communicator: MPI_COMM_WORLD, a duplicate, all processes renumbered, or some of them in any order
  std::string commTok;
  int size = wsize;
  {
    int ck = (int)r.below(10);
    if (ck < 3) commTok = r.coin(1, 3) ? "comm=w" : "";
    else if (ck < 4) commTok = "comm=d";
    else {
      std::vector<int> ws;
      for (int w = 0; w < wsize; ++w) ws.push_back(w);
      for (int i = wsize - 1; i > 0; --i) std::swap(ws[i], ws[r.below(i + 1)]);
      if (ck >= 7 && wsize >= 2) size = wsize - 1 - (wsize >= 4 && r.coin(1, 3) ? 1 : 0);
      if (ck == 9 && r.coin()) std::sort(ws.begin(), ws.begin() + size);   // order of the world kept (a prefix if size == wsize)
      ws.resize(size);
      std::vector<std::string> ms;
      for (int w : ws) ms.push_back(std::to_string(w));
      commTok = "comm=" + join(ms.begin(), ms.end(), ".");
    }
  }
  bool globLong = r.coin(1, 3);
  int nk = (int)r.below(10);
  char num = nk < 3 ? 'd' : nk < 5 ? 'c' : nk < 8 ? 's' : 'l';
  bool fixed = num != 'd' && r.coin(1, num == 'c' ? 3 : 2);
  int rk = (int)r.below(20);
  char re = rk < 12 ? '0' : rk < 15 ? 's' : rk < 18 ? 'd' : 'e';
  os << "np=" << wsize << " num=" << num << " ord=" << (fixed ? "f" : "a") << " del=" << (r.coin() ? "m" : "r");
  if (re != '0' || r.coin(1, 8)) os << " re=" << re;
  if (!commTok.empty()) os << " " << commTok;
  if (globLong || r.coin(1, 8)) os << " glob=" << (globLong ? "l" : "i");
  os << " : ";
  int maxG = thorough ? 14 : 9;
  int nG = (int)r.below(maxG + 1);
  if (r.coin(1, 12)) nG = (int)r.below(2);
  int style = (int)r.below(4);   // 0: one owner, rest overlap/copy; 1: + sometimes ownerless; 2: arbitrary; 3: all equal attr
  bool chain = size >= 3 && r.coin(1, 3);  // sparse neighbour graph: indices shared by consecutive ranks only
  // hub: one rank shares every index with one other rank, the lower the rank the higher the global index, so that
  // the messages of its neighbours (taken by ascending rank) re-announce indices in descending order
  bool hub = size >= 3 && !chain && r.coin(1, 5);
  int hubRank = (int)r.below(size);
  int pdel = r.pick(std::vector<int>{0, 25, 50, 50, 75, 100});
  bool delOwners = r.coin(1, 6);  // the sync does not look at the attribute values: owner copies may be deleted as well
  int padd = r.coin(1, 3) ? r.pick(std::vector<int>{15, 30, 60}) : 0;
  if (chain && r.coin()) padd = r.pick(std::vector<int>{30, 60});
  int g = (int)r.range(-3, 3);
  for (int i = 0; i < nG; ++i) {
    if (i) os << ";";
    g += 1 + (r.coin(1, 3) ? (int)r.below(4) : 0);
    // holder subset
    std::vector<int> hs;
    std::set<int> late;  // holders that do not hold the index at rebuild time (status a or n)
    int kind = (int)r.below(10);
    if (chain) {
      int p = (int)r.below(size);
      hs.push_back(p);
      if (p + 1 < size && r.coin(2, 3)) hs.push_back(p + 1);
      if (padd && (int)r.below(100) < padd) {
        // a hub announces copies on processes that may not know each other
        for (int q = 0; q < size; ++q)
          if (std::find(hs.begin(), hs.end(), q) == hs.end() && r.coin(2, 3)) { hs.push_back(q); late.insert(q); }
        if (r.coin()) for (int q : hs) if (r.coin(1, 3)) late.insert(q);
        std::sort(hs.begin(), hs.end());
      }
    } else if (hub) {
      std::vector<int> others;
      for (int p = 0; p < size; ++p) if (p != hubRank) others.push_back(p);
      int k = (int)((long)(nG - 1 - i) * (long)others.size() / (long)nG);
      hs.push_back(hubRank);
      hs.push_back(others[k]);
      if (r.coin(1, 5)) { int p = others[r.below(others.size())]; if (p != others[k]) hs.push_back(p); }
      std::sort(hs.begin(), hs.end());
    } else if (kind < 2 || size == 1) hs.push_back((int)r.below(size));
    else if (kind < 4) { for (int p = 0; p < size; ++p) hs.push_back(p); }
    else {
      for (int p = 0; p < size; ++p) if (r.coin()) hs.push_back(p);
      while ((int)hs.size() < 2) { int p = (int)r.below(size); if (std::find(hs.begin(), hs.end(), p) == hs.end()) hs.push_back(p); }
      std::sort(hs.begin(), hs.end());
    }
    int own = hs[r.below(hs.size())];
    if (style == 1 && r.coin(1, 4)) own = -1;
    int eq = (int)r.below(3);
    os << g << "=";
    std::vector<std::string> toks;
    for (int p : hs) {
      int at;
      if (style == 2) at = (int)r.below(3);
      else if (style == 3) at = eq;
      else at = (p == own) ? 0 : 1 + (int)r.below(2);
      char st = 'k';
      if ((at != 0 || delOwners) && (int)r.below(100) < pdel) st = 'd';
      if (late.count(p) || (!chain && padd && (int)r.below(100) < padd)) st = r.coin() ? 'a' : 'n';
      toks.push_back(std::to_string(p) + ATTR[at] + st);
    }
    os << join(toks.begin(), toks.end(), ",");
  }
  return os.str();
}

int main(int argc, char** argv) {
  Dune::MPIHelper::instance(argc, argv);
  std::cout << std::unitbuf;
  return dv::runMpi(argc, argv, gen, exec);
}
