// C08 correspondence harness: eigenvalue routines of dune-common (fmatrixev.hh, fmatrixev.cc, dynmatrixev.hh).
//
// op lines (one case per line; T in {f,d,l} = float/double/long double):
//   sym  T n route k h..      symmetric n x n (upper triangle row-major as C99 hex floats = base matrix A0), executed on
//                             A = A0 * 2^k; route cf = eigenValues/eigenValuesVectors (closed form n<=3, LAPACK beyond),
//                             route lap = eigenValuesLapack/eigenValuesVectorsLapack.  Floating point: impl line is the
//                             shape only, the property is decided by the oracle (binary128 reference).
//                             route cfq (T = d, n <= 3 only) = cf, and the impl line additionally carries the eigenvalues
//                             (both entry points) and eigenvectors quantised to 2^-24 relative to 2^k, vectors
//                             sign-normalised: the Lean model run over IEEE double must reproduce them.  Generated for
//                             well-separated spectra only, where this is a canonical form of the answer that ulp-level
//                             re-arrangements of the arithmetic do not change.
//   ev2x T a b d e            exact 2x2 closed form on [[a,b],[b,d]] * 2^e (integers): bit-exact eigenvalues as dyadics,
//                             sign pattern of the eigenvectors (= branch taken + column chosen)
//   ev3x T a00 a01 a02 a11 a12 a22 e   exact 3x3 diagonal branch (threshold on the max-norm-scaled matrix)
//   hand T n which i..        symmetric integer matrix through the LAPACK hand-over with a *recording fake* ?syev
//                             (which in {vals,vecs,auto}): what LAPACK effectively sees + how results are copied back
//   handns T n vec i..        DynamicMatrixHelp::eigenValuesNonSym through a recording fake ?geev
//   handnsf T n i..           FMatrixHelp::eigenValuesNonSym through a recording fake ?geev
//   nsd T n vec k h..         DynamicMatrixHelp::eigenValuesNonSym on the real n x n matrix (full, row-major hex floats)*2^k
//   nsf  T n k h..             FMatrixHelp::eigenValuesNonSym
//   nsq  T C : seg;seg;..     history of DynamicMatrixHelp::eigenValuesNonSym calls that reuse the SAME eigenvalue vector and
//                             eigenvector list (C in {c,z}: DynamicVector<std::complex<T>> / <std::complex<double>>), real
//                             LAPACK; seg = `ev n vec k h..` (one call, as nsd) | `pre a [l0,l1,..]` (the caller sets the
//                             eigenvalue vector to a entries and the list to vectors of these lengths, filled with junk).
//                             impl = shape of both containers after every segment; oracle = sizes + spectrum +
//                             A v = lambda v after every call
//   handnsq T C : seg;seg;..  the same through the recording fake ?geev; seg = `fk n vec i..` | `pre a [l0,..]`;
//                             impl = the complete content of both containers after every segment
//
// Output arguments: every routine is entered with output arguments that already hold something (NaN / junk for the
// fixed-size ones, whatever the history left behind for the dynamic ones); the sym/ev2x/ev3x cases run each routine
// twice with differently pre-filled outputs and require identical answers.
//
// The oracle never uses the Lean model nor the code under test: cyclic Jacobi in __float128 for the symmetric
// reference spectrum, residuals/orthogonality/power sums in __float128, exact Vieta test for ev2x.
#include <config.h>
#include <dlfcn.h>
#include <quadmath.h>

#include <algorithm>
#include <cmath>
#include <complex>
#include <cstdio>
#include <limits>
#include <set>

#include <dune/common/dynmatrix.hh>
#include <dune/common/dynmatrixev.hh>
#include <dune/common/dynvector.hh>
#include <dune/common/exceptions.hh>
#include <dune/common/fmatrix.hh>
#include <dune/common/fmatrixev.hh>
#include <dune/common/fvector.hh>

#include "hcommon.hh"

using namespace dv;
using Q = __float128;

// ------------------------------------------------------------------------------------------------
// recording fake LAPACK (symbol interposition; forwards to the real library unless g_fake is set)
// ------------------------------------------------------------------------------------------------
struct FakeRec {
  bool called = false;
  char jobz = '?', uplo = '?', jobvl = '?', jobvr = '?';
  long n = 0, lda = 0, lwork = 0, ldvl = 0, ldvr = 0;
  std::vector<double> a;  // as seen, column-major n x n
  bool hadVl = false, hadVr = false;
};
static bool g_fake = false;
static FakeRec g_rec;

template <class R>
static void fakeSyev(const char* jobz, const char* uplo, const long* n, R* a, const long* lda, R* w, R* work,
                     const long* lwork, long* info) {
  // LAPACK may use work[0 .. lwork): touch all of it, so that a work array shorter than the announced lwork is an
  // ASan finding here (the real library is not instrumented)
  for (long k = 0; k < *lwork; ++k) work[k] = (R)0;
  g_rec = FakeRec();
  g_rec.called = true;
  g_rec.jobz = *jobz; g_rec.uplo = *uplo; g_rec.n = (int)*n; g_rec.lda = (int)*lda; g_rec.lwork = (int)*lwork;
  long N = (int)*n;
  g_rec.a.assign(a, a + N * N);
  bool vec = (*jobz == 'v' || *jobz == 'V');
  for (long c = 0; c < N; ++c) {
    w[c] = (R)(c + 1);
    for (long r = 0; r < N; ++r) a[r + N * c] = vec ? (R)(100 * (c + 1) + (r + 1)) : (R)(-7);
  }
  *info = 0;
}
template <class R>
static void fakeGeev(const char* jobvl, const char* jobvr, const long* n, R* a, const long* lda, R* wr, R* wi, R* vl,
                     const long* ldvl, R* vr, const long* ldvr, R* work, const long* lwork, long* info) {
  for (long k = 0; k < *lwork; ++k) work[k] = (R)0;
  g_rec = FakeRec();
  g_rec.called = true;
  g_rec.jobvl = *jobvl; g_rec.jobvr = *jobvr; g_rec.n = (int)*n; g_rec.lda = (int)*lda; g_rec.lwork = (int)*lwork;
  g_rec.ldvl = (int)*ldvl; g_rec.ldvr = (int)*ldvr;
  long N = (int)*n;
  g_rec.a.assign(a, a + N * N);
  bool wl = (*jobvl == 'v' || *jobvl == 'V'), wr_ = (*jobvr == 'v' || *jobvr == 'V');
  g_rec.hadVl = vl != nullptr; g_rec.hadVr = vr != nullptr;
  for (long c = 0; c < N; ++c) {
    wr[c] = (R)(c + 1);
    wi[c] = (R)0;
    for (long r = 0; r < N; ++r) {
      a[r + N * c] = (R)(-7);
      if (wl && vl) vl[r + N * c] = (R)(-(100 * (c + 1) + (r + 1)));
      if (wr_ && vr) vr[r + N * c] = (R)(100 * (c + 1) + (r + 1));
    }
  }
  *info = 0;
}

template <class F>
static F realSym(const char* name) {
  void* p = dlsym(RTLD_NEXT, name);
  if (!p) { std::fprintf(stderr, "cxx_c08: cannot resolve %s in the LAPACK library\n", name); std::abort(); }
  return reinterpret_cast<F>(p);
}

extern "C" {
using dsyev_t = void (*)(const char*, const char*, const long*, double*, const long*, double*, double*, const long*, long*);
using ssyev_t = void (*)(const char*, const char*, const long*, float*, const long*, float*, float*, const long*, long*);
using dgeev_t = void (*)(const char*, const char*, const long*, double*, const long*, double*, double*, double*, const long*,
                         double*, const long*, double*, const long*, long*);
using sgeev_t = void (*)(const char*, const char*, const long*, float*, const long*, float*, float*, float*, const long*,
                         float*, const long*, float*, const long*, long*);
void dsyev_(const char* jobz, const char* uplo, const long* n, double* a, const long* lda, double* w, double* work,
            const long* lwork, long* info) {
  if (g_fake) return fakeSyev<double>(jobz, uplo, n, a, lda, w, work, lwork, info);
  for (long k = 0; k < *lwork; ++k) work[k] = 0;
  static dsyev_t f = realSym<dsyev_t>("dsyev_");
  f(jobz, uplo, n, a, lda, w, work, lwork, info);
}
void ssyev_(const char* jobz, const char* uplo, const long* n, float* a, const long* lda, float* w, float* work,
            const long* lwork, long* info) {
  if (g_fake) return fakeSyev<float>(jobz, uplo, n, a, lda, w, work, lwork, info);
  for (long k = 0; k < *lwork; ++k) work[k] = 0;
  static ssyev_t f = realSym<ssyev_t>("ssyev_");
  f(jobz, uplo, n, a, lda, w, work, lwork, info);
}
void dgeev_(const char* jobvl, const char* jobvr, const long* n, double* a, const long* lda, double* wr, double* wi,
            double* vl, const long* ldvl, double* vr, const long* ldvr, double* work, const long* lwork, long* info) {
  if (g_fake) return fakeGeev<double>(jobvl, jobvr, n, a, lda, wr, wi, vl, ldvl, vr, ldvr, work, lwork, info);
  for (long k = 0; k < *lwork; ++k) work[k] = 0;
  static dgeev_t f = realSym<dgeev_t>("dgeev_");
  f(jobvl, jobvr, n, a, lda, wr, wi, vl, ldvl, vr, ldvr, work, lwork, info);
}
void sgeev_(const char* jobvl, const char* jobvr, const long* n, float* a, const long* lda, float* wr, float* wi,
            float* vl, const long* ldvl, float* vr, const long* ldvr, float* work, const long* lwork, long* info) {
  if (g_fake) return fakeGeev<float>(jobvl, jobvr, n, a, lda, wr, wi, vl, ldvl, vr, ldvr, work, lwork, info);
  for (long k = 0; k < *lwork; ++k) work[k] = 0;
  static sgeev_t f = realSym<sgeev_t>("sgeev_");
  f(jobvl, jobvr, n, a, lda, wr, wi, vl, ldvl, vr, ldvr, work, lwork, info);
}
}

// ------------------------------------------------------------------------------------------------
// small helpers
// ------------------------------------------------------------------------------------------------
static std::string qstr(Q x) {
  char buf[64];
  quadmath_snprintf(buf, sizeof buf, "%.6Qe", x);
  return buf;
}
static Q qabs(Q x) { return x < 0 ? -x : x; }
static bool qfinite(Q x) { return finiteq(x) != 0; }

template <class T> std::string hexOf(T x) {
  char buf[80];
  if constexpr (std::is_same_v<T, long double>) std::snprintf(buf, sizeof buf, "%La", x);
  else std::snprintf(buf, sizeof buf, "%a", (double)x);
  return buf;
}
static long double parseHexLd(const std::string& s) {
  char* end = nullptr;
  long double v = std::strtold(s.c_str(), &end);
  if (end == s.c_str() || *end != 0) throw std::runtime_error("bad hex float '" + s + "'");
  return v;
}

// exact dyadic print  m*2^e  as "<m>p<e>" with m odd, or "0"; non-finite values as nan/inf
template <class T> std::string dyadic(T x) {
  if (std::isnan(x)) return "nan";
  if (std::isinf(x)) return x > 0 ? "inf" : "-inf";
  if (x == 0) return "0";
  int e;
  long double m = std::frexp((long double)x, &e);  // |m| in [0.5,1)
  // 64 bits of mantissa are enough for every type used here
  long double mi = std::ldexp(m, 64);
  bool neg = mi < 0;
  unsigned __int128 u = (unsigned __int128)(neg ? -mi : mi);
  e -= 64;
  while ((u & 1) == 0) { u >>= 1; ++e; }
  std::string ds;
  while (u) { ds.push_back(char('0' + (int)(u % 10))); u /= 10; }
  std::reverse(ds.begin(), ds.end());
  return (neg ? "-" : "") + ds + "p" + std::to_string(e);
}
template <class T> std::string dyList(const std::vector<T>& v) {
  std::vector<std::string> s;
  for (auto x : v) s.push_back(dyadic(x));
  return listStr(s);
}

template <class T> struct TInfo;
template <> struct TInfo<float> {
  static constexpr char code = 'f';
  static constexpr int kminCF = -120, kmaxCF = 120, kminL = -120, kmaxL = 120, kminNS = -100, kmaxNS = 100;
};
template <> struct TInfo<double> {
  static constexpr char code = 'd';
  static constexpr int kminCF = -498, kmaxCF = 498, kminL = -498, kmaxL = 498, kminNS = -498, kmaxNS = 498;
};
template <> struct TInfo<long double> {
  static constexpr char code = 'l';
  static constexpr int kminCF = -498, kmaxCF = 498, kminL = -498, kmaxL = 498, kminNS = -498, kmaxNS = 498;
};

// machine epsilon that the result can be expected to have: LAPACK works in double for long double input
template <class T> Q effEps(bool lapack) {
  Q e = (Q)std::numeric_limits<T>::epsilon();
  Q ed = (Q)std::numeric_limits<double>::epsilon();
  if (lapack && e < ed) e = ed;
  return e;
}

// ------------------------------------------------------------------------------------------------
// reference: cyclic Jacobi for symmetric matrices in binary128
// ------------------------------------------------------------------------------------------------
static std::vector<Q> jacobiEigenvalues(int n, std::vector<Q> a) {
  auto A = [&](int i, int j) -> Q& { return a[i * n + j]; };
  Q scale = 0;
  for (auto x : a) scale = std::max(scale, qabs(x));
  if (scale > 0)
    for (auto& x : a) x /= scale;  // only the reference is normalised; the factor is applied again below
  for (int sweep = 0; sweep < 100; ++sweep) {
    Q off = 0, diag = 0;
    for (int i = 0; i < n; ++i)
      for (int j = 0; j < n; ++j) (i == j ? diag : off) += A(i, j) * A(i, j);
    if (off <= (Q)1e-68 * (diag + off) || off == 0) break;
    for (int p = 0; p < n; ++p)
      for (int q = p + 1; q < n; ++q) {
        if (A(p, q) == 0) continue;
        Q theta = (A(q, q) - A(p, p)) / (2 * A(p, q));
        Q t = (theta >= 0 ? (Q)1 : (Q)-1) / (qabs(theta) + sqrtq(theta * theta + 1));
        Q c = 1 / sqrtq(t * t + 1), s = t * c;
        for (int k = 0; k < n; ++k) {  // columns p,q
          Q akp = A(k, p), akq = A(k, q);
          A(k, p) = c * akp - s * akq;
          A(k, q) = s * akp + c * akq;
        }
        for (int k = 0; k < n; ++k) {  // rows p,q
          Q apk = A(p, k), aqk = A(q, k);
          A(p, k) = c * apk - s * aqk;
          A(q, k) = s * apk + c * aqk;
        }
      }
  }
  std::vector<Q> w(n);
  for (int i = 0; i < n; ++i) w[i] = A(i, i) * scale;
  std::sort(w.begin(), w.end());
  return w;
}

// tolerance constants (see tools/checks/c08.py RULE): residual / eigenvalue error <= C_EPS*eps*||A||_2 on the
// eps-class paths (1x1, 2x2, LAPACK) and C_SQRT*sqrt(eps)*||A||_2 on the 3x3 closed form
static const Q C_EPS = 1024;
static const Q C_SQRT = 32;
static const Q C_NORM = 256;   // | ||v||^2 - 1 | <= C_NORM*eps

struct SymOut {
  std::string err;                 // non-empty: exception kind
  std::vector<Q> w1, w2;           // values-only, values+vectors
  std::vector<std::vector<Q>> V;   // eigenvectors as rows
};

static std::map<std::string, double>& maxima() {
  static std::map<std::string, double> m;
  return m;
}
static void noteMax(const std::string& k, Q ratio) {
  double r = (double)ratio;
  auto& m = maxima()[k];
  if (r > m) m = r;
}

// decides the symmetric part of the property for one matrix A (n x n, exact entries in binary128)
static std::string checkSym(int n, const std::vector<Q>& A, const SymOut& o, Q eps, bool sqrtClass, const std::string& tag) {
  if (!o.err.empty()) return "FAIL exception " + o.err + " for a symmetric matrix";
  if ((int)o.w1.size() != n || (int)o.w2.size() != n || (int)o.V.size() != n) return "FAIL wrong result sizes";
  for (int i = 0; i < n; ++i) {
    if (!qfinite(o.w1[i]) || !qfinite(o.w2[i])) return "FAIL non-finite eigenvalue " + std::to_string(i);
    if ((int)o.V[i].size() != n) return "FAIL wrong eigenvector size";
    for (int j = 0; j < n; ++j)
      if (!qfinite(o.V[i][j])) return "FAIL non-finite eigenvector " + std::to_string(i);
  }
  std::vector<Q> mu = jacobiEigenvalues(n, A);
  Q normA = std::max(qabs(mu.front()), qabs(mu.back()));
  Q tol = sqrtClass ? C_SQRT * sqrtq(eps) : C_EPS * eps;
  Q tolA = tol * normA;
  Q tolE = C_EPS * eps * normA;
  // ascending order (both entry points)
  for (int i = 0; i + 1 < n; ++i) {
    if (o.w1[i] > o.w1[i + 1]) return "FAIL eigenValues not ascending at " + std::to_string(i) + " by " + qstr(o.w1[i] - o.w1[i + 1]);
    if (o.w2[i] > o.w2[i + 1]) return "FAIL eigenValuesVectors values not ascending at " + std::to_string(i);
  }
  // trace
  Q tr = 0, s1 = 0, s2 = 0;
  for (int i = 0; i < n; ++i) { tr += A[i * n + i]; s1 += o.w1[i]; s2 += o.w2[i]; }
  noteMax(tag + "_trace", normA > 0 ? std::max(qabs(s1 - tr), qabs(s2 - tr)) / (eps * normA * n) : 0);
  if (qabs(s1 - tr) > n * tolE) return "FAIL sum of eigenValues " + qstr(s1) + " differs from trace " + qstr(tr);
  if (qabs(s2 - tr) > n * tolE) return "FAIL sum of eigenValuesVectors values differs from trace by " + qstr(s2 - tr);
  // values against the reference spectrum, agreement of the two entry points
  for (int i = 0; i < n; ++i) {
    Q d1 = qabs(o.w1[i] - mu[i]), d2 = qabs(o.w2[i] - mu[i]);
    noteMax(tag + "_val", normA > 0 ? std::max(d1, d2) / (sqrtClass ? sqrtq(eps) * normA : eps * normA) : 0);
    if (d1 > tolA) return "FAIL eigenValues[" + std::to_string(i) + "]=" + qstr(o.w1[i]) + " but eigenvalue is " + qstr(mu[i]);
    if (d2 > tolA) return "FAIL eigenValuesVectors value[" + std::to_string(i) + "]=" + qstr(o.w2[i]) + " but eigenvalue is " + qstr(mu[i]);
    if (qabs(o.w1[i] - o.w2[i]) > tolA) return "FAIL entry points disagree at " + std::to_string(i);
  }
  // eigenvectors: unit norm, residual
  for (int i = 0; i < n; ++i) {
    Q nn = 0;
    for (int j = 0; j < n; ++j) nn += o.V[i][j] * o.V[i][j];
    noteMax(tag + "_norm", qabs(nn - 1) / eps);
    if (qabs(nn - 1) > C_NORM * eps) return "FAIL eigenvector " + std::to_string(i) + " not of unit length: |v|^2-1=" + qstr(nn - 1);
    Q r2 = 0;
    for (int r = 0; r < n; ++r) {
      Q s = 0;
      for (int c = 0; c < n; ++c) s += A[r * n + c] * o.V[i][c];
      s -= o.w2[i] * o.V[i][r];
      r2 += s * s;
    }
    Q res = sqrtq(r2);
    noteMax(tag + "_res", normA > 0 ? res / (sqrtClass ? sqrtq(eps) * normA : eps * normA) : (res > 0 ? 1e300 : 0));
    if (res > tolA) return "FAIL residual |A v-lambda v|=" + qstr(res) + " for pair " + std::to_string(i) + " with |A|=" + qstr(normA);
  }
  // orthogonality where well-posed: equal computed eigenvalues, or separated by more than the tolerance
  for (int i = 0; i < n; ++i)
    for (int j = i + 1; j < n; ++j) {
      Q gap = qabs(o.w2[j] - o.w2[i]);
      Q bound;
      if (gap == 0) bound = tol;
      else if (gap > tolA) bound = tolA / gap;
      else continue;
      Q d = 0;
      for (int c = 0; c < n; ++c) d += o.V[i][c] * o.V[j][c];
      noteMax(tag + "_orth", qabs(d) / bound);
      if (qabs(d) > bound) return "FAIL eigenvectors " + std::to_string(i) + "," + std::to_string(j) + " not orthogonal: v.w=" + qstr(d) + " gap=" + qstr(gap);
    }
  return "";
}

// ------------------------------------------------------------------------------------------------
// calling the code under test
// ------------------------------------------------------------------------------------------------
// quantisation of double results for the correspondence with the Lean model over IEEE double:
// floor(ldexp(x, 24 - k) + 0.5) (all operations exact or correctly rounded; the same expression is used in the driver)
static std::string quantOne(double x, long long q) {
  if (std::isnan(x)) return "nan";
  if (std::isinf(x)) return "inf";
  return std::to_string(q);
}
static long long quantize(double x, int k) {
  double y = std::floor(std::ldexp(x, 24 - k) + 0.5);
  if (!(std::fabs(y) < 9.0e18)) return y > 0 ? INT64_MAX : INT64_MIN;  // saturate like Float.toInt64 (NaN -> handled by caller)
  return (long long)y;
}
static std::string quantList(const std::vector<Q>& v, int k) {
  std::string s = "[";
  for (size_t i = 0; i < v.size(); ++i) s += std::string(i ? "," : "") + quantOne((double)v[i], quantize((double)v[i], k));
  return s + "]";
}
static std::string quantVec(const std::vector<Q>& v) {
  std::vector<long long> q;
  for (Q x : v) q.push_back(quantize((double)x, 0));
  long long flip = 1;
  for (auto x : q)
    if (x != 0) { flip = x < 0 ? -1 : 1; break; }
  std::string s = "[";
  for (size_t i = 0; i < v.size(); ++i)
    s += std::string(i ? "," : "") + quantOne((double)v[i], (std::isfinite((double)v[i]) && q[i] != INT64_MIN) ? q[i] * flip : q[i]);
  return s + "]";
}

// The output arguments belong to the caller and may hold anything when the routine is entered (results of an earlier
// call, uninitialised storage): they are pre-filled, variant 0 with quiet NaNs (any use of the previous content
// propagates into the result and is caught by the finiteness checks), variant 1 with finite junk.
template <class T> T junkScalar(int variant, int idx) {
  return variant == 0 ? std::numeric_limits<T>::quiet_NaN() : (T)(-7.25e3 - 3 * idx);
}

template <class T, int n>
SymOut callSymOnce(bool lap, const Dune::FieldMatrix<T, n, n>& A, int variant) {
  SymOut o;
  try {
    Dune::FieldVector<T, n> w1, w2;
    Dune::FieldMatrix<T, n, n> V;
    for (int i = 0; i < n; ++i) {
      w1[i] = junkScalar<T>(variant, i);
      w2[i] = junkScalar<T>(variant, 10 + i);
      for (int j = 0; j < n; ++j) V[i][j] = junkScalar<T>(variant, 20 + n * i + j);
    }
    if (lap) {
      Dune::FMatrixHelp::eigenValuesLapack(A, w1);
      Dune::FMatrixHelp::eigenValuesVectorsLapack(A, w2, V);
    } else {
      Dune::FMatrixHelp::eigenValues(A, w1);
      Dune::FMatrixHelp::eigenValuesVectors(A, w2, V);
    }
    for (int i = 0; i < n; ++i) {
      o.w1.push_back((Q)w1[i]);
      o.w2.push_back((Q)w2[i]);
      std::vector<Q> v;
      for (int j = 0; j < n; ++j) v.push_back((Q)V[i][j]);
      o.V.push_back(v);
    }
  } catch (Dune::MathError&) { o.err = "ERR:Math";
  } catch (Dune::InvalidStateException&) { o.err = "ERR:InvalidState";
  } catch (Dune::Exception&) { o.err = "ERR:Other"; }
  return o;
}

static bool sameQ(Q a, Q b) { return a == b || (isnanq(a) && isnanq(b)); }
static bool sameOut(const SymOut& a, const SymOut& b) {
  if (a.err != b.err || a.w1.size() != b.w1.size() || a.w2.size() != b.w2.size() || a.V.size() != b.V.size()) return false;
  for (size_t i = 0; i < a.w1.size(); ++i) if (!sameQ(a.w1[i], b.w1[i])) return false;
  for (size_t i = 0; i < a.w2.size(); ++i) if (!sameQ(a.w2[i], b.w2[i])) return false;
  for (size_t i = 0; i < a.V.size(); ++i) {
    if (a.V[i].size() != b.V[i].size()) return false;
    for (size_t j = 0; j < a.V[i].size(); ++j) if (!sameQ(a.V[i][j], b.V[i][j])) return false;
  }
  return true;
}

// runs the routines twice on the same matrix with differently pre-filled output arguments; `dep` is set when the two
// answers differ (the routines are deterministic functions of the matrix: same input, same LAPACK build, same thread)
template <class T, int n>
SymOut callSym(bool lap, const Dune::FieldMatrix<T, n, n>& A, std::string* dep = nullptr) {
  SymOut o = callSymOnce<T, n>(lap, A, 0);
  if (dep) {
    SymOut o1 = callSymOnce<T, n>(lap, A, 1);
    if (!sameOut(o, o1)) *dep = "FAIL result depends on the previous content of the output arguments";
  }
  return o;
}

template <class T, int n>
Result execSymTN(const std::vector<std::string>& w) {
  Result res;
  const std::string& route = w.at(3);
  if (route != "cf" && route != "lap" && route != "cfq") throw std::runtime_error("bad route");
  bool lap = route == "lap";
  bool quant = route == "cfq";
  if (quant && (!std::is_same_v<T, double> || n > 3)) throw std::runtime_error("route cfq needs T = d and n <= 3");
  int k = std::stoi(w.at(4));
  if ((int)w.size() != 5 + n * (n + 1) / 2) throw std::runtime_error("wrong number of entries");
  Dune::FieldMatrix<T, n, n> A0, A;
  std::vector<Q> Aq(n * n), A0q(n * n);
  int idx = 5;
  for (int i = 0; i < n; ++i)
    for (int j = i; j < n; ++j) {
      long double v = parseHexLd(w[idx++]);
      T t = (T)v;
      if ((long double)t != v) throw std::runtime_error("entry not representable in the scalar type");
      A0[i][j] = A0[j][i] = t;
      T ts = std::ldexp(t, k);
      A[i][j] = A[j][i] = ts;
      A0q[i * n + j] = A0q[j * n + i] = (Q)t;
      Aq[i * n + j] = Aq[j * n + i] = (Q)ts;
    }
  bool usesLapack = lap || n >= 4;
  bool sqrtClass = (!lap && n == 3);
  Q eps = effEps<T>(usesLapack);
  std::string tag = std::string(1, TInfo<T>::code) + (usesLapack ? "_lapack" : "_cf" + std::to_string(n));
  stat("sym_" + tag);
  stat(std::string("sym_scale_") + (k == 0 ? "0" : (k < -100 ? "tiny" : k < 0 ? "small" : k > 100 ? "huge" : "large")));
  std::string dep;
  SymOut o = callSym<T, n>(lap, A, &dep);
  res.impl = o.err.empty() ? "shape n=" + std::to_string(n) + " vals=" + std::to_string(o.w1.size()) + " vecs=" +
                                 std::to_string(o.V.size()) + "x" + std::to_string(o.V.empty() ? 0 : o.V[0].size())
                           : o.err;
  if (quant && o.err.empty()) {
    stat("sym_cfq_" + std::to_string(n));
    res.impl += " qvals=" + quantList(o.w1, k) + " qvvals=" + quantList(o.w2, k) + " qvecs=[";
    for (int i = 0; i < n; ++i) res.impl += std::string(i ? "," : "") + quantVec(o.V[i]);
    res.impl += "]";
  }
  if (n == 3 && !lap && o.err.empty()) {
    // which regions of the 3x3 closed form does this input reach (classified from the input's reference spectrum and the
    // shape of the output, not from the code): diagonal special case, r >= 0 / r < 0, (nearly) double eigenvalue
    std::vector<Q> mu = jacobiEigenvalues(3, Aq);
    Q nrm = std::max(qabs(mu[0]), qabs(mu[2]));
    bool perm = true;
    for (auto& v : o.V) {
      int nz = 0;
      for (Q x : v) { if (x != 0) ++nz; if (x != 0 && x != 1 && x != -1) perm = false; }
      if (nz != 1) perm = false;
    }
    bool rpos = 3 * mu[1] <= mu[0] + mu[1] + mu[2];
    stat(perm ? "cf3_unit_vectors" : (rpos ? "cf3_trig_rpos" : "cf3_trig_rneg"));
    if (!perm) {
      // which branch of orthoComp the vector computed first (for the extreme eigenvalue) selects
      const std::vector<Q>& e0 = rpos ? o.V[2] : o.V[0];
      stat(qabs(e0[0]) > qabs(e0[1]) ? "cf3_ortho_xz" : "cf3_ortho_yz");
    }
    if (!perm && nrm > 0) {
      Q g = std::min(mu[1] - mu[0], mu[2] - mu[1]) / nrm;
      stat(g == 0 ? "cf3_gap_zero" : g < (Q)1e-12 ? "cf3_gap_tiny" : g < (Q)1e-6 ? "cf3_gap_small" : "cf3_gap_wide");
    }
  }
  if (n == 2 && !lap && o.err.empty()) {
    bool ident = o.V[0][0] == 1 && o.V[0][1] == 0 && o.V[1][0] == 0 && o.V[1][1] == 1;
    stat(ident ? "cf2_identity_branch" : "cf2_general_branch");
  }
  std::string f = checkSym(n, Aq, o, eps, sqrtClass, tag);
  if (f.empty()) f = dep;
  if (f.empty() && k != 0) {
    // scale equivariance: same base matrix at magnitude 1
    SymOut o0 = callSym<T, n>(lap, A0);
    std::string f0 = checkSym(n, A0q, o0, eps, sqrtClass, tag);
    if (!f0.empty()) f = f0 + " (at scale 2^0)";
    else {
      std::vector<Q> mu = jacobiEigenvalues(n, A0q);
      Q normA = std::max(qabs(mu.front()), qabs(mu.back()));
      Q tolA = (sqrtClass ? C_SQRT * sqrtq(eps) : C_EPS * eps) * normA;
      Q sc = scalbnq((Q)1, -k);
      for (int i = 0; i < n && f.empty(); ++i)
        if (qabs(o.w2[i] * sc - o0.w2[i]) > 2 * tolA || qabs(o.w1[i] * sc - o0.w1[i]) > 2 * tolA)
          f = "FAIL not scale equivariant: eigenvalue " + std::to_string(i) + " of 2^k*A is " + qstr(o.w2[i] * sc) +
              "*2^k but of A it is " + qstr(o0.w2[i]);
    }
  }
  if (!f.empty()) res.oracle = f;
  else if (n == 1) res.oracle = "ok trivial";
  return res;
}

template <class T>
Result execSymT(const std::vector<std::string>& w) {
  int n = std::stoi(w.at(2));
  switch (n) {
    case 1: return execSymTN<T, 1>(w);
    case 2: return execSymTN<T, 2>(w);
    case 3: return execSymTN<T, 3>(w);
    case 4: return execSymTN<T, 4>(w);
    case 5: return execSymTN<T, 5>(w);
    case 6: return execSymTN<T, 6>(w);
    case 7: return execSymTN<T, 7>(w);
    case 8: return execSymTN<T, 8>(w);
  }
  throw std::runtime_error("size out of range");
}

// ---- exact 2x2 -------------------------------------------------------------------------------------
// sign pattern of an eigenvector, canonical up to the sign of the vector (first non-zero component positive)
static std::string signPattern(const std::vector<Q>& v) {
  int flip = 1;
  for (Q x : v)
    if (x != 0) { flip = x < 0 ? -1 : 1; break; }
  std::string s = "[";
  for (size_t i = 0; i < v.size(); ++i) {
    Q x = v[i] * flip;
    s += std::string(i ? "," : "") + (x > 0 ? "1" : x < 0 ? "-1" : "0");
  }
  return s + "]";
}

template <class T>
Result execEv2x(const std::vector<std::string>& w) {
  Result res;
  if (w.size() != 6) throw std::runtime_error("ev2x: wrong arity");
  long a = std::stol(w[2]), b = std::stol(w[3]), d = std::stol(w[4]);
  int e = std::stoi(w[5]);
  auto mk = [&](long v) {
    T t = (T)v;
    if ((long)t != v) throw std::runtime_error("ev2x: entry not representable");
    return (T)std::ldexp(t, e);
  };
  Dune::FieldMatrix<T, 2, 2> A = {{mk(a), mk(b)}, {mk(b), mk(d)}};
  stat(std::string("ev2x_") + TInfo<T>::code);
  std::string dep;
  SymOut o = callSym<T, 2>(false, A, &dep);
  if (!o.err.empty()) { res.impl = o.err; res.oracle = "FAIL exception " + o.err + " for a symmetric matrix"; return res; }
  std::vector<T> w1 = {(T)o.w1[0], (T)o.w1[1]}, w2 = {(T)o.w2[0], (T)o.w2[1]};
  std::string vs = "[";
  for (int i = 0; i < 2; ++i) vs += std::string(i ? "," : "") + signPattern(o.V[i]);
  vs += "]";
  res.impl = "vals=" + dyList(w1) + " vvals=" + dyList(w2) + " vecs=" + vs;
  // independent cross-check (Vieta) within the eps-class tolerance: l0+l1 = tr, l0*l1 = det, l0 <= l1.  Bit-exactness
  // is the business of the correspondence with the model, not of the property.
  Q sc = scalbnq((Q)1, e);
  Q tr = ((Q)a + (Q)d) * sc, det = ((Q)a * (Q)d - (Q)b * (Q)b) * sc * sc;
  Q nrm = (qabs((Q)a) + qabs((Q)b) + qabs((Q)d)) * sc;
  Q tolV = C_EPS * effEps<T>(false);
  for (auto* ww : {&o.w1, &o.w2}) {
    Q l0 = (*ww)[0], l1 = (*ww)[1];
    if (!(l0 <= l1)) { res.oracle = "FAIL eigenvalues not ascending"; return res; }
    if (qabs(l0 + l1 - tr) > tolV * nrm) { res.oracle = "FAIL l0+l1=" + qstr(l0 + l1) + " is not the trace " + qstr(tr); return res; }
    if (qabs(l0 * l1 - det) > tolV * nrm * nrm) { res.oracle = "FAIL l0*l1=" + qstr(l0 * l1) + " is not the determinant " + qstr(det); return res; }
  }
  std::vector<Q> Aq = {(Q)A[0][0], (Q)A[0][1], (Q)A[1][0], (Q)A[1][1]};
  std::string f = checkSym(2, Aq, o, effEps<T>(false), false, std::string(1, TInfo<T>::code) + "_ev2x");
  if (f.empty()) f = dep;
  if (!f.empty()) res.oracle = f;
  return res;
}

// ---- exact 3x3 (diagonal branch) ---------------------------------------------------------------
template <class T>
Result execEv3x(const std::vector<std::string>& w) {
  Result res;
  if (w.size() != 9) throw std::runtime_error("ev3x: wrong arity");
  long v[6];
  for (int i = 0; i < 6; ++i) v[i] = std::stol(w[2 + i]);
  int e = std::stoi(w[8]);
  auto mk = [&](long x) {
    T t = (T)x;
    if ((long)t != x) throw std::runtime_error("ev3x: entry not representable");
    return (T)std::ldexp(t, e);
  };
  Dune::FieldMatrix<T, 3, 3> A = {{mk(v[0]), mk(v[1]), mk(v[2])}, {mk(v[1]), mk(v[3]), mk(v[4])}, {mk(v[2]), mk(v[4]), mk(v[5])}};
  stat(std::string("ev3x_") + TInfo<T>::code);
  std::string dep;
  SymOut o = callSym<T, 3>(false, A, &dep);
  if (!o.err.empty()) { res.impl = o.err; res.oracle = "FAIL exception " + o.err + " for a symmetric matrix"; return res; }
  bool perm = true;
  for (int i = 0; i < 3; ++i) {
    int nz = 0;
    for (int j = 0; j < 3; ++j) {
      Q x = o.V[i][j];
      if (x != 0 && x != 1 && x != -1) perm = false;
      if (x != 0) ++nz;
    }
    if (nz != 1) perm = false;
  }
  if (perm) {
    stat("ev3x_diag_branch");
    std::vector<T> w1, w2;
    for (int i = 0; i < 3; ++i) { w1.push_back((T)o.w1[i]); w2.push_back((T)o.w2[i]); }
    std::string vs = "[";
    for (int i = 0; i < 3; ++i) vs += std::string(i ? "," : "") + signPattern(o.V[i]);
    vs += "]";
    res.impl = "vals=" + dyList(w1) + " vvals=" + dyList(w2) + " vecs=" + vs;
  } else {
    stat("ev3x_trig_branch");
    res.impl = "trig";
  }
  std::vector<Q> Aq(9);
  for (int i = 0; i < 3; ++i)
    for (int j = 0; j < 3; ++j) Aq[i * 3 + j] = (Q)A[i][j];
  std::string f = checkSym(3, Aq, o, effEps<T>(false), true, std::string(1, TInfo<T>::code) + "_ev3x");
  if (f.empty()) f = dep;
  if (!f.empty()) res.oracle = f;
  return res;
}

// ---- LAPACK hand-over with the recording fake --------------------------------------------------
static std::string intMat(const std::vector<std::vector<long>>& m) {
  std::vector<std::string> rows;
  for (auto& r : m) rows.push_back(listStr(r));
  return listStr(rows);
}

template <class T, int n>
Result execHandTN(const std::vector<std::string>& w) {
  Result res;
  const std::string& which = w.at(3);
  if ((int)w.size() != 4 + n * n) throw std::runtime_error("hand: wrong arity");
  Dune::FieldMatrix<T, n, n> A;
  std::vector<std::vector<long>> Ai(n, std::vector<long>(n));
  for (int i = 0; i < n; ++i)
    for (int j = 0; j < n; ++j) { Ai[i][j] = std::stol(w[4 + i * n + j]); A[i][j] = (T)Ai[i][j]; }
  bool sym = true;
  for (int i = 0; i < n; ++i)
    for (int j = 0; j < n; ++j) if (Ai[i][j] != Ai[j][i]) sym = false;
  Dune::FieldVector<T, n> vals(7777);   // the caller's outputs hold junk on entry
  Dune::FieldMatrix<T, n, n> V(8888);
  bool wantVec = which != "vals";
  g_fake = true;
  g_rec = FakeRec();
  try {
    if (which == "vals") Dune::FMatrixHelp::eigenValuesLapack(A, vals);
    else if (which == "vecs") Dune::FMatrixHelp::eigenValuesVectorsLapack(A, vals, V);
    else if (which == "auto") Dune::FMatrixHelp::eigenValuesVectors(A, vals, V);
    else if (which == "autovals") { Dune::FMatrixHelp::eigenValues(A, vals); wantVec = false; }
    else { g_fake = false; throw std::runtime_error("hand: bad selector"); }
  } catch (Dune::Exception&) { g_fake = false; res.impl = "ERR:Other"; res.oracle = "FAIL exception in hand-over"; return res; }
  g_fake = false;
  stat("hand_" + which);
  if (!g_rec.called) {  // closed form taken (n <= 3 with auto): nothing handed over
    res.impl = "no-lapack";
    res.oracle = "ok trivial";
    return res;
  }
  // the symmetric matrix LAPACK effectively works on: completion of the referenced triangle
  std::vector<std::vector<long>> eff(n, std::vector<long>(n));
  bool up = g_rec.uplo == 'u' || g_rec.uplo == 'U';
  for (int r = 0; r < n; ++r)
    for (int c = 0; c < n; ++c) {
      int rr = r, cc = c;
      if (up ? rr > cc : rr < cc) std::swap(rr, cc);
      eff[r][c] = (long)g_rec.a[rr + n * cc];
    }
  std::vector<long> vl;
  for (int i = 0; i < n; ++i) vl.push_back((long)vals[i]);
  std::vector<std::vector<long>> Vi(n, std::vector<long>(n));
  for (int i = 0; i < n; ++i)
    for (int j = 0; j < n; ++j) Vi[i][j] = (long)V[i][j];
  res.impl = "eff=" + intMat(eff) + " vals=" + listStr(vl) + " vecs=" + (wantVec ? intMat(Vi) : std::string("-")) +
             " call=jobz=" + std::string(1, g_rec.jobz) + " uplo=" + std::string(1, g_rec.uplo) + " lwork=" + std::to_string(g_rec.lwork);
  // oracle: LAPACK must be given the matrix itself (it is symmetric), a large enough workspace, and eigenvector i must
  // come back as row i (column i of the Fortran result)
  std::string f;
  if (g_rec.n != n || g_rec.lda < n) f = "FAIL wrong order/leading dimension passed to LAPACK";
  else if (g_rec.lwork < std::max(1, 3 * n - 1)) f = "FAIL workspace too small";
  else if (g_rec.uplo != 'u' && g_rec.uplo != 'U' && g_rec.uplo != 'l' && g_rec.uplo != 'L') f = "FAIL bad uplo";
  else if (sym && eff != Ai) f = "FAIL LAPACK does not see the given symmetric matrix";
  else if (wantVec && g_rec.jobz != 'v' && g_rec.jobz != 'V') f = "FAIL eigenvectors requested but jobz=" + std::string(1, g_rec.jobz);
  else {
    for (int i = 0; i < n && f.empty(); ++i) {
      if (vl[i] != i + 1) f = "FAIL eigenvalues not copied back in order";
      for (int j = 0; j < n && wantVec && f.empty(); ++j)
        if (Vi[i][j] != 100 * (i + 1) + (j + 1)) f = "FAIL eigenvector " + std::to_string(i) + " is not column " + std::to_string(i) + " of the LAPACK result";
    }
  }
  if (!sym && f.empty()) f = "ok trivial";
  if (!f.empty()) res.oracle = f;
  return res;
}
template <class T>
Result execHandT(const std::vector<std::string>& w) {
  int n = std::stoi(w.at(2));
  switch (n) {
    case 1: return execHandTN<T, 1>(w);
    case 2: return execHandTN<T, 2>(w);
    case 3: return execHandTN<T, 3>(w);
    case 4: return execHandTN<T, 4>(w);
    case 5: return execHandTN<T, 5>(w);
    case 6: return execHandTN<T, 6>(w);
  }
  throw std::runtime_error("hand: size out of range");
}

// which matrix does ?geev see, relative to the given A: "A", "AT", "A~" (symmetric input), "other"
static std::string seesWhat(int n, const std::vector<std::vector<long>>& Ai) {
  bool isA = true, isAT = true;
  for (int r = 0; r < n; ++r)
    for (int c = 0; c < n; ++c) {
      long s = (long)g_rec.a[r + n * c];
      if (s != Ai[r][c]) isA = false;
      if (s != Ai[c][r]) isAT = false;
    }
  if (isA && isAT) return "A~";
  return isA ? "A" : isAT ? "AT" : "other";
}

template <class T>
Result execHandNs(const std::vector<std::string>& w) {
  Result res;
  int n = std::stoi(w.at(2));
  int vec = std::stoi(w.at(3));
  if (n < 1 || n > 8 || (int)w.size() != 4 + n * n) throw std::runtime_error("handns: wrong arity");
  Dune::DynamicMatrix<T> A(n, n);
  std::vector<std::vector<long>> Ai(n, std::vector<long>(n));
  for (int i = 0; i < n; ++i)
    for (int j = 0; j < n; ++j) { Ai[i][j] = std::stol(w[4 + i * n + j]); A[i][j] = (T)Ai[i][j]; }
  Dune::DynamicVector<std::complex<T>> vals;
  std::vector<Dune::DynamicVector<T>> V;
  g_fake = true;
  g_rec = FakeRec();
  try {
    Dune::DynamicMatrixHelp::eigenValuesNonSym(A, vals, vec ? &V : nullptr);
  } catch (Dune::Exception&) { g_fake = false; res.impl = "ERR:Other"; res.oracle = "FAIL exception in hand-over"; return res; }
  g_fake = false;
  stat(vec ? "handns_vec" : "handns_vals");
  std::string sees = seesWhat(n, Ai);
  // canonical: of which matrix are the returned vectors right eigenvectors (real case)?
  //   vr of A -> A ; vl of A^T -> A ; vr of A^T -> AT (left eigenvectors of A) ; vl of A -> AT
  std::string rightOf = "-";
  std::vector<std::vector<long>> Vi;
  if (vec) {
    if ((int)V.size() != n) { res.impl = "ERR:Shape"; res.oracle = "FAIL wrong number of eigenvectors"; return res; }
    bool fromVr = true, fromVl = true;
    for (int i = 0; i < n; ++i) {
      if ((int)V[i].size() != n) { res.impl = "ERR:Shape"; res.oracle = "FAIL wrong eigenvector length"; return res; }
      std::vector<long> row;
      for (int j = 0; j < n; ++j) {
        long x = (long)V[i][j];
        row.push_back(x < 0 ? -x : x);
        if (x != 100 * (i + 1) + (j + 1)) fromVr = false;
        if (x != -(100 * (i + 1) + (j + 1))) fromVl = false;
      }
      Vi.push_back(row);
    }
    if (sees == "A~") rightOf = (fromVr || fromVl) ? "A" : "other";
    else if ((sees == "A" && fromVr) || (sees == "AT" && fromVl)) rightOf = "A";
    else if ((sees == "AT" && fromVr) || (sees == "A" && fromVl)) rightOf = "AT";
    else rightOf = "other";
  }
  std::vector<std::string> vs;
  for (int i = 0; i < (int)vals.size(); ++i) vs.push_back(std::to_string((long)vals[i].real()) + ":" + std::to_string((long)vals[i].imag()));
  res.impl = std::string("spectrum-of=") + (sees == "other" ? "other" : "A") + " vals=" + listStr(vs) + " right-eigenvectors-of=" + rightOf +
             " vecs=" + (vec ? intMat(Vi) : std::string("-")) +
             " call=jobvl=" + std::string(1, g_rec.jobvl) + " jobvr=" + std::string(1, g_rec.jobvr) + " lwork=" + std::to_string(g_rec.lwork);
  std::string f;
  if (sees == "other") f = "FAIL LAPACK sees neither A nor its transpose";
  else if ((int)vals.size() != n) f = "FAIL wrong number of eigenvalues";
  else if (g_rec.lwork < (vec ? 4 * n : 3 * n)) f = "FAIL workspace too small";
  else if (vec && rightOf != "A") f = "FAIL returned vectors are right eigenvectors of " + rightOf + ", not of A";
  else
    for (int i = 0; i < n && f.empty(); ++i)
      if ((long)vals[i].real() != i + 1 || (long)vals[i].imag() != 0) f = "FAIL eigenvalues not copied back in order";
  if (!f.empty()) res.oracle = f;
  return res;
}

struct Cx { double real; double imag; };
struct Cxf { float real; float imag; };

template <class T, int n>
Result execHandNsfTN(const std::vector<std::string>& w) {
  Result res;
  if ((int)w.size() != 3 + n * n) throw std::runtime_error("handnsf: wrong arity");
  Dune::FieldMatrix<T, n, n> A;
  std::vector<std::vector<long>> Ai(n, std::vector<long>(n));
  for (int i = 0; i < n; ++i)
    for (int j = 0; j < n; ++j) { Ai[i][j] = std::stol(w[3 + i * n + j]); A[i][j] = (T)Ai[i][j]; }
  Dune::FieldVector<Cx, n> vals;
  for (int i = 0; i < n; ++i) { vals[i].real = 7777; vals[i].imag = 8888; }
  g_fake = true;
  g_rec = FakeRec();
  try {
    Dune::FMatrixHelp::eigenValuesNonSym(A, vals);
  } catch (Dune::Exception&) { g_fake = false; res.impl = "ERR:Other"; res.oracle = "FAIL exception in hand-over"; return res; }
  g_fake = false;
  stat("handnsf");
  std::string sees = seesWhat(n, Ai);
  std::vector<std::string> vs;
  for (int i = 0; i < n; ++i) vs.push_back(std::to_string((long)vals[i].real) + ":" + std::to_string((long)vals[i].imag));
  res.impl = std::string("spectrum-of=") + (sees == "other" ? "other" : "A") + " vals=" + listStr(vs) +
             " call=jobvl=" + std::string(1, g_rec.jobvl) + " jobvr=" + std::string(1, g_rec.jobvr) + " lwork=" + std::to_string(g_rec.lwork);
  std::string f;
  if (sees == "other") f = "FAIL LAPACK sees neither A nor its transpose";
  else if (g_rec.lwork < 3 * n) f = "FAIL workspace too small";
  else
    for (int i = 0; i < n && f.empty(); ++i)
      if ((long)vals[i].real != i + 1 || (long)vals[i].imag != 0) f = "FAIL eigenvalues not copied back in order";
  if (!f.empty()) res.oracle = f;
  return res;
}
template <class T>
Result execHandNsf(const std::vector<std::string>& w) {
  int n = std::stoi(w.at(2));
  switch (n) {
    case 1: return execHandNsfTN<T, 1>(w);
    case 2: return execHandNsfTN<T, 2>(w);
    case 3: return execHandNsfTN<T, 3>(w);
    case 4: return execHandNsfTN<T, 4>(w);
    case 5: return execHandNsfTN<T, 5>(w);
  }
  throw std::runtime_error("handnsf: size out of range");
}

// ---- non-symmetric routines on real LAPACK ------------------------------------------------------
using CQ = std::pair<Q, Q>;  // complex in binary128
static CQ cmul(CQ a, CQ b) { return {a.first * b.first - a.second * b.second, a.first * b.second + a.second * b.first}; }

// spectrum test independent of eigenvalue conditioning: power sums  sum_j lambda_j^m = tr(A^m), m = 1..n
static std::string checkSpectrum(int n, const std::vector<Q>& A, const std::vector<CQ>& lam, Q eps, const std::string& tag) {
  Q fro = 0;
  for (auto x : A) fro += x * x;
  fro = sqrtq(fro);
  for (auto& l : lam)
    if (!qfinite(l.first) || !qfinite(l.second)) return "FAIL non-finite eigenvalue";
  // complex eigenvalues come in conjugate pairs
  Q imsum = 0;
  for (auto& l : lam) imsum += l.second;
  if (qabs(imsum) > C_EPS * eps * fro * n) return "FAIL imaginary parts do not cancel";
  std::vector<Q> P(A);  // A^m
  std::vector<CQ> lp(lam);
  Q fm = fro;
  for (int m = 1; m <= n; ++m) {
    Q tr = 0;
    for (int i = 0; i < n; ++i) tr += P[i * n + i];
    CQ s = {0, 0};
    for (auto& l : lp) { s.first += l.first; s.second += l.second; }
    Q tol = C_EPS * eps * m * n * fm;
    noteMax(tag + "_psum", fm > 0 ? std::max(qabs(s.first - tr), qabs(s.second)) / (eps * m * n * fm) : 0);
    if (qabs(s.first - tr) > tol || qabs(s.second) > tol)
      return "FAIL sum of lambda^" + std::to_string(m) + " = " + qstr(s.first) + " but tr(A^" + std::to_string(m) + ") = " + qstr(tr);
    // next power
    std::vector<Q> N(n * n, 0);
    for (int i = 0; i < n; ++i)
      for (int k = 0; k < n; ++k)
        for (int j = 0; j < n; ++j) N[i * n + j] += P[i * n + k] * A[k * n + j];
    P = N;
    for (size_t j = 0; j < lp.size(); ++j) lp[j] = cmul(lp[j], lam[j]);
    fm *= fro;
  }
  return "";
}

// right eigenvectors in LAPACK's packed convention (real: one column; pair a+ib,a-ib: columns j, j+1 = Re, Im)
static std::string checkRightVectors(int n, const std::vector<Q>& A, const std::vector<CQ>& lam,
                                     const std::vector<std::vector<Q>>& V, Q eps, const std::string& tag) {
  Q fro = 0;
  for (auto x : A) fro += x * x;
  fro = sqrtq(fro);
  for (int j = 0; j < n; ++j) {
    std::vector<CQ> v(n);
    CQ l = lam[j];
    if (l.second == 0) {
      for (int r = 0; r < n; ++r) v[r] = {V[j][r], 0};
    } else if (l.second > 0) {
      if (j + 1 >= n) return "FAIL complex eigenvalue without partner";
      for (int r = 0; r < n; ++r) v[r] = {V[j][r], V[j + 1][r]};
    } else {
      if (j == 0) return "FAIL complex eigenvalue without partner";
      for (int r = 0; r < n; ++r) v[r] = {V[j - 1][r], -V[j][r]};
    }
    Q nv = 0, r2 = 0;
    for (int r = 0; r < n; ++r) {
      if (!qfinite(v[r].first) || !qfinite(v[r].second)) return "FAIL non-finite eigenvector";
      nv += v[r].first * v[r].first + v[r].second * v[r].second;
    }
    nv = sqrtq(nv);
    if (!(nv > 0)) return "FAIL zero eigenvector " + std::to_string(j);
    for (int r = 0; r < n; ++r) {
      CQ s = {0, 0};
      for (int c = 0; c < n; ++c) { s.first += A[r * n + c] * v[c].first; s.second += A[r * n + c] * v[c].second; }
      CQ lv = cmul(l, v[r]);
      s.first -= lv.first; s.second -= lv.second;
      r2 += s.first * s.first + s.second * s.second;
    }
    Q res = sqrtq(r2) / nv;
    noteMax(tag + "_res", fro > 0 ? res / (eps * fro) : 0);
    if (res > C_EPS * eps * fro)
      return "FAIL A v != lambda v for pair " + std::to_string(j) + ": |A v-lambda v|/|v|=" + qstr(res) + " |A|=" + qstr(fro);
  }
  return "";
}

template <class T>
Result execNsd(const std::vector<std::string>& w) {
  Result res;
  int n = std::stoi(w.at(2));
  int vec = std::stoi(w.at(3));
  int k = std::stoi(w.at(4));
  if (n < 1 || n > 8 || (int)w.size() != 5 + n * n) throw std::runtime_error("nsd: wrong arity");
  Dune::DynamicMatrix<T> A(n, n);
  std::vector<Q> Aq(n * n);
  for (int i = 0; i < n; ++i)
    for (int j = 0; j < n; ++j) {
      long double v = parseHexLd(w[5 + i * n + j]);
      T t = (T)v;
      if ((long double)t != v) throw std::runtime_error("entry not representable in the scalar type");
      t = std::ldexp(t, k);
      A[i][j] = t;
      Aq[i * n + j] = (Q)t;
    }
  stat(vec ? "nsd_vec" : "nsd_vals");
  Dune::DynamicVector<std::complex<T>> vals;
  std::vector<Dune::DynamicVector<T>> V;
  try {
    Dune::DynamicMatrixHelp::eigenValuesNonSym(A, vals, vec ? &V : nullptr);
  } catch (Dune::Exception&) { res.impl = "ERR:InvalidState"; res.oracle = "FAIL eigenvalue computation reported failure"; return res; }
  res.impl = "shape n=" + std::to_string(n) + " vals=" + std::to_string(vals.size()) + " vecs=" + (vec ? std::to_string(V.size()) + "x" + std::to_string(V.empty() ? 0 : V[0].size()) : std::string("-"));
  if ((int)vals.size() != n || (vec && (int)V.size() != n)) { res.oracle = "FAIL wrong result sizes"; return res; }
  std::vector<CQ> lam;
  for (int i = 0; i < n; ++i) lam.push_back({(Q)vals[i].real(), (Q)vals[i].imag()});
  Q eps = effEps<T>(true);
  std::string tag = std::string(1, TInfo<T>::code) + "_nsd";
  std::string f = checkSpectrum(n, Aq, lam, eps, tag);
  if (f.empty() && vec) {
    std::vector<std::vector<Q>> Vq;
    for (int i = 0; i < n; ++i) {
      if ((int)V[i].size() != n) { res.oracle = "FAIL wrong eigenvector length"; return res; }
      std::vector<Q> r;
      for (int j = 0; j < n; ++j) r.push_back((Q)V[i][j]);
      Vq.push_back(r);
    }
    f = checkRightVectors(n, Aq, lam, Vq, eps, tag);
  }
  if (!f.empty()) res.oracle = f;
  return res;
}

template <class T, int n>
Result execNsfTN(const std::vector<std::string>& w) {
  Result res;
  int k = std::stoi(w.at(3));
  if ((int)w.size() != 4 + n * n) throw std::runtime_error("nsf: wrong arity");
  Dune::FieldMatrix<T, n, n> A;
  std::vector<Q> Aq(n * n);
  for (int i = 0; i < n; ++i)
    for (int j = 0; j < n; ++j) {
      long double v = parseHexLd(w[4 + i * n + j]);
      T t = (T)v;
      if ((long double)t != v) throw std::runtime_error("entry not representable in the scalar type");
      t = std::ldexp(t, k);
      A[i][j] = t;
      Aq[i * n + j] = (Q)t;
    }
  stat("nsf");
  Dune::FieldVector<Cx, n> vals;
  for (int i = 0; i < n; ++i) vals[i].real = vals[i].imag = std::numeric_limits<double>::quiet_NaN();
  try {
    Dune::FMatrixHelp::eigenValuesNonSym(A, vals);
  } catch (Dune::Exception&) { res.impl = "ERR:InvalidState"; res.oracle = "FAIL eigenvalue computation reported failure"; return res; }
  res.impl = "shape n=" + std::to_string(n) + " vals=" + std::to_string(n) + " vecs=-";
  std::vector<CQ> lam;
  for (int i = 0; i < n; ++i) lam.push_back({(Q)vals[i].real, (Q)vals[i].imag});
  std::string f = checkSpectrum(n, Aq, lam, effEps<T>(true), std::string(1, TInfo<T>::code) + "_nsf");
  if (!f.empty()) res.oracle = f;
  return res;
}
template <class T>
Result execNsf(const std::vector<std::string>& w) {
  int n = std::stoi(w.at(2));
  switch (n) {
    case 1: return execNsfTN<T, 1>(w);
    case 2: return execNsfTN<T, 2>(w);
    case 3: return execNsfTN<T, 3>(w);
    case 4: return execNsfTN<T, 4>(w);
    case 5: return execNsfTN<T, 5>(w);
    case 6: return execNsfTN<T, 6>(w);
  }
  throw std::runtime_error("nsf: size out of range");
}

// ---- histories: several calls of DynamicMatrixHelp::eigenValuesNonSym on the same two output containers ----------
// The containers belong to the caller: a loop over blocks of varying size reuses them, or they arrive pre-sized.  After
// every call they must hold exactly the decomposition of the matrix of *that* call: n values, n vectors of n entries.
//   nsq     T C : seg;seg;...   real LAPACK;    seg = pre a [l0,l1,..] | ev n vec k h..
//   handnsq T C : seg;seg;...   recording fake; seg = pre a [l0,l1,..] | fk n vec i..
// C in {c,z}: eigenvalue container DynamicVector<std::complex<T>> resp. DynamicVector<std::complex<double>>;
// pre = the caller sets eigenValues to a entries and eigenVectors to vectors of the given lengths (filled with junk)
template <class T, class C>
struct NsBox {
  Dune::DynamicVector<C> vals;
  std::vector<Dune::DynamicVector<T>> V;
};
static long junkRe(int i) { return 5000 + i; }
static long junkIm(int i) { return 6000 + i; }
static long junkVec(int p, int q) { return 10000 + 100 * p + q; }

template <class T, class C>
void prefill(NsBox<T, C>& b, const std::vector<std::string>& w) {
  if (w.size() != 3) throw std::runtime_error("pre: wrong arity");
  long a = std::stol(w[1]);
  std::vector<long> lens = parseList(w[2]);
  if (w[2].size() < 2 || w[2].front() != '[' || w[2].back() != ']') throw std::runtime_error("pre: bad list");
  if (a < 0 || a > 12 || lens.size() > 12) throw std::runtime_error("pre: out of range");
  b.vals.resize(0);
  b.vals.resize(a);
  for (long i = 0; i < a; ++i) b.vals[i] = C((typename C::value_type)junkRe(i), (typename C::value_type)junkIm(i));
  b.V.clear();
  for (size_t p = 0; p < lens.size(); ++p) {
    if (lens[p] < 0 || lens[p] > 12) throw std::runtime_error("pre: out of range");
    Dune::DynamicVector<T> v(lens[p]);
    for (long q = 0; q < lens[p]; ++q) v[q] = (T)junkVec(p, q);
    b.V.push_back(v);
  }
  stat("hist_pre");
}
template <class T, class C> std::string lensStr(const NsBox<T, C>& b) {
  std::vector<long> l;
  for (auto& v : b.V) l.push_back((long)v.size());
  return listStr(l);
}
template <class T, class C> std::string valsStr(const NsBox<T, C>& b) {
  std::vector<std::string> vs;
  for (size_t i = 0; i < b.vals.size(); ++i) vs.push_back(std::to_string((long)b.vals[i].real()) + ":" + std::to_string((long)b.vals[i].imag()));
  return listStr(vs);
}
template <class T, class C> std::string vecsStr(const NsBox<T, C>& b) {
  std::vector<std::string> rows;
  for (auto& v : b.V) {
    std::vector<long> r;
    for (size_t j = 0; j < v.size(); ++j) { long x = (long)v[j]; r.push_back(x < 0 ? -x : x); }
    rows.push_back(listStr(r));
  }
  return listStr(rows);
}
// size part of the property for one call: exactly n eigenvalues and, if requested, n vectors with n entries
template <class T, class C> std::string shapeFail(const NsBox<T, C>& b, int n, bool vec) {
  if ((int)b.vals.size() != n)
    return "FAIL " + std::to_string(b.vals.size()) + " eigenvalues returned for a " + std::to_string(n) + "x" + std::to_string(n) + " matrix";
  if (!vec) return "";
  if ((int)b.V.size() != n)
    return "FAIL " + std::to_string(b.V.size()) + " eigenvectors returned for a " + std::to_string(n) + "x" + std::to_string(n) + " matrix";
  for (int i = 0; i < n; ++i)
    if ((int)b.V[i].size() != n)
      return "FAIL eigenvector " + std::to_string(i) + " has " + std::to_string(b.V[i].size()) + " entries but the matrix is " +
             std::to_string(n) + "x" + std::to_string(n);
  return "";
}

// one fake call; returns the observation, sets fail
template <class T, class C>
std::string histFakeCall(NsBox<T, C>& b, const std::vector<std::string>& w, std::string& fail) {
  if (w.size() < 3) throw std::runtime_error("fk: wrong arity");
  int n = std::stoi(w[1]), vec = std::stoi(w[2]);
  if (n < 1 || n > 8 || (vec != 0 && vec != 1) || (int)w.size() != 3 + n * n) throw std::runtime_error("fk: wrong arity");
  Dune::DynamicMatrix<T> A(n, n);
  std::vector<std::vector<long>> Ai(n, std::vector<long>(n));
  for (int i = 0; i < n; ++i)
    for (int j = 0; j < n; ++j) { Ai[i][j] = std::stol(w[3 + i * n + j]); A[i][j] = (T)Ai[i][j]; }
  std::vector<Dune::DynamicVector<T>> before = b.V;
  g_fake = true;
  g_rec = FakeRec();
  try {
    Dune::DynamicMatrixHelp::eigenValuesNonSym(A, b.vals, vec ? &b.V : nullptr);
  } catch (Dune::Exception&) { g_fake = false; fail = "FAIL exception in hand-over"; return "ERR:Other"; }
  g_fake = false;
  stat(vec ? "hist_fk_vec" : "hist_fk_vals");
  std::string sees = seesWhat(n, Ai);
  std::string rightOf = "-";
  fail = shapeFail(b, n, vec);
  if (vec && fail.empty()) {
    bool fromVr = true, fromVl = true;
    for (int i = 0; i < n; ++i)
      for (int j = 0; j < n; ++j) {
        long x = (long)b.V[i][j];
        if (x != 100 * (i + 1) + (j + 1)) fromVr = false;
        if (x != -(100 * (i + 1) + (j + 1))) fromVl = false;
      }
    if (sees == "A~") rightOf = (fromVr || fromVl) ? "A" : "other";
    else if ((sees == "A" && fromVr) || (sees == "AT" && fromVl)) rightOf = "A";
    else if ((sees == "AT" && fromVr) || (sees == "A" && fromVl)) rightOf = "AT";
    else rightOf = "other";
  } else if (vec) rightOf = "other";
  std::string obs = std::string("spectrum-of=") + (sees == "other" ? "other" : "A") + " right-eigenvectors-of=" + rightOf +
                    " vals=" + valsStr(b) + " vecs=" + vecsStr(b);
  if (!fail.empty()) return obs;
  if (sees == "other") fail = "FAIL LAPACK sees neither A nor its transpose";
  else if (g_rec.lwork < (vec ? 4 * n : 3 * n)) fail = "FAIL workspace too small";
  else if (vec && rightOf != "A") fail = "FAIL returned vectors are right eigenvectors of " + rightOf + ", not of A";
  else if (!vec && before.size() != b.V.size()) fail = "FAIL eigenvector list changed although no eigenvectors were requested";
  else
    for (int i = 0; i < n && fail.empty(); ++i)
      if ((long)b.vals[i].real() != i + 1 || (long)b.vals[i].imag() != 0) fail = "FAIL eigenvalues not copied back in order";
  return obs;
}

// one call on real LAPACK
template <class T, class C>
std::string histRealCall(NsBox<T, C>& b, const std::vector<std::string>& w, std::string& fail) {
  if (w.size() < 4) throw std::runtime_error("ev: wrong arity");
  int n = std::stoi(w[1]), vec = std::stoi(w[2]), k = std::stoi(w[3]);
  if (n < 1 || n > 8 || (vec != 0 && vec != 1) || (int)w.size() != 4 + n * n) throw std::runtime_error("ev: wrong arity");
  Dune::DynamicMatrix<T> A(n, n);
  std::vector<Q> Aq(n * n);
  for (int i = 0; i < n; ++i)
    for (int j = 0; j < n; ++j) {
      long double v = parseHexLd(w[4 + i * n + j]);
      T t = (T)v;
      if ((long double)t != v) throw std::runtime_error("entry not representable in the scalar type");
      t = std::ldexp(t, k);
      A[i][j] = t;
      Aq[i * n + j] = (Q)t;
    }
  stat(vec ? "hist_ev_vec" : "hist_ev_vals");
  try {
    Dune::DynamicMatrixHelp::eigenValuesNonSym(A, b.vals, vec ? &b.V : nullptr);
  } catch (Dune::Exception&) { fail = "FAIL eigenvalue computation reported failure"; return "ERR:InvalidState"; }
  std::string obs = "n=" + std::to_string(n) + " vals=" + std::to_string(b.vals.size()) + " vecs=" + lensStr(b);
  fail = shapeFail(b, n, vec);
  if (!fail.empty()) return obs;
  std::vector<CQ> lam;
  for (int i = 0; i < n; ++i) lam.push_back({(Q)b.vals[i].real(), (Q)b.vals[i].imag()});
  // the values pass through C: the accuracy is that of the coarser of double (LAPACK) and C's real type
  Q eps = effEps<T>(true);
  Q epsC = (Q)std::numeric_limits<typename C::value_type>::epsilon();
  if (epsC > eps) eps = epsC;
  std::string tag = std::string(1, TInfo<T>::code) + "_nsq";
  fail = checkSpectrum(n, Aq, lam, eps, tag);
  if (fail.empty() && vec) {
    std::vector<std::vector<Q>> Vq;
    for (int i = 0; i < n; ++i) {
      std::vector<Q> r;
      for (int j = 0; j < n; ++j) r.push_back((Q)b.V[i][j]);
      Vq.push_back(r);
    }
    fail = checkRightVectors(n, Aq, lam, Vq, eps, tag);
  }
  return obs;
}

template <class T, class C>
Result execHistTC(const std::string& line, bool fake) {
  Result res;
  size_t pos = line.find(" : ");
  if (pos == std::string::npos) throw std::runtime_error("history without ' : '");
  std::vector<std::string> segs = split(line.substr(pos + 3), ';');
  if (segs.empty() || segs.size() > 40) throw std::runtime_error("history: bad number of segments");
  NsBox<T, C> b;
  int calls = 0, shapes = 0;   // distinct matrix orders seen with vectors requested
  std::set<int> orders;
  for (size_t si = 0; si < segs.size(); ++si) {
    auto w = words(segs[si]);
    if (w.empty()) throw std::runtime_error("history: empty segment");
    std::string obs, fail;
    if (w[0] == "pre") {
      prefill(b, w);
      obs = fake ? "pre vals=" + valsStr(b) + " vecs=" + vecsStr(b) : "pre vals=" + std::to_string(b.vals.size()) + " vecs=" + lensStr(b);
    } else if (w[0] == "fk" && fake) { obs = histFakeCall(b, w, fail); ++calls; orders.insert(std::stoi(w[1]));
    } else if (w[0] == "ev" && !fake) { obs = histRealCall(b, w, fail); ++calls; orders.insert(std::stoi(w[1]));
    } else throw std::runtime_error("history: unknown segment " + w[0]);
    res.impl += (si ? " | " : "") + obs;
    if (!fail.empty()) {
      res.oracle = "FAIL call " + std::to_string(si) + " (" + w[0] + " n=" + (w.size() > 1 ? w[1] : "") + "): " + fail.substr(5);
      return res;
    }
  }
  (void)shapes;
  stat(fake ? "handnsq" : "nsq");
  stat("hist_orders_" + std::to_string(std::min<size_t>(orders.size(), 4)));
  if (calls == 0) res.oracle = "ok trivial";
  return res;
}

template <class T>
Result execHist(const std::string& line, const std::vector<std::string>& w) {
  bool fake = w[0] == "handnsq";
  if (w.size() < 4 || w[3] != ":") throw std::runtime_error("history: bad header");
  if (w[2] == "c") return execHistTC<T, std::complex<T>>(line, fake);
  if (w[2] == "z") return execHistTC<T, std::complex<double>>(line, fake);
  throw std::runtime_error("history: bad eigenvalue type " + w[2]);
}

// ------------------------------------------------------------------------------------------------
// executor
// ------------------------------------------------------------------------------------------------
template <class T>
Result execT(const std::vector<std::string>& w) {
  const std::string& op = w[0];
  if (op == "sym") return execSymT<T>(w);
  if (op == "ev2x") return execEv2x<T>(w);
  if (op == "ev3x") return execEv3x<T>(w);
  if (op == "hand") return execHandT<T>(w);
  if (op == "handns") return execHandNs<T>(w);
  if (op == "handnsf") return execHandNsf<T>(w);
  if (op == "nsd") return execNsd<T>(w);
  if (op == "nsf") return execNsf<T>(w);
  throw std::runtime_error("unknown op " + op);
}

static Result exec(const std::string& line) {
  auto w = words(line);
  if (w.size() < 3) throw std::runtime_error("short op line");
  const std::string& t = w[1];
  if (w[0] == "nsq" || w[0] == "handnsq") {
    if (t == "f") return execHist<float>(line, w);
    if (t == "d") return execHist<double>(line, w);
    if (t == "l") return execHist<long double>(line, w);
    throw std::runtime_error("unknown scalar type " + t);
  }
  if (t == "f") return execT<float>(w);
  if (t == "d") return execT<double>(w);
  if (t == "l") return execT<long double>(w);
  throw std::runtime_error("unknown scalar type " + t);
}

// ------------------------------------------------------------------------------------------------
// generator
// ------------------------------------------------------------------------------------------------
using LD = long double;
static LD uni(Rng& r) { return (LD)(long)(r.next() >> 11) / (LD)(1ull << 53); }          // [0,1)
static LD sym1(Rng& r) { return 2 * uni(r) - 1; }                                          // [-1,1)
static LD pow10ld(int e) { return std::pow((LD)10, (LD)e); }

// random orthogonal matrix as a product of Givens rotations (long double)
static std::vector<LD> randomOrthogonal(Rng& rng, int n, int rotations) {
  std::vector<LD> Qm(n * n, 0);
  for (int i = 0; i < n; ++i) Qm[i * n + i] = 1;
  for (int t = 0; t < rotations && n >= 2; ++t) {
    int p = (int)rng.below(n), q = (int)rng.below(n - 1);
    if (q >= p) ++q;
    LD ang = 3.14159265358979323846264338327950288L * sym1(rng);
    if (rng.coin(1, 6)) ang = pow10ld(-(int)rng.range(1, 12)) * sym1(rng);  // nearly the identity
    if (rng.coin(1, 8)) ang = 0.78539816339744830961566084581987572L;       // 45 degrees
    LD c = std::cos(ang), s = std::sin(ang);
    for (int k = 0; k < n; ++k) {
      LD a = Qm[k * n + p], b = Qm[k * n + q];
      Qm[k * n + p] = c * a - s * b;
      Qm[k * n + q] = s * a + c * b;
    }
  }
  return Qm;
}

static std::vector<LD> genSpectrum(Rng& rng, int n, std::string& kind) {
  std::vector<LD> d(n);
  switch (rng.below(8)) {
    case 0: kind = "random"; for (auto& x : d) x = 4 * sym1(rng); break;
    case 1: {
      kind = "repeated";
      std::vector<LD> pool = {-2, -1, 0, 0.5L, 1, 1, 3};
      LD a = rng.pick(pool), b = rng.pick(pool);
      for (auto& x : d) x = rng.coin() ? a : b;
      break;
    }
    case 2: {
      kind = "clustered";
      LD base = rng.coin() ? 1 : 4 * sym1(rng);
      LD gap = pow10ld(-(int)rng.range(2, 17));
      for (int i = 0; i < n; ++i) d[i] = base * (1 + gap * (LD)rng.range(0, 3));
      if (n > 1 && rng.coin()) d[rng.below(n)] = -base * 2;
      break;
    }
    case 3: {
      kind = "rankdef";
      for (auto& x : d) x = rng.coin() ? 0 : 4 * sym1(rng);
      d[rng.below(n)] = 0;
      break;
    }
    case 4: kind = "identity"; { LD c = rng.coin() ? 1 : 4 * sym1(rng); for (auto& x : d) x = c; } break;
    case 5: kind = "plusminus"; { LD c = rng.coin() ? 1 : 1 + uni(rng); for (auto& x : d) x = rng.coin() ? c : -c; } break;
    case 6: {
      kind = "graded";
      for (int i = 0; i < n; ++i) d[i] = pow10ld(-(int)rng.range(0, 12)) * (rng.coin() ? 1 : -1);
      break;
    }
    default: kind = "integers"; for (auto& x : d) x = (LD)rng.range(-3, 5); break;
  }
  return d;
}

template <class T>
std::string genSymT(Rng& rng, int n, bool lap, const std::string& tier) {
  std::string skind;
  std::vector<LD> d = genSpectrum(rng, n, skind);
  std::vector<LD> A(n * n, 0);
  std::string structure;
  int st = (int)rng.below(10);
  if (st < 4 || n == 1) {
    structure = "rotated";
    std::vector<LD> Qm = randomOrthogonal(rng, n, 2 * n + (int)rng.below(3 * n + 1));
    for (int i = 0; i < n; ++i)
      for (int j = 0; j < n; ++j) {
        LD s = 0;
        for (int k = 0; k < n; ++k) s += Qm[i * n + k] * d[k] * Qm[j * n + k];
        A[i * n + j] = s;
      }
  } else if (st < 6) {
    structure = "diagonal";
    for (int i = n - 1; i > 0; --i) std::swap(d[i], d[rng.below(i + 1)]);
    for (int i = 0; i < n; ++i) A[i * n + i] = d[i];
  } else if (st < 8) {
    structure = "nearlydiagonal";
    for (int i = n - 1; i > 0; --i) std::swap(d[i], d[rng.below(i + 1)]);
    LD eta = pow10ld(-(int)rng.range(2, 20));
    for (int i = 0; i < n; ++i) A[i * n + i] = d[i];
    for (int i = 0; i < n; ++i)
      for (int j = i + 1; j < n; ++j)
        if (rng.coin(2, 3)) A[i * n + j] = A[j * n + i] = eta * sym1(rng);
  } else if (st < 9) {
    structure = "plane";
    std::vector<LD> Qm = randomOrthogonal(rng, n, 1);
    for (int i = 0; i < n; ++i)
      for (int j = 0; j < n; ++j) {
        LD s = 0;
        for (int k = 0; k < n; ++k) s += Qm[i * n + k] * d[k] * Qm[j * n + k];
        A[i * n + j] = s;
      }
  } else {
    structure = "smallint";
    for (int i = 0; i < n; ++i)
      for (int j = i; j < n; ++j) A[i * n + j] = A[j * n + i] = (LD)rng.range(-3, 3);
  }
  stat("spectrum_" + skind);
  stat("structure_" + structure);
  bool usesLapack = lap || n >= 4;
  int kmin = usesLapack ? TInfo<T>::kminL : TInfo<T>::kminCF, kmax = usesLapack ? TInfo<T>::kmaxL : TInfo<T>::kmaxCF;
  int k = 0;
  switch (rng.below(6)) {
    case 0: k = 0; break;
    case 1: k = kmin + (int)rng.below(8); break;
    case 2: k = kmax - (int)rng.below(8); break;
    case 3: k = (int)rng.range(std::max(kmin, -60), std::min(kmax, 60)); break;
    default: k = (int)rng.range(kmin, kmax); break;
  }
  (void)tier;
  // symmetrise before rounding so that the stored matrix is exactly symmetric; normalise the base matrix to
  // max |entry| in [1,2) (exact power of two) so that the magnitude of the executed matrix is 2^k
  std::vector<T> R(n * n);
  T mx = 0;
  for (int i = 0; i < n; ++i)
    for (int j = i; j < n; ++j) {
      R[i * n + j] = (T)((A[i * n + j] + A[j * n + i]) / 2);
      mx = std::max(mx, (T)std::fabs(R[i * n + j]));
    }
  int lg = mx > 0 ? std::ilogb(mx) : 0;
  // well-separated spectrum (decided on the matrix as stored, with the binary128 Jacobi reference): the answer is
  // unique up to the signs of the vectors; compare it (quantised) with the Lean model over IEEE double
  bool wellSep = false;
  if (std::is_same_v<T, double> && !lap && n <= 3) {
    std::vector<Q> Rq(n * n);
    for (int i = 0; i < n; ++i)
      for (int j = i; j < n; ++j) Rq[i * n + j] = Rq[j * n + i] = (Q)R[i * n + j];
    std::vector<Q> sd = jacobiEigenvalues(n, Rq);
    Q mxd = std::max(qabs(sd.front()), qabs(sd.back())), gap = mxd;
    for (int i = 0; i + 1 < n; ++i) gap = std::min(gap, sd[i + 1] - sd[i]);
    wellSep = mxd > 0 && gap >= mxd / 64;
  }
  if (wellSep) stat("gen_cfq");
  std::string line = std::string("sym ") + TInfo<T>::code + " " + std::to_string(n) + " " + (lap ? "lap" : wellSep ? "cfq" : "cf") + " " + std::to_string(k);
  for (int i = 0; i < n; ++i)
    for (int j = i; j < n; ++j) line += " " + hexOf<T>((T)std::ldexp(R[i * n + j], -lg));
  return line;
}

struct Triple { long m, b, r; };  // m^2 + b^2 = r^2
static const std::vector<Triple>& triples() {
  static std::vector<Triple> t = {{3, 4, 5}, {4, 3, 5}, {5, 12, 13}, {12, 5, 13}, {8, 15, 17}, {15, 8, 17}, {7, 24, 25},
                                  {24, 7, 25}, {20, 21, 29}, {21, 20, 29}, {0, 1, 1}, {1, 0, 1}, {0, 0, 0}, {0, 7, 7}, {6, 0, 6},
                                  {9, 40, 41}, {28, 45, 53}};
  return t;
}

template <class T>
std::string genEv2x(Rng& rng) {
  // [[c+m, b],[b, c-m]] * 2^e with m^2+b^2 = r^2 and |c|+|m|+|b| = 2^S: the max norm is a power of two, so the
  // max-norm preconditioning of the code is exact; on the scaled matrix p = c/2^S, p2 = m/2^S, q = (r/2^S)^2, hence
  // eigenvalues (c -+ r) * 2^e, everything exact in floating point
  Triple t = rng.pick(triples());
  long mult = rng.coin() ? 1 : (long)rng.range(1, 6);
  long m = t.m * mult * (rng.coin() ? 1 : -1), b = t.b * mult * (rng.coin() ? 1 : -1);
  long sum = std::labs(m) + std::labs(b);
  int digits = std::numeric_limits<T>::digits;  // 24 / 53 / 64
  int smax = std::min(digits - 2, 61);
  int smin = 0;
  while ((1L << smin) < sum) ++smin;
  int S;
  if (rng.coin(1, 3)) {
    // near-identity: the off-diagonal part is about 2^-S relative, around the identity threshold 64 eps = 2^(7-digits)
    S = digits - 7 - 4 + (int)rng.below(9);
    stat("ev2x_near_identity");
  } else {
    S = smin + (int)rng.below(12);
  }
  S = std::max(smin, std::min(S, smax));
  long c = ((1L << S) - sum) * (rng.coin(1, 4) ? -1 : 1);
  long a = c + m, d = c - m;
  int emin = std::is_same_v<T, float> ? -120 : -500, emax = std::is_same_v<T, float> ? 120 : 500;
  int e;
  switch (rng.below(5)) {
    case 0: e = 0; break;
    case 1: e = emin + (int)rng.below(6); break;
    case 2: e = emax - S - (int)rng.below(6); break;
    case 3: e = -S; break;  // norm one
    default: e = (int)rng.range(emin, emax - S); break;
  }
  return std::string("ev2x ") + TInfo<T>::code + " " + std::to_string(a) + " " + std::to_string(b) + " " + std::to_string(d) + " " + std::to_string(e);
}

template <class T>
std::string genEv3x(Rng& rng) {
  // entries are integers times 2^-S; row 0 carries the maximal absolute row sum 2^S exactly, so that the
  // max-norm scaling of the code is exact; off-diagonal entries sit around the sqrt(eps) threshold
  int digits = std::numeric_limits<T>::digits;
  int half = (digits - 1) / 2 + 1;  // off-diagonal 2^-half: square 2^-(2 half) around eps = 2^-(digits-1)
  int S = half + 3;
  auto off = [&]() -> long {
    switch (rng.below(6)) {
      case 0: return 0;
      case 1: return (1L << 3) * (rng.coin() ? 1 : -1);  // 2^-half
      case 2: return (1L << 2) * (rng.coin() ? 1 : -1);  // 2^-(half+1)
      case 3: return (1L << 1) * (rng.coin() ? 1 : -1);
      case 4: return (1L << 4) * (rng.coin() ? 1 : -1);  // 2^-(half-1): its square alone is eps (double) or 2 eps
      default: return 0;
    }
  };
  long o01 = off(), o02 = off(), o12 = off();
  if (rng.coin(1, 3)) o01 = o02 = o12 = 0;
  long one = 1L << S;
  long a00 = (one - std::labs(o01) - std::labs(o02)) * (rng.coin(1, 4) ? -1 : 1);
  auto smallDiag = [&]() -> long {
    switch (rng.below(5)) {
      case 0: return 0;
      case 1: return a00 > 0 ? a00 - (1L << 4) : a00 + (1L << 4);
      case 2: return (one >> 1) * (rng.coin() ? 1 : -1);
      case 3: return (one >> 2) + (long)rng.range(-3, 3) * 16;
      default: return (long)rng.range(-(one >> 1), one >> 1);
    }
  };
  long a11 = smallDiag(), a22 = smallDiag();
  if (rng.coin(1, 6)) a22 = a11;
  // rows 1,2 must not exceed the norm of row 0
  auto clampRow = [&](long& dd, long x, long y) {
    while (std::labs(dd) + std::labs(x) + std::labs(y) > one) dd /= 2;
  };
  clampRow(a11, o01, o12);
  clampRow(a22, o02, o12);
  int emin = std::is_same_v<T, float> ? -60 : -400, emax = std::is_same_v<T, float> ? 60 : 400;
  int e = rng.coin(1, 3) ? -S : (int)rng.range(emin, emax);
  return std::string("ev3x ") + TInfo<T>::code + " " + std::to_string(a00) + " " + std::to_string(o01) + " " + std::to_string(o02) + " " +
         std::to_string(a11) + " " + std::to_string(o12) + " " + std::to_string(a22) + " " + std::to_string(e);
}

template <class T>
std::string genHand(Rng& rng) {
  int n = (int)rng.range(1, 6);
  static const std::vector<std::string> sel = {"vals", "vecs", "vecs", "auto", "autovals"};
  std::string which = rng.pick(sel);
  if ((which == "auto" || which == "autovals") && n < 4) n = 4 + (int)rng.below(3);
  std::vector<long> A(n * n);
  for (int i = 0; i < n; ++i)
    for (int j = i; j < n; ++j) A[i * n + j] = A[j * n + i] = rng.range(-9, 9) + (i == j ? 10 * (i + 1) : 0);
  std::string line = std::string("hand ") + TInfo<T>::code + " " + std::to_string(n) + " " + which;
  for (auto x : A) line += " " + std::to_string(x);
  return line;
}
template <class T>
std::string genHandNs(Rng& rng, bool fm) {
  int n = (int)rng.range(1, fm ? 5 : 6);
  std::string line = std::string(fm ? "handnsf " : "handns ") + TInfo<T>::code + " " + std::to_string(n);
  if (!fm) line += rng.coin(2, 3) ? " 1" : " 0";
  bool symm = rng.coin(1, 5);
  std::vector<long> A(n * n);
  for (int i = 0; i < n; ++i)
    for (int j = 0; j < n; ++j) A[i * n + j] = rng.range(-20, 20);
  if (symm)
    for (int i = 0; i < n; ++i)
      for (int j = 0; j < i; ++j) A[i * n + j] = A[j * n + i];
  for (auto x : A) line += " " + std::to_string(x);
  return line;
}

// non-symmetric test matrices: Q * (upper triangular / 2x2 rotation blocks) * Q^T, integer triangular matrices, rotations
static std::vector<LD> nsMatrix(Rng& rng, int n) {
  std::vector<LD> A(n * n, 0);
  int kind = (int)rng.below(5);
  if (kind == 0 && n >= 2) {
    // scaled rotation in a random plane embedded in a diagonal matrix
    stat("ns_rotation");
    for (int i = 0; i < n; ++i) A[i * n + i] = (LD)rng.range(-3, 3);
    int p = (int)rng.below(n), q = (int)rng.below(n - 1);
    if (q >= p) ++q;
    LD ang = 3.14159265358979323846264338327950288L * sym1(rng), rho = 0.5L + 2 * uni(rng);
    if (rng.coin(1, 4)) ang = 1.57079632679489661923132169163975144L;
    A[p * n + p] = rho * std::cos(ang); A[p * n + q] = -rho * std::sin(ang);
    A[q * n + p] = rho * std::sin(ang); A[q * n + q] = rho * std::cos(ang);
  } else if (kind == 1) {
    stat("ns_int_triangular");
    for (int i = 0; i < n; ++i)
      for (int j = 0; j < n; ++j) A[i * n + j] = (j >= i) ? (LD)rng.range(-4, 4) : 0;
    for (int i = 0; i < n; ++i) A[i * n + i] = (LD)(2 * i + 1) * (rng.coin() ? 1 : -1);
    if (rng.coin())  // lower instead of upper
      for (int i = 0; i < n; ++i)
        for (int j = 0; j < i; ++j) std::swap(A[i * n + j], A[j * n + i]);
  } else {
    stat(kind == 2 ? "ns_schur_real" : "ns_schur_pairs");
    std::vector<LD> Tm(n * n, 0);
    for (int i = 0; i < n; ++i) {
      Tm[i * n + i] = (LD)(i + 1) * 0.75L * (rng.coin(1, 3) ? -1 : 1) + 0.1L * sym1(rng);
      for (int j = i + 1; j < n; ++j) Tm[i * n + j] = sym1(rng);
    }
    if (kind != 2 && n >= 2) {
      int p = (int)rng.below(n - 1);
      LD al = 2 * sym1(rng), be = 0.25L + uni(rng);
      Tm[p * n + p] = al; Tm[(p + 1) * n + p + 1] = al; Tm[p * n + p + 1] = be; Tm[(p + 1) * n + p] = -be;
    }
    std::vector<LD> Qm = randomOrthogonal(rng, n, 3 * n);
    std::vector<LD> QT(n * n, 0);
    for (int i = 0; i < n; ++i)
      for (int j = 0; j < n; ++j)
        for (int k = 0; k < n; ++k) QT[i * n + j] += Qm[i * n + k] * Tm[k * n + j];
    for (int i = 0; i < n; ++i)
      for (int j = 0; j < n; ++j)
        for (int k = 0; k < n; ++k) A[i * n + j] += QT[i * n + k] * Qm[j * n + k];
  }
  return A;
}
template <class T>
int nsScale(Rng& rng) {
  switch (rng.below(4)) {
    case 0: return 0;
    case 1: return TInfo<T>::kminNS + (int)rng.below(8);
    case 2: return TInfo<T>::kmaxNS - (int)rng.below(8);
    default: return (int)rng.range(TInfo<T>::kminNS, TInfo<T>::kmaxNS);
  }
}
template <class T>
std::string genNs(Rng& rng, bool fm) {
  int n = (int)rng.range(1, 6);
  std::vector<LD> A = nsMatrix(rng, n);
  int k = nsScale<T>(rng);
  std::string line = std::string(fm ? "nsf " : "nsd ") + TInfo<T>::code + " " + std::to_string(n);
  if (!fm) line += rng.coin(3, 4) ? " 1" : " 0";
  line += " " + std::to_string(k);
  for (auto x : A) line += " " + hexOf<T>((T)x);
  return line;
}

// histories on the same pair of output containers: orders that shrink, grow, repeat; calls with and without vectors;
// containers the caller pre-sized (too long, too short, vectors of other lengths, empty vectors)
static std::string genPreSeg(Rng& rng) {
  long a = rng.coin(1, 3) ? 0 : rng.range(0, 8);
  int cnt = rng.coin(1, 4) ? 0 : (int)rng.range(1, 8);
  std::vector<long> lens;
  long common = rng.range(0, 8);
  int mode = (int)rng.below(3);  // 0: all equal, 1: ragged, 2: mostly empty
  for (int i = 0; i < cnt; ++i) lens.push_back(mode == 0 ? common : mode == 1 ? rng.range(0, 8) : (rng.coin(1, 4) ? common : 0));
  return "pre " + std::to_string(a) + " " + listStr(lens);
}
static std::vector<int> genOrders(Rng& rng, int calls) {
  std::vector<int> ns;
  int n = (int)rng.range(1, 6);
  int shape = (int)rng.below(5);  // 0 shrinking, 1 growing, 2 random, 3 alternate two orders, 4 constant
  int other = (int)rng.range(1, 6);
  for (int c = 0; c < calls; ++c) {
    switch (shape) {
      case 0: if (c) n = std::max(1, n - (int)rng.range(0, 2)); break;
      case 1: if (c) n = std::min(6, n + (int)rng.range(0, 2)); break;
      case 2: n = (int)rng.range(1, 6); break;
      case 3: n = (c % 2) ? other : ns.empty() ? n : ns[0]; break;
      default: break;
    }
    if (shape == 0 && c == 0) n = (int)rng.range(3, 6);
    if (shape == 1 && c == 0) n = (int)rng.range(1, 3);
    ns.push_back(n);
  }
  return ns;
}
template <class T>
std::string genHist(Rng& rng, bool fake) {
  std::string line = std::string(fake ? "handnsq " : "nsq ") + TInfo<T>::code + (rng.coin(1, 4) ? " z" : " c") + " : ";
  int calls = (int)rng.range(2, 5);
  std::vector<int> ns = genOrders(rng, calls);
  bool first = true;
  auto add = [&](const std::string& seg) { line += (first ? "" : ";") + seg; first = false; };
  if (rng.coin(1, 3)) add(genPreSeg(rng));
  for (int c = 0; c < calls; ++c) {
    int n = ns[c];
    bool vec = rng.coin(4, 5);
    if (c && rng.coin(1, 8)) add(genPreSeg(rng));
    std::string seg;
    if (fake) {
      seg = "fk " + std::to_string(n) + (vec ? " 1" : " 0");
      bool symm = rng.coin(1, 5);
      std::vector<long> A(n * n);
      for (int i = 0; i < n; ++i)
        for (int j = 0; j < n; ++j) A[i * n + j] = rng.range(-20, 20);
      if (symm)
        for (int i = 0; i < n; ++i)
          for (int j = 0; j < i; ++j) A[i * n + j] = A[j * n + i];
      for (auto x : A) seg += " " + std::to_string(x);
    } else {
      std::vector<LD> A = nsMatrix(rng, n);
      int k = rng.coin() ? 0 : nsScale<T>(rng);
      seg = "ev " + std::to_string(n) + (vec ? " 1 " : " 0 ") + std::to_string(k);
      for (auto x : A) seg += " " + hexOf<T>((T)x);
    }
    add(seg);
  }
  return line;
}

// dense / patterned symmetric 2x2 and 3x3 matrices in double for the quantised comparison with the Lean model over IEEE
// double (route cfq when the spectrum turns out well separated, cf otherwise): uniform entries, small integers, zero
// patterns (block structure: exact coordinate eigenvectors, zero rows of A - lambda I, both orthoComp branches),
// dominant diagonal
static std::string genDenseQ(Rng& rng) {
  int n = rng.coin(1, 3) ? 2 : 3;
  std::vector<double> R(n * n, 0);
  int kind = (int)rng.below(6);
  auto ent = [&]() -> double {
    switch (kind) {
      case 0: case 3: case 4: return (double)sym1(rng);
      case 1: return (double)rng.range(-4, 4);
      case 2: return (double)rng.range(-8, 8) / 8.0;
      default: return (double)(sym1(rng) * pow10ld(-(int)rng.range(0, 3)));
    }
  };
  for (int i = 0; i < n; ++i)
    for (int j = i; j < n; ++j) R[i * n + j] = R[j * n + i] = ent();
  if (kind == 3 && n == 3) {  // zero pattern: one coordinate decouples
    int z = (int)rng.below(3);
    for (int j = 0; j < 3; ++j)
      if (j != z) R[z * 3 + j] = R[j * 3 + z] = 0;
  }
  if (kind == 4)  // dominant diagonal
    for (int i = 0; i < n; ++i) R[i * n + i] = (double)(rng.range(-3, 3) * 2 + sym1(rng) * 0.25L);
  stat("dense_kind" + std::to_string(kind));
  double mx = 0;
  for (double x : R) mx = std::max(mx, std::fabs(x));
  int lg = mx > 0 ? std::ilogb(mx) : 0;
  std::vector<Q> Rq(n * n);
  for (int i = 0; i < n * n; ++i) Rq[i] = (Q)R[i];
  std::vector<Q> sd = jacobiEigenvalues(n, Rq);
  Q mxd = std::max(qabs(sd.front()), qabs(sd.back())), gap = mxd;
  for (int i = 0; i + 1 < n; ++i) gap = std::min(gap, sd[i + 1] - sd[i]);
  bool wellSep = mxd > 0 && gap >= mxd / 64;
  if (wellSep) stat("gen_cfq");
  int k = 0;
  switch (rng.below(5)) {
    case 0: k = 0; break;
    case 1: k = TInfo<double>::kminCF + (int)rng.below(8); break;
    case 2: k = TInfo<double>::kmaxCF - (int)rng.below(8); break;
    default: k = (int)rng.range(-60, 60); break;
  }
  std::string line = "sym d " + std::to_string(n) + (wellSep ? " cfq " : " cf ") + std::to_string(k);
  for (int i = 0; i < n; ++i)
    for (int j = i; j < n; ++j) line += " " + hexOf<double>(std::ldexp(R[i * n + j], -lg));
  return line;
}

template <class T>
std::string genT(Rng& rng, const Args& a) {
  long only = a.get("only", -1);
  int c = only >= 0 ? (int)only : (int)rng.below(100);
  if (c < 14 && std::is_same_v<T, double>) return genDenseQ(rng);
  if (c < 30) return genSymT<T>(rng, (int)rng.range(1, 3), false, a.tier);                    // closed form
  if (c < 38) return genSymT<T>(rng, 2, false, a.tier);
  if (c < 46) return genSymT<T>(rng, 3, false, a.tier);
  if (c < 58) return genSymT<T>(rng, (int)rng.range(4, 8), false, a.tier);                    // LAPACK by size
  if (c < 66) return genSymT<T>(rng, (int)rng.range(1, 8), true, a.tier);                     // LAPACK on request
  if (c < 76) return genEv2x<T>(rng);
  if (c < 82) return genEv3x<T>(rng);
  if (c < 86) return genHand<T>(rng);
  if (c < 87) return genHandNs<T>(rng, false);
  if (c < 88) return genHist<T>(rng, true);
  if (c < 89) return genHandNs<T>(rng, true);
  if (c < 93) return genNs<T>(rng, false);
  if (c < 96) return genHist<T>(rng, false);
  return genNs<T>(rng, true);
}

static std::string gen(Rng& rng, long, const Args& a) {
  switch (rng.below(5)) {
    case 0: return genT<float>(rng, a);
    case 1: case 2: return genT<double>(rng, a);
    default: return rng.coin() ? genT<long double>(rng, a) : genT<double>(rng, a);
  }
}

int main(int argc, char** argv) {
  int rc = dv::run(argc, argv, gen, exec);
  // observed maxima of the tolerance ratios (development aid; stderr only)
  if (std::getenv("C08_MAXIMA"))
    for (auto& kv : maxima()) std::fprintf(stderr, "max %-24s %.3g\n", kv.first.c_str(), kv.second);
  return rc;
}
