// C11 correspondence harness, second translation unit: the release configuration of the headers.
//
// NDEBUG is defined while the dune-common headers are read (assert() expands to nothing; sllist.hh drops the variable
// it only needs for its assertions), DUNE_CHECK_BOUNDS and CHECK_RESERVEDVECTOR are not defined.  This is the
// configuration users build with -DNDEBUG; code that only works because an assert()'s argument is evaluated, or
// behind `#ifndef NDEBUG`, shows here and nowhere else.  To keep the two sets of inline functions apart (they would be
// the same entities otherwise: one definition rule) the whole library lives in another namespace here: every token
// `Dune` is renamed; exceptions.cc is included at the end to define the renamed exception classes.
#ifndef NDEBUG
#define NDEBUG 1
#endif
#undef DUNE_CHECK_BOUNDS
#undef CHECK_RESERVEDVECTOR
#define Dune DuneRel
#include <config.h>

#include <cassert>

#include <dune/common/arraylist.hh>
#include <dune/common/bitsetvector.hh>
#include <dune/common/exceptions.hh>
#include <dune/common/lru.hh>
#include <dune/common/reservedvector.hh>
#include <dune/common/sllist.hh>

#include "c11_containers.hh"

dv::Result c11_exec_rel(const std::string& line) { return execContainers(line); }

// the renamed exception classes need their out-of-line members
#include <dune/common/exceptions.cc>
