// C02 correspondence harness: DenseMatrix::solve / invert / determinant (FieldMatrix, DynamicMatrix),
// DiagonalMatrix::solve / invert / determinant and FMatrixHelp::invertMatrix[_retTransposed]
// vs. the Lean model, over
//   gf   the prime field GF(32003) (number class `Fp` plugged into the dune matrices; exact),
//   f64 / ld / c64   double, long double, std::complex<double> (bounded condition number; residual test).
//
// op line:  <field> <op> <rep> <n> <piv> <A> [<b>]
//   op  = solve | invert | det | fmhinv | fmhinvT      rep = fm | dm | diag      piv = 1 | 0 | d
//   (d = the member function is called WITHOUT the optional doPivoting argument; the property then demands the
//   behaviour of pivoting-on.)  n = 1..7 for fm / diag, 1..10 for dm.
//   <A> row-major (diag: the n diagonal entries); gf: residues, floats: binary64 bit patterns in decimal
//   (c64: re,im pairs; ld: the double values are widened to long double).
//   Round three:
//   field = <base>[@ka@kb][%L]
//     base  gf | f64 | ld | c64 | v64 (= LoopSIMD<double,4>: <A> and <b> list the 4 lanes one after the other,
//           every lane is a matrix / right-hand side of its own; rep = fm | dm only)
//     @ka@kb (ld only): A is multiplied by 2^ka and b by 2^kb after widening (exact), so that long double operands
//           outside the exponent range of double can be written;  |ka|, |kb| <= 16000
//     %L    FMatrixPrecision<>::set_absolute_limit is called with 10^L (L integer, -320..308) or 0 (L = z) around the
//           call (double, long double and float instances).  In the default build neither the closed forms nor the LU
//           path may depend on that setting: the property is stated for every nonsingular matrix.
//   Floating-point matrices that have a zero row, a zero column or two identical rows are exactly singular, and
//   the elimination meets an exact zero pivot whatever the rounding: for n >= 4 the property demands FMatrixError /
//   a determinant that is exactly 0 (both pivoting modes); everything else the float generators produce has a
//   bounded condition number.
//
// Independent oracle (never uses the code under test nor Fp's own division):
//   gf:  determinant by Laplace expansion over column subsets with plain integer arithmetic mod p, leading
//        principal minors the same way; solution checked by A x == b, inverse by A B == I and B A == I;
//        singular A with n >= 4 must give FMatrixError (solve, invert) / 0 (determinant);
//        A and b are compared before / after solve and determinant.
//   floats: residuals against n^2 * eps bounds, determinant against a Laplace expansion in higher precision.
#include <config.h>

#include <algorithm>
#include <cmath>
#include <complex>
#include <cstdio>
#include <dune/common/diagonalmatrix.hh>
#include <dune/common/dynmatrix.hh>
#include <dune/common/dynvector.hh>
#include <dune/common/exceptions.hh>
#include <dune/common/fmatrix.hh>
#include <dune/common/ftraits.hh>
#include <dune/common/fvector.hh>
#include <dune/common/precision.hh>
#include <dune/common/simd/loop.hh>
#include <dune/common/simd/simd.hh>
#include <dune/common/typetraits.hh>
#include <limits>

#include "hcommon.hh"

using namespace dv;

// ------------------------------------------------------------------------------------------------
// GF(32003) number class
// ------------------------------------------------------------------------------------------------
static constexpr long P = 32003;

struct Fp {
  long v = 0;
  Fp() = default;
  Fp(long x) : v(((x % P) + P) % P) {}
  Fp(int x) : Fp((long)x) {}
  Fp(unsigned long x) : v((long)(x % (unsigned long)P)) {}
  Fp(double x) : Fp((long)x) {}
  static Fp inv(Fp a) {  // Fermat; inv(0) = 0
    long r = 1, b = a.v, e = P - 2;
    while (e) {
      if (e & 1) r = r * b % P;
      b = b * b % P;
      e >>= 1;
    }
    return Fp(r);
  }
  friend Fp operator+(Fp a, Fp b) { return Fp(a.v + b.v); }
  friend Fp operator-(Fp a, Fp b) { return Fp(a.v - b.v); }
  friend Fp operator*(Fp a, Fp b) { return Fp(a.v * b.v); }
  friend Fp operator/(Fp a, Fp b) { return a * inv(b); }
  friend Fp operator-(Fp a) { return Fp(-a.v); }
  Fp& operator+=(Fp b) { return *this = *this + b; }
  Fp& operator-=(Fp b) { return *this = *this - b; }
  Fp& operator*=(Fp b) { return *this = *this * b; }
  Fp& operator/=(Fp b) { return *this = *this / b; }
  friend bool operator==(Fp a, Fp b) { return a.v == b.v; }
  friend bool operator!=(Fp a, Fp b) { return a.v != b.v; }
  friend bool operator<(Fp a, Fp b) { return a.v < b.v; }
  friend bool operator>(Fp a, Fp b) { return a.v > b.v; }
  friend bool operator<=(Fp a, Fp b) { return a.v <= b.v; }
  friend bool operator>=(Fp a, Fp b) { return a.v >= b.v; }
  // magnitude of the symmetric representative: x and p-x tie
  friend Fp abs(Fp a) { return Fp(std::min(a.v, P - a.v)); }
  friend std::ostream& operator<<(std::ostream& o, Fp a) { return o << a.v; }
};
namespace Dune {
template <> struct FieldTraits<Fp> {
  typedef Fp field_type;
  typedef Fp real_type;
};
template <> struct IsNumber<Fp> : std::true_type {};
}  // namespace Dune

// ------------------------------------------------------------------------------------------------
// calling the real code
// ------------------------------------------------------------------------------------------------
template <class K> struct Raw {
  bool threw = false;          // FMatrixError
  std::string other;           // any other exception: its kind
  std::vector<K> out;          // x (solve) / inverse row-major (invert, fmhinv: not transposed back)
  K det{};                     // det / return value of fmhinv
  bool inputsChanged = false;  // A or b differ after solve / determinant
};

template <class M, class K> void fill(M& A, int n, const std::vector<K>& a) {
  for (int i = 0; i < n; ++i)
    for (int j = 0; j < n; ++j) A[i][j] = a[i * n + j];
}
template <class M, class K> bool sameMat(const M& A, int n, const std::vector<K>& a) {
  for (int i = 0; i < n; ++i)
    for (int j = 0; j < n; ++j)
      if (!(A[i][j] == a[i * n + j])) return false;
  return true;
}

// round four: set by execLine for the current case
//   g_mixed: `solve` is called with x and b of the *other* vector family (V1 != V2 in DenseMatrix::solve:
//            FieldMatrix with x a DynamicVector and b a FieldVector, DynamicMatrix with x a FieldVector and b a
//            DynamicVector; DiagonalMatrix::solve<V> with DynamicVector)
//   g_twice: `invert` is applied twice to the same object (second use of the object)
static bool g_mixed = false, g_twice = false;

// piv: 1 / 0 = explicit argument, 2 = call without the optional argument
template <class K, class M, class VX, class VB>
Raw<K> runDense(M& A, VX& x, VB& bv, const std::string& op, int n, int piv, const std::vector<K>& a,
                const std::vector<K>& b) {
  Raw<K> r;
  fill(A, n, a);
  try {
    if (op == "solve") {
      // x starts with garbage: the result must not depend on what the caller left in x
      for (int i = 0; i < n; ++i) { bv[i] = b[i]; x[i] = K(double(1000 + 7 * i)); }
      const M& cA = A;
      const VB& cb = bv;
      try {
        if (piv == 2) cA.solve(x, cb); else cA.solve(x, cb, piv == 1);
        for (int i = 0; i < n; ++i) r.out.push_back(x[i]);
      } catch (Dune::FMatrixError&) {
        r.threw = true;
      }
      bool sb = true;
      for (int i = 0; i < n; ++i) sb = sb && (bv[i] == b[i]);
      r.inputsChanged = !sameMat(A, n, a) || !sb;
    } else if (op == "det") {
      const M& cA = A;
      try {
        r.det = piv == 2 ? cA.determinant() : cA.determinant(piv == 1);
      } catch (Dune::FMatrixError&) {
        r.threw = true;
      }
      r.inputsChanged = !sameMat(A, n, a);
    } else if (op == "invert") {
      try {
        if (piv == 2) A.invert(); else A.invert(piv == 1);
        if (g_twice) { if (piv == 2) A.invert(); else A.invert(piv == 1); }
        for (int i = 0; i < n; ++i)
          for (int j = 0; j < n; ++j) r.out.push_back(A[i][j]);
      } catch (Dune::FMatrixError&) {
        r.threw = true;
      }
    } else
      r.other = "bad-op";
  } catch (Dune::Exception& e) {
    r.other = "ERR:DuneException";
  } catch (std::exception& e) {
    r.other = "ERR:std";
  }
  return r;
}

template <class K, int n> Raw<K> runFM(const std::string& op, int piv, const std::vector<K>& a, const std::vector<K>& b) {
  Dune::FieldMatrix<K, n, n> A;
  Dune::FieldVector<K, n> x, bv;
  if (op == "fmhinv" || op == "fmhinvT") {
    Raw<K> r;
    if constexpr (n <= 3) {
      fill(A, n, a);
      Dune::FieldMatrix<K, n, n> inv(K(0));
      const auto& cA = A;
      r.det = (op == "fmhinv") ? Dune::FMatrixHelp::invertMatrix(cA, inv)
                               : Dune::FMatrixHelp::invertMatrix_retTransposed(cA, inv);
      for (int i = 0; i < n; ++i)
        for (int j = 0; j < n; ++j) r.out.push_back(inv[i][j]);
      r.inputsChanged = !sameMat(A, n, a);
    } else
      r.other = "bad-op";
    return r;
  }
  if (g_mixed && op == "solve") {
    Dune::DynamicVector<K> xd(n, K(0));
    return runDense<K>(A, xd, bv, op, n, piv, a, b);
  }
  return runDense<K>(A, x, bv, op, n, piv, a, b);
}

template <class K> Raw<K> runDM(const std::string& op, int n, int piv, const std::vector<K>& a, const std::vector<K>& b) {
  Dune::DynamicMatrix<K> A(n, n, K(0));
  Dune::DynamicVector<K> x(n, K(0)), bv(n, K(0));
  return runDense<K>(A, x, bv, op, n, piv, a, b);
}

// DynamicMatrix::solve with x a FieldVector and b a DynamicVector
template <class K, int n> Raw<K> runDMx(const std::string& op, int piv, const std::vector<K>& a, const std::vector<K>& b) {
  Dune::DynamicMatrix<K> A(n, n, K(0));
  Dune::FieldVector<K, n> x(K(0));
  Dune::DynamicVector<K> bv(n, K(0));
  return runDense<K>(A, x, bv, op, n, piv, a, b);
}

template <class K, int n> Raw<K> runDiag(const std::string& op, const std::vector<K>& a, const std::vector<K>& b) {
  Raw<K> r;
  Dune::DiagonalMatrix<K, n> D;
  for (int i = 0; i < n; ++i) D.diagonal(i) = a[i];
  auto same = [&] {
    for (int i = 0; i < n; ++i)
      if (!(D.diagonal(i) == a[i])) return false;
    return true;
  };
  try {
    if (op == "solve" && g_mixed) {
      Dune::DynamicVector<K> x(n, K(double(1000 + n))), bv(n, K(0));
      for (int i = 0; i < n; ++i) bv[i] = b[i];
      const auto& cD = D;
      const auto& cb = bv;
      cD.solve(x, cb);
      for (int i = 0; i < n; ++i) r.out.push_back(x[i]);
      bool sb = true;
      for (int i = 0; i < n; ++i) sb = sb && (bv[i] == b[i]);
      r.inputsChanged = !same() || !sb;
    } else if (op == "solve") {
      Dune::FieldVector<K, n> x(K(0)), bv;
      for (int i = 0; i < n; ++i) bv[i] = b[i];
      const auto& cD = D;
      const auto& cb = bv;
      cD.solve(x, cb);
      for (int i = 0; i < n; ++i) r.out.push_back(x[i]);
      bool sb = true;
      for (int i = 0; i < n; ++i) sb = sb && (bv[i] == b[i]);
      r.inputsChanged = !same() || !sb;
    } else if (op == "det") {
      const auto& cD = D;
      r.det = cD.determinant();
      r.inputsChanged = !same();
    } else if (op == "invert") {
      D.invert();
      if (g_twice) D.invert();
      for (int i = 0; i < n; ++i) r.out.push_back(D.diagonal(i));
    } else
      r.other = "bad-op";
  } catch (Dune::FMatrixError&) {
    r.threw = true;
  } catch (Dune::Exception& e) {
    r.other = "ERR:DuneException";
  } catch (std::exception& e) {
    r.other = "ERR:std";
  }
  return r;
}

template <class K>
Raw<K> runAny(const std::string& op, const std::string& rep, int n, int piv, const std::vector<K>& a,
              const std::vector<K>& b) {
  if (rep == "dm" && g_mixed && op == "solve") {
    switch (n) {
      case 1: return runDMx<K, 1>(op, piv, a, b);
      case 2: return runDMx<K, 2>(op, piv, a, b);
      case 3: return runDMx<K, 3>(op, piv, a, b);
      case 4: return runDMx<K, 4>(op, piv, a, b);
      case 5: return runDMx<K, 5>(op, piv, a, b);
      case 6: return runDMx<K, 6>(op, piv, a, b);
      case 7: return runDMx<K, 7>(op, piv, a, b);
    }
    Raw<K> r;
    r.other = "bad-op";
    return r;
  }
  if (rep == "dm") return runDM<K>(op, n, piv, a, b);
  if (rep == "fm") {
    switch (n) {
      case 1: return runFM<K, 1>(op, piv, a, b);
      case 2: return runFM<K, 2>(op, piv, a, b);
      case 3: return runFM<K, 3>(op, piv, a, b);
      case 4: return runFM<K, 4>(op, piv, a, b);
      case 5: return runFM<K, 5>(op, piv, a, b);
      case 6: return runFM<K, 6>(op, piv, a, b);
      case 7: return runFM<K, 7>(op, piv, a, b);
    }
  }
  if (rep == "diag") {
    switch (n) {
      case 1: return runDiag<K, 1>(op, a, b);
      case 2: return runDiag<K, 2>(op, a, b);
      case 3: return runDiag<K, 3>(op, a, b);
      case 4: return runDiag<K, 4>(op, a, b);
      case 5: return runDiag<K, 5>(op, a, b);
      case 6: return runDiag<K, 6>(op, a, b);
      case 7: return runDiag<K, 7>(op, a, b);
    }
  }
  Raw<K> r;
  r.other = "bad-op";
  return r;
}

// ------------------------------------------------------------------------------------------------
// GF(p) oracle: plain integer arithmetic, Laplace expansion over column subsets
// ------------------------------------------------------------------------------------------------
static long modp(long x) { return ((x % P) + P) % P; }

// determinant of the leading m x m block of the n x n row-major matrix a
static long laplaceMod(const std::vector<long>& a, int n, int m) {
  // D[mask] = det of rows 0..popcount(mask)-1 restricted to the columns in mask
  std::vector<long> D(1u << m, 0);
  D[0] = 1;
  for (unsigned mask = 1; mask < (1u << m); ++mask) {
    int r = __builtin_popcount(mask) - 1;  // the last row of this minor
    long s = 0;
    int pos = 0;  // position of column c among the columns of mask
    for (int c = 0; c < m; ++c) {
      if (!(mask & (1u << c))) continue;
      // expand along row r: sign (-1)^(r+pos)
      long t = a[r * n + c] * D[mask & ~(1u << c)] % P;
      if ((r + pos) & 1) s -= t; else s += t;
      ++pos;
    }
    D[mask] = modp(s);
  }
  return D[(1u << m) - 1];
}

static std::string listOf(const std::vector<long>& v) { return listStr(v); }

static void shadowStats(const std::vector<long>& full, int n, bool piv, const std::string& op);

static Result execGF(const std::string& op, const std::string& rep, int n, int pivArg, const std::vector<long>& al,
                     const std::vector<long>& bl) {
  Result res;
  std::vector<Fp> a, b;
  for (long x : al) a.push_back(Fp(x));
  for (long x : bl) b.push_back(Fp(x));
  Raw<Fp> r = runAny<Fp>(op, rep, n, pivArg, a, b);
  // what the property demands: a call without the optional argument must behave like pivoting-on
  const bool piv = pivArg != 0;
  if (r.other == "bad-op") { res.impl = "bad-op"; res.oracle = "FAIL harness cannot execute this op line"; return res; }

  // full matrix for the oracle
  std::vector<long> full(n * n, 0);
  if (rep == "diag") for (int i = 0; i < n; ++i) full[i * n + i] = al[i];
  else full = al;
  long det = laplaceMod(full, n, n);
  bool singular = det == 0;
  bool minorsOk = true;  // unpivoted elimination defined: all leading principal minors of order 1..n-1 nonzero
  for (int m = 1; m < n; ++m) minorsOk = minorsOk && laplaceMod(full, n, m) != 0;

  bool unspecified;
  if (rep == "diag") unspecified = singular && op != "det";
  else if (n >= 1 && n <= 3) unspecified = singular && op != "det";
  else unspecified = !singular && !piv && !minorsOk;
  stat(std::string("gf_") + (singular ? "singular" : "regular") + (n >= 1 && n <= 3 ? "_closed" : "_lu"));
  if (unspecified) stat("gf_unspecified");
  if (!singular && !minorsOk && n >= 4 && rep != "diag") stat("gf_needs_pivoting");
  if (rep != "diag" && n >= 4) shadowStats(full, n, piv, op);

  auto fail = [&](const std::string& m) { if (res.oracle == "ok" || res.oracle == "ok trivial") res.oracle = "FAIL " + m; };
  if (!r.other.empty()) { res.impl = r.other; fail("unexpected exception kind " + r.other); return res; }
  if (r.inputsChanged) fail("A or b modified by " + op);

  if (unspecified) {
    res.impl = "unspecified";
    if (res.oracle == "ok") res.oracle = "ok trivial";
    return res;
  }
  std::vector<long> out;
  for (Fp x : r.out) out.push_back(x.v);

  if (op == "det") {
    if (r.threw) { res.impl = "ERR:FMatrix"; fail("determinant threw"); return res; }
    res.impl = std::to_string(r.det.v);
    if (r.det.v != det) fail("determinant " + std::to_string(r.det.v) + " expected " + std::to_string(det));
    return res;
  }
  bool mustThrow = singular && n >= 4 && rep != "diag";
  if (r.threw) {
    res.impl = "ERR:FMatrix";
    if (!mustThrow) fail("FMatrixError for a matrix with determinant " + std::to_string(det));
    return res;
  }
  if (g_twice) {
    // A.invert(); A.invert();  must give A back (nonsingular) or have reported FMatrixError (singular, n >= 4)
    res.impl = listOf(out);
    if (mustThrow) { fail("invert (twice) returned numbers for a singular matrix"); return res; }
    for (size_t t = 0; t < al.size() && t < out.size(); ++t)
      if (out[t] != al[t]) { fail("A.invert(); A.invert(); does not restore A (entry " + std::to_string(t) + ")"); break; }
    if (out.size() != al.size()) fail("A.invert(); A.invert(); returned a matrix of another size");
    return res;
  }
  if (op == "solve") {
    res.impl = listOf(out);
    if (mustThrow) { fail("solve returned numbers for a singular matrix"); return res; }
    for (int i = 0; i < n; ++i) {
      long s = 0;
      for (int j = 0; j < n; ++j) s = (s + full[i * n + j] * out[j]) % P;
      if (s != bl[i]) { fail("A x != b in row " + std::to_string(i)); break; }
    }
    return res;
  }
  // invert / fmhinv / fmhinvT
  std::vector<long> B = out;
  if (rep == "diag") {
    B.assign(n * n, 0);
    for (int i = 0; i < n; ++i) B[i * n + i] = out[i];
  }
  if (op == "fmhinvT") {
    std::vector<long> T(n * n);
    for (int i = 0; i < n; ++i) for (int j = 0; j < n; ++j) T[i * n + j] = B[j * n + i];
    B = T;
  }
  if (op == "fmhinv" || op == "fmhinvT") {
    res.impl = std::to_string(r.det.v) + " " + listOf(out);
    if (r.det.v != det) fail("returned determinant " + std::to_string(r.det.v) + " expected " + std::to_string(det));
  } else
    res.impl = listOf(out);
  if (mustThrow) { fail("invert returned numbers for a singular matrix"); return res; }
  for (int i = 0; i < n && res.oracle.rfind("FAIL", 0) != 0; ++i)
    for (int j = 0; j < n; ++j) {
      long s = 0, t = 0;
      for (int k = 0; k < n; ++k) {
        s = (s + full[i * n + k] * B[k * n + j]) % P;
        t = (t + B[i * n + k] * full[k * n + j]) % P;
      }
      long e = i == j ? 1 : 0;
      if (s != e) { fail("A*B != I at " + std::to_string(i) + "," + std::to_string(j)); break; }
      if (t != e) { fail("B*A != I at " + std::to_string(i) + "," + std::to_string(j)); break; }
    }
  return res;
}

// STATISTICS ONLY (never used for a verdict): a plain elimination mod p that mirrors the pivot rule of the code
// (first maximum of min(v, p-v)) to record which pivot patterns the generated inputs exercise.
static void shadowStats(const std::vector<long>& full, int n, bool piv, const std::string& op) {
  std::vector<long> A = full;
  auto mag = [](long v) { return std::min(v, P - v); };
  auto inv = [](long a) { long r = 1, b = a, e = P - 2; while (e) { if (e & 1) r = r * b % P; b = b * b % P; e >>= 1; } return r; };
  int swaps = 0, failStep = -1;
  bool tie = false;
  std::vector<int> pivot(n);
  for (int i = 0; i < n; ++i) {
    int imax = i;
    if (piv) {
      long pm = mag(A[i * n + i]);
      for (int k = i + 1; k < n; ++k) {
        if (mag(A[k * n + i]) > pm) { pm = mag(A[k * n + i]); imax = k; }
        else if (pm != 0 && mag(A[k * n + i]) == pm) tie = true;
      }
      if (imax != i) { ++swaps; for (int j = 0; j < n; ++j) std::swap(A[i * n + j], A[imax * n + j]); }
    }
    pivot[i] = imax;
    if (A[i * n + i] == 0) { failStep = i; break; }
    long d = inv(A[i * n + i]);
    for (int k = i + 1; k < n; ++k) {
      long f = A[k * n + i] * d % P;
      for (int j = i; j < n; ++j) A[k * n + j] = modp(A[k * n + j] - f * A[i * n + j]);
    }
  }
  stat("lu_swaps_" + std::string(swaps >= 4 ? "4plus" : std::to_string(swaps)));
  if (swaps >= 2 && swaps % 2 == 0 && failStep < 0 && op == "det") stat("lu_det_even_swaps");
  if (tie) stat("lu_pivot_tie");
  if (failStep >= 0) stat(failStep == n - 1 ? "lu_zero_pivot_last_step" : failStep == 0 ? "lu_zero_pivot_first_step" : "lu_zero_pivot_middle_step");
  if (failStep < 0 && op == "invert" && swaps >= 2) {
    // does the order of the column un-permutation matter?  apply the swaps (i, pivot[i]) descending and ascending
    std::vector<int> d(n), u(n);
    for (int i = 0; i < n; ++i) d[i] = u[i] = i;
    for (int i = n - 1; i >= 0; --i) std::swap(d[i], d[pivot[i]]);
    for (int i = 0; i < n; ++i) std::swap(u[i], u[pivot[i]]);
    if (d != u) stat("lu_unpermute_order_matters");
  }
}

// ------------------------------------------------------------------------------------------------
// floating point oracle
// ------------------------------------------------------------------------------------------------
template <class K> struct Hi;  // higher-precision companion type
template <> struct Hi<double> { using type = long double; };
template <> struct Hi<long double> { using type = __float128; };
template <> struct Hi<std::complex<double>> { using type = std::complex<long double>; };

static long double magOf(double x) { return std::fabs((long double)x); }
static long double magOf(long double x) { return std::fabs(x); }
static long double magOf(__float128 x) { return (long double)(x < 0 ? -x : x); }
static long double magOf(const std::complex<double>& x) { return std::fabs((long double)x.real()) + std::fabs((long double)x.imag()); }
static long double magOf(const std::complex<long double>& x) { return std::fabs(x.real()) + std::fabs(x.imag()); }

template <class H, class K> H widen(const K& x) { return H(x); }
template <> std::complex<long double> widen<std::complex<long double>, std::complex<double>>(const std::complex<double>& x) {
  return std::complex<long double>(x.real(), x.imag());
}

template <class H> H laplaceHi(const std::vector<H>& a, int n) {
  std::vector<H> D(1u << n, H(0));
  D[0] = H(1);
  for (unsigned mask = 1; mask < (1u << n); ++mask) {
    int r = __builtin_popcount(mask) - 1;
    H s = H(0);
    int pos = 0;
    for (int c = 0; c < n; ++c) {
      if (!(mask & (1u << c))) continue;
      H t = a[r * n + c] * D[mask & ~(1u << c)];
      if ((r + pos) & 1) s = s - t; else s = s + t;
      ++pos;
    }
    D[mask] = s;
  }
  return D[(1u << n) - 1];
}

template <class K> long double epsOf() {
  using R = typename Dune::FieldTraits<K>::real_type;
  return std::numeric_limits<R>::epsilon();
}

// exactly singular whatever the rounding: a zero row, a zero column, or (real types only: x/x == 1 exactly, which
// the complex division does not guarantee) two identical rows.  The elimination then meets an exact zero pivot in
// both pivoting modes (a zero row/column stays zero under row exchanges and updates; two identical rows stay
// identical until one of them is the pivot row, the other is then eliminated with the factor 1 and becomes zero).
template <class K> static bool isZeroK(const K& x) { return x == K(0); }
template <class K> static bool structSingular(const std::vector<K>& full, int n, bool allowDupRows) {
  for (int i = 0; i < n; ++i) {
    bool zr = true, zc = true;
    for (int j = 0; j < n; ++j) { zr = zr && isZeroK(full[i * n + j]); zc = zc && isZeroK(full[j * n + i]); }
    if (zr || zc) return true;
  }
  if (allowDupRows)
    for (int i = 0; i < n; ++i)
      for (int k = i + 1; k < n; ++k) {
        bool same = true;
        for (int j = 0; j < n; ++j) same = same && (full[i * n + j] == full[k * n + j]);
        if (same) return true;
      }
  return false;
}
template <class K> struct IsCx : std::false_type {};
template <class T> struct IsCx<std::complex<T>> : std::true_type {};

// verdict on one floating-point result (`a`, `b` are the operands the code was called with)
template <class K>
static Result judgeFlt(const std::string& op, const std::string& rep, int n, const std::vector<K>& a,
                       const std::vector<K>& b, const Raw<K>& r) {
  Result res;
  if (r.other == "bad-op") { res.impl = "bad-op"; res.oracle = "FAIL harness cannot execute this op line"; return res; }
  auto fail = [&](const std::string& m) { if (res.oracle == "ok" || res.oracle == "ok trivial") res.oracle = "FAIL " + m; };
  if (!r.other.empty()) { res.impl = r.other; fail("unexpected exception kind " + r.other); return res; }
  if (r.inputsChanged) fail("A or b modified by " + op);
  std::vector<K> full(n * n, K(0));
  if (rep == "diag") for (int i = 0; i < n; ++i) full[i * n + i] = a[i];
  else full = a;
  const bool sing = structSingular(full, n, !IsCx<K>::value);
  if (sing) {
    stat("flt_exactly_singular");
    if (rep == "diag" || n <= 3) {  // the property fixes nothing
      res.impl = "unspecified";
      if (res.oracle == "ok") res.oracle = "ok trivial";
      return res;
    }
    if (op == "det") {
      if (r.threw) { res.impl = "ERR:FMatrix"; fail("determinant threw"); return res; }
      bool z = isZeroK(r.det);
      res.impl = z ? "resid-ok" : "resid-bad";
      if (!z) fail("determinant of an exactly singular matrix is not 0");
      return res;
    }
    res.impl = r.threw ? "ERR:FMatrix" : "resid-bad";
    if (!r.threw) fail(op + " returned numbers for an exactly singular matrix");
    return res;
  }
  if (r.threw) { res.impl = "ERR:FMatrix"; fail("FMatrixError for a well-conditioned matrix"); return res; }
  const long double tol = 100.0L * n * n * epsOf<K>();
  auto normInf = [&](const std::vector<K>& m) {
    long double best = 0;
    for (int i = 0; i < n; ++i) {
      long double s = 0;
      for (int j = 0; j < n; ++j) s += magOf(m[i * n + j]);
      best = std::max(best, s);
    }
    return best;
  };
  auto showLd = [](long double x) { char buf[64]; std::snprintf(buf, sizeof buf, "%.3Le", x); return std::string(buf); };
  bool good = true;
  auto detCheck = [&](K d) {
    using H = typename Hi<K>::type;
    std::vector<H> ah;
    for (auto& x : full) ah.push_back(widen<H>(x));
    H ref = laplaceHi<H>(ah, n);
    long double had = 1;
    for (int i = 0; i < n; ++i) {
      long double s = 0;
      for (int j = 0; j < n; ++j) s += magOf(full[i * n + j]);
      had *= s;
    }
    long double err = magOf(widen<H>(d) - ref);
    if (!(err <= tol * had)) { good = false; fail("determinant off by " + showLd(err) + " (scale " + showLd(had) + ")"); }
  };
  auto invCheck = [&](std::vector<K> B) {
    if (rep == "diag") {
      std::vector<K> F(n * n, K(0));
      for (int i = 0; i < n; ++i) F[i * n + i] = B[i];
      B = F;
    }
    long double bound = tol * normInf(full) * normInf(B);
    for (int i = 0; i < n; ++i)
      for (int j = 0; j < n; ++j) {
        K s = K(0), t = K(0);
        for (int k = 0; k < n; ++k) { s += full[i * n + k] * B[k * n + j]; t += B[i * n + k] * full[k * n + j]; }
        K e = i == j ? K(1) : K(0);
        long double d1 = magOf(K(s - e)), d2 = magOf(K(t - e));
        if (!(d1 <= bound) || !(d2 <= bound)) {
          good = false;
          fail("A*B or B*A deviates from I by " + showLd(std::max(d1, d2)) + " (bound " + showLd(bound) + ")");
          return;
        }
      }
  };
  if (op == "solve") {
    long double rmax = 0, xn = 0, bn = 0;
    for (int i = 0; i < n; ++i) {
      K s = K(0);
      for (int j = 0; j < n; ++j) s += full[i * n + j] * r.out[j];
      rmax = std::max(rmax, magOf(K(s - b[i])));
      xn = std::max(xn, magOf(r.out[i]));
      bn = std::max(bn, magOf(b[i]));
    }
    long double bound = tol * (normInf(full) * xn + bn);
    if (!(rmax <= bound)) { good = false; fail("residual " + showLd(rmax) + " exceeds " + showLd(bound)); }
  } else if (op == "det") {
    detCheck(r.det);
  } else if (op == "invert") {
    invCheck(r.out);
  } else {  // fmhinv / fmhinvT
    detCheck(r.det);
    std::vector<K> B = r.out;
    if (op == "fmhinvT") for (int i = 0; i < n; ++i) for (int j = 0; j < n; ++j) B[i * n + j] = r.out[j * n + i];
    invCheck(B);
  }
  res.impl = good ? "resid-ok" : "resid-bad";
  return res;
}

template <class K>
static Result execFlt(const std::string& op, const std::string& rep, int n, int piv, const std::vector<K>& a,
                      const std::vector<K>& b) {
  Raw<K> r = runAny<K>(op, rep, n, piv, a, b);
  return judgeFlt<K>(op, rep, n, a, b, r);
}

// ------------------------------------------------------------------------------------------------
// SIMD field type LoopSIMD<double,4>: every lane is a matrix of its own (the lanes generally need different pivot
// rows; some may be exactly singular).  The verdict is the scalar float verdict lane by lane.
// ------------------------------------------------------------------------------------------------
static constexpr int LANES = 4;
using VD = Dune::LoopSIMD<double, LANES>;

struct RawV {
  bool threw = false;
  std::string other;
  std::vector<VD> out;
  VD det{};
  bool inputsChanged = false;
};
static bool sameV(const VD& x, const VD& y) {
  for (int l = 0; l < LANES; ++l) if (!(x[l] == y[l])) return false;
  return true;
}
template <class M, class V>
RawV runDenseV(M& A, V& x, V& bv, const std::string& op, int n, int piv, const std::vector<VD>& a, const std::vector<VD>& b) {
  RawV r;
  for (int i = 0; i < n; ++i) for (int j = 0; j < n; ++j) A[i][j] = a[i * n + j];
  auto sameA = [&] {
    for (int i = 0; i < n; ++i) for (int j = 0; j < n; ++j) if (!sameV(A[i][j], a[i * n + j])) return false;
    return true;
  };
  try {
    if (op == "solve") {
      for (int i = 0; i < n; ++i) { bv[i] = b[i]; x[i] = VD(double(1000 + 7 * i)); }
      const M& cA = A;
      const V& cb = bv;
      try {
        if (piv == 2) cA.solve(x, cb); else cA.solve(x, cb, piv == 1);
        for (int i = 0; i < n; ++i) r.out.push_back(x[i]);
      } catch (Dune::FMatrixError&) { r.threw = true; }
      bool sb = true;
      for (int i = 0; i < n; ++i) sb = sb && sameV(bv[i], b[i]);
      r.inputsChanged = !sameA() || !sb;
    } else if (op == "det") {
      const M& cA = A;
      try { r.det = piv == 2 ? cA.determinant() : cA.determinant(piv == 1); } catch (Dune::FMatrixError&) { r.threw = true; }
      r.inputsChanged = !sameA();
    } else if (op == "invert") {
      try {
        if (piv == 2) A.invert(); else A.invert(piv == 1);
        for (int i = 0; i < n; ++i) for (int j = 0; j < n; ++j) r.out.push_back(A[i][j]);
      } catch (Dune::FMatrixError&) { r.threw = true; }
    } else
      r.other = "bad-op";
  } catch (Dune::Exception& e) {
    r.other = "ERR:DuneException";
  } catch (std::exception& e) {
    r.other = "ERR:std";
  }
  return r;
}
template <int n> RawV runFMV(const std::string& op, int piv, const std::vector<VD>& a, const std::vector<VD>& b) {
  Dune::FieldMatrix<VD, n, n> A;
  Dune::FieldVector<VD, n> x, bv;
  return runDenseV(A, x, bv, op, n, piv, a, b);
}
static RawV runAnyV(const std::string& op, const std::string& rep, int n, int piv, const std::vector<VD>& a, const std::vector<VD>& b) {
  if (rep == "dm") {
    Dune::DynamicMatrix<VD> A(n, n, VD(0.0));
    Dune::DynamicVector<VD> x(n, VD(0.0)), bv(n, VD(0.0));
    return runDenseV(A, x, bv, op, n, piv, a, b);
  }
  if (rep == "fm") {
    switch (n) {
      case 1: return runFMV<1>(op, piv, a, b);
      case 2: return runFMV<2>(op, piv, a, b);
      case 3: return runFMV<3>(op, piv, a, b);
      case 4: return runFMV<4>(op, piv, a, b);
      case 5: return runFMV<5>(op, piv, a, b);
      case 6: return runFMV<6>(op, piv, a, b);
      case 7: return runFMV<7>(op, piv, a, b);
    }
  }
  RawV r;
  r.other = "bad-op";
  return r;
}

// a, b: lane-major (lane 0's matrix, lane 1's matrix, ...)
static Result execSimd(const std::string& op, const std::string& rep, int n, int piv, const std::vector<double>& a,
                       const std::vector<double>& b) {
  Result res;
  const bool needB = op == "solve";
  std::vector<VD> av(n * n), bv(needB ? n : 0);
  for (int l = 0; l < LANES; ++l) {
    for (int t = 0; t < n * n; ++t) av[t][l] = a[l * n * n + t];
    if (needB) for (int t = 0; t < n; ++t) bv[t][l] = b[l * n + t];
  }
  RawV r = runAnyV(op, rep, n, piv, av, bv);
  if (r.other == "bad-op") { res.impl = "bad-op"; res.oracle = "FAIL harness cannot execute this op line"; return res; }
  std::vector<std::vector<double>> la(LANES), lb(LANES);
  int nsing = 0, firstSing = -1;
  for (int l = 0; l < LANES; ++l) {
    la[l].assign(a.begin() + l * n * n, a.begin() + (l + 1) * n * n);
    if (needB) lb[l].assign(b.begin() + l * n, b.begin() + (l + 1) * n);
    if (structSingular(la[l], n, true)) { ++nsing; if (firstSing < 0) firstSing = l; }
  }
  stat(nsing == 0 ? "simd_all_lanes_regular" : nsing == LANES ? "simd_all_lanes_singular" : "simd_mixed_lanes");
  // solve / invert throw as a whole as soon as one lane is singular: judge the lanes against that
  if (op != "det" && n >= 4 && nsing > 0 && r.other.empty() && !r.inputsChanged) {
    res.impl = r.threw ? "ERR:FMatrix" : "resid-bad";
    if (!r.threw) res.oracle = "FAIL " + op + " returned numbers although lane " + std::to_string(firstSing) + " is exactly singular";
    return res;
  }
  bool allGood = true, anyUnspec = false;
  for (int l = 0; l < LANES; ++l) {
    Raw<double> rl;
    rl.threw = r.threw;
    rl.other = r.other;
    rl.inputsChanged = r.inputsChanged;
    for (auto& v : r.out) rl.out.push_back(v[l]);
    rl.det = r.det[l];
    Result one = judgeFlt<double>(op, rep, n, la[l], lb[l], rl);
    if (one.oracle.rfind("FAIL", 0) == 0) {
      if (res.oracle.rfind("FAIL", 0) != 0) res.oracle = "FAIL lane " + std::to_string(l) + ": " + one.oracle.substr(5);
    }
    if (one.impl == "unspecified") anyUnspec = true;
    else if (one.impl != "resid-ok") { allGood = false; if (one.impl != "resid-bad") { res.impl = one.impl; } }
  }
  if (!res.impl.empty()) return res;           // ERR:FMatrix / exception kind, same for all lanes
  if (anyUnspec) { res.impl = "unspecified"; if (res.oracle == "ok") res.oracle = "ok trivial"; return res; }
  res.impl = allGood ? "resid-ok" : "resid-bad";
  return res;
}

// ------------------------------------------------------------------------------------------------
// executor
// ------------------------------------------------------------------------------------------------
static double dblOfBits(long long bits) {
  uint64_t u = (uint64_t)bits;
  double d;
  std::memcpy(&d, &u, sizeof d);
  return d;
}
static unsigned long long bitsOfDbl(double d) {
  uint64_t u;
  std::memcpy(&u, &d, sizeof d);
  return u;
}
static std::vector<unsigned long long> parseUList(const std::string& s) {
  std::vector<unsigned long long> out;
  std::string t = s;
  if (!t.empty() && t.front() == '[') t = t.substr(1);
  if (!t.empty() && t.back() == ']') t.pop_back();
  if (t.empty()) return out;
  for (auto& w : split(t, ',')) out.push_back(std::stoull(w));
  return out;
}

// field token  <base>[@ka@kb][%L]
struct FieldTok {
  std::string base;
  bool scaled = false;
  long ka = 0, kb = 0;
  bool hasLimit = false;
  double limit = 0;
};
static bool parseSmallInt(const std::string& t, long& out) {  // -?[0-9]{1,5}
  size_t i = 0;
  if (!t.empty() && t[0] == '-') i = 1;
  if (t.size() - i < 1 || t.size() - i > 5) return false;
  for (size_t k = i; k < t.size(); ++k) if (t[k] < '0' || t[k] > '9') return false;
  out = std::atol(t.c_str());
  return true;
}
static bool parseFieldTok(const std::string& w, FieldTok& f) {
  std::string rest = w;
  size_t pc = rest.find('%');
  if (pc != std::string::npos) {
    std::string L = rest.substr(pc + 1);
    rest = rest.substr(0, pc);
    f.hasLimit = true;
    if (L == "z") f.limit = 0.0;
    else {
      long e;
      if (!parseSmallInt(L, e) || e < -320 || e > 308) return false;
      f.limit = std::pow(10.0, (double)e);
    }
  }
  auto parts = split(rest, '@');
  f.base = parts[0];
  if (parts.size() == 1) return true;
  if (parts.size() != 3 || f.base != "ld") return false;
  f.scaled = true;
  if (!parseSmallInt(parts[1], f.ka) || !parseSmallInt(parts[2], f.kb)) return false;
  if (std::labs(f.ka) > 16000 || std::labs(f.kb) > 16000) return false;
  return true;
}

// FMatrixPrecision<>::set_absolute_limit around the call (restored afterwards)
struct LimitGuard {
  double d;
  long double l;
  float f;
  bool on;
  LimitGuard(bool use, double v) : on(use) {
    d = Dune::FMatrixPrecision<double>::absolute_limit();
    l = Dune::FMatrixPrecision<long double>::absolute_limit();
    f = Dune::FMatrixPrecision<float>::absolute_limit();
    if (on) {
      Dune::FMatrixPrecision<double>::set_absolute_limit(v);
      Dune::FMatrixPrecision<long double>::set_absolute_limit((long double)v);
      Dune::FMatrixPrecision<float>::set_absolute_limit((float)v);
    }
  }
  ~LimitGuard() {
    Dune::FMatrixPrecision<double>::set_absolute_limit(d);
    Dune::FMatrixPrecision<long double>::set_absolute_limit(l);
    Dune::FMatrixPrecision<float>::set_absolute_limit(f);
  }
};

static void scaleStat(const char* what, long k) {
  long m = std::labs(k);
  const char* cls = m == 0 ? "0" : m <= 64 ? "1_64" : m <= 265 ? "65_265" : m <= 400 ? "266_400" : m <= 1000 ? "401_1000" : "1001_up";
  stat(std::string(what) + (k < 0 ? "_neg_" : k > 0 ? "_pos_" : "_") + cls);
}
// binary exponent of the largest entry (statistics: which magnitudes do the float operands have)
static void magStat(const std::vector<double>& a, long extra) {
  double m = 0;
  for (double x : a) m = std::max(m, std::fabs(x));
  if (m == 0 || !std::isfinite(m)) return;
  int e;
  std::frexp(m, &e);
  scaleStat("flt_A_exp2", (long)e + extra);
}

// ------------------------------------------------------------------------------------------------
// round five: the build WITH DUNE_FMatrix_WITH_CHECKING (second translation unit cxx_c02_ck.cc, scalar type
// std::complex<long double> which nothing else here instantiates).  By design that build rejects operands whose
// determinant is below FMatrixPrecision<>::absolute_limit() (1e-80) in magnitude -- and nothing else.
//   ck <solve|invert> <fm|dm> <n in 1..3> <k> [small integers a_ij, |a_ij| <= 9] [b_i]      operand = A * 2^k, b as given
// admissible: det A != 0 (exact, integers) and -180 <= k*n <= 600, i.e. |det(A 2^k)| between 2^-180 (far above the
// limit) and 2^613; every such operand is well-conditioned (cond <= a few hundred), so the call must return and the
// result must pass the residual test.  impl: ck-returns | ck-throws | ck-other.
// ------------------------------------------------------------------------------------------------
namespace c02ck {
using CK = std::complex<long double>;
int run(const std::string& op, const std::string& rep, int n, const std::vector<CK>& a, const std::vector<CK>& b,
        std::vector<CK>& out);
}
static long detSmall(const std::vector<long>& a, int n) {
  if (n == 1) return a[0];
  if (n == 2) return a[0] * a[3] - a[1] * a[2];
  return a[0] * (a[4] * a[8] - a[5] * a[7]) - a[1] * (a[3] * a[8] - a[5] * a[6]) + a[2] * (a[3] * a[7] - a[4] * a[6]);
}
static bool smallIntTok(const std::string& t, long bound, long& v) {
  if (t.empty()) return false;
  size_t p = t[0] == '-' ? 1 : 0;
  if (p == t.size() || t.size() - p > 5 || t.find_first_not_of("0123456789", p) != std::string::npos) return false;
  v = std::atol(t.c_str());
  return v >= -bound && v <= bound;
}
static Result execCk(const std::vector<std::string>& w) {
  using CK = c02ck::CK;
  Result bad;
  bad.impl = "bad-op";
  bad.oracle = "FAIL harness cannot parse this op line";
  const std::string& op = w[1];
  const std::string& rep = w[2];
  if (op != "solve" && op != "invert") return bad;
  if (rep != "fm" && rep != "dm") return bad;
  if ((op == "solve") != (w.size() == 7)) return bad;
  long n = 0, k = 0;
  if (!smallIntTok(w[3], 3, n) || n < 1) return bad;
  if (!smallIntTok(w[4], 600, k)) return bad;
  std::vector<long> a = parseList(w[5]), b;
  if (op == "solve") b = parseList(w[6]);
  if ((long)a.size() != n * n || (op == "solve" && (long)b.size() != n)) return bad;
  for (long x : a) if (x < -9 || x > 9) return bad;
  for (long x : b) if (x < -9 || x > 9) return bad;
  if (detSmall(a, (int)n) == 0 || k * n < -180 || k * n > 600) return bad;
  stat("field_ck");
  stat("op_ck_" + op);
  stat(k * n >= 270 ? "ck_det_above_1e80" : k * n <= -60 ? "ck_det_tiny_but_above_limit" : "ck_det_moderate");
  std::vector<CK> A, B, out;
  for (long x : a) A.push_back(CK(std::ldexp((long double)x, (int)k), 0.0L));
  for (long x : b) B.push_back(CK((long double)x, 0.0L));
  int code = c02ck::run(op, rep, (int)n, A, B, out);
  Result res;
  res.impl = code == 0 ? "ck-returns" : code == 1 ? "ck-throws" : "ck-other";
  if (code == 1) { res.oracle = "FAIL FMatrixError for a well-conditioned matrix whose determinant is far above the absolute limit (build with DUNE_FMatrix_WITH_CHECKING)"; return res; }
  if (code != 0) { res.oracle = "FAIL unexpected exception / not executable (build with DUNE_FMatrix_WITH_CHECKING)"; return res; }
  auto mag = [](const CK& z) { return std::abs(z); };
  long double na = 0, no = 0, nb = 0, worst = 0;
  for (auto& z : A) na = std::max(na, mag(z));
  for (auto& z : out) no = std::max(no, mag(z));
  for (auto& z : B) nb = std::max(nb, mag(z));
  if (op == "solve") {
    for (int i = 0; i < n; ++i) {
      CK s(0);
      for (int j = 0; j < n; ++j) s += A[i * n + j] * out[j];
      worst = std::max(worst, mag(s - B[i]));
    }
    if (!(worst <= 1e-13L * (n * na * no + nb))) res.oracle = "FAIL residual of solve too large (build with DUNE_FMatrix_WITH_CHECKING)";
  } else {
    for (int i = 0; i < n; ++i)
      for (int j = 0; j < n; ++j) {
        CK s(0), t(0);
        for (int l = 0; l < n; ++l) { s += A[i * n + l] * out[l * n + j]; t += out[i * n + l] * A[l * n + j]; }
        CK e = i == j ? CK(1) : CK(0);
        worst = std::max(worst, std::max(mag(s - e), mag(t - e)));
      }
    if (!(worst <= 1e-13L * n * (1 + na * no))) res.oracle = "FAIL A*B or B*A deviates from I (build with DUNE_FMatrix_WITH_CHECKING)";
  }
  return res;
}
static std::string genCk(Rng& g) {
  int n = 1 + (int)g.below(3);
  std::string op = g.coin() ? "solve" : "invert";
  std::string rep = g.coin() ? "fm" : "dm";
  std::vector<long> a(n * n), b(n);
  do {
    for (auto& x : a) x = g.range(-4, 4);
    if (g.coin(1, 3)) for (int i = 0; i < n; ++i) a[i * n + i] += g.coin() ? 5 : -5;
  } while (detSmall(a, n) == 0);
  for (auto& x : b) x = g.range(-9, 9);
  static const std::vector<long> targets = {-180, -120, -60, -10, 0, 0, 10, 100, 200, 260, 264, 267, 270, 280, 300, 400, 600};
  long k = g.pick(targets) / n;
  stat("gen_ck");
  std::ostringstream os;
  os << "ck " << op << " " << rep << " " << n << " " << k << " " << listStr(a);
  if (op == "solve") os << " " << listStr(b);
  return os.str();
}

static Result execLine(const std::string& line) {
  Result bad;
  bad.impl = "bad-op";
  bad.oracle = "FAIL harness cannot parse this op line";
  auto w = words(line);
  if (w.size() != 6 && w.size() != 7) return bad;
  if (w[0] == "ck") return execCk(w);
  FieldTok ft;
  if (!parseFieldTok(w[0], ft)) return bad;
  const std::string& field = ft.base;
  std::string op = w[1], rep = w[2];
  g_mixed = g_twice = false;
  if (rep == "fmx" || rep == "dmx" || rep == "diagx") {
    if (op != "solve" || field == "v64") return bad;
    g_mixed = true;
    rep.pop_back();
  }
  if (op == "inv2") {
    if (field != "gf" || w[4] == "0") return bad;
    g_twice = true;
    op = "invert";
  }
  if (w[3].empty() || w[3].find_first_not_of("0123456789") != std::string::npos || w[3].size() > 2) return bad;
  int n = std::atoi(w[3].c_str());
  if (w[4] != "0" && w[4] != "1" && w[4] != "d") return bad;
  // (a 0x0 DynamicMatrix is not an admissible operand: DynamicMatrix::mat_cols() asserts rows() > 0)
  if (n < 1 || n > (rep == "dm" && !g_mixed ? 10 : 7)) return bad;
  int piv = w[4] == "1" ? 1 : w[4] == "0" ? 0 : 2;
  bool needB = op == "solve";
  if (needB != (w.size() == 7)) return bad;
  if (rep != "fm" && rep != "dm" && rep != "diag") return bad;
  if (op != "solve" && op != "invert" && op != "det" && op != "fmhinv" && op != "fmhinvT") return bad;
  if ((op == "fmhinv" || op == "fmhinvT") && (rep != "fm" || n > 3)) return bad;
  if (field == "v64" && (rep == "diag" || op == "fmhinv" || op == "fmhinvT" || n > 7)) return bad;
  if (field != "gf" && field != "f64" && field != "ld" && field != "c64" && field != "v64") return bad;
  size_t cnt = rep == "diag" ? n : n * n;
  stat("field_" + field);
  stat("op_" + w[1]);
  stat("rep_" + w[2]);
  stat("n_" + std::to_string(n));
  if (rep != "diag") stat(piv == 1 ? "pivoting_on" : piv == 0 ? "pivoting_off" : "pivoting_default_argument");
  if (ft.hasLimit) stat("absolute_limit_set");
  LimitGuard guard(ft.hasLimit, ft.limit);
  if (field == "gf") {
    std::vector<long> a = parseList(w[5]), b;
    if (needB) b = parseList(w[6]);
    if (a.size() != cnt || (needB && b.size() != (size_t)n)) return bad;
    for (long x : a) if (x < 0 || x >= P) return bad;
    for (long x : b) if (x < 0 || x >= P) return bad;
    return execGF(op, rep, n, piv, a, b);
  }
  std::vector<unsigned long long> ua = parseUList(w[5]), ub;
  if (needB) ub = parseUList(w[6]);
  size_t scal = field == "c64" ? 2 : field == "v64" ? LANES : 1;
  if (ua.size() != cnt * scal || (needB && ub.size() != n * scal)) return bad;
  std::vector<double> da, db;
  for (auto u : ua) da.push_back(dblOfBits((long long)u));
  for (auto u : ub) db.push_back(dblOfBits((long long)u));
  magStat(da, ft.scaled ? ft.ka : 0);
  if (field == "f64") return execFlt<double>(op, rep, n, piv, da, db);
  if (field == "v64") return execSimd(op, rep, n, piv, da, db);
  if (field == "ld") {
    std::vector<long double> a, b;
    for (double x : da) a.push_back(std::ldexp((long double)x, (int)ft.ka));
    for (double x : db) b.push_back(std::ldexp((long double)x, (int)ft.kb));
    return execFlt<long double>(op, rep, n, piv, a, b);
  }
  if (field == "c64") {
    std::vector<std::complex<double>> a, b;
    for (size_t i = 0; i + 1 < da.size(); i += 2) a.emplace_back(da[i], da[i + 1]);
    for (size_t i = 0; i + 1 < db.size(); i += 2) b.emplace_back(db[i], db[i + 1]);
    return execFlt<std::complex<double>>(op, rep, n, piv, a, b);
  }
  return bad;
}

// ------------------------------------------------------------------------------------------------
// generators
// ------------------------------------------------------------------------------------------------
using LMat = std::vector<long>;

static long rndEntry(Rng& g, int style) {
  // style 0: uniform; 1: small / boundary biased; 2: very sparse
  switch (style) {
    case 0: return (long)g.below(P);
    case 1: {
      static const std::vector<long> sp = {0, 0, 1, 1, P - 1, 2, P - 2, 3, (P - 1) / 2, (P + 1) / 2, 16001, 16002};
      return g.coin(3, 4) ? g.pick(sp) : (long)g.below(P);
    }
    default: return g.coin(2, 3) ? 0 : (g.coin() ? 1 : (g.coin() ? P - 1 : (long)g.below(P)));
  }
}
static LMat mulMod(const LMat& A, const LMat& B, int n) {
  LMat C(n * n, 0);
  for (int i = 0; i < n; ++i)
    for (int j = 0; j < n; ++j) {
      long s = 0;
      for (int k = 0; k < n; ++k) s = (s + A[i * n + k] * B[k * n + j]) % P;
      C[i * n + j] = s;
    }
  return C;
}
static std::vector<int> rndPerm(Rng& g, int n) {
  std::vector<int> p(n);
  for (int i = 0; i < n; ++i) p[i] = i;
  for (int i = n - 1; i > 0; --i) std::swap(p[i], p[g.below(i + 1)]);
  return p;
}

// a matrix generator for GF(p); `kind` is recorded in the statistics
static LMat genGF(Rng& g, int n, std::string& kind) {
  LMat A(n * n, 0);
  if (n == 0) { kind = "empty"; return A; }
  int k = (int)g.below(12);
  int style = (int)g.below(3);
  auto nz = [&] { long x; do x = rndEntry(g, style == 2 ? 1 : style); while (x == 0); return x; };
  switch (k) {
    case 0: case 1:  // dense random
      kind = "dense";
      for (auto& x : A) x = rndEntry(g, style == 2 ? 0 : style);
      break;
    case 2:  // sparse
      kind = "sparse";
      for (auto& x : A) x = rndEntry(g, 2);
      break;
    case 3: case 4: {  // row-permuted upper triangular (+ optional unit lower factor): every pivot pattern
      kind = "permuted_triangular";
      LMat U(n * n, 0), L(n * n, 0);
      bool sparseU = g.coin();
      for (int i = 0; i < n; ++i) {
        U[i * n + i] = nz();
        for (int j = i + 1; j < n; ++j) U[i * n + j] = sparseU ? rndEntry(g, 2) : rndEntry(g, style);
        L[i * n + i] = 1;
        if (g.coin(1, 3)) for (int j = 0; j < i; ++j) L[i * n + j] = rndEntry(g, 2);
      }
      LMat M = mulMod(L, U, n);
      auto p = rndPerm(g, n);
      for (int i = 0; i < n; ++i) for (int j = 0; j < n; ++j) A[p[i] * n + j] = M[i * n + j];
      break;
    }
    case 5: {  // rank deficient: product of n x r and r x n
      kind = "rank_deficient_product";
      int r = (int)g.below(n);  // 0..n-1
      LMat B(n * n, 0), C(n * n, 0);
      for (int i = 0; i < n; ++i) for (int j = 0; j < r; ++j) { B[i * n + j] = rndEntry(g, style); C[j * n + i] = rndEntry(g, style); }
      A = mulMod(B, C, n);
      break;
    }
    case 6: {  // one row a combination of the others / duplicated / zero row or column
      kind = "dependent_row_or_column";
      for (auto& x : A) x = rndEntry(g, style == 2 ? 0 : style);
      int t = (int)g.below(n), how = (int)g.below(4);
      if (how == 0) for (int j = 0; j < n; ++j) A[t * n + j] = 0;
      else if (how == 1) for (int i = 0; i < n; ++i) A[i * n + t] = 0;
      else if (how == 2 && n > 1) { int s = (t + 1 + (int)g.below(n - 1)) % n; for (int j = 0; j < n; ++j) A[t * n + j] = A[s * n + j]; }
      else if (n > 1) {
        for (int j = 0; j < n; ++j) A[t * n + j] = 0;
        for (int s = 0; s < n; ++s) if (s != t) { long c = rndEntry(g, 1); for (int j = 0; j < n; ++j) A[t * n + j] = (A[t * n + j] + c * A[s * n + j]) % P; }
      }
      break;
    }
    case 7: {  // nonsingular but some leading principal minor vanishes (unpivoted elimination breaks down)
      kind = "zero_leading_minor";
      LMat U(n * n, 0);
      for (int i = 0; i < n; ++i) { U[i * n + i] = nz(); for (int j = i + 1; j < n; ++j) U[i * n + j] = rndEntry(g, style); }
      // swap two adjacent rows of an upper triangular matrix
      int t = n > 1 ? (int)g.below(n - 1) : 0;
      A = U;
      if (n > 1) for (int j = 0; j < n; ++j) std::swap(A[t * n + j], A[(t + 1) * n + j]);
      if (g.coin()) { LMat L(n * n, 0); for (int i = 0; i < n; ++i) { L[i * n + i] = 1; for (int j = 0; j < i; ++j) L[i * n + j] = rndEntry(g, 2); } A = mulMod(A, L, n); }
      break;
    }
    case 8: {  // ties in the pivot search: entries x and p-x have the same magnitude
      kind = "pivot_ties";
      for (int j = 0; j < n; ++j) {
        long x = nz();
        for (int i = 0; i < n; ++i) A[i * n + j] = g.coin(1, 4) ? 0 : (g.coin() ? x : P - x);
      }
      for (int i = 0; i < n; ++i) if (g.coin()) A[i * n + (int)g.below(n)] = rndEntry(g, 0);
      break;
    }
    case 9: {  // permutation matrix times diagonal (+ sparse noise above): pivot row is the only nonzero
      kind = "monomial";
      auto p = rndPerm(g, n);
      for (int i = 0; i < n; ++i) A[p[i] * n + i] = nz();
      if (g.coin()) for (int t = 0; t < n; ++t) A[(int)g.below(n) * n + (int)g.below(n)] = rndEntry(g, 1);
      break;
    }
    case 10: {  // singular only in the last step(s): nonsingular leading block, last row dependent
      kind = "late_singular";
      for (auto& x : A) x = rndEntry(g, 0);
      if (n > 1) {
        for (int j = 0; j < n; ++j) A[(n - 1) * n + j] = 0;
        for (int s = 0; s < n - 1; ++s) { long c = rndEntry(g, 0); for (int j = 0; j < n; ++j) A[(n - 1) * n + j] = (A[(n - 1) * n + j] + c * A[s * n + j]) % P; }
      } else A[0] = 0;
      break;
    }
    default: {  // diagonal-ish / identity / scalar
      kind = "diagonalish";
      for (int i = 0; i < n; ++i) A[i * n + i] = g.coin(1, 8) ? 0 : nz();
      if (g.coin()) for (int t = 0; t < n; ++t) A[(int)g.below(n) * n + (int)g.below(n)] = rndEntry(g, 1);
      break;
    }
  }
  return A;
}

// ---- floating point generators: bounded condition number ---------------------------------------
static double rndUnit(Rng& g) { return (double)(g.below(2000001)) / 1000000.0 - 1.0; }  // [-1,1]

// real n x n: product of random rotations, a diagonal with entries in +-[1, 64], random rotations: cond <= 64
static std::vector<double> genWellCond(Rng& g, int n) {
  std::vector<double> A(n * n, 0.0);
  for (int i = 0; i < n; ++i) A[i * n + i] = (g.coin() ? 1 : -1) * std::ldexp(1.0 + (double)g.below(1000) / 1000.0, (int)g.below(6));
  auto rot = [&](bool left) {
    if (n < 2) return;
    int p = (int)g.below(n), q = (p + 1 + (int)g.below(n - 1)) % n;
    double th = 3.141592653589793 * rndUnit(g), c = std::cos(th), s = std::sin(th);
    for (int k = 0; k < n; ++k) {
      double& x = left ? A[p * n + k] : A[k * n + p];
      double& y = left ? A[q * n + k] : A[k * n + q];
      double nx = c * x - s * y, ny = s * x + c * y;
      x = nx; y = ny;
    }
  };
  for (int t = 0; t < 3 * n; ++t) { rot(true); rot(false); }
  return A;
}
// strictly row diagonally dominant (unpivoted elimination is defined and stable)
static std::vector<double> genDiagDom(Rng& g, int n) {
  std::vector<double> A(n * n, 0.0);
  for (int i = 0; i < n; ++i) {
    double s = 0;
    for (int j = 0; j < n; ++j) if (j != i) { A[i * n + j] = rndUnit(g) * 4; s += std::fabs(A[i * n + j]); }
    A[i * n + i] = (g.coin() ? 1 : -1) * (s + 1.0 + (double)g.below(1000) / 250.0);
  }
  return A;
}

// scaled permutation matrix plus a tiny full perturbation: perfectly conditioned (cond ~ max|d|/min|d| <= 2), but
// without choosing the column MAXIMUM as pivot the elimination divides by entries of size eps (growth ~ 1/eps) and
// the residual explodes -- the backward-error clause of the property depends on the pivoting rule, not only on
// "some nonzero pivot".
static std::vector<double> genPermTiny(Rng& g, int n) {
  std::vector<double> A(n * n, 0.0);
  static const double epss[] = {1e-6, 1e-9, 1e-13, 1e-17, 1e-30};
  double eps = epss[g.below(5)];
  for (auto& x : A) x = eps * rndUnit(g);
  auto p = rndPerm(g, n);
  for (int i = 0; i < n; ++i) A[p[i] * n + i] = (g.coin() ? 1 : -1) * (1.0 + (double)g.below(1000) / 1000.0);
  return A;
}

// exhaustive 0/1 (or 0/1/-1) matrices of size n: every zero pattern, hence every pivot pattern / rank profile
static std::string genEnum(long idx, const Args& args) {
  int n = (int)args.get("n", 4);
  long stride = args.get("stride", 1), offset = args.get("offset", 0);
  bool pm = args.gets("mode", "") == "enumpm";
  static const char* ops[] = {"solve", "invert", "det"};
  long combo = idx % 6, m = idx / 6;
  unsigned long long space = 1;
  for (int t = 0; t < n * n; ++t) space *= pm ? 3 : 2;
  unsigned long long code = ((unsigned long long)m * (unsigned long long)stride + (unsigned long long)offset) % space;
  LMat A(n * n);
  unsigned long long c = code;
  for (int t = 0; t < n * n; ++t) {
    int d = (int)(c % (pm ? 3 : 2));
    c /= pm ? 3 : 2;
    A[t] = d == 0 ? 0 : d == 1 ? 1 : P - 1;
  }
  std::string op = ops[combo % 3];
  bool piv = combo < 3;
  std::string rep = ((code ^ (code >> 7)) & 1) ? "dm" : "fm";
  // one in eight of the pivoting-on calls goes through the default argument
  const char* pivTok = !piv ? "0" : (((code >> 5) ^ (code >> 11)) & 7) == 0 ? "d" : "1";
  std::ostringstream os;
  os << "gf " << op << " " << rep << " " << n << " " << pivTok << " " << listStr(A);
  if (op == "solve") {
    LMat b;
    for (int i = 0; i < n; ++i) b.push_back((long)((code >> i) & 1) + i + 1);
    os << " " << listStr(b);
  }
  stat(pm ? "gen_enum_pm1" : "gen_enum_01");
  return os.str();
}

// ---- scales (round three) -----------------------------------------------------------------------
// The property speaks about every nonsingular matrix of bounded condition number, whatever the magnitude of its
// entries: c*A is as well conditioned as A.  All float families are therefore also produced multiplied by m*2^k with k
// anywhere in the range in which neither the operands nor the results nor the intermediate quantities of the
// algorithm under test overflow or become subnormal (`lim`, derived per field / op / size in `gen`).
static long pickScale(Rng& g, long lim) {
  if (lim <= 0) return 0;
  static const std::vector<long> marks = {1, 2, 10, 24, 52, 53, 64, 100, 126, 127, 149, 200, 250, 265, 266, 267, 280, 300,
                                          332, 333, 400, 500, 511, 512, 537, 600, 800, 900, 1000, 1022, 1023, 1074, 1100,
                                          2000, 4000, 8000, 12000, 16000};
  long k;
  switch ((int)g.below(3)) {
    case 0: {
      k = g.pick(marks);
      if (k > lim) k = g.coin() ? lim : (long)g.below(lim + 1);
      break;
    }
    case 1: k = (long)g.below(lim + 1); break;
    default: k = (long)g.below(std::min(lim, 400L) + 1); break;
  }
  return g.coin(2, 3) ? -k : k;  // small magnitudes are where absolute thresholds bite
}

// make a bounded-condition matrix exactly singular in a way rounding cannot hide (see structSingular)
static const char* makeStructSingular(Rng& g, std::vector<double>& A, int n, bool allowDup) {
  int how = (int)g.below(allowDup ? 3 : 2);
  int t = (int)g.below(n);
  if (how == 0) { for (int j = 0; j < n; ++j) A[t * n + j] = 0.0; return "zero_row"; }
  if (how == 1) { for (int i = 0; i < n; ++i) A[i * n + t] = 0.0; return "zero_column"; }
  int s2 = (t + 1 + (int)g.below(n - 1)) % n;
  for (int j = 0; j < n; ++j) A[t * n + j] = A[s2 * n + j];
  return "equal_rows";
}

static std::string limitSuffix(Rng& g) {
  if (!g.coin(1, 10)) return "";
  static const std::vector<std::string> ls = {"z", "-320", "-300", "-100", "-80", "-30", "-12", "-3", "0", "0", "3", "10", "10", "100", "300"};
  stat("gen_absolute_limit");
  return "%" + g.pick(ls);
}

static std::string gen(Rng& g, long idx, const Args& args) {
  {
    std::string mode = args.gets("mode", "");
    if (mode == "enum01" || mode == "enumpm") return genEnum(idx, args);
  }
  if (g.coin(1, 50)) return genCk(g);      // round five: the build with DUNE_FMatrix_WITH_CHECKING (closed forms only)
  std::ostringstream os;
  int fsel = (int)g.below(100);
  std::string field = fsel < 70 ? "gf" : fsel < 80 ? "f64" : fsel < 87 ? "c64" : fsel < 95 ? "ld" : "v64";
  int n;
  {
    int t = (int)g.below(100);
    if (t < 8) n = 1; else if (t < 18) n = 2; else if (t < 30) n = 3; else if (t < 48) n = 4; else if (t < 66) n = 5;
    else if (t < 83) n = 6; else n = 7;
  }
  int rsel = (int)g.below(100);
  std::string rep = rsel < 45 ? "fm" : rsel < 88 ? "dm" : "diag";
  std::string op;
  {
    int t = (int)g.below(100);
    op = t < 38 ? "solve" : t < 70 ? "invert" : t < 92 ? "det" : t < 96 ? "fmhinv" : "fmhinvT";
  }
  if (field == "v64") {
    // SIMD: dense representations only, mostly the LU path
    if (rep == "diag") rep = g.coin() ? "fm" : "dm";
    if (op == "fmhinv" || op == "fmhinvT") op = "solve";
    if (n <= 3 && g.coin(2, 3)) n = 4 + (int)g.below(4);
  }
  if (op == "fmhinv" || op == "fmhinvT") { rep = "fm"; if (n > 3) n = 1 + (int)g.below(3); }
  // sizes beyond the FieldMatrix instances of this harness (DynamicMatrix only)
  if (rep == "dm" && field != "v64" && g.coin(1, 10)) { static const std::vector<long> bs = {8, 8, 9, 10}; n = (int)g.pick(bs); }
  bool piv = rep == "diag" ? true : g.coin(3, 5);
  // the optional argument left out (only meaningful for the dense representations)
  bool dflt = rep != "diag" && piv && g.coin(1, 5);
  // round four: solve with x and b of the other vector family; the same object inverted twice (exact field)
  std::string opTok = op, repTok = rep;
  if (op == "solve" && field != "v64" && n <= 7 && g.coin(1, 6)) { repTok = rep + "x"; stat("gen_mixed_vector_types"); }
  if (op == "invert" && field == "gf" && piv && g.coin(1, 6)) { opTok = "inv2"; stat("gen_invert_twice"); }
  const std::string tail = " " + opTok + " " + repTok + " " + std::to_string(n) + " " + (dflt ? "d" : piv ? "1" : "0") + " ";
  if (field == "gf") {
    os << field << limitSuffix(g) << tail;
    std::string kind;
    LMat A;
    if (rep == "diag") {
      kind = "diag";
      for (int i = 0; i < n; ++i) { long x = rndEntry(g, g.coin() ? 0 : 1); if (x == 0 && g.coin(5, 6)) x = 1 + (long)g.below(P - 1); A.push_back(x); }
    } else
      A = genGF(g, n, kind);
    stat("gen_" + kind);
    os << listStr(A);
    if (op == "solve") {
      LMat b;
      int bs = (int)g.below(4);
      for (int i = 0; i < n; ++i) b.push_back(bs == 0 ? (i == 0 ? 1 : 0) : rndEntry(g, bs == 1 ? 1 : 0));
      // sometimes a right-hand side in the column space (consistent singular systems must still be rejected)
      if (g.coin(1, 5) && rep != "diag") {
        LMat y; for (int i = 0; i < n; ++i) y.push_back(rndEntry(g, 0));
        for (int i = 0; i < n; ++i) { long s = 0; for (int j = 0; j < n; ++j) s = (s + A[i * n + j] * y[j]) % P; b[i] = s; }
      }
      os << " " << listStr(b);
    }
    return os.str();
  }
  // floats
  const bool cx = field == "c64";
  const int copies = field == "v64" ? LANES : 1;  // independent matrices (SIMD: one per lane)
  const bool closed = rep != "diag" && n <= 3;
  // one real bounded-condition matrix of the family that fits the pivoting mode
  auto realFamily = [&](bool& tinyOut) {
    bool tiny = piv && g.coin(1, 3);
    tinyOut = tiny;
    stat(tiny ? "gen_flt_perm_plus_tiny" : piv ? "gen_flt_wellcond" : "gen_flt_diagdom");
    return tiny ? genPermTiny(g, n) : piv ? genWellCond(g, n) : genDiagDom(g, n);
  };
  // exactly singular variants: dense, LU path only (for n <= 3 / diagonal the property fixes nothing); in a SIMD
  // operand some lanes only
  const bool wantSingular = rep != "diag" && n >= 4 && g.coin(1, 8);
  std::vector<double> A;  // all copies, each row-major (complex: re,im pairs)
  for (int cpy = 0; cpy < copies; ++cpy) {
    std::vector<double> Ac;
    if (rep == "diag") {
      for (int i = 0; i < n; ++i) {
        if (cx) { double m = 1.0 + (double)g.below(64), th = 3.141592653589793 * rndUnit(g); Ac.push_back(m * std::cos(th)); Ac.push_back(m * std::sin(th)); }
        else Ac.push_back((g.coin() ? 1 : -1) * (0.5 + (double)g.below(6400) / 100.0));
      }
      stat("gen_flt_diag");
    } else {
      bool tiny;
      std::vector<double> R = realFamily(tiny);
      bool singHere = wantSingular && (copies == 1 || g.coin());
      if (singHere) stat(std::string("gen_flt_singular_") + makeStructSingular(g, R, n, !cx));
      if (!cx) Ac = R;
      else {
        // complex: multiply row i by a unit phase and add a small imaginary perturbation for the diag.-dominant case
        std::vector<double> I = piv ? genWellCond(g, n) : std::vector<double>(n * n, 0.0);
        if (piv) {
          // A = R + i*0.25*I/||I|| keeps cond bounded (perturbation of relative size <= 1/4 of the smallest singular value 1)
          double mx = 0; for (double x : I) mx = std::max(mx, std::fabs(x));
          for (auto& x : I) x = 0.2 * x / (mx * n);
        } else
          for (int i = 0; i < n; ++i) for (int j = 0; j < n; ++j) if (i != j) I[i * n + j] = rndUnit(g) * 0.1;
        // exact unit phases i^k on rows and columns (unitary diagonal scalings: singular values, hence the condition
        // number, and diagonal dominance are unchanged).  mode 1: a real matrix times phases -> every entry is purely
        // real or purely imaginary, so the pivot search must really use |re| + |im| (or |z|), not a component.
        int mode = (int)g.below(3);
        if (mode == 1 || singHere) std::fill(I.begin(), I.end(), 0.0);  // (a zero row/column must stay zero)
        std::vector<int> pr(n, 0), pc(n, 0);
        if (mode >= 1) for (int t = 0; t < n; ++t) { pr[t] = (int)g.below(4); pc[t] = (int)g.below(4); }
        stat(mode == 0 ? "gen_c64_plain" : mode == 1 ? "gen_c64_real_times_phases" : "gen_c64_phases");
        for (int t = 0; t < n * n; ++t) {
          double re = R[t], im = I[t];
          for (int k = (pr[t / n] + pc[t % n]) % 4; k > 0; --k) { double nr = -im; im = re; re = nr; }  // times i
          Ac.push_back(re); Ac.push_back(im);
        }
      }
    }
    A.insert(A.end(), Ac.begin(), Ac.end());
  }
  std::vector<double> B;
  if (op == "solve") for (size_t i = 0; i < (size_t)n * (cx ? 2 : 1) * copies; ++i) B.push_back(rndUnit(g) * 8);

  // ---- scale: A by m*2^ka, b by 2^kb ----
  long ka = 0, kb = 0;
  const bool scaled = g.coin(2, 5);
  if (scaled) {
    const long E = field == "ld" ? 16000 : 1000;  // usable binary exponent range of the scalar type
    long limA;
    if (op == "det" || op == "fmhinv" || op == "fmhinvT") limA = E / n - 8;  // the determinant is of size 2^(n*ka)
    else if (closed) limA = E / 3 - 10;  // Cramer's rule / adjugate: products of up to three entries (and of b)
    else limA = E - 100;
    ka = pickScale(g, limA);
    if (op == "solve") {
      if (closed) kb = pickScale(g, E / 3 - 10);
      else {
        // the solution is of size 2^(kb-ka)
        long lo = std::max(-(E - 100), ka - (E - 100)), hi = std::min(E - 100, ka + (E - 100));
        int how = (int)g.below(4);
        kb = how <= 1 ? ka : how == 2 ? 0 : pickScale(g, E - 100);
        kb = std::max(lo, std::min(hi, kb));
      }
    }
    double m = g.coin() ? 1.0 : 1.0 + (double)g.below(1000) / 1000.0;
    stat("gen_flt_scaled");
    scaleStat("gen_scale_A", ka);
    if (op == "solve") scaleStat("gen_scale_x", kb - ka);
    for (auto& x : A) x *= m;
    if (field != "ld") {
      for (auto& x : A) x = std::ldexp(x, (int)ka);
      for (auto& x : B) x = std::ldexp(x, (int)kb);
    }
  }
  os << field;
  if (scaled && field == "ld") os << "@" << ka << "@" << kb;
  os << limitSuffix(g) << tail;
  std::vector<unsigned long long> bits;
  for (double x : A) bits.push_back(bitsOfDbl(x));
  os << listStr(bits);
  if (op == "solve") {
    std::vector<unsigned long long> bb;
    for (double x : B) bb.push_back(bitsOfDbl(x));
    os << " " << listStr(bb);
  }
  (void)idx;
  return os.str();
}

int main(int argc, char** argv) { return dv::run(argc, argv, gen, execLine); }
