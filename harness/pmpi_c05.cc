// C05: request discipline of the communicators, observed through the MPI profiling interface.
//
// The property quantifies over ALL message completion orders.  Whether a forward()/backward() that returns while one
// of its sends is still pending does damage in a given run depends on timing (late receiver) and on the transport
// (rendezvous: the payload is read from the send buffer when the receive is matched).  What does NOT depend on the run is
// the rule MPI gives the program: a buffer handed to a nonblocking (or persistent) send must not be modified or released
// before the program has OBSERVED the completion of that send (successful MPI_Wait*/MPI_Test*), and every request it
// starts has to be completed.  This file tracks every point-to-point request started while a case runs and reports
//   (a) a send buffer whose contents differ from what they were when the send was started, while the program has not yet
//       observed the completion (checked whenever a further request is started and when the case ends);
//   (b) a receive posted into memory that overlaps such a send buffer (contiguous types only);
//   (c) requests that were started but never completed by the program when the case ends (the communicator objects are
//       destroyed by then, their buffers released).
// Deferring the completion of sends to the next communication, to free() or to the destructor is fine with these rules;
// so are MPI_Waitall / MPI_Testall loops, blocking sends, persistent requests.
//
// The schedule steering of harness/pmpi_sched.cc (shared file) is compiled into this translation unit under other names
// and called from the wrappers below, so that both interpositions of MPI_Waitany / MPI_Testany / MPI_Testsome coexist.
#include <mpi.h>
#include <unistd.h>

#include <cstring>
#include <string>
#include <vector>

#define MPI_Waitany dvs_MPI_Waitany
#define MPI_Testany dvs_MPI_Testany
#define MPI_Testsome dvs_MPI_Testsome
#include "pmpi_sched.cc"
#undef MPI_Waitany
#undef MPI_Testany
#undef MPI_Testsome

namespace {

struct Tr {
  MPI_Request h;
  bool send, persistent, active;
  bool observed;      // completion seen by the program without releasing the request (MPI_Request_get_status)
  bool released;      // MPI_Request_free while active: the program can never observe the completion
  const void* buf;
  int count;
  MPI_Datatype dt;
  MPI_Comm comm;
  int peer;
  long commIdx;       // communication of the case during which it was started (-1: outside forward/backward)
  std::vector<char> snap;
  long bytes;
  bool frozen;        // the memory may have been released since (checkpoint passed): never read it again
  char* lo;           // memory region (contiguous named types only), lo == nullptr otherwise
  char* hi;
};

std::vector<Tr> g_tr;
bool g_on = false;
long g_comm = -1;
std::string g_fail;
long g_nSend = 0, g_nRecv = 0, g_nAudit = 0;

int myRank() {
  int r = 0;
  PMPI_Comm_rank(MPI_COMM_WORLD, &r);
  return r;
}

std::vector<char> packed(const void* buf, int count, MPI_Datatype dt, MPI_Comm comm) {
  int size = 0;
  PMPI_Pack_size(count, dt, comm, &size);
  std::vector<char> out((size_t)size);
  int pos = 0;
  if (size > 0) PMPI_Pack(const_cast<void*>(buf), count, dt, out.data(), size, &pos, comm);
  out.resize((size_t)pos);
  return out;
}

void region(Tr& t) {
  t.lo = t.hi = nullptr;
  int ni = 0, na = 0, nd = 0, comb = 0;
  if (PMPI_Type_get_envelope(t.dt, &ni, &na, &nd, &comb) != MPI_SUCCESS || comb != MPI_COMBINER_NAMED) return;
  int sz = 0;
  PMPI_Type_size(t.dt, &sz);
  t.lo = (char*)const_cast<void*>(t.buf);
  t.hi = t.lo + (size_t)sz * (size_t)t.count;
}

std::string what(const Tr& t) {
  return std::string(t.send ? "send to" : "receive from") + " rank " + std::to_string(t.peer) + " (" +
         std::to_string(t.bytes) + " bytes, started in " +
         (t.commIdx >= 0 ? "communication #" + std::to_string(t.commIdx + 1) + " of the case" : std::string("the set-up")) + ")";
}

void fail(const std::string& m) {
  if (g_fail.empty()) g_fail = "rank " + std::to_string(myRank()) + ": " + m;
}

// rule (a)
void audit(const char* where) {
  ++g_nAudit;
  for (auto& t : g_tr) {
    if (!t.send || !t.active || t.observed || t.frozen) continue;
    if (packed(t.buf, t.count, t.dt, t.comm) != t.snap)
      fail(std::string("the buffer of the ") + what(t) + " was modified before the program had observed the completion of that " +
           "send (no MPI_Wait*/MPI_Test* on its request since); noticed at " + where +
           " -- under a legal schedule (late receiver, rendezvous transfer) the receiver gets the later contents instead of "
           "the values gathered for that communication");
  }
}

void started(MPI_Request h, bool send, bool persistent, bool active, const void* buf, int count, MPI_Datatype dt, int peer,
             MPI_Comm comm) {
  Tr t;
  t.h = h;
  t.send = send;
  t.persistent = persistent;
  t.active = active;
  t.observed = t.released = false;
  t.buf = buf;
  t.count = count;
  t.dt = dt;
  t.comm = comm;
  t.peer = peer;
  t.commIdx = g_comm;
  region(t);
  t.frozen = false;
  {
    int ts = 0;
    PMPI_Type_size(dt, &ts);
    t.bytes = (long)ts * (long)count;
  }
  if (send && active) t.snap = packed(buf, count, dt, comm);
  if (active) {
    if (send) ++g_nSend; else ++g_nRecv;
    if (!send && t.lo) {  // rule (b)
      for (auto& o : g_tr)
        if (o.send && o.active && !o.observed && o.lo && t.lo < o.hi && o.lo < t.hi)
          fail("a receive from rank " + std::to_string(peer) + " was posted into the buffer of the " + what(o) +
               " whose completion the program has not observed");
    }
  }
  g_tr.push_back(t);
}

void activate(MPI_Request h) {
  for (auto& t : g_tr)
    if (t.h == h && t.persistent) {
      t.active = true;
      t.observed = false;
      t.frozen = false;
      t.commIdx = g_comm;
      if (t.send) { t.snap = packed(t.buf, t.count, t.dt, t.comm); ++g_nSend; } else ++g_nRecv;
      if (!t.send && t.lo)
        for (auto& o : g_tr)
          if (&o != &t && o.send && o.active && !o.observed && o.lo && t.lo < o.hi && o.lo < t.hi)
            fail("a receive from rank " + std::to_string(t.peer) + " was started into the buffer of the " + what(o) +
                 " whose completion the program has not observed");
      return;
    }
}

// the program has seen request h complete (h = handle value before the completing call)
void completedBy(MPI_Request h) {
  if (h == MPI_REQUEST_NULL) return;
  for (size_t i = 0; i < g_tr.size(); ++i)
    if (g_tr[i].h == h && !g_tr[i].released) {
      if (g_tr[i].persistent) { g_tr[i].active = false; g_tr[i].observed = false; }
      else g_tr.erase(g_tr.begin() + (long)i);
      return;
    }
}

}  // namespace

// ---- hooks for the harness ------------------------------------------------------------------------------------------
extern "C" void dv_req_case_begin() {
  g_tr.clear();
  g_fail.clear();
  g_comm = -1;
  g_on = true;
}
extern "C" void dv_req_comm(long idx) { g_comm = idx; }
extern "C" long dv_req_sends() { return g_nSend; }
extern "C" long dv_req_recvs() { return g_nRecv; }
extern "C" long dv_req_audits() { return g_nAudit; }

// the buffers of the communicator (or the containers) are about to be released or rebuilt: look at the pending sends one
// last time, afterwards their memory is never read again
extern "C" void dv_req_checkpoint(const char* where) {
  if (!g_on) return;
  audit(where);
  for (auto& t : g_tr) if (t.send && t.active && !t.observed) t.frozen = true;
}

// returns the verdict ("" = fine) through a static buffer; completes/cancels what the program left behind so that the
// next case starts from a clean state
extern "C" const char* dv_req_case_end() {
  static std::string out;
  if (g_on) {
    int ns = 0, nr = 0;
    std::string first;
    for (auto& t : g_tr) {
      if (!t.active) continue;
      if (t.observed) continue;
      (t.send ? ns : nr)++;
      if (first.empty()) first = what(t) + (t.released ? " [released with MPI_Request_free while active]" : "");
    }
    if (ns + nr > 0)
      fail(std::to_string(ns) + " send and " + std::to_string(nr) + " receive request(s) started by the communication were never "
           "completed by the program (no successful MPI_Wait*/MPI_Test*) although the communicator has been destroyed and its "
           "buffers released: " + first + " -- forward()/backward() returned while that operation could still be pending");
  }
  g_on = false;
  for (auto& t : g_tr) {
    if (t.released || t.h == MPI_REQUEST_NULL) continue;
    if (t.persistent && !t.active) continue;  // an inactive persistent request still owned by the program or leaked: leave it
    MPI_Request h = t.h;
    int flag = 0;
    for (int k = 0; k < 20000 && !flag; ++k) {
      if (t.persistent) PMPI_Request_get_status(h, &flag, MPI_STATUS_IGNORE);
      else PMPI_Test(&h, &flag, MPI_STATUS_IGNORE);
      if (!flag) usleep(50);
    }
    if (!flag && !t.persistent) { PMPI_Cancel(&h); PMPI_Request_free(&h); }
  }
  g_tr.clear();
  out = g_fail;
  g_fail.clear();
  return out.c_str();
}

// ---- starting requests ---------------------------------------------------------------------------------------------
#define DV_SENDLIKE(NAME)                                                                                              \
  extern "C" int MPI_##NAME(const void* buf, int count, MPI_Datatype dt, int dest, int tag, MPI_Comm comm,           \
                            MPI_Request* req) {                                                                       \
    if (g_on) audit("the start of a further send");                                                                   \
    int rc = PMPI_##NAME(buf, count, dt, dest, tag, comm, req);                                                       \
    if (g_on && rc == MPI_SUCCESS) started(*req, true, false, true, buf, count, dt, dest, comm);                      \
    return rc;                                                                                                        \
  }
DV_SENDLIKE(Isend)
DV_SENDLIKE(Issend)
DV_SENDLIKE(Irsend)
#undef DV_SENDLIKE

extern "C" int MPI_Irecv(void* buf, int count, MPI_Datatype dt, int src, int tag, MPI_Comm comm, MPI_Request* req) {
  if (g_on) audit("the start of a further receive");
  int rc = PMPI_Irecv(buf, count, dt, src, tag, comm, req);
  if (g_on && rc == MPI_SUCCESS) started(*req, false, false, true, buf, count, dt, src, comm);
  return rc;
}

#define DV_SENDINIT(NAME)                                                                                              \
  extern "C" int MPI_##NAME(const void* buf, int count, MPI_Datatype dt, int dest, int tag, MPI_Comm comm,           \
                            MPI_Request* req) {                                                                       \
    int rc = PMPI_##NAME(buf, count, dt, dest, tag, comm, req);                                                       \
    if (g_on && rc == MPI_SUCCESS) started(*req, true, true, false, buf, count, dt, dest, comm);                      \
    return rc;                                                                                                        \
  }
DV_SENDINIT(Send_init)
DV_SENDINIT(Ssend_init)
DV_SENDINIT(Rsend_init)
#undef DV_SENDINIT

extern "C" int MPI_Recv_init(void* buf, int count, MPI_Datatype dt, int src, int tag, MPI_Comm comm, MPI_Request* req) {
  int rc = PMPI_Recv_init(buf, count, dt, src, tag, comm, req);
  if (g_on && rc == MPI_SUCCESS) started(*req, false, true, false, buf, count, dt, src, comm);
  return rc;
}

extern "C" int MPI_Start(MPI_Request* req) {
  if (g_on) { audit("the start of a further persistent request"); activate(*req); }
  return PMPI_Start(req);
}
extern "C" int MPI_Startall(int count, MPI_Request reqs[]) {
  if (g_on) {
    audit("the start of further persistent requests");
    for (int i = 0; i < count; ++i) activate(reqs[i]);
  }
  return PMPI_Startall(count, reqs);
}

// ---- completing requests -------------------------------------------------------------------------------------------
extern "C" int MPI_Wait(MPI_Request* req, MPI_Status* st) {
  MPI_Request h = *req;
  int rc = PMPI_Wait(req, st);
  if (g_on && rc == MPI_SUCCESS) completedBy(h);
  return rc;
}
extern "C" int MPI_Waitall(int count, MPI_Request reqs[], MPI_Status sts[]) {
  std::vector<MPI_Request> h(reqs, reqs + count);
  int rc = PMPI_Waitall(count, reqs, sts);
  if (g_on && rc == MPI_SUCCESS) for (auto x : h) completedBy(x);
  return rc;
}
extern "C" int MPI_Waitany(int count, MPI_Request reqs[], int* index, MPI_Status* st) {
  std::vector<MPI_Request> h(reqs, reqs + count);
  int rc = dvs_MPI_Waitany(count, reqs, index, st);
  if (g_on && rc == MPI_SUCCESS && *index != MPI_UNDEFINED && *index >= 0 && *index < count) completedBy(h[(size_t)*index]);
  return rc;
}
extern "C" int MPI_Waitsome(int incount, MPI_Request reqs[], int* outcount, int indices[], MPI_Status sts[]) {
  std::vector<MPI_Request> h(reqs, reqs + incount);
  int rc = PMPI_Waitsome(incount, reqs, outcount, indices, sts);
  if (g_on && rc == MPI_SUCCESS && *outcount != MPI_UNDEFINED)
    for (int j = 0; j < *outcount; ++j) completedBy(h[(size_t)indices[j]]);
  return rc;
}
extern "C" int MPI_Test(MPI_Request* req, int* flag, MPI_Status* st) {
  MPI_Request h = *req;
  int rc = PMPI_Test(req, flag, st);
  if (g_on && rc == MPI_SUCCESS && *flag) completedBy(h);
  return rc;
}
extern "C" int MPI_Testall(int count, MPI_Request reqs[], int* flag, MPI_Status sts[]) {
  std::vector<MPI_Request> h(reqs, reqs + count);
  int rc = PMPI_Testall(count, reqs, flag, sts);
  if (g_on && rc == MPI_SUCCESS && *flag) for (auto x : h) completedBy(x);
  return rc;
}
extern "C" int MPI_Testany(int count, MPI_Request reqs[], int* index, int* flag, MPI_Status* st) {
  std::vector<MPI_Request> h(reqs, reqs + count);
  int rc = dvs_MPI_Testany(count, reqs, index, flag, st);
  if (g_on && rc == MPI_SUCCESS && *flag && *index != MPI_UNDEFINED && *index >= 0 && *index < count)
    completedBy(h[(size_t)*index]);
  return rc;
}
extern "C" int MPI_Testsome(int incount, MPI_Request reqs[], int* outcount, int indices[], MPI_Status sts[]) {
  std::vector<MPI_Request> h(reqs, reqs + incount);
  int rc = dvs_MPI_Testsome(incount, reqs, outcount, indices, sts);
  if (g_on && rc == MPI_SUCCESS && *outcount != MPI_UNDEFINED)
    for (int j = 0; j < *outcount; ++j) completedBy(h[(size_t)indices[j]]);
  return rc;
}
extern "C" int MPI_Request_get_status(MPI_Request req, int* flag, MPI_Status* st) {
  int rc = PMPI_Request_get_status(req, flag, st);
  if (g_on && rc == MPI_SUCCESS && *flag)
    for (auto& t : g_tr) if (t.h == req && !t.released) t.observed = true;
  return rc;
}
extern "C" int MPI_Request_free(MPI_Request* req) {
  MPI_Request h = *req;
  if (g_on)
    for (size_t i = 0; i < g_tr.size(); ++i)
      if (g_tr[i].h == h && !g_tr[i].released) {
        if (g_tr[i].active && !g_tr[i].observed) { g_tr[i].released = true; g_tr[i].h = MPI_REQUEST_NULL; }
        else g_tr.erase(g_tr.begin() + (long)i);
        break;
      }
  return PMPI_Request_free(req);
}
