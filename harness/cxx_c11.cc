// C11 correspondence harness: ArrayList, SLList, ReservedVector, BitSetVector, lru  vs. the Lean models,
// with std:: containers as independent shadow oracles.
//
// One case = one operation history on one line:   <container> <params> : op;op;op
//   every header may end in the token `rel` (release build of the headers, see below):  `al 4 rel : ...`
//   al <N>   : [b.](push x | pushn k x | erase k | purge | clear | get k | set k x | hold k | idx k j | asg | cc | sasg)
//              two lists a (bare op) and b (prefix "b."); asg: target = other, cc: target constructed anew as a copy
//              of the other list, sasg: target = target
//   sl       : (a|b).(pb x | pf x | pop | clear | ia k x | dn k | asg a|b | cc | ccv | mb | me | m+ | mi x | mr)
//   rv <n>   : (a|b).(push x | emp x | pop | clear | resize k | set i x | at i | fill x | swap | asg | ctor | ctorc k |
//                     ctorv k x | init [l] | initr ra|ptr|bidi|fwd|in|is [l])
//   bv <B>   : new n | newv n b | fromv b<bits> | resize n b | clear | setall | unsetall | set i | reset i | flip i |
//              set1 i j b | reset1 i j | flip1 i j | asgb i b | asgs i bits | asgr i k | and|or|xor i bits |
//              andr|orr|xorr i k | shl i n | shr i n | q i | not i | shlq i n | shrq i n | eqs i bits | eqr i k | test i j
//   lru      : [b.](ins k v | ins1 k | touch k | find k | popf | popb | resize n | clear | asg | cc | sasg)   (two caches)
// The answer line holds one observation per op, joined by ';' (an op outside its precondition — undefined
// behaviour or a failing assert in C++ — is not executed and observed as "skip"; the model does the same).
//
// Build configurations.  The dune-common headers of this property change with three macros: NDEBUG (assert(), and
// sllist.hh compiles a variable only without it), DUNE_CHECK_BOUNDS (bitsetvector.hh) and CHECK_RESERVEDVECTOR
// (reservedvector.hh).  This translation unit is the configuration "all checks on" (asserts, bounds checks, size
// checks); cxx_c11_rel.cc compiles the very same runners against the headers in the configuration "release" (NDEBUG,
// no checks), with the library renamed to another namespace so that both live in one binary.  A header token `rel`
// (`bv 65 rel : ...`, `sl rel : ...`) sends the history to the release build; the behaviour the property talks about
// is the same in both, so the model ignores the token (it only validates it).
#define DUNE_CHECK_BOUNDS 1
#define CHECK_RESERVEDVECTOR 1
#include <config.h>

#include <dune/common/arraylist.hh>
#include <dune/common/bitsetvector.hh>
#include <dune/common/exceptions.hh>
#include <dune/common/lru.hh>
#include <dune/common/reservedvector.hh>
#include <dune/common/sllist.hh>

#include "c11_containers.hh"

// the same histories against the release configuration (cxx_c11_rel.cc)
dv::Result c11_exec_rel(const std::string& line);

Result exec(const std::string& line) {
  if (c11HasRel(line)) { stat("cfg_release"); return c11_exec_rel(line); }
  stat("cfg_checked");
  return execContainers(line);
}

// ---- generators -------------------------------------------------------------------------------
namespace {

// a third of the histories run against the release build of the headers
std::string cfgTok(Rng& r, const Args& a) {
  std::string c = a.gets("cfg", "");
  if (c == "rel") return " rel";
  if (c == "chk") return "";
  return r.coin(1, 3) ? " rel" : "";
}

long histLen(Rng& r, const Args& a) {
  long mx = a.get("maxlen", a.tier == "thorough" ? 60 : 40);
  switch (r.below(6)) {
    case 0: return r.range(0, 4);
    case 1: return r.range(3, 10);
    default: return r.range(8, mx);
  }
}
int val(Rng& r) { return r.coin(1, 10) ? (int)r.range(-3, 3) : (int)r.range(0, 99); }

std::string genAL(Rng& r, const Args& a) {
  static const std::vector<int> NS = {1, 2, 3, 7, 2, 3, 4, 0, 1, 2, 3, 4, 8, 16, 100};
  int Nt = r.pick(NS);
  int N = Nt > 0 ? Nt : 1;
  long len = histLen(r, a);
  long sizes[2] = {0, 0}, starts[2] = {0, 0};
  const bool two = r.coin(1, 2);  // half of the histories use the second list and copies
  std::vector<std::string> ops;
  int ctr = 1;
  for (long i = 0; i < len; ++i) {
    std::ostringstream os;
    int c = (int)r.below(100);
    const int t = two && r.coin(1, 3) ? 1 : 0;
    const std::string T = t ? "b." : "";
    long& size = sizes[t];
    long& start = starts[t];
    if (two && r.coin(1, 12)) {  // copies in both directions, self-assignment
      switch (r.below(5)) {
        case 0: os << T << "sasg"; break;
        case 1: case 2: os << T << "asg"; size = sizes[1 - t]; start = starts[1 - t]; break;
        default: os << T << "cc"; size = sizes[1 - t]; start = starts[1 - t]; break;
      }
    } else if (r.coin(1, 60)) {  // deliberately outside the precondition
      static const std::vector<std::string> bad = {"erase", "get", "hold", "idx 0", "set 99"};
      os << T << r.pick(bad) << " " << (size + r.range(1, 2));
    } else if (c < 45 || (size == 0 && c < 70)) {
      int burst = r.coin(1, 5) ? (int)r.range(1, 2 * N) : 1;  // fill across a chunk boundary
      if (N >= 8 && r.coin(1, 2)) {
        // large chunks: one op appends up to (and around) the next chunk boundary or across two chunks
        long toEnd = N - ((start + size) % N);  // appends that fill the current chunk exactly
        long k;
        switch (r.below(5)) {
          case 0: k = toEnd; break;
          case 1: k = toEnd + 1; break;
          case 2: k = toEnd > 1 ? toEnd - 1 : 1; break;
          case 3: k = toEnd + N; break;
          default: k = r.range(1, 2 * N); break;
        }
        if (k > 300) k = 300;
        if (size + k > 700) k = 1;
        os << T << "pushn " << k << " " << ctr;
        ctr += (int)k; size += k;
      } else {
        if (burst > 8) burst = 8;
        for (int b = 0; b < burst; ++b) {
          if (b) { ops.push_back(os.str()); os.str(""); }
          os << T << "push " << (r.coin(3, 4) ? ctr++ : val(r));
          ++size;
        }
      }
    } else if (c < 60 && size > 0) {
      long k;
      // aim the new start at a chunk boundary, one before, one after, or anywhere; or erase everything
      long toBoundary = (N - (start % N)) % N;  // elements up to the next boundary
      switch (r.below(6)) {
        case 0: k = toBoundary - 1; break;
        case 1: k = toBoundary; break;
        case 2: k = toBoundary - 2 + N; break;
        case 3: k = size - 1; break;
        case 4: k = 0; break;
        default: k = (long)r.below(size); break;
      }
      if (k < 0) k = 0;
      if (k >= size) k = size - 1;
      os << T << "erase " << k;
      size -= k + 1; start += k + 1;
    } else if (c < 72) {
      os << T << "purge";
      if (start / N > 0) start %= N;
    } else if (c < 75) {
      os << T << "clear"; size = 0; start = 0;
    } else if (c < 80 && size > 0) {
      os << T << "get " << r.below(size);
    } else if (c < 85 && size > 0) {
      os << T << "set " << r.below(size) << " " << val(r);
    } else if (c < 95) {
      os << T << "hold " << (r.coin(1, 3) ? size : (long)r.below(size + 1));
    } else if (size > 0) {
      long k = r.below(size);
      os << T << "idx " << k << " " << r.below(size - k);
    } else {
      os << T << "push " << ctr++; ++size;
    }
    ops.push_back(os.str());
  }
  return "al " + std::to_string(Nt) + cfgTok(r, a) + " : " + join(ops.begin(), ops.end(), ";");
}

std::string genSL(Rng& r, const Args& a) {
  long len = histLen(r, a);
  long size[2] = {0, 0};
  bool mlive[2] = {false, false};
  long mpos[2] = {0, 0};
  std::vector<std::string> ops;
  int ctr = 1;
  for (long i = 0; i < len; ++i) {
    std::ostringstream os;
    int t = r.coin(3, 4) ? 0 : 1;
    std::string T = t ? "b." : "a.";
    int c = (int)r.below(100);
    long& n = size[t];
    if (r.coin(1, 60)) {
      static const std::vector<std::string> bad = {"pop", "ia 7 1", "dn 6", "m+", "mr", "mi 3"};
      os << T << r.pick(bad);
      // may be valid by accident: keep the generator's bookkeeping conservative by invalidating the iterator
      ops.push_back(os.str());
      // bookkeeping unknown now; resynchronise by clearing
      ops.push_back(T + "clear"); n = 0; mlive[t] = false;
      continue;
    }
    bool cont = mlive[t] && r.coin(2, 3);  // keep working through a live modify iterator
    if (cont && c < 30 && mpos[t] < n) { os << T << "m+"; ++mpos[t]; }
    else if (cont && c < 65) { os << T << "mi " << ctr++; ++n; ++mpos[t]; }
    else if (cont && mpos[t] < n) { os << T << "mr"; --n; }
    else if (cont) { os << T << "mi " << ctr++; ++n; ++mpos[t]; }
    else if (c < 22) { os << T << "pb " << (r.coin(3, 4) ? ctr++ : val(r)); ++n; mlive[t] = false; }
    else if (c < 30) { os << T << "pf " << (r.coin(3, 4) ? ctr++ : val(r)); ++n; mlive[t] = false; }
    else if (c < 37 && n > 0) { os << T << "pop"; --n; mlive[t] = false; }
    else if (c < 38) { os << T << "clear"; n = 0; mlive[t] = false; }
    else if (c < 46 && n > 0) { os << T << "ia " << (r.coin() ? n - 1 : (long)r.below(n)) << " " << ctr++; ++n; mlive[t] = false; }
    else if (c < 53 && n > 1) { os << T << "dn " << (r.coin() ? n - 2 : (long)r.below(n - 1)); --n; mlive[t] = false; }
    else if (c < 59) {
      int src = (int)r.below(3) == 0 ? t : 1 - t;
      os << T << "asg " << (src ? "b" : "a");
      n = size[src]; mlive[t] = false;
    }
    else if (c < 62) { os << T << (r.coin(1, 2) ? "cc" : "ccv"); }
    else if (c < 80) { os << T << "mb"; mlive[t] = true; mpos[t] = 0; }
    else if (c < 92) { os << T << "me"; mlive[t] = true; mpos[t] = n; }
    else { os << T << "pb " << ctr++; ++n; mlive[t] = false; }
    ops.push_back(os.str());
  }
  return "sl" + cfgTok(r, a) + " : " + join(ops.begin(), ops.end(), ";");
}

std::string genRV(Rng& r, const Args& a) {
  static const std::vector<int> NS = {1, 2, 4, 7, 4, 1, 2, 7, 16, 65};
  int n = r.pick(NS);
  // sizes: anywhere, or at / next to the capacity
  auto sizeArg = [&]() -> long { return r.coin(1, 4) ? (r.coin() ? n : n - 1) : r.range(0, n); };
  long len = histLen(r, a);
  long size[2] = {0, 0};
  std::vector<std::string> ops;
  for (long i = 0; i < len; ++i) {
    std::ostringstream os;
    int t = r.coin(2, 3) ? 0 : 1;
    std::string T = t ? "b." : "a.";
    long& s = size[t];
    int c = (int)r.below(100);
    int v = r.coin(2, 3) ? (int)r.range(0, 3) : val(r);  // few distinct values: comparisons hit equal prefixes
    if (r.coin(1, 50)) { os << T << (r.coin() ? "push 5" : "resize " + std::to_string(n + 1)); if (os.str().find("push") != std::string::npos && s < n) ++s; }
    else if (c < 30 && s < n) { os << T << (r.coin(1, 4) ? "emp " : "push ") << v; ++s; }
    else if (c < 42) { os << T << "pop"; if (s) --s; }
    else if (c < 45) { os << T << "clear"; s = 0; }
    else if (c < 55) { long k = sizeArg(); os << T << "resize " << k; s = k; }
    else if (c < 63 && s > 0) { os << T << "set " << r.below(s) << " " << v; }
    else if (c < 70) { long q = (long)r.below(3);   // inside, exactly at size() (the first index that must throw) / size()-1, anywhere up to n+1
      os << T << "at " << (q == 0 && s > 0 ? (long)r.below(s) : q == 1 ? (r.coin(3, 4) || s == 0 ? s : s - 1) : (long)r.range(0, n + 1)); }
    else if (c < 74) { os << T << "fill " << v; }
    else if (c < 77) { os << T << "swap"; std::swap(size[0], size[1]); }
    else if (c < 80) { os << T << "asg"; s = size[1 - t]; }
    else if (c < 82) { os << T << "ctor"; s = 0; }
    else if (c < 85) { long k = sizeArg(); os << T << "ctorc " << k; s = k; }
    else if (c < 90) { long k = sizeArg(); os << T << "ctorv " << k << " " << v; s = k; }
    else {
      long k = sizeArg();
      std::vector<int> l;
      for (long j = 0; j < k; ++j) l.push_back((int)r.range(0, 3));
      // half of them through the iterator-pair constructor with an explicit iterator category (single-pass input
      // iterators twice as often as each of the multi-pass ones)
      static const std::vector<std::string> KINDS = {"ra", "ptr", "bidi", "fwd", "in", "in", "is", "is"};
      if (r.coin()) os << T << "initr " << r.pick(KINDS) << " " << listStr(l);
      else os << T << "init " << listStr(l);
      s = k;
    }
    ops.push_back(os.str());
  }
  return "rv " + std::to_string(n) + cfgTok(r, a) + " : " + join(ops.begin(), ops.end(), ";");
}

std::string genBV(Rng& r, const Args& a) {
  // block sizes on both sides of the word boundaries of std::bitset's storage (see execContainers)
  static const std::vector<int> BS = {1, 3, 8, 3, 8, 33, 32, 63, 64, 65, 65, 100, 128, 129};
  int B = (int)a.get("B", r.pick(BS));
  long len = histLen(r, a);
  if (B >= 100 && len > 16) len = 8 + len % 9;  // every op is followed by a full observation costing ~20 B bit reads per block

  long n = 0;
  std::vector<std::string> ops;
  // bit positions: anywhere, or next to a storage word boundary / the ends of the block
  auto bitPos = [&]() -> long {
    static const std::vector<long> edge = {0, 31, 32, 63, 64, 65, 127, 128};
    if (r.coin(1, 3)) {
      long e = r.coin(1, 4) ? (long)B - 1 : r.pick(edge);
      if (e < B) return e;
    }
    return (long)r.below(B);
  };
  auto bits = [&]() {
    std::string s;
    int style = (int)r.below(7);
    long one = bitPos();
    for (int j = 0; j < B; ++j) {
      char ch;
      switch (style) {
        case 0: ch = '0'; break;
        case 1: ch = '1'; break;
        case 2: ch = j == one ? '1' : '0'; break;          // one bit, often at a word boundary
        case 3: ch = j >= 64 ? '1' : '0'; break;           // only the part beyond the first word
        case 4: ch = j < 64 ? '1' : '0'; break;            // only the first word
        default: ch = r.coin() ? '1' : '0'; break;
      }
      s += ch;
    }
    return s;
  };
  auto shiftBy = [&]() -> long {
    switch (r.below(6)) { case 0: return 0; case 1: return 1; case 2: return B - 1; case 3: return B + (long)r.below(3); case 4: return bitPos() + (long)r.below(2); default: return (long)r.below(B + 1); }
  };
  for (long i = 0; i < len; ++i) {
    std::ostringstream os;
    int c = (int)r.below(100);
    if (n == 0 || c < 6) {
      long k = r.range(n == 0 ? 1 : 0, 5);
      switch (r.below(4)) {
        case 0: os << "new " << k; break;
        case 1: os << "newv " << k << " " << r.below(2); break;
        case 2: {  // from a std::vector<bool>: usually whole blocks, sometimes one bit more or less (RangeError)
          long bitsN = k * B;
          if (r.coin(1, 4)) bitsN += r.coin() ? 1 : (bitsN > 0 ? -1 : B + 1);
          std::string raw = "b";
          for (long j = 0; j < bitsN; ++j) raw += r.coin() ? '1' : '0';
          os << "fromv " << raw;
          if (bitsN % B != 0) k = n;  // rejected: the vector keeps its blocks
          break;
        }
        default: os << "resize " << k << " " << r.below(2); break;
      }
      n = k;
    } else if (r.coin(1, 60)) { os << (r.coin() ? "flip " : "q ") << n; }
    else {
      long b = r.below(n), b2 = r.coin(1, 4) ? b : (long)r.below(n);
      static const std::vector<std::string> kinds = {
          "clear", "setall", "unsetall", "set", "reset", "flip", "set1", "reset1", "flip1", "asgb", "asgs", "asgr",
          "and", "or", "xor", "andr", "orr", "xorr", "shl", "shr", "q", "not", "shlq", "shrq", "eqs", "eqr", "test",
          "set1", "flip1", "asgs", "xor", "shl", "shr", "asgr", "xorr", "flip"};
      std::string k = r.pick(kinds);
      if (k == "clear" && r.coin(3, 4)) k = "flip1";
      os << k;
      if (k == "clear") n = 0;
      else if (k == "setall" || k == "unsetall") {}
      else if (k == "set" || k == "reset" || k == "flip" || k == "q" || k == "not") os << " " << b;
      else if (k == "set1") os << " " << b << " " << bitPos() << " " << r.below(2);
      else if (k == "reset1" || k == "flip1" || k == "test") os << " " << b << " " << bitPos();
      else if (k == "asgb") os << " " << b << " " << r.below(2);
      else if (k == "asgs" || k == "and" || k == "or" || k == "xor" || k == "eqs") os << " " << b << " " << bits();
      else if (k == "asgr" || k == "andr" || k == "orr" || k == "xorr" || k == "eqr") os << " " << b << " " << b2;
      else os << " " << b << " " << shiftBy();  // shl shr shlq shrq
    }
    ops.push_back(os.str());
  }
  return "bv " + std::to_string(B) + cfgTok(r, a) + " : " + join(ops.begin(), ops.end(), ";");
}

std::string genLRU(Rng& r, const Args& a) {
  long len = histLen(r, a);
  long nkeys = r.coin(1, 3) ? 3 : r.coin() ? 6 : 8;
  std::vector<std::string> ops;
  std::vector<int> presents[2];  // generator's own idea of the keys (only steers the choice of ops)
  const bool two = r.coin(1, 2);  // half of the histories use the second cache and copies
  int ctr = 10;
  for (long i = 0; i < len; ++i) {
    std::ostringstream os;
    int c = (int)r.below(100);
    int k = (int)r.below(nkeys);
    const int t = two && r.coin(1, 3) ? 1 : 0;
    const std::string T = t ? "b." : "";
    std::vector<int>& present = presents[t];
    auto erase = [&](int key) { present.erase(std::remove(present.begin(), present.end(), key), present.end()); };
    if (!present.empty() && r.coin(1, 3)) k = r.pick(present);
    if (two && r.coin(1, 10)) {
      switch (r.below(5)) {
        case 0: os << T << "sasg"; break;
        case 1: case 2: os << T << "asg"; present = presents[1 - t]; break;
        default: os << T << "cc"; present = presents[1 - t]; break;
      }
    }
    else if (c < 45) { os << T << "ins " << k << " " << ctr++; erase(k); present.insert(present.begin(), k); }
    else if (c < 62) { os << T << (r.coin(1, 3) ? "ins1 " : "touch ") << k;
      if (std::count(present.begin(), present.end(), k)) { erase(k); present.insert(present.begin(), k); } }
    else if (c < 72) { os << T << "find " << k; }
    else if (c < 79) { os << T << "popf"; if (!present.empty()) present.erase(present.begin()); }
    else if (c < 88) { os << T << "popb"; if (!present.empty()) present.pop_back(); }
    else if (c < 98) { long n = present.empty() ? 0 : (long)r.below(present.size() + 1); if (r.coin(1, 20)) n = present.size() + 1; os << T << "resize " << n; if (n <= (long)present.size()) present.resize(n); }
    else { os << T << "clear"; present.clear(); }
    ops.push_back(os.str());
  }
  return "lru" + cfgTok(r, a) + " : " + join(ops.begin(), ops.end(), ";");
}

// exhaustive enumeration of short histories over a small alphabet (thorough tier): case i = i-th word
std::string genEnum(const std::string& kind, long i) {
  std::vector<std::string> alpha;
  std::vector<std::string> prefix;  // fixed ops in front of the enumerated word
  std::string head;
  long len;
  if (kind == "bv65" || kind == "bv129r") {
    // block sizes beyond one / two storage words of std::bitset: every word over bit writes at the word boundary,
    // shifts by and across a word, and the operations that go through the conversion to std::bitset
    const bool big = kind == "bv129r";
    head = big ? "bv 129 rel" : "bv 65";
    const std::string top = big ? "128" : "64";
    const std::string mask = big ? std::string(64, '0') + std::string(65, '1') : std::string(64, '0') + "1";
    prefix = {"newv 2 0", "set1 1 0 1"};
    alpha = {"set1 0 " + top + " 1", "flip1 0 63", "shl 0 1", "shr 0 1", "shl 0 64", "shr 0 64", "flip 0", "asgr 1 0",
             "xorr 0 1", "andr 0 1", "or 0 " + mask, "shr 0 " + top};
    len = big ? 3 : 4;
  } else if (kind == "al1" || kind == "al2" || kind == "al3") {
    head = "al " + kind.substr(2);
    alpha = {"push #", "erase 0", "erase 1", "purge", "hold 1", "erase 2", "clear"};
    len = 6;
  } else if (kind == "al2c" || kind == "al3c") {  // two lists with copies
    head = "al " + kind.substr(2, 1);
    alpha = {"push #", "b.push #", "erase 0", "b.erase 1", "b.cc", "asg", "b.set 0 9", "purge", "b.purge", "hold 1"};
    len = 5;
  } else if (kind == "lruc") {
    head = "lru";
    alpha = {"ins 0 #", "ins 1 #", "b.ins 0 #", "b.touch 1", "touch 0", "b.cc", "asg", "popb", "b.popf", "b.sasg"};
    len = 5;
  } else if (kind == "sl") {
    head = "sl";
    alpha = {"a.pb #", "a.pf #", "a.pop", "a.mb", "a.m+", "a.mi #", "a.mr", "a.me", "a.asg a", "a.dn 0"};
    len = 5;
  } else {
    head = "lru";
    alpha = {"ins 0 #", "ins 1 #", "ins 2 #", "touch 0", "touch 1", "popf", "popb", "resize 1"};
    len = 5;
  }
  long A = alpha.size();
  // words of length exactly len (shorter ones are prefixes and are observed op by op anyway)
  std::vector<std::string> ops = prefix;
  long x = i;
  for (long j = 0; j < len; ++j) {
    std::string o = alpha[x % A];
    x /= A;
    auto p = o.find('#');
    if (p != std::string::npos) o = o.substr(0, p) + std::to_string(j + 1);
    ops.push_back(o);
  }
  return head + " : " + join(ops.begin(), ops.end(), ";");
}

}  // namespace

std::string gen(Rng& r, long i, const Args& a) {
  std::string en = a.gets("enum", "");
  if (!en.empty()) return genEnum(en, i + a.get("offset", 0));
  std::string only = a.gets("only", "");
  int which = (int)r.below(10);
  if (only == "al" || (only.empty() && which < 3)) return genAL(r, a);
  if (only == "sl" || (only.empty() && which < 5)) return genSL(r, a);
  if (only == "rv" || (only.empty() && which < 6)) return genRV(r, a);
  if (only == "bv" || (only.empty() && which < 8)) return genBV(r, a);
  return genLRU(r, a);
}

int main(int argc, char** argv) { return dv::run(argc, argv, gen, exec); }
