// C04 correspondence harness: Dune::RemoteIndices vs. the Lean model, with the set-theoretic definition as oracle.
//
// One case = one distributed history on one line:
//
//   c04 <P> <flags> <hints> : seg;seg;...
//
//   <flags>  P digits, digit of rank r = (two ? 1 : 0) + (includeSelf ? 2 : 0) + (defaultCtor ? 4 : 0)
//            two: the rank uses RemoteIndices(source, target) with two distinct index set objects (object 0 and 1),
//            otherwise RemoteIndices(source, source) (object 0)
//            defaultCtor: the object is made by RemoteIndices() + setIndexSets(...) + setIncludeSelf(...) instead of
//            the five-argument constructor
//   <hints>  per rank, separated by '/':  "-" (no neighbour hints: ring) or a comma list of ranks
//   segments, executed in order by every rank (every rank knows the whole distributed case).  <s> is a *role*:
//   0 = the current source index set of the rank, 1 = its current target index set (on a one-set rank the source
//   object), 2 = an index set the RemoteIndices object does not refer to:
//     a<s>,<r>,<g>,<l>,<attr>,<pub>   pending add to the object behind role s (0/1) of rank r
//     d<s>,<r>,<g>                    pending delete of every entry with global g in that object (also cancels
//                                     the pending adds of g there)
//     R<s>                            every rank resizes (beginResize … endResize) the object behind role s, applying
//                                     the pending adds/deletes of that object
//     r<s>,<r>                        only rank r does
//     B<ign>                          collective rebuild<ign>(); observation: the remote index lists.  The ranks first
//                                     tell each other whether their rebuild would really rebuild (never built / freed,
//                                     other ignorePublic, !isSynced()); if they disagree the call would not return
//                                     (some ranks communicate, the others do not): it is skipped, observation "b!"
//     S                               observation: isSynced()
//     F                               every rank calls free(); observation: f<neighbours()>
//     X<k>                            every rank calls setIndexSets again: k=0 same roles, k=1 source and target
//                                     exchanged (two-set ranks); observation: x<neighbours()>
//     I<r>,<b>                        rank r calls setIncludeSelf(b)
//     N<hints>                        every rank calls setNeighbours with its part of <hints> (format as in the header)
//   (a1/d1 addressed to a one-set rank are ignored; an add whose (global, attribute) is already present is ignored)
//
// Answer of a rank: the observations joined by ';' :
//     S -> s0 | s1          B -> b  followed by  <q>:[(g,ra,l,a)...]|[(g,ra,l,a)...]  for every neighbour entry q
//     in ascending rank order (send list | receive list; g global index, ra attribute on q, l/a local index and
//     attribute of the own pair; entries with the same global index are printed in ascending (ra,l,a) order).
#include <config.h>

#include <algorithm>
#include <array>
#include <map>
#include <memory>
#include <set>

#include <dune/common/enumset.hh>
#include <dune/common/parallel/indexset.hh>
#include <dune/common/parallel/mpihelper.hh>
#include <dune/common/parallel/plocalindex.hh>
#include <dune/common/parallel/remoteindices.hh>

#include "hcommon_mpi.hh"

using namespace dv;

enum Flags { owner = 0, overlap = 1, copy = 2, ghost = 3 };
typedef Dune::ParallelLocalIndex<Flags> LocalIndex;
typedef Dune::ParallelIndexSet<int, LocalIndex> PIS;
typedef Dune::RemoteIndices<PIS> RI;

struct Ent {
  long g, l;
  int a;
  bool pub;
};
typedef std::pair<long, int> Key;           // (global, attribute): the sort key of ParallelIndexSet
typedef std::map<Key, Ent> Shadow;          // shadow of one index set object
struct Tuple {                              // one remote index as observed / expected
  long g;
  int ra;
  long l;
  int a;
  bool operator<(const Tuple& o) const { return std::tie(g, ra, l, a) < std::tie(o.g, o.ra, o.l, o.a); }
  bool operator==(const Tuple& o) const { return g == o.g && ra == o.ra && l == o.l && a == o.a; }
};
static std::string show(const std::vector<Tuple>& v) {
  std::string s = "[";
  for (size_t i = 0; i < v.size(); ++i) {
    if (i) s += ",";
    s += "(" + std::to_string(v[i].g) + "," + std::to_string(v[i].ra) + "," + std::to_string(v[i].l) + "," +
         std::to_string(v[i].a) + ")";
  }
  return s + "]";
}

struct Pending {
  std::vector<Ent> adds;
  std::set<long> dels;
};

// set definition: [(a.g, b.attr, a.l, a.a) | a in A (ascending), b in B, a.g == b.g], restricted to published entries
static std::vector<Tuple> joinDef(const Shadow& A, const Shadow& B, bool ign, bool dropEqualAttr) {
  std::vector<Tuple> out;
  for (auto& ka : A) {
    const Ent& a = ka.second;
    if (!(ign || a.pub)) continue;
    for (auto& kb : B) {
      const Ent& b = kb.second;
      if (!(ign || b.pub)) continue;
      if (a.g != b.g) continue;
      if (dropEqualAttr && a.a == b.a) continue;
      out.push_back(Tuple{a.g, b.a, a.l, a.a});
    }
  }
  return out;
}
// canonical print order: entries of the same global index (possible only with repeated globals) are printed sorted;
// the order among them is not something the property speaks about
static std::vector<Tuple> canon(std::vector<Tuple> v) {
  size_t i = 0;
  while (i < v.size()) {
    size_t j = i;
    while (j < v.size() && v[j].g == v[i].g) ++j;
    std::sort(v.begin() + i, v.begin() + j);
    i = j;
  }
  return v;
}
static bool sortedByGlobal(const std::vector<Tuple>& v) {
  for (size_t i = 1; i < v.size(); ++i) if (v[i - 1].g > v[i].g) return false;
  return true;
}
static bool sameMultiset(std::vector<Tuple> a, std::vector<Tuple> b) {
  std::sort(a.begin(), a.end());
  std::sort(b.begin(), b.end());
  return a == b;
}
static bool subMultiset(std::vector<Tuple> a, std::vector<Tuple> b) {  // a ⊆ b
  std::sort(a.begin(), a.end());
  std::sort(b.begin(), b.end());
  return std::includes(b.begin(), b.end(), a.begin(), a.end());
}

static std::vector<Tuple> listOf(const RI::RemoteIndexList& l) {
  std::vector<Tuple> v;
  for (auto it = l.begin(); it != l.end(); ++it) {
    const auto& lp = it->localIndexPair();
    v.push_back(Tuple{(long)lp.global(), (int)it->attribute(), (long)lp.local().local(), (int)lp.local().attribute()});
  }
  return v;
}

static void applyResize(PIS& set, Shadow& sh, Pending& pe, bool real) {
  // shadow first: (old \ deleted) + adds whose key is new
  Shadow nsh;
  for (auto& kv : sh) if (!pe.dels.count(kv.second.g)) nsh.insert(kv);
  std::vector<Ent> eff;
  for (auto& e : pe.adds) {
    Key k(e.g, e.a);
    if (nsh.count(k)) continue;
    nsh[k] = e;
    eff.push_back(e);
  }
  if (real) {
    set.beginResize();
    for (auto it = set.begin(); it != set.end(); ++it)
      if (pe.dels.count(it->global())) set.markAsDeleted(it);
    for (auto& e : eff) set.add((int)e.g, LocalIndex((size_t)e.l, (Flags)e.a, e.pub));
    set.endResize();
  }
  sh = nsh;
  pe.adds.clear();
  pe.dels.clear();
}

// parse "<h0>/<h1>/..." into per-rank hint lists; returns false if malformed
static bool parseHints(const std::string& str, int P, std::vector<std::vector<int>>& hints) {
  auto hs = split(str, '/');
  if ((int)hs.size() != P) return false;
  hints.assign(P, std::vector<int>());
  for (int r = 0; r < P; ++r) {
    if (hs[r] == "-") continue;
    for (auto& w : split(hs[r], ',')) {
      if (w.empty()) return false;
      for (char c : w) if (c < '0' || c > '9') return false;
      int q = std::atoi(w.c_str());
      if (q < 0 || q >= P) return false;
      hints[r].push_back(q);
    }
  }
  return true;
}
// ring[r]: the hint list names no other rank (RemoteIndices erases the own rank).  Ring and neighbour mode cannot be
// mixed, and hints have to be symmetric, otherwise the collective call hangs.
static const char* hintsProblem(const std::vector<std::vector<int>>& hints, std::vector<bool>& ring) {
  int P = (int)hints.size();
  ring.assign(P, true);
  for (int r = 0; r < P; ++r) {
    std::set<int> hset(hints[r].begin(), hints[r].end());
    hset.erase(r);
    ring[r] = hset.empty();
  }
  for (int r = 0; r < P; ++r) {
    if (ring[r] != ring[0]) return "mixed-ring";
    if (!ring[r])
      for (int q : hints[r])
        if (q != r && std::find(hints[q].begin(), hints[q].end(), r) == hints[q].end()) return "asymmetric";
  }
  return nullptr;
}

static Result exec(const std::string& line) {
  int rank, size;
  MPI_Comm_rank(MPI_COMM_WORLD, &rank);
  MPI_Comm_size(MPI_COMM_WORLD, &size);
  Result res;
  auto bad = [&](const std::string& why) {
    res.impl = "bad-op";
    res.oracle = "ok trivial " + why;
    return res;
  };
  size_t colon = line.find(" : ");
  std::string head = colon == std::string::npos ? line : line.substr(0, colon);
  std::string body = colon == std::string::npos ? "" : line.substr(colon + 3);
  auto hw = words(head);
  if (hw.size() != 4 || hw[0] != "c04") return bad("header");
  for (char c : hw[1]) if (c < '0' || c > '9') return bad("np");
  int P = std::atoi(hw[1].c_str());
  if (P != size) return bad("np");
  if ((int)hw[2].size() != P) return bad("flags");
  std::vector<bool> two(P), incl(P), dflt(P);
  for (int r = 0; r < P; ++r) {
    int f = hw[2][r] - '0';
    if (f < 0 || f > 7) return bad("flags");
    two[r] = f & 1;
    incl[r] = f & 2;
    dflt[r] = f & 4;
  }
  std::vector<std::vector<int>> hints;
  std::vector<bool> ring;
  if (!parseHints(hw[3], P, hints)) return bad("hints");
  if (const char* why = hintsProblem(hints, ring)) return bad(why);
  bool mixed = false, anyIncl = false, anyDflt = false;
  for (int r = 0; r < P; ++r) { if (two[r] != two[0]) mixed = true; if (incl[r]) anyIncl = true; if (dflt[r]) anyDflt = true; }

  // validate all segments before anything collective happens (every rank sees the same line)
  std::vector<std::string> segs;
  for (auto& segRaw : split(body, ';')) {
    std::string seg;
    for (char c : segRaw) if (c != ' ') seg.push_back(c);
    if (!seg.empty()) segs.push_back(seg);
  }

  // shadow state of every rank (objects 0, 1, 2), real state of this rank; roles: which object is source / target
  std::vector<std::array<Shadow, 3>> sh(P);
  std::vector<std::array<Pending, 3>> pend(P);
  std::vector<int> srcO(P, 0), tgtO(P, 0);
  for (int r = 0; r < P; ++r) tgtO[r] = two[r] ? 1 : 0;
  auto objOf = [&](int r, int s) { return s == 2 ? 2 : (s == 0 ? srcO[r] : tgtO[r]); };
  PIS sets[3];
  std::unique_ptr<RI> rip;
  if (dflt[rank]) {
    rip.reset(new RI());
    rip->setIndexSets(sets[srcO[rank]], sets[tgtO[rank]], MPI_COMM_WORLD, hints[rank]);
    if (incl[rank]) rip->setIncludeSelf(true);  // otherwise the default constructor's includeSelf=false stays
  } else {
    rip.reset(new RI(sets[srcO[rank]], sets[tgtO[rank]], MPI_COMM_WORLD, hints[rank], incl[rank]));
  }
  RI& ri = *rip;

  std::vector<std::string> obs;
  // built: a rebuild has happened on this object since construction / free / setIndexSets
  bool built = false, lastIgn = false, resizedSince = false, nontrivial = false, dupGlobals = false;
  // includeSelf / hints in force at the last real build (the lists are judged against them)
  std::vector<bool> bIncl = incl, bRing = ring;
  std::vector<std::vector<int>> bHints = hints;
  std::string fail;
  long nB = 0, nS = 0, nR = 0, nEntries = 0, nSkipped = 0, nNoop = 0, nPartial = 0, nF = 0, nX = 0, nI = 0, nN = 0;
  long maxList = 0;

  for (auto& seg : segs) {
    char kind = seg[0];
    if (kind == 'a' || kind == 'd') {
      auto f = split(seg.substr(1), ',');
      if (f.size() != (kind == 'a' ? 6u : 3u)) return bad("segment");
      int s = std::atoi(f[0].c_str()), r = std::atoi(f[1].c_str());
      if (s < 0 || s > 1 || r < 0 || r >= P) return bad("segment");
      if (s == 1 && !two[r]) continue;
      int o = objOf(r, s);
      if (kind == 'a') {
        Ent e{std::atol(f[2].c_str()), std::atol(f[3].c_str()), std::atoi(f[4].c_str()), f[5] == "1"};
        if (e.a < 0 || e.a > 3 || e.l < 0) return bad("segment");
        pend[r][o].adds.push_back(e);
      } else {  // a delete also cancels the pending adds of that global
        long g = std::atol(f[2].c_str());
        auto& ad = pend[r][o].adds;
        ad.erase(std::remove_if(ad.begin(), ad.end(), [&](const Ent& e) { return e.g == g; }), ad.end());
        pend[r][o].dels.insert(g);
      }
    } else if (kind == 'R' || kind == 'r') {
      int only = -1;
      if (kind == 'R') {
        if (seg.size() != 2 || seg[1] < '0' || seg[1] > '2') return bad("segment");
      } else {
        auto f = split(seg.substr(1), ',');
        if (f.size() != 2 || f[0].size() != 1 || f[0][0] < '0' || f[0][0] > '2' || f[1].empty()) return bad("segment");
        for (char c : f[1]) if (c < '0' || c > '9') return bad("segment");
        only = std::atoi(f[1].c_str());
        if (only < 0 || only >= P) return bad("segment");
        ++nPartial;
      }
      int s = seg[1] - '0';
      ++nR;
      for (int r = 0; r < P; ++r) {
        if (only >= 0 && r != only) continue;
        int obj = objOf(r, s);
        applyResize(sets[obj], sh[r][obj], pend[r][obj], r == rank);
        if (r == rank && s != 2) resizedSince = true;
      }
    } else if (kind == 'S') {
      if (seg.size() != 1) return bad("segment");
      ++nS;
      bool sy = ri.isSynced();
      obs.push_back(sy ? "s1" : "s0");
      if (built) {
        nontrivial = true;
        if (sy == resizedSince && fail.empty())
          fail = std::string("isSynced() = ") + (sy ? "true" : "false") + " although " +
                 (resizedSince ? "an index set was resized since the rebuild" : "no index set was resized since the rebuild");
      }
    } else if (kind == 'F') {
      if (seg.size() != 1) return bad("segment");
      ++nF;
      ri.free();
      built = false;
      obs.push_back("f" + std::to_string(ri.neighbours()));
      if (ri.begin() != ri.end() && fail.empty()) fail = "remote index lists left after free()";
    } else if (kind == 'X') {
      if (seg.size() != 2 || (seg[1] != '0' && seg[1] != '1')) return bad("segment");
      ++nX;
      if (seg[1] == '1')
        for (int r = 0; r < P; ++r) std::swap(srcO[r], tgtO[r]);
      ri.setIndexSets(sets[srcO[rank]], sets[tgtO[rank]], MPI_COMM_WORLD, hints[rank]);
      built = false;
      obs.push_back("x" + std::to_string(ri.neighbours()));
      if (ri.begin() != ri.end() && fail.empty()) fail = "remote index lists left after setIndexSets()";
      if ((&ri.sourceIndexSet() != &sets[srcO[rank]] || &ri.destinationIndexSet() != &sets[tgtO[rank]]) && fail.empty())
        fail = "sourceIndexSet()/destinationIndexSet() do not return the sets passed to setIndexSets()";
    } else if (kind == 'I') {
      auto f = split(seg.substr(1), ',');
      if (f.size() != 2 || f[0].empty() || (f[1] != "0" && f[1] != "1")) return bad("segment");
      for (char c : f[0]) if (c < '0' || c > '9') return bad("segment");
      int r = std::atoi(f[0].c_str());
      if (r < 0 || r >= P) return bad("segment");
      ++nI;
      incl[r] = f[1] == "1";
      if (r == rank) ri.setIncludeSelf(incl[r]);
    } else if (kind == 'N') {
      std::vector<std::vector<int>> nh;
      std::vector<bool> nr;
      if (!parseHints(seg.substr(1), P, nh)) return bad("segment");
      if (const char* why = hintsProblem(nh, nr)) return bad(why);
      ++nN;
      hints = nh;
      ring = nr;
      ri.setNeighbours(hints[rank]);
    } else if (kind == 'B') {
      if (seg.size() != 2 || (seg[1] != '0' && seg[1] != '1')) return bad("segment");
      bool ign = seg[1] == '1';
      ++nB;
      // would rebuild<ign>() really rebuild on this rank?  The ranks must agree, otherwise the call does not return.
      int need = (!built || ign != lastIgn || !ri.isSynced()) ? 1 : 0;
      std::vector<int> needs(P);
      MPI_Allgather(&need, 1, MPI_INT, needs.data(), 1, MPI_INT, MPI_COMM_WORLD);
      bool agree = true;
      for (int r = 0; r < P; ++r) if (needs[r] != needs[0]) agree = false;
      if (!agree) {
        ++nSkipped;
        obs.push_back("b!");
        continue;
      }
      if (ign) ri.rebuild<true>(); else ri.rebuild<false>();
      if (need) { bIncl = incl; bHints = hints; bRing = ring; } else ++nNoop;
      built = true;
      lastIgn = ign;
      resizedSince = false;
      // observe
      std::map<int, std::pair<std::vector<Tuple>, std::vector<Tuple>>> got;
      std::string o = "b";
      bool firstN = true;
      for (auto it = ri.begin(); it != ri.end(); ++it) {
        auto s = listOf(*it->second.first), r = listOf(*it->second.second);
        got[it->first] = std::make_pair(s, r);
        o += (firstN ? "" : " ") + std::to_string(it->first) + ":" + show(canon(s)) + "|" + show(canon(r));
        firstN = false;
        nEntries += (long)(s.size() + r.size());
        maxList = std::max(maxList, (long)std::max(s.size(), r.size()));
        auto fit = ri.find(it->first);
        if ((fit == ri.end() || fit->second.first != it->second.first) && fail.empty()) fail = "find(rank) does not return the entry of the iteration";
      }
      obs.push_back(o);
      if ((int)got.size() != ri.neighbours() && fail.empty()) fail = "neighbours() differs from the number of entries";
      // oracle: the set definition, from the shadow decomposition of all ranks
      bool consistent = true;  // hints name every rank this rank shares a published index with
      for (int q = 0; q < P; ++q) {
        const Shadow& mySrc = sh[rank][srcO[rank]];
        const Shadow& myTgt = sh[rank][tgtO[rank]];
        const Shadow& qSrc = sh[q][srcO[q]];
        const Shadow& qTgt = sh[q][tgtO[q]];
        for (auto* S : {&mySrc, &myTgt}) {
          std::set<long> seen;
          for (auto& kv : *S) if (!seen.insert(kv.second.g).second) dupGlobals = true;
        }
        std::vector<Tuple> expS = joinDef(mySrc, qTgt, ign, false), expR = joinDef(myTgt, qSrc, ign, false);
        auto itq = got.find(q);
        std::vector<Tuple> gotS, gotR;
        if (itq != got.end()) { gotS = itq->second.first; gotR = itq->second.second; }
        std::string who = "rank " + std::to_string(rank) + " about " + std::to_string(q) + ": ";
        if (!expS.empty() || !expR.empty()) nontrivial = true;
        if (q == rank) {
          if (!two[rank] && !bIncl[rank]) {
            if (itq != got.end() && fail.empty()) fail = who + "entry for the process itself although one index set and includeSelf=false";
            continue;
          }
          std::vector<Tuple> minS = joinDef(mySrc, qTgt, ign, true), minR = joinDef(myTgt, qSrc, ign, true);
          if (!two[rank]) { expS = minS; expR = minR; }  // one set, includeSelf: pairs of different attribute only
          bool okS, okR;
          if (two[rank] && bIncl[rank]) {  // documented either way: at least the different-attribute pairs, at most all
            okS = subMultiset(minS, gotS) && subMultiset(gotS, expS);
            okR = subMultiset(minR, gotR) && subMultiset(gotR, expR);
          } else {
            okS = sameMultiset(gotS, expS);
            okR = sameMultiset(gotR, expR);
          }
          if ((!okS || !okR) && fail.empty())
            fail = who + "self entry send " + show(gotS) + " receive " + show(gotR) + " expected send " + show(expS) + " receive " + show(expR);
          if ((!sortedByGlobal(gotS) || !sortedByGlobal(gotR)) && fail.empty()) fail = who + "list not ordered by global index";
          if (itq != got.end() && gotS.empty() && gotR.empty() && fail.empty()) fail = who + "empty self entry";
          continue;
        }
        bool hinted = bRing[rank] || std::find(bHints[rank].begin(), bHints[rank].end(), q) != bHints[rank].end();
        if (!hinted) {
          if (!expS.empty() || !expR.empty()) consistent = false;  // hints not consistent: property silent about q
          else if (itq != got.end() && fail.empty()) fail = who + "entry for a process sharing nothing";
          continue;
        }
        if (expS.empty() && expR.empty()) {
          if (itq != got.end() && fail.empty()) fail = who + "entry for a process sharing nothing: send " + show(gotS) + " receive " + show(gotR);
          continue;
        }
        if (itq == got.end()) {
          if (fail.empty()) fail = who + "no entry, expected send " + show(expS) + " receive " + show(expR);
          continue;
        }
        if (!sameMultiset(gotS, expS) && fail.empty()) fail = who + "send list " + show(gotS) + " expected " + show(expS);
        if (!sameMultiset(gotR, expR) && fail.empty()) fail = who + "receive list " + show(gotR) + " expected " + show(expR);
        if ((!sortedByGlobal(gotS) || !sortedByGlobal(gotR)) && fail.empty()) fail = who + "list not ordered by global index";
      }
      for (auto& kv : got)
        if ((kv.first < 0 || kv.first >= P) && fail.empty()) fail = "entry for a rank outside the communicator";
      if (!consistent) stat("inconsistent_hints_rank_builds");
    } else {
      return bad("segment");
    }
  }
  res.impl = join(obs.begin(), obs.end(), ";");
  if (!fail.empty()) res.oracle = "FAIL " + fail;
  else res.oracle = nontrivial ? "ok" : "ok trivial";
  if (rank == 0) {
    stat(ring[0] ? "mode_ring" : "mode_neighbours");
    stat(mixed ? "sets_mixed" : (two[0] ? "sets_two" : "sets_one"));
    if (anyIncl) stat("includeSelf_some");
    if (anyDflt) stat("default_ctor_some");
    if (dupGlobals) stat("repeated_globals");
    stat("ops_B", nB);
    stat("ops_B_skipped_disagree", nSkipped);
    stat("ops_B_noop_rank0", nNoop);
    stat("ops_S", nS);
    stat("ops_R", nR);
    stat("ops_r_single_rank", nPartial);
    stat("ops_F", nF);
    stat("ops_X", nX);
    stat("ops_I", nI);
    stat("ops_N", nN);
    stat("remote_index_entries_rank0", nEntries);
    stat(maxList == 0 ? "maxlist_0" : maxList <= 4 ? "maxlist_1_4" : maxList <= 16 ? "maxlist_5_16" : "maxlist_17_up");
    size_t tot = 0;
    for (int o = 0; o < 3; ++o) tot += sh[0][o].size();
    stat(tot == 0 ? "rank0_sets_empty" : tot <= 8 ? "rank0_sets_1_8" : tot <= 32 ? "rank0_sets_9_32" : "rank0_sets_33_up");
  }
  return res;
}

// ------------------------------------------------------------------------------------------------------------------
static std::string hintString(const std::vector<std::set<int>>& nb, bool ringMode) {
  std::string h;
  for (size_t p = 0; p < nb.size(); ++p) {
    if (p) h += "/";
    if (ringMode || nb[p].empty()) h += "-";
    else h += join(nb[p].begin(), nb[p].end(), ",");
  }
  return h;
}

static std::string gen(Rng& rng, long, const Args& args) {
  int P;
  MPI_Comm_size(MPI_COMM_WORLD, &P);
  bool thorough = args.tier == "thorough";
  // kinds of systems
  int kind = (int)rng.below(100);
  bool dup = false, mixed = false, allTwo = false;
  if (kind < 32) allTwo = false;
  else if (kind < 64) allTwo = true;
  else if (kind < 82 && P >= 2) mixed = true;
  else if (kind < 82) allTwo = true;
  else dup = true;  // one set on every rank, repeated globals with different attributes
  std::vector<int> two(P), incl(P), dflt(P);
  for (int r = 0; r < P; ++r) two[r] = mixed ? (int)rng.below(2) : (allTwo ? 1 : 0);
  if (mixed) { int r = (int)rng.below(P); two[r] = 1; two[(r + 1 + rng.below(P - 1)) % P] = 0; }
  int ik = (int)rng.below(10);
  for (int r = 0; r < P; ++r) incl[r] = ik < 4 ? 0 : (ik < 7 || dup ? 1 : (int)rng.below(2));
  std::vector<int> inclInit = incl;
  bool anyDflt = rng.coin(1, 4);
  for (int r = 0; r < P; ++r) dflt[r] = anyDflt ? (int)rng.below(2) : 0;
  bool ringMode = rng.coin();
  bool big = rng.coin(1, 14);  // long lists

  int nG = big ? (int)rng.range(20, thorough ? 70 : 40) : (int)rng.range(1, thorough ? 14 : 9);
  long base = rng.coin(1, 5) ? -(long)rng.below(4) : (long)rng.below(50);
  int pubKind = (int)rng.below(10);  // 0: none public, 1..2: all public, else mostly
  double dens = big ? 0.5 + 0.1 * (double)rng.below(4) : 0.25 + 0.15 * (double)rng.below(5);
  std::vector<std::string> segs;
  std::vector<std::set<long>> ever(P);
  // current contents incl. pending adds (global -> attributes) per rank and *object*; roles as in the executor
  std::vector<std::array<std::map<long, std::vector<int>>, 2>> cur(P);
  std::vector<std::array<long, 2>> nextLocal(P, std::array<long, 2>{0, 0});
  std::vector<int> srcO(P, 0), tgtO(P, 0);
  for (int r = 0; r < P; ++r) tgtO[r] = two[r] ? 1 : 0;
  auto objOf = [&](int r, int s) { return s == 0 ? srcO[r] : tgtO[r]; };
  auto pubFlag = [&]() { return pubKind == 0 ? false : (pubKind <= 2 ? true : rng.coin(4, 5)); };
  auto addEntry = [&](int s, int r, long g, int attr) {
    int o = objOf(r, s);
    long l = rng.coin(1, 6) ? (long)rng.below(40) : nextLocal[r][o]++;
    segs.push_back("a" + std::to_string(s) + "," + std::to_string(r) + "," + std::to_string(g) + "," + std::to_string(l) +
                   "," + std::to_string(attr) + "," + (pubFlag() ? "1" : "0"));
    cur[r][o][g].push_back(attr);
    ever[r].insert(g);
  };
  auto place = [&](long g) {
    for (int s = 0; s < 2; ++s) {
      std::vector<int> on;
      for (int r = 0; r < P; ++r) if ((double)rng.below(1000) < dens * 1000) on.push_back(r);
      if (on.empty()) on.push_back((int)rng.below(P));  // each global index on a non-empty subset of the ranks
      for (int r : on) {
        if (s == 1 && !two[r]) continue;
        if (cur[r][objOf(r, s)].count(g)) continue;
        int attr = (int)rng.below(4);
        addEntry(s, r, g, attr);
        if (dup && s == 0 && rng.coin(1, 3)) {
          int a2 = (attr + 1 + (int)rng.below(3)) % 4;
          addEntry(s, r, g, a2);
        }
      }
    }
  };
  std::vector<long> globals;
  for (int i = 0; i < nG; ++i) {
    long g = base + (rng.coin(1, 4) ? i * 3 : i);
    globals.push_back(g);
    place(g);
  }
  auto B = [&](int ign) { segs.push_back(std::string("B") + (ign ? "1" : "0")); };
  // every rank resizes one of its sets, one rank at a time, in a random rank order (the ranks agree that a rebuild is due)
  auto resizeEachRank = [&]() {
    std::vector<int> order(P);
    for (int r = 0; r < P; ++r) order[r] = r;
    for (int r = P - 1; r > 0; --r) std::swap(order[r], order[rng.below(r + 1)]);
    for (int r : order) segs.push_back("r" + std::to_string((int)rng.below(2)) + "," + std::to_string(r));
  };
  int ign = rng.coin(1, 3);
  if (rng.coin(1, 8)) segs.push_back("S");
  if (rng.coin(1, 6)) { resizeEachRank(); segs.push_back("R" + std::to_string((int)rng.below(2))); }
  else { segs.push_back("R0"); segs.push_back("R1"); }
  if (rng.coin()) segs.push_back("S");
  B(ign);
  segs.push_back("S");

  // hints: symmetric superset of the sharing graph over the whole history (or, "sparse", with some sharing edges
  // left out: the property is then silent about the unnamed ranks), every rank with a neighbour
  auto makeHints = [&](bool sparse) {
    std::vector<std::set<int>> nb(P);
    for (int p = 0; p < P; ++p)
      for (int q = p + 1; q < P; ++q) {
        bool share = false;
        for (long g : ever[p]) if (ever[q].count(g)) share = true;
        if (sparse ? rng.coin(1, 2) : (share || rng.coin(1, 4))) { nb[p].insert(q); nb[q].insert(p); }
      }
    for (int p = 0; p < P && P >= 2; ++p)
      if (nb[p].empty()) { int q = (p + 1) % P; nb[p].insert(q); nb[q].insert(p); }
    for (int p = 0; p < P; ++p) if (rng.coin(1, 5) || P == 1) nb[p].insert(p);  // naming oneself is harmless
    return nb;
  };

  int phases = (int)rng.below(thorough ? 5 : 4);
  std::vector<size_t> hintSlots;  // positions of N segments, filled in when the whole history is known
  std::vector<int> hintSlotKind;
  for (int ph = 0; ph < phases; ++ph) {
    int what = (int)rng.below(20);
    if (what < 3) {  // rebuild again without any resize: same ign (no-op) or the other ign
      if (rng.coin()) ign = !ign;
      B(ign);
      segs.push_back("S");
      continue;
    }
    if (what < 5) {  // unrelated resize only
      if (rng.coin(1, 3)) segs.push_back("r2," + std::to_string((int)rng.below(P)));
      else segs.push_back("R2");
      segs.push_back("S");
      if (rng.coin()) { B(ign); segs.push_back("S"); }
      continue;
    }
    if (what < 6) {  // free, then a rebuild that must really rebuild
      segs.push_back("F");
      if (rng.coin()) segs.push_back("S");
      if (rng.coin(1, 3)) ign = !ign;
      B(ign);
      segs.push_back("S");
      continue;
    }
    if (what < 8) {  // setIndexSets again, with the roles kept or exchanged
      bool swap = rng.coin(2, 3);
      segs.push_back(swap ? "X1" : "X0");
      if (swap) for (int r = 0; r < P; ++r) std::swap(srcO[r], tgtO[r]);
      if (rng.coin()) segs.push_back("S");
      B(ign);
      segs.push_back("S");
      continue;
    }
    if (what < 9) {  // setIncludeSelf on one rank: the next rebuild without a resize keeps the old lists
      int r = (int)rng.below(P);
      incl[r] = !incl[r];
      segs.push_back("I" + std::to_string(r) + "," + std::to_string(incl[r]));
      if (rng.coin()) { B(ign); segs.push_back("S"); }
      if (rng.coin()) { resizeEachRank(); B(ign); segs.push_back("S"); }
      else { segs.push_back("F"); B(ign); }
      continue;
    }
    if (what < 10) {  // new neighbour hints (possibly switching between ring and neighbour mode)
      hintSlots.push_back(segs.size());
      hintSlotKind.push_back((int)rng.below(4));  // 0: ring, 1: sparse, else covering
      segs.push_back("N?");
      if (rng.coin(1, 3)) { B(ign); segs.push_back("S"); }
      segs.push_back(rng.coin() ? "F" : "R0");
      B(ign);
      continue;
    }
    if (what < 12 && P >= 2) {  // only some ranks resize: the ranks disagree, the rebuild is skipped; then the others follow
      std::vector<int> did(P, 0);
      int n = (int)rng.range(1, P - 1);
      for (int i = 0; i < n; ++i) { int r = (int)rng.below(P); if (!did[r]) { did[r] = 1; segs.push_back("r" + std::to_string((int)rng.below(2)) + "," + std::to_string(r)); } }
      segs.push_back("S");
      B(ign);
      for (int r = 0; r < P; ++r) if (!did[r]) segs.push_back("r" + std::to_string((int)rng.below(2)) + "," + std::to_string(r));
      B(ign);
      segs.push_back("S");
      continue;
    }
    // modify: deletes and adds, then resize a non-empty subset of {source, target}
    int nd = (int)rng.below(3), na = (int)rng.below(3);
    for (int i = 0; i < nd; ++i) {
      int r = (int)rng.below(P), s = (int)rng.below(2);
      if (s == 1 && !two[r]) continue;
      auto& c = cur[r][objOf(r, s)];
      if (c.empty()) continue;
      auto it = c.begin();
      std::advance(it, rng.below(c.size()));
      segs.push_back("d" + std::to_string(s) + "," + std::to_string(r) + "," + std::to_string(it->first));
      c.erase(it);
    }
    for (int i = 0; i < na; ++i) {
      long g = rng.coin() ? globals[rng.below(globals.size())] : base + nG * 3 + (long)rng.below(4);
      if (std::find(globals.begin(), globals.end(), g) == globals.end()) globals.push_back(g);
      place(g);
    }
    if (rng.coin(1, 4)) resizeEachRank();
    else {
      int rs = (int)rng.range(1, 3);
      if (rs & 1) segs.push_back("R0");
      if (rs & 2) segs.push_back("R1");
    }
    if (rng.coin(1, 4)) segs.push_back("R2");
    segs.push_back("S");
    if (rng.coin(1, 3)) ign = !ign;
    B(ign);
    segs.push_back("S");
    // what is still pending stays pending; later resizes apply it
  }
  bool sparse = !ringMode && rng.coin(1, 5);
  std::string hintStr = hintString(makeHints(sparse), ringMode);
  for (size_t i = 0; i < hintSlots.size(); ++i) {
    int k = hintSlotKind[i];
    segs[hintSlots[i]] = "N" + hintString(makeHints(k == 1), k == 0);
  }
  std::string flags;
  for (int r = 0; r < P; ++r) flags.push_back((char)('0' + two[r] + 2 * inclInit[r] + 4 * dflt[r]));
  return "c04 " + std::to_string(P) + " " + flags + " " + hintStr + " : " + join(segs.begin(), segs.end(), ";");
}

int main(int argc, char** argv) {
  Dune::MPIHelper::instance(argc, argv);
  std::cout << std::unitbuf;
  return runMpi(argc, argv, gen, exec);
}
