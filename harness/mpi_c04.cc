// C04 correspondence harness: Dune::RemoteIndices vs. the Lean model, with the set-theoretic definition as oracle.
//
// One case = one distributed history on one line:
//
//   c04 <P> <flags> <hints> [g=<type>] [comm=<spec>] : seg;seg;...
//
//   <P>      size of the communicator the RemoteIndices objects live on; every rank in the line is a rank of that
//            communicator
//   g=       the global index type of the index sets (default int): int | long | big24 | big40 | pair =
//            int, long, Dune::bigunsignedint<24> (2 digits of 16 bit, the upper one half used), bigunsignedint<40>
//            (3 digits), std::pair<int,int> (value v = (v >> 20, v & 0xfffff), lexicographic order = order of v).
//            The global indices in the line are the values themselves; they have to lie in the range of the type
//            (int: 32 bit; long: |v| < 2^62; big24: 0..2^24-1; big40, pair: 0..2^40-1), otherwise the line is bad-op.
//   n=       the chunk size N of ParallelIndexSet<G,LocalIndex,N> (its ArrayList keeps the pairs in separately allocated
//            chunks of N): 100 (default; any g) or, with g=int, 1 | 3 | 8 — with these every small index set spans
//            several chunks (sizes N-1, N, N+1, 2N, 2N+1 ... occur all the time)
//   comm=    the communicator (default w): w = MPI_COMM_WORLD, d = MPI_Comm_dup of it, r0.r1...[+n] = MPI_Comm_split:
//            the communicator consists of the P world processes r0, r1, ... in this order (world process r_i has rank i
//            in it), +n = the number of world processes left out (P + n = size of MPI_COMM_WORLD).  The processes left
//            out form a second communicator on which they run the same B/F/X calls with empty index sets at the same
//            time (their lists must stay empty).  The answer r<i>{...} is that of the process with rank i in the
//            communicator (i >= P: left out, empty answer), so the line does not depend on where MPI puts a process.
//   <flags>  P digits, digit of rank r = (two ? 1 : 0) + (includeSelf ? 2 : 0) + (defaultCtor ? 4 : 0)
//            two: the rank uses RemoteIndices(source, target) with two distinct index set objects (object 0 and 1),
//            otherwise RemoteIndices(source, source) (object 0)
//            defaultCtor: the object is made by RemoteIndices() + setIndexSets(...) + setIncludeSelf(...) instead of
//            the five-argument constructor
//   <hints>  per rank, separated by '/':  "-" (no neighbour hints: ring) or a comma list of ranks
//   segments, executed in order by every rank (every rank knows the whole distributed case).  <s> is a *role*:
//   0 = the current source index set of the rank, 1 = its current target index set (on a one-set rank the source
//   object), 2 = an index set the RemoteIndices object does not refer to:
//     a<s>,<r>,<g>,<l>,<attr>,<pub>[,<how>]   pending add to the object behind role s (0/1) of rank r; <how> (default 0)
//                                     = the way the local index / index pair is made (all denote the same entry):
//                                       0  LocalIndex(l, attr, pub)
//                                       1  LocalIndex li(attr, pub); li = l                       (operator=(size_t))
//                                       2  pub ? LocalIndex(l, attr)  (default isPublic)
//                                              : LocalIndex li; li.setAttribute(attr); li = l     (default constructor)
//                                       3  attr==0 && !pub ? set.add(g)  (IndexPair(global): default local index),
//                                              after endResize  pair.local() = l ;  otherwise as 1
//                                       4  LocalIndex(l+1, attr, pub), after endResize  pair.setLocal(l)
//     d<s>,<r>,<g>                    pending delete of every entry with global g in that object (also cancels
//                                     the pending adds of g there)
//     R<s>                            every rank resizes (beginResize … endResize) the object behind role s, applying
//                                     the pending adds/deletes of that object
//     r<s>,<r>                        only rank r does
//     B<ign>                          collective rebuild<ign>(); observation: the remote index lists.  The ranks first
//                                     tell each other whether their rebuild would really rebuild (never built / freed,
//                                     other ignorePublic, !isSynced()); if they disagree the call would not return
//                                     (some ranks communicate, the others do not): it is skipped, observation "b!"
//     S                               observation: isSynced()
//     F                               every rank calls free(); observation: f<neighbours()>
//     X<k>                            every rank calls setIndexSets again: k=0 same roles, k=1 source and target
//                                     exchanged (two-set ranks), passing the hints in force again;
//                                     observation: x<neighbours()>
//     X<k>,<hints>                    the same, but passing new hints (format as in the header; "-" for a rank = the
//                                     call without the neighbours argument): they replace the old ones
//     I<r>,<b>                        rank r calls setIncludeSelf(b)
//     N<hints>                        every rank calls setNeighbours with its part of <hints> (format as in the header)
//   (a1/d1 addressed to a one-set rank are ignored; an add whose (global, attribute) is already present is ignored)
//
// Answer of a rank: the observations joined by ';' :
//     S -> s0 | s1          B -> b  followed by  <q>:[(g,ra,l,a)...]|[(g,ra,l,a)...]  for every neighbour entry q
//     in ascending rank order (send list | receive list; g global index, ra attribute on q, l/a local index and
//     attribute of the own pair; entries with the same global index are printed in ascending (ra,l,a) order).
#include <config.h>

#include <algorithm>
#include <array>
#include <map>
#include <memory>
#include <set>

#include <dune/common/bigunsignedint.hh>
#include <dune/common/enumset.hh>
#include <dune/common/parallel/indexset.hh>
#include <dune/common/parallel/mpihelper.hh>
#include <dune/common/parallel/mpitraits.hh>
#include <dune/common/parallel/plocalindex.hh>
#include <dune/common/parallel/remoteindices.hh>

#include "hcommon_mpi.hh"

using namespace dv;

enum Flags { owner = 0, overlap = 1, copy = 2, ghost = 3 };
typedef Dune::ParallelLocalIndex<Flags> LocalIndex;
typedef long long Val;  // a global index as written in the op line

struct Ent {
  Val g;
  long l;
  int a;
  bool pub;
  int how = 0;  // construction variant (see the header comment); not part of the entry's value
};
typedef std::pair<Val, int> Key;            // (global, attribute): the sort key of ParallelIndexSet
typedef std::map<Key, Ent> Shadow;          // shadow of one index set object
struct Tuple {                              // one remote index as observed / expected
  Val g;
  int ra;
  long l;
  int a;
  bool operator<(const Tuple& o) const { return std::tie(g, ra, l, a) < std::tie(o.g, o.ra, o.l, o.a); }
  bool operator==(const Tuple& o) const { return g == o.g && ra == o.ra && l == o.l && a == o.a; }
};
typedef std::map<int, std::pair<std::vector<Tuple>, std::vector<Tuple>>> Lists;
static std::string show(const std::vector<Tuple>& v) {
  std::string s = "[";
  for (size_t i = 0; i < v.size(); ++i) {
    if (i) s += ",";
    s += "(" + std::to_string(v[i].g) + "," + std::to_string(v[i].ra) + "," + std::to_string(v[i].l) + "," +
         std::to_string(v[i].a) + ")";
  }
  return s + "]";
}

struct Pending {
  std::vector<Ent> adds;
  std::set<Val> dels;
};

// ------------------------------------------------------------------------------------------------------------------
// the real objects of this process, behind an interface that does not mention the global index type
struct Api {
  virtual ~Api() {}
  virtual void construct(bool dflt, int src, int tgt, const std::vector<int>& hints, bool incl) = 0;
  virtual void resize(int obj, const std::set<Val>& dels, const std::vector<Ent>& adds) = 0;
  virtual bool isSynced() = 0;
  virtual void freeLists() = 0;
  virtual int neighbours() = 0;
  virtual bool noLists() = 0;
  virtual void setIndexSets(int src, int tgt, const std::vector<int>* hints) = 0;  // null: call without the argument
  virtual bool setsAre(int src, int tgt) = 0;
  virtual void setIncludeSelf(bool b) = 0;
  virtual void setNeighbours(const std::vector<int>& hints) = 0;
  virtual std::set<int> getNeighbours() = 0;
  virtual void rebuild(bool ign) = 0;
  virtual std::string lists(Lists& got) = 0;  // returns a problem of the container interface, or ""
};

template <class G> struct GT;
template <> struct GT<int> { static int make(Val v) { return (int)v; } };
template <> struct GT<long> { static long make(Val v) { return (long)v; } };
template <int k> struct GT<Dune::bigunsignedint<k>> {
  static Dune::bigunsignedint<k> make(Val v) { return Dune::bigunsignedint<k>((std::uintmax_t)v); }
};
template <> struct GT<std::pair<int, int>> {
  static std::pair<int, int> make(Val v) { return std::pair<int, int>((int)(v >> 20), (int)(v & 0xfffff)); }
};
static bool inRange(const std::string& gtype, Val v) {
  if (gtype == "int") return v >= -2147483648LL && v <= 2147483647LL;
  if (gtype == "long") return v > -(1LL << 62) && v < (1LL << 62);
  if (gtype == "big24") return v >= 0 && v < (1LL << 24);
  return v >= 0 && v < (1LL << 40);  // big40, pair
}

template <class G, int N = 100> struct ApiT : Api {
  typedef Dune::ParallelIndexSet<G, LocalIndex, N> PIS;
  typedef Dune::RemoteIndices<PIS> RI;
  MPI_Comm comm;
  PIS sets[3];
  std::unique_ptr<RI> ri;
  // the values the op line has handed to this process so far; a global index read back from the real objects is
  // translated by looking it up with operator== of the type (nothing of the type's arithmetic is used)
  std::vector<std::pair<G, Val>> known;
  explicit ApiT(MPI_Comm c) : comm(c) {}
  Val valueOf(const G& g) const {
    for (auto& kv : known) if (kv.first == g) return kv.second;
    return -4000000000000000000LL;  // an index the op line never mentioned: shows up in the answer
  }
  void construct(bool dflt, int src, int tgt, const std::vector<int>& hints, bool incl) override {
    if (dflt) {
      ri.reset(new RI());
      ri->setIndexSets(sets[src], sets[tgt], comm, hints);
      if (incl) ri->setIncludeSelf(true);  // otherwise the default constructor's includeSelf=false stays
    } else {
      ri.reset(new RI(sets[src], sets[tgt], comm, hints, incl));
    }
  }
  void resize(int obj, const std::set<Val>& dels, const std::vector<Ent>& adds) override {
    PIS& set = sets[obj];
    set.beginResize();
    for (auto it = set.begin(); it != set.end(); ++it)
      if (dels.count(valueOf(it->global()))) set.markAsDeleted(it);
    std::vector<const Ent*> fixups;  // variants 3 and 4 set the local index once the pair is in the set
    for (auto& e : adds) {
      G g = GT<G>::make(e.g);
      bool have = false;
      for (auto& kv : known) if (kv.second == e.g) have = true;
      if (!have) known.push_back(std::make_pair(g, e.g));
      int how = e.how;
      if (how == 3 && !(e.a == 0 && !e.pub)) how = 1;
      if (how == 0) {
        set.add(g, LocalIndex((size_t)e.l, (Flags)e.a, e.pub));
      } else if (how == 1) {
        LocalIndex li((Flags)e.a, e.pub);
        li = (size_t)e.l;
        set.add(g, li);
      } else if (how == 2) {
        if (e.pub) set.add(g, LocalIndex((size_t)e.l, (Flags)e.a));
        else {
          LocalIndex li;
          li.setAttribute((Flags)e.a);
          li = (size_t)e.l;
          set.add(g, li);
        }
      } else if (how == 3) {
        set.add(g);
        fixups.push_back(&e);
      } else {
        set.add(g, LocalIndex((size_t)e.l + 1, (Flags)e.a, e.pub));
        fixups.push_back(&e);
      }
    }
    set.endResize();
    for (const Ent* e : fixups) {
      G g = GT<G>::make(e->g);
      for (auto it = set.begin(); it != set.end(); ++it)
        if (it->global() == g && (int)it->local().attribute() == e->a) {
          if (e->how == 3) it->local() = (size_t)e->l;
          else it->setLocal((int)e->l);
        }
    }
  }
  bool isSynced() override { return ri->isSynced(); }
  void freeLists() override { ri->free(); }
  int neighbours() override { return ri->neighbours(); }
  bool noLists() override { return ri->begin() == ri->end(); }
  void setIndexSets(int src, int tgt, const std::vector<int>* hints) override {
    if (hints) ri->setIndexSets(sets[src], sets[tgt], comm, *hints);
    else ri->setIndexSets(sets[src], sets[tgt], comm);
  }
  bool setsAre(int src, int tgt) override { return &ri->sourceIndexSet() == &sets[src] && &ri->destinationIndexSet() == &sets[tgt]; }
  void setIncludeSelf(bool b) override { ri->setIncludeSelf(b); }
  void setNeighbours(const std::vector<int>& hints) override { ri->setNeighbours(hints); }
  std::set<int> getNeighbours() override { return ri->getNeighbours(); }
  void rebuild(bool ign) override {
    if (ign) ri->template rebuild<true>(); else ri->template rebuild<false>();
  }
  std::vector<Tuple> listOf(const typename RI::RemoteIndexList& l) const {
    std::vector<Tuple> v;
    for (auto it = l.begin(); it != l.end(); ++it) {
      const auto& lp = it->localIndexPair();
      v.push_back(Tuple{valueOf(lp.global()), (int)it->attribute(), (long)lp.local().local(), (int)lp.local().attribute()});
    }
    return v;
  }
  std::string lists(Lists& got) override {
    std::string problem;
    for (auto it = ri->begin(); it != ri->end(); ++it) {
      got[it->first] = std::make_pair(listOf(*it->second.first), listOf(*it->second.second));
      auto fit = ri->find(it->first);
      if (fit == ri->end() || fit->second.first != it->second.first) problem = "find(rank) does not return the entry of the iteration";
    }
    return problem;
  }
};
static bool chunkOk(const std::string& gtype, long n) { return n == 100 || (gtype == "int" && (n == 1 || n == 3 || n == 8)); }
static Api* makeApi(const std::string& gtype, int chunk, MPI_Comm comm) {
  if (gtype == "int" && chunk == 1) return new ApiT<int, 1>(comm);
  if (gtype == "int" && chunk == 3) return new ApiT<int, 3>(comm);
  if (gtype == "int" && chunk == 8) return new ApiT<int, 8>(comm);
  if (gtype == "long") return new ApiT<long>(comm);
  if (gtype == "big24") return new ApiT<Dune::bigunsignedint<24>>(comm);
  if (gtype == "big40") return new ApiT<Dune::bigunsignedint<40>>(comm);
  if (gtype == "pair") return new ApiT<std::pair<int, int>>(comm);
  return new ApiT<int>(comm);
}

// ------------------------------------------------------------------------------------------------------------------
// set definition: [(a.g, b.attr, a.l, a.a) | a in A (ascending), b in B, a.g == b.g], restricted to published entries
static std::vector<Tuple> joinDef(const Shadow& A, const Shadow& B, bool ign, bool dropEqualAttr) {
  std::vector<Tuple> out;
  for (auto& ka : A) {
    const Ent& a = ka.second;
    if (!(ign || a.pub)) continue;
    for (auto& kb : B) {
      const Ent& b = kb.second;
      if (!(ign || b.pub)) continue;
      if (a.g != b.g) continue;
      if (dropEqualAttr && a.a == b.a) continue;
      out.push_back(Tuple{a.g, b.a, a.l, a.a});
    }
  }
  return out;
}
// canonical print order: entries of the same global index (possible only with repeated globals) are printed sorted;
// the order among them is not something the property speaks about
static std::vector<Tuple> canon(std::vector<Tuple> v) {
  size_t i = 0;
  while (i < v.size()) {
    size_t j = i;
    while (j < v.size() && v[j].g == v[i].g) ++j;
    std::sort(v.begin() + i, v.begin() + j);
    i = j;
  }
  return v;
}
static bool sortedByGlobal(const std::vector<Tuple>& v) {
  for (size_t i = 1; i < v.size(); ++i) if (v[i - 1].g > v[i].g) return false;
  return true;
}
static bool sameMultiset(std::vector<Tuple> a, std::vector<Tuple> b) {
  std::sort(a.begin(), a.end());
  std::sort(b.begin(), b.end());
  return a == b;
}
static bool subMultiset(std::vector<Tuple> a, std::vector<Tuple> b) {  // a ⊆ b
  std::sort(a.begin(), a.end());
  std::sort(b.begin(), b.end());
  return std::includes(b.begin(), b.end(), a.begin(), a.end());
}

// ------------------------------------------------------------------------------------------------------------------
// the op line
static bool natural(const std::string& w, long& out) {
  if (w.empty() || w.size() > 9) return false;
  for (char c : w) if (c < '0' || c > '9') return false;
  out = std::atol(w.c_str());
  return true;
}
static bool integer(const std::string& w, Val& out) {
  size_t i = (!w.empty() && w[0] == '-') ? 1 : 0;
  if (w.size() == i || w.size() - i > 18) return false;
  for (size_t j = i; j < w.size(); ++j) if (w[j] < '0' || w[j] > '9') return false;
  out = std::atoll(w.c_str());
  return true;
}
// parse "<h0>/<h1>/..." into per-rank hint lists; returns false if malformed
static bool parseHints(const std::string& str, int P, std::vector<std::vector<int>>& hints) {
  auto hs = split(str, '/');
  if ((int)hs.size() != P) return false;
  hints.assign(P, std::vector<int>());
  for (int r = 0; r < P; ++r) {
    if (hs[r] == "-") continue;
    for (auto& w : split(hs[r], ',')) {
      long q;
      if (!natural(w, q) || q >= P) return false;
      hints[r].push_back((int)q);
    }
  }
  return true;
}
// ring[r]: the hint list names no other rank (RemoteIndices erases the own rank).  Ring and neighbour mode cannot be
// mixed, and hints have to be symmetric, otherwise the collective call hangs.
static const char* hintsProblem(const std::vector<std::vector<int>>& hints, std::vector<bool>& ring) {
  int P = (int)hints.size();
  ring.assign(P, true);
  for (int r = 0; r < P; ++r) {
    std::set<int> hset(hints[r].begin(), hints[r].end());
    hset.erase(r);
    ring[r] = hset.empty();
  }
  for (int r = 0; r < P; ++r) {
    if (ring[r] != ring[0]) return "mixed-ring";
    if (!ring[r])
      for (int q : hints[r])
        if (q != r && std::find(hints[q].begin(), hints[q].end(), r) == hints[q].end()) return "asymmetric";
  }
  return nullptr;
}

struct Seg {
  char kind = 0;
  int s = 0, r = 0, k = 0;
  Ent e{0, 0, 0, false};
  bool flag = false;        // B: ignorePublic, I: the new value, X: hints given
  std::vector<std::vector<int>> hints;   // N, X with hints
  std::vector<bool> ring, omitted;       // omitted[r]: "-" (X: the call without the argument)
};
struct Case {
  int P = 0, extra = 0;
  std::vector<bool> two, incl, dflt;
  std::vector<std::vector<int>> hints;
  std::vector<bool> ring;
  std::string gtype = "int";
  int chunk = 100;                 // N of ParallelIndexSet<G,LocalIndex,N>
  char comm = 'w';                 // w, d, l (list)
  std::vector<int> members;        // comm == 'l': world rank of communicator rank i
  std::vector<Seg> segs;
  // role = number under which a world process appears in the op line and in the answer
  int roleOf(int wrank) const {
    if (comm != 'l') return wrank;
    int rest = P;
    for (int w = 0; w < P + extra; ++w) {
      auto it = std::find(members.begin(), members.end(), w);
      if (w == wrank) return it != members.end() ? (int)(it - members.begin()) : rest;
      if (it == members.end()) ++rest;
    }
    return -1;
  }
};

static bool parseHintsSeg(const std::string& str, int P, Seg& sg, std::string& why) {
  if (!parseHints(str, P, sg.hints)) { why = "segment"; return false; }
  if (const char* w = hintsProblem(sg.hints, sg.ring)) { why = w; return false; }
  auto hs = split(str, '/');
  sg.omitted.assign(P, false);
  for (int r = 0; r < P; ++r) sg.omitted[r] = hs[r] == "-";
  return true;
}

static bool parseCase(const std::string& line, int wsize, Case& c, std::string& why) {
  size_t colon = line.find(" : ");
  std::string head = colon == std::string::npos ? line : line.substr(0, colon);
  std::string body = colon == std::string::npos ? "" : line.substr(colon + 3);
  auto hw = words(head);
  why = "header";
  if (hw.size() < 4 || hw.size() > 7 || hw[0] != "c04") return false;
  long P;
  why = "np";
  if (!natural(hw[1], P) || P < 1 || P > wsize) return false;
  c.P = (int)P;
  why = "flags";
  if ((int)hw[2].size() != c.P) return false;
  c.two.assign(P, false); c.incl.assign(P, false); c.dflt.assign(P, false);
  for (int r = 0; r < c.P; ++r) {
    int f = hw[2][r] - '0';
    if (f < 0 || f > 7) return false;
    c.two[r] = f & 1;
    c.incl[r] = f & 2;
    c.dflt[r] = f & 4;
  }
  why = "hints";
  if (!parseHints(hw[3], c.P, c.hints)) return false;
  if (const char* w = hintsProblem(c.hints, c.ring)) { why = w; return false; }
  bool seenG = false, seenC = false, seenN = false;
  for (size_t i = 4; i < hw.size(); ++i) {
    const std::string& t = hw[i];
    if (t.rfind("n=", 0) == 0 && !seenN) {
      seenN = true;
      why = "chunk";
      long n;
      if (!natural(t.substr(2), n)) return false;
      c.chunk = (int)n;
      continue;
    }
    if (t.rfind("g=", 0) == 0 && !seenG) {
      seenG = true;
      c.gtype = t.substr(2);
      why = "gtype";
      if (c.gtype != "int" && c.gtype != "long" && c.gtype != "big24" && c.gtype != "big40" && c.gtype != "pair") return false;
    } else if (t.rfind("comm=", 0) == 0 && !seenC) {
      seenC = true;
      why = "comm";
      std::string v = t.substr(5);
      if (v == "w" || v == "d") c.comm = v[0];
      else {
        c.comm = 'l';
        auto pm = split(v, '+');
        if (pm.size() > 2) return false;
        if (pm.size() == 2) { long n; if (!natural(pm[1], n) || n < 1) return false; c.extra = (int)n; }
        for (auto& w : split(pm[0], '.')) {
          long q;
          if (!natural(w, q) || q >= c.P + c.extra) return false;
          if (std::find(c.members.begin(), c.members.end(), (int)q) != c.members.end()) return false;
          c.members.push_back((int)q);
        }
        if ((int)c.members.size() != c.P) return false;
      }
    } else { why = "header"; return false; }
  }
  why = "chunk";
  if (!chunkOk(c.gtype, c.chunk)) return false;
  why = "np";
  if (c.P + c.extra != wsize) return false;

  why = "segment";
  for (auto& segRaw : split(body, ';')) {
    std::string seg;
    for (char ch : segRaw) if (ch != ' ') seg.push_back(ch);
    if (seg.empty()) continue;
    Seg sg;
    sg.kind = seg[0];
    std::string rest = seg.substr(1);
    long n1, n2;
    if (sg.kind == 'a' || sg.kind == 'd') {
      auto f = split(rest, ',');
      if (sg.kind == 'a' ? (f.size() != 6 && f.size() != 7) : f.size() != 3) return false;
      if (!natural(f[0], n1) || !natural(f[1], n2) || n1 > 1 || n2 >= c.P) return false;
      sg.s = (int)n1; sg.r = (int)n2;
      if (!integer(f[2], sg.e.g)) return false;
      if (!inRange(c.gtype, sg.e.g)) { why = "global index outside the type"; return false; }
      if (sg.kind == 'a') {
        long l, a;
        if (!natural(f[3], l) || !natural(f[4], a) || a > 3) return false;
        if (f[5] != "0" && f[5] != "1") return false;
        sg.e.l = l; sg.e.a = (int)a; sg.e.pub = f[5] == "1";
        if (f.size() == 7) {
          long h;
          if (f[6].size() != 1 || !natural(f[6], h) || h > 4) return false;
          sg.e.how = (int)h;
        }
      }
    } else if (sg.kind == 'R') {
      if (rest.size() != 1 || !natural(rest, n1) || n1 > 2) return false;
      sg.s = (int)n1; sg.r = -1;
    } else if (sg.kind == 'r') {
      auto f = split(rest, ',');
      if (f.size() != 2 || f[0].size() != 1 || !natural(f[0], n1) || n1 > 2 || !natural(f[1], n2) || n2 >= c.P) return false;
      sg.s = (int)n1; sg.r = (int)n2;
    } else if (sg.kind == 'S' || sg.kind == 'F') {
      if (!rest.empty()) return false;
    } else if (sg.kind == 'B') {
      if (rest != "0" && rest != "1") return false;
      sg.flag = rest == "1";
    } else if (sg.kind == 'X') {
      if (rest.empty() || (rest[0] != '0' && rest[0] != '1')) return false;
      sg.k = rest[0] - '0';
      if (rest.size() > 1) {
        if (rest[1] != ',') return false;
        sg.flag = true;
        if (!parseHintsSeg(rest.substr(2), c.P, sg, why)) return false;
      }
    } else if (sg.kind == 'I') {
      auto f = split(rest, ',');
      if (f.size() != 2 || !natural(f[0], n1) || n1 >= c.P || (f[1] != "0" && f[1] != "1")) return false;
      sg.r = (int)n1; sg.flag = f[1] == "1";
    } else if (sg.kind == 'N') {
      if (!parseHintsSeg(rest, c.P, sg, why)) return false;
    } else return false;
    c.segs.push_back(sg);
  }
  return true;
}

// ------------------------------------------------------------------------------------------------------------------
// a process of the communicator: rank/size are those of `comm`
static Result runCase(const Case& c, Api& api, MPI_Comm comm, bool recordStats) {
  int rank, size;
  MPI_Comm_rank(comm, &rank);
  MPI_Comm_size(comm, &size);
  Result res;
  const int P = c.P;
  if (size != P) { res.impl = "HARNESS"; res.oracle = "FAIL harness: communicator of the wrong size"; return res; }
  std::vector<bool> two = c.two, incl = c.incl, ring = c.ring;
  std::vector<std::vector<int>> hints = c.hints;
  bool mixed = false, anyIncl = false, anyDflt = false;
  for (int r = 0; r < P; ++r) { if (two[r] != two[0]) mixed = true; if (incl[r]) anyIncl = true; if (c.dflt[r]) anyDflt = true; }

  // shadow state of every rank (objects 0, 1, 2), real state of this rank; roles: which object is source / target
  std::vector<std::array<Shadow, 3>> sh(P);
  std::vector<std::array<Pending, 3>> pend(P);
  std::vector<int> srcO(P, 0), tgtO(P, 0);
  for (int r = 0; r < P; ++r) tgtO[r] = two[r] ? 1 : 0;
  auto objOf = [&](int r, int s) { return s == 2 ? 2 : (s == 0 ? srcO[r] : tgtO[r]); };
  api.construct(c.dflt[rank], srcO[rank], tgtO[rank], hints[rank], incl[rank]);

  std::vector<std::string> obs;
  // built: a rebuild has happened on this object since construction / free / setIndexSets
  bool built = false, lastIgn = false, resizedSince = false, nontrivial = false, dupGlobals = false;
  // includeSelf / hints in force at the last real build (the lists are judged against them)
  std::vector<bool> bIncl = incl, bRing = ring;
  std::vector<std::vector<int>> bHints = hints;
  std::string fail;
  long nB = 0, nS = 0, nR = 0, nEntries = 0, nSkipped = 0, nNoop = 0, nPartial = 0, nF = 0, nX = 0, nXh = 0, nXcleared = 0, nI = 0, nN = 0;
  long maxList = 0, nHow12 = 0, nHow34 = 0, maxChunks = 0;
  bool sawExactChunk = false, sawChunkPlus1 = false;
  // the hints the object holds are the ones passed last (the own rank may or may not have been removed already);
  // reported only if the lists themselves give no reason to complain
  std::string hintFail;
  auto checkHints = [&](const char* after) {
    std::set<int> want(hints[rank].begin(), hints[rank].end()), have = api.getNeighbours();
    want.erase(rank);
    have.erase(rank);
    if (want != have && hintFail.empty())
      hintFail = std::string("getNeighbours() after ") + after + " = {" + join(have.begin(), have.end(), ",") + "}, the hints passed are {" +
             join(want.begin(), want.end(), ",") + "}";
  };
  checkHints("construction");

  for (auto& sg : c.segs) {
    char kind = sg.kind;
    if (kind == 'a' || kind == 'd') {
      int s = sg.s, r = sg.r;
      if (s == 1 && !two[r]) continue;
      int o = objOf(r, s);
      if (kind == 'a') {
        pend[r][o].adds.push_back(sg.e);
      } else {  // a delete also cancels the pending adds of that global
        Val g = sg.e.g;
        auto& ad = pend[r][o].adds;
        ad.erase(std::remove_if(ad.begin(), ad.end(), [&](const Ent& e) { return e.g == g; }), ad.end());
        pend[r][o].dels.insert(g);
      }
    } else if (kind == 'R' || kind == 'r') {
      if (kind == 'r') ++nPartial;
      ++nR;
      for (int r = 0; r < P; ++r) {
        if (sg.r >= 0 && r != sg.r) continue;
        int obj = objOf(r, sg.s);
        Pending& pe = pend[r][obj];
        // shadow first: (old \ deleted) + adds whose key is new
        Shadow nsh;
        for (auto& kv : sh[r][obj]) if (!pe.dels.count(kv.second.g)) nsh.insert(kv);
        std::vector<Ent> eff;
        for (auto& e : pe.adds) {
          Key k(e.g, e.a);
          if (nsh.count(k)) continue;
          nsh[k] = e;
          eff.push_back(e);
        }
        if (r == rank) api.resize(obj, pe.dels, eff);
        for (auto& e : eff) { if (e.how == 1 || e.how == 2) ++nHow12; if (e.how >= 3) ++nHow34; }
        sh[r][obj] = nsh;
        pe.adds.clear();
        pe.dels.clear();
        if (r == rank && sg.s != 2) resizedSince = true;
      }
    } else if (kind == 'S') {
      ++nS;
      bool sy = api.isSynced();
      obs.push_back(sy ? "s1" : "s0");
      if (built) {
        nontrivial = true;
        if (sy == resizedSince && fail.empty())
          fail = std::string("isSynced() = ") + (sy ? "true" : "false") + " although " +
                 (resizedSince ? "an index set was resized since the rebuild" : "no index set was resized since the rebuild");
      }
    } else if (kind == 'F') {
      ++nF;
      api.freeLists();
      built = false;
      obs.push_back("f" + std::to_string(api.neighbours()));
      if (!api.noLists() && fail.empty()) fail = "remote index lists left after free()";
    } else if (kind == 'X') {
      ++nX;
      if (sg.k == 1)
        for (int r = 0; r < P; ++r) std::swap(srcO[r], tgtO[r]);
      if (sg.flag) {
        ++nXh;
        if (!ring[0] && sg.ring[0]) ++nXcleared;
        hints = sg.hints;
        ring = sg.ring;
        api.setIndexSets(srcO[rank], tgtO[rank], sg.omitted[rank] ? nullptr : &hints[rank]);
      } else {
        api.setIndexSets(srcO[rank], tgtO[rank], &hints[rank]);
      }
      built = false;
      obs.push_back("x" + std::to_string(api.neighbours()));
      if (!api.noLists() && fail.empty()) fail = "remote index lists left after setIndexSets()";
      if (!api.setsAre(srcO[rank], tgtO[rank]) && fail.empty())
        fail = "sourceIndexSet()/destinationIndexSet() do not return the sets passed to setIndexSets()";
      checkHints("setIndexSets()");
    } else if (kind == 'I') {
      ++nI;
      incl[sg.r] = sg.flag;
      if (sg.r == rank) api.setIncludeSelf(sg.flag);
    } else if (kind == 'N') {
      ++nN;
      hints = sg.hints;
      ring = sg.ring;
      api.setNeighbours(hints[rank]);
      checkHints("setNeighbours()");
    } else if (kind == 'B') {
      bool ign = sg.flag;
      ++nB;
      // would rebuild<ign>() really rebuild on this rank?  The ranks must agree, otherwise the call does not return.
      int need = (!built || ign != lastIgn || !api.isSynced()) ? 1 : 0;
      std::vector<int> needs(P);
      MPI_Allgather(&need, 1, MPI_INT, needs.data(), 1, MPI_INT, comm);
      bool agree = true;
      for (int r = 0; r < P; ++r) if (needs[r] != needs[0]) agree = false;
      if (!agree) {
        ++nSkipped;
        obs.push_back("b!");
        continue;
      }
      for (int r = 0; r < P; ++r)
        for (int o : {srcO[r], tgtO[r]}) {
          long sz = (long)sh[r][o].size();
          maxChunks = std::max(maxChunks, (sz + c.chunk - 1) / c.chunk);
          if (sz > 0 && sz % c.chunk == 0) sawExactChunk = true;
          if (sz > c.chunk && sz % c.chunk == 1) sawChunkPlus1 = true;
        }
      api.rebuild(ign);
      if (need) { bIncl = incl; bHints = hints; bRing = ring; } else ++nNoop;
      built = true;
      lastIgn = ign;
      resizedSince = false;
      // observe
      Lists got;
      std::string problem = api.lists(got);
      if (!problem.empty() && fail.empty()) fail = problem;
      std::string o = "b";
      bool firstN = true;
      for (auto& kv : got) {
        auto& s = kv.second.first;
        auto& r = kv.second.second;
        o += (firstN ? "" : " ") + std::to_string(kv.first) + ":" + show(canon(s)) + "|" + show(canon(r));
        firstN = false;
        nEntries += (long)(s.size() + r.size());
        maxList = std::max(maxList, (long)std::max(s.size(), r.size()));
      }
      obs.push_back(o);
      if ((int)got.size() != api.neighbours() && fail.empty()) fail = "neighbours() differs from the number of entries";
      // oracle: the set definition, from the shadow decomposition of all ranks
      bool consistent = true;  // hints name every rank this rank shares a published index with
      for (int q = 0; q < P; ++q) {
        const Shadow& mySrc = sh[rank][srcO[rank]];
        const Shadow& myTgt = sh[rank][tgtO[rank]];
        const Shadow& qSrc = sh[q][srcO[q]];
        const Shadow& qTgt = sh[q][tgtO[q]];
        for (auto* S : {&mySrc, &myTgt}) {
          std::set<Val> seen;
          for (auto& kv : *S) if (!seen.insert(kv.second.g).second) dupGlobals = true;
        }
        std::vector<Tuple> expS = joinDef(mySrc, qTgt, ign, false), expR = joinDef(myTgt, qSrc, ign, false);
        auto itq = got.find(q);
        std::vector<Tuple> gotS, gotR;
        if (itq != got.end()) { gotS = itq->second.first; gotR = itq->second.second; }
        std::string who = "rank " + std::to_string(rank) + " about " + std::to_string(q) + ": ";
        if (!expS.empty() || !expR.empty()) nontrivial = true;
        if (q == rank) {
          if (!two[rank] && !bIncl[rank]) {
            if (itq != got.end() && fail.empty()) fail = who + "entry for the process itself although one index set and includeSelf=false";
            continue;
          }
          std::vector<Tuple> minS = joinDef(mySrc, qTgt, ign, true), minR = joinDef(myTgt, qSrc, ign, true);
          if (!two[rank]) { expS = minS; expR = minR; }  // one set, includeSelf: pairs of different attribute only
          bool okS, okR;
          if (two[rank] && bIncl[rank]) {  // documented either way: at least the different-attribute pairs, at most all
            okS = subMultiset(minS, gotS) && subMultiset(gotS, expS);
            okR = subMultiset(minR, gotR) && subMultiset(gotR, expR);
          } else {
            okS = sameMultiset(gotS, expS);
            okR = sameMultiset(gotR, expR);
          }
          if ((!okS || !okR) && fail.empty())
            fail = who + "self entry send " + show(gotS) + " receive " + show(gotR) + " expected send " + show(expS) + " receive " + show(expR);
          if ((!sortedByGlobal(gotS) || !sortedByGlobal(gotR)) && fail.empty()) fail = who + "list not ordered by global index";
          if (itq != got.end() && gotS.empty() && gotR.empty() && fail.empty()) fail = who + "empty self entry";
          continue;
        }
        bool hinted = bRing[rank] || std::find(bHints[rank].begin(), bHints[rank].end(), q) != bHints[rank].end();
        if (!hinted) {
          if (!expS.empty() || !expR.empty()) consistent = false;  // hints not consistent: property silent about q
          else if (itq != got.end() && fail.empty()) fail = who + "entry for a process sharing nothing";
          continue;
        }
        if (expS.empty() && expR.empty()) {
          if (itq != got.end() && fail.empty()) fail = who + "entry for a process sharing nothing: send " + show(gotS) + " receive " + show(gotR);
          continue;
        }
        if (itq == got.end()) {
          if (fail.empty()) fail = who + "no entry, expected send " + show(expS) + " receive " + show(expR);
          continue;
        }
        if (!sameMultiset(gotS, expS) && fail.empty()) fail = who + "send list " + show(gotS) + " expected " + show(expS);
        if (!sameMultiset(gotR, expR) && fail.empty()) fail = who + "receive list " + show(gotR) + " expected " + show(expR);
        if ((!sortedByGlobal(gotS) || !sortedByGlobal(gotR)) && fail.empty()) fail = who + "list not ordered by global index";
      }
      for (auto& kv : got)
        if ((kv.first < 0 || kv.first >= P) && fail.empty()) fail = "entry for a rank outside the communicator";
      if (!consistent) stat("inconsistent_hints_rank_builds");
    }
  }
  res.impl = join(obs.begin(), obs.end(), ";");
  if (fail.empty()) fail = hintFail;
  if (!fail.empty()) res.oracle = "FAIL " + fail;
  else res.oracle = nontrivial ? "ok" : "ok trivial";
  if (recordStats) {  // the world process that writes the statistics (any member knows the whole case)
    stat(ring[0] ? "mode_ring" : "mode_neighbours");
    stat(mixed ? "sets_mixed" : (two[0] ? "sets_two" : "sets_one"));
    if (anyIncl) stat("includeSelf_some");
    if (anyDflt) stat("default_ctor_some");
    if (dupGlobals) stat("repeated_globals");
    stat("ops_B", nB);
    stat("ops_B_skipped_disagree", nSkipped);
    stat("ops_B_noop_rank0", nNoop);
    stat("ops_S", nS);
    stat("ops_R", nR);
    stat("ops_r_single_rank", nPartial);
    stat("ops_F", nF);
    stat("ops_X", nX);
    stat("ops_X_new_hints", nXh);
    stat("ops_X_hints_to_ring", nXcleared);
    stat("ops_I", nI);
    stat("ops_N", nN);
    stat("remote_index_entries_rank0", nEntries);
    stat(maxList == 0 ? "maxlist_0" : maxList <= 4 ? "maxlist_1_4" : maxList <= 16 ? "maxlist_5_16" : "maxlist_17_up");
    stat("adds_how_1_2", nHow12);
    stat("adds_how_3_4_fixup", nHow34);
    if (maxChunks >= 2) stat(maxChunks == 2 ? "built_set_spans_2_chunks" : "built_set_spans_3_up_chunks");
    if (sawExactChunk) stat("built_set_size_multiple_of_chunk");
    if (sawChunkPlus1) stat("built_set_size_multiple_of_chunk_plus_1");
    size_t tot = 0;
    for (int o = 0; o < 3; ++o) tot += sh[0][o].size();
    stat(tot == 0 ? "rank0_sets_empty" : tot <= 8 ? "rank0_sets_1_8" : tot <= 32 ? "rank0_sets_9_32" : "rank0_sets_33_up");
  }
  return res;
}

// a world process that is not in the communicator of the case: it runs the collective calls of the line on the
// communicator of the remaining processes, with empty index sets, while the case runs
static Result runIdle(const Case& c, Api& api, MPI_Comm comm) {
  Result res;
  res.impl = "";
  res.oracle = "ok trivial";
  api.construct(false, 0, 0, std::vector<int>(), false);
  for (auto& sg : c.segs) {
    if (sg.kind == 'B') api.rebuild(sg.flag);
    else if (sg.kind == 'F') api.freeLists();
    else if (sg.kind == 'X') api.setIndexSets(0, 0, nullptr);
    else continue;
    if (!api.noLists()) res.oracle = "FAIL a process outside the communicator of the case (empty index sets) has remote index lists";
  }
  (void)comm;
  return res;
}

static Result exec(const std::string& line) {
  int wrank, wsize;
  MPI_Comm_rank(MPI_COMM_WORLD, &wrank);
  MPI_Comm_size(MPI_COMM_WORLD, &wsize);
  Result res;
  Case c;
  std::string why;
  if (!parseCase(line, wsize, c, why)) {
    res.impl = "bad-op";
    res.oracle = "ok trivial " + why;
    return res;
  }
  // a case takes milliseconds; a message sent to the wrong process or on the wrong communicator is never received: do
  // not wait for the general per-case alarm of runMpi (it is re-armed for the next case there)
  {
    unsigned left = alarm(0);
    alarm(left ? std::min(left, 30u) : 30u);
  }
  // the communicator of the case
  MPI_Comm comm = MPI_COMM_WORLD;
  const int role = c.roleOf(wrank);
  bool member = role < c.P;
  if (c.comm == 'd') MPI_Comm_dup(MPI_COMM_WORLD, &comm);
  else if (c.comm == 'l') {
    MPI_Comm_split(MPI_COMM_WORLD, member ? 0 : 1, member ? role : wrank, &comm);
    int crank, csize;
    MPI_Comm_rank(comm, &crank);
    MPI_Comm_size(comm, &csize);
    if (crank != (member ? role : role - c.P) || csize != (member ? c.P : c.extra)) {
      res.impl = "HARNESS";
      res.oracle = "FAIL harness: MPI_Comm_split did not give the requested numbering";
      return res;
    }
  }
  {
    std::unique_ptr<Api> api(makeApi(c.gtype, c.chunk, comm));
    res = member ? runCase(c, *api, comm, wrank == 0) : runIdle(c, *api, comm);
  }
  if (c.comm != 'w') MPI_Comm_free(&comm);
  if (wrank == 0) {
    if (!member) stat("cases_without_statistics_world0_left_out");
    stat("gtype_" + c.gtype);
    stat("chunk_" + std::to_string(c.chunk));
    stat(c.comm == 'w' ? "comm_world" : c.comm == 'd' ? "comm_dup" : c.extra ? "comm_split_sub" : "comm_split_renumbered");
  }
  // answer number i of the line is that of the process with role i: hand it to world process i
  if (c.comm == 'l') {
    auto impls = allgatherStrings(res.impl);
    auto oracles = allgatherStrings(res.oracle);
    for (int w = 0; w < wsize; ++w)
      if (c.roleOf(w) == wrank) { res.impl = impls[w]; res.oracle = oracles[w]; }
  }
  return res;
}

// ------------------------------------------------------------------------------------------------------------------
static std::string hintString(const std::vector<std::set<int>>& nb, bool ringMode) {
  std::string h;
  for (size_t p = 0; p < nb.size(); ++p) {
    if (p) h += "/";
    if (ringMode || nb[p].empty()) h += "-";
    else h += join(nb[p].begin(), nb[p].end(), ",");
  }
  return h;
}

static std::string gen(Rng& rng, long, const Args& args) {
  int W;
  MPI_Comm_size(MPI_COMM_WORLD, &W);
  bool thorough = args.tier == "thorough";
  // the communicator: MPI_COMM_WORLD, a duplicate, all processes renumbered, or some of them in any order
  std::string commTok;
  int P = W;
  {
    int ck = (int)rng.below(20);
    if (ck < 11) commTok = rng.coin(1, 6) ? " comm=w" : "";
    else if (ck < 13) commTok = " comm=d";
    else {
      std::vector<int> ws;
      for (int w = 0; w < W; ++w) ws.push_back(w);
      for (int i = W - 1; i > 0; --i) std::swap(ws[i], ws[rng.below(i + 1)]);
      if (ck >= 16 && W >= 2) P = W - 1 - (W >= 4 && rng.coin(1, 3) ? 1 : 0);
      if (ck == 19 && rng.coin()) std::sort(ws.begin(), ws.begin() + P);  // order of the world kept
      ws.resize(P);
      commTok = " comm=" + join(ws.begin(), ws.end(), ".") + (P < W ? "+" + std::to_string(W - P) : "");
    }
  }
  // the global index type and the map from the small numbers used below to values of the type: apart from int the
  // values need all digits / both halves of the representation, and values that differ only in the most significant
  // part occur together with values that differ only in the least significant part
  std::string gtype = "int";
  {
    int gk = (int)rng.below(20);
    if (gk < 9) gtype = "int";
    else if (gk < 12) gtype = "long";
    else if (gk < 15) gtype = "big24";
    else if (gk < 18) gtype = "big40";
    else gtype = "pair";
  }
  std::string gTok = gtype == "int" ? (rng.coin(1, 8) ? " g=int" : "") : " g=" + gtype;
  // chunk size of the index sets' ArrayList: with g=int half of the cases use a small one, so that ordinary small sets
  // sit on every boundary (N-1, N, N+1, several chunks); the default 100 gets its own large sets below ("huge")
  int chunk = 100;
  if (gtype == "int" && rng.coin()) { int ck = (int)rng.below(3); chunk = ck == 0 ? 1 : ck == 1 ? 3 : 8; }
  std::string nTok = chunk == 100 ? (rng.coin(1, 10) ? " n=100" : "") : " n=" + std::to_string(chunk);
  int intKind = (int)rng.below(6);  // int: 0 = values near INT_MAX, 1 = near INT_MIN, else small
  auto gv = [&](long g) -> Val {
    if (gtype == "int") return intKind == 0 ? 2147483647LL - 600 + g : intKind == 1 ? -2147483648LL + 8 + g : (Val)g;
    if (gtype == "long") return (Val)g * 4294967299LL;                    // both halves vary, also negative
    int T = gtype == "big24" ? 16 : gtype == "big40" ? 32 : 20;           // pair: first component = g >> 2
    return (Val)(g & 3) + ((Val)(g >> 2) << T);
  };
  auto gs = [&](long g) { return std::to_string(gv(g)); };
  bool negativeOk = gtype == "int" || gtype == "long";

  // kinds of systems
  int kind = (int)rng.below(100);
  bool dup = false, mixed = false, allTwo = false;
  if (kind < 32) allTwo = false;
  else if (kind < 64) allTwo = true;
  else if (kind < 82 && P >= 2) mixed = true;
  else if (kind < 82) allTwo = true;
  else dup = true;  // one set on every rank, repeated globals with different attributes
  std::vector<int> two(P), incl(P), dflt(P);
  for (int r = 0; r < P; ++r) two[r] = mixed ? (int)rng.below(2) : (allTwo ? 1 : 0);
  if (mixed) { int r = (int)rng.below(P); two[r] = 1; two[(r + 1 + rng.below(P - 1)) % P] = 0; }
  int ik = (int)rng.below(10);
  for (int r = 0; r < P; ++r) incl[r] = ik < 4 ? 0 : (ik < 7 || dup ? 1 : (int)rng.below(2));
  std::vector<int> inclInit = incl;
  bool anyDflt = rng.coin(1, 4);
  for (int r = 0; r < P; ++r) dflt[r] = anyDflt ? (int)rng.below(2) : 0;
  bool ringMode = rng.coin();
  bool big = rng.coin(1, 14);  // long lists
  // huge: one rank holds *every* global index of the case in its sets, and their number sits on a boundary of the
  // chunk size (k*N-1, k*N, k*N+1, k = 1, 2; also for the default N = 100)
  bool huge = rng.coin(1, chunk == 100 ? 16 : 8);
  int hugeRank = (int)rng.below(P);

  int nG = big ? (int)rng.range(20, thorough ? 70 : 40) : (int)rng.range(1, thorough ? 14 : 9);
  if (huge) {
    int k = rng.coin(2, 3) ? 1 : (rng.coin(3, 4) ? 2 : 3);
    nG = std::max(1, k * chunk + (int)rng.below(4) - 1);   // k*N-1 .. k*N+2
    big = true;
  }
  // the way local indices are made: mostly one variant per case (so a variant that misbehaves dominates its cases),
  // sometimes mixed
  int howKind = (int)rng.below(8);  // 0..2: variant 0, 3..6: variant howKind-2, 7: mixed
  long base = (negativeOk && rng.coin(1, 5)) ? -(long)rng.below(4) : (long)rng.below(50);
  int pubKind = (int)rng.below(10);  // 0: none public, 1..2: all public, else mostly
  double dens = big ? 0.5 + 0.1 * (double)rng.below(4) : 0.25 + 0.15 * (double)rng.below(5);
  std::vector<std::string> segs;
  std::vector<std::set<long>> ever(P);
  // current contents incl. pending adds (global -> attributes) per rank and *object*; roles as in the executor
  std::vector<std::array<std::map<long, std::vector<int>>, 2>> cur(P);
  std::vector<std::array<long, 2>> nextLocal(P, std::array<long, 2>{0, 0});
  std::vector<int> srcO(P, 0), tgtO(P, 0);
  for (int r = 0; r < P; ++r) tgtO[r] = two[r] ? 1 : 0;
  auto objOf = [&](int r, int s) { return s == 0 ? srcO[r] : tgtO[r]; };
  auto pubFlag = [&]() { return pubKind == 0 ? false : (pubKind <= 2 ? true : rng.coin(4, 5)); };
  auto addEntry = [&](int s, int r, long g, int attr) {
    int o = objOf(r, s);
    long l = rng.coin(1, 6) ? (long)rng.below(40) : nextLocal[r][o]++;
    int how = howKind <= 2 ? 0 : howKind <= 6 ? howKind - 2 : (int)rng.below(5);
    segs.push_back("a" + std::to_string(s) + "," + std::to_string(r) + "," + gs(g) + "," + std::to_string(l) +
                   "," + std::to_string(attr) + "," + (pubFlag() ? "1" : "0") + (how || rng.coin(1, 10) ? "," + std::to_string(how) : ""));
    cur[r][o][g].push_back(attr);
    ever[r].insert(g);
  };
  auto place = [&](long g) {
    for (int s = 0; s < 2; ++s) {
      std::vector<int> on;
      for (int r = 0; r < P; ++r) if ((double)rng.below(1000) < dens * 1000) on.push_back(r);
      if (on.empty()) on.push_back((int)rng.below(P));  // each global index on a non-empty subset of the ranks
      if (huge && std::find(on.begin(), on.end(), hugeRank) == on.end()) on.push_back(hugeRank);
      for (int r : on) {
        if (s == 1 && !two[r]) continue;
        if (cur[r][objOf(r, s)].count(g)) continue;
        int attr = (int)rng.below(4);
        addEntry(s, r, g, attr);
        if (dup && s == 0 && rng.coin(1, 3)) {
          int a2 = (attr + 1 + (int)rng.below(3)) % 4;
          addEntry(s, r, g, a2);
        }
      }
    }
  };
  std::vector<long> globals;
  for (int i = 0; i < nG; ++i) {
    long g = base + (!huge && rng.coin(1, 4) ? i * 3 : i);
    globals.push_back(g);
    place(g);
  }
  auto B = [&](int ign) { segs.push_back(std::string("B") + (ign ? "1" : "0")); };
  // every rank resizes one of its sets, one rank at a time, in a random rank order (the ranks agree that a rebuild is due)
  auto resizeEachRank = [&]() {
    std::vector<int> order(P);
    for (int r = 0; r < P; ++r) order[r] = r;
    for (int r = P - 1; r > 0; --r) std::swap(order[r], order[rng.below(r + 1)]);
    for (int r : order) segs.push_back("r" + std::to_string((int)rng.below(2)) + "," + std::to_string(r));
  };
  int ign = rng.coin(1, 3);
  if (rng.coin(1, 8)) segs.push_back("S");
  if (rng.coin(1, 6)) { resizeEachRank(); segs.push_back("R" + std::to_string((int)rng.below(2))); }
  else { segs.push_back("R0"); segs.push_back("R1"); }
  if (rng.coin()) segs.push_back("S");
  B(ign);
  segs.push_back("S");

  // hints: symmetric superset of the sharing graph over the whole history (or, "sparse", with some sharing edges
  // left out: the property is then silent about the unnamed ranks), every rank with a neighbour
  auto makeHints = [&](bool sparse) {
    std::vector<std::set<int>> nb(P);
    for (int p = 0; p < P; ++p)
      for (int q = p + 1; q < P; ++q) {
        bool share = false;
        for (long g : ever[p]) if (ever[q].count(g)) share = true;
        if (sparse ? rng.coin(1, 2) : (share || rng.coin(1, 4))) { nb[p].insert(q); nb[q].insert(p); }
      }
    for (int p = 0; p < P && P >= 2; ++p)
      if (nb[p].empty()) { int q = (p + 1) % P; nb[p].insert(q); nb[q].insert(p); }
    for (int p = 0; p < P; ++p) if (rng.coin(1, 5) || P == 1) nb[p].insert(p);  // naming oneself is harmless
    return nb;
  };

  int phases = (int)rng.below(huge && chunk == 100 ? 3 : thorough ? 5 : 4);
  // positions of segments that carry hints (N..., X<k>,...), filled in when the whole history is known
  std::vector<size_t> hintSlots;
  std::vector<int> hintSlotKind;  // 0: ring, 1: sparse, else covering
  auto hintSeg = [&](const std::string& prefix, int kindOfHints) {
    hintSlots.push_back(segs.size());
    hintSlotKind.push_back(kindOfHints);
    segs.push_back(prefix);
  };
  auto X = [&](bool swap, int hintKind /* -1: pass the hints in force again */) {
    std::string x = swap ? "X1" : "X0";
    if (swap) for (int r = 0; r < P; ++r) std::swap(srcO[r], tgtO[r]);
    if (hintKind < 0) segs.push_back(x);
    else hintSeg(x + ",", hintKind);
  };
  for (int ph = 0; ph < phases; ++ph) {
    int what = (int)rng.below(23);
    if (what < 3) {  // rebuild again without any resize: same ign (no-op) or the other ign
      if (rng.coin()) ign = !ign;
      B(ign);
      segs.push_back("S");
      continue;
    }
    if (what < 5) {  // unrelated resize only
      if (rng.coin(1, 3)) segs.push_back("r2," + std::to_string((int)rng.below(P)));
      else segs.push_back("R2");
      segs.push_back("S");
      if (rng.coin()) { B(ign); segs.push_back("S"); }
      continue;
    }
    if (what < 6) {  // free, then a rebuild that must really rebuild
      segs.push_back("F");
      if (rng.coin()) segs.push_back("S");
      if (rng.coin(1, 3)) ign = !ign;
      B(ign);
      segs.push_back("S");
      continue;
    }
    if (what < 8) {  // setIndexSets again, with the roles kept or exchanged, the hints passed again or new ones
      X(rng.coin(2, 3), rng.coin() ? -1 : (int)rng.below(4));
      if (rng.coin()) segs.push_back("S");
      B(ign);
      segs.push_back("S");
      continue;
    }
    if (what < 9) {  // setIncludeSelf on one rank: the next rebuild without a resize keeps the old lists
      int r = (int)rng.below(P);
      incl[r] = !incl[r];
      segs.push_back("I" + std::to_string(r) + "," + std::to_string(incl[r]));
      if (rng.coin()) { B(ign); segs.push_back("S"); }
      if (rng.coin()) { resizeEachRank(); B(ign); segs.push_back("S"); }
      else { segs.push_back("F"); B(ign); }
      continue;
    }
    if (what < 10) {  // new neighbour hints (possibly switching between ring and neighbour mode)
      hintSeg("N", (int)rng.below(4));
      if (rng.coin(1, 3)) { B(ign); segs.push_back("S"); }
      segs.push_back(rng.coin() ? "F" : "R0");
      B(ign);
      continue;
    }
    if (what < 12 && P >= 2) {  // only some ranks resize: the ranks disagree, the rebuild is skipped; then the others follow
      std::vector<int> did(P, 0);
      int n = (int)rng.range(1, P - 1);
      for (int i = 0; i < n; ++i) { int r = (int)rng.below(P); if (!did[r]) { did[r] = 1; segs.push_back("r" + std::to_string((int)rng.below(2)) + "," + std::to_string(r)); } }
      segs.push_back("S");
      B(ign);
      for (int r = 0; r < P; ++r) if (!did[r]) segs.push_back("r" + std::to_string((int)rng.below(2)) + "," + std::to_string(r));
      B(ign);
      segs.push_back("S");
      continue;
    }
    if (what < 15) {  // re-targeting: hints (sparse ones leave sharing ranks out), build, setIndexSets with other hints
      // or none at all (ring), build: the lists are those of the hints passed last
      int k1 = 1 + (int)rng.below(2) * (int)rng.below(2);  // mostly sparse
      if (rng.coin()) hintSeg("N", k1); else X(rng.coin(), k1);
      segs.push_back(rng.coin() ? "F" : "R0");
      B(ign);
      int k2 = rng.coin(2, 3) ? 0 : (int)rng.below(3);     // mostly none
      X(rng.coin(), k2);
      if (rng.coin(1, 3)) segs.push_back("S");
      if (rng.coin(1, 3)) ign = !ign;
      B(ign);
      segs.push_back("S");
      continue;
    }
    // modify: deletes and adds, then resize a non-empty subset of {source, target}
    int nd = (int)rng.below(3), na = (int)rng.below(3);
    for (int i = 0; i < nd; ++i) {
      int r = (int)rng.below(P), s = (int)rng.below(2);
      if (s == 1 && !two[r]) continue;
      auto& c = cur[r][objOf(r, s)];
      if (c.empty()) continue;
      auto it = c.begin();
      std::advance(it, rng.below(c.size()));
      segs.push_back("d" + std::to_string(s) + "," + std::to_string(r) + "," + gs(it->first));
      c.erase(it);
    }
    for (int i = 0; i < na; ++i) {
      long g = rng.coin() ? globals[rng.below(globals.size())] : base + nG * (huge ? 1 : 3) + (long)rng.below(4);
      if (std::find(globals.begin(), globals.end(), g) == globals.end()) globals.push_back(g);
      place(g);
    }
    if (rng.coin(1, 4)) resizeEachRank();
    else {
      int rs = (int)rng.range(1, 3);
      if (rs & 1) segs.push_back("R0");
      if (rs & 2) segs.push_back("R1");
    }
    if (rng.coin(1, 4)) segs.push_back("R2");
    segs.push_back("S");
    if (rng.coin(1, 3)) ign = !ign;
    B(ign);
    segs.push_back("S");
    // what is still pending stays pending; later resizes apply it
  }
  bool sparse = !ringMode && rng.coin(1, 5);
  std::string hintStr = hintString(makeHints(sparse), ringMode);
  for (size_t i = 0; i < hintSlots.size(); ++i) {
    int k = hintSlotKind[i];
    segs[hintSlots[i]] += hintString(makeHints(k == 1), k == 0);
  }
  std::string flags;
  for (int r = 0; r < P; ++r) flags.push_back((char)('0' + two[r] + 2 * inclInit[r] + 4 * dflt[r]));
  return "c04 " + std::to_string(P) + " " + flags + " " + hintStr + gTok + nTok + commTok + " : " + join(segs.begin(), segs.end(), ";");
}

int main(int argc, char** argv) {
  Dune::MPIHelper::instance(argc, argv);
  std::cout << std::unitbuf;
  return runMpi(argc, argv, gen, exec);
}
