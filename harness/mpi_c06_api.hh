// C06 harness, part shared by the translation units that instantiate Dune::VariableSizeCommunicator:
//   mpi_c06.cc      the class as every user gets it (default buffer size 32768)
//   mpi_c06_cfg.cc  the class compiled with DUNE_PARALLEL_MAX_COMMUNICATION_BUFFER_SIZE defined (the `#else` constructors)
// The communicator object is used through the type-erased CommApi so that the case executor, the oracles and the
// generator exist once; only the thin typed part (data handle of item type T calling forward/backward) is a template.
#ifndef DV_MPI_C06_API_HH
#define DV_MPI_C06_API_HH

#include <mpi.h>

#include <complex>
#include <cstdint>
#include <cstring>
#include <functional>
#include <string>
#include <utility>
#include <vector>

#include <dune/common/bigunsignedint.hh>
#include <dune/common/fvector.hh>
#include <dune/common/parallel/interface.hh>
#include <dune/common/parallel/mpitraits.hh>

namespace c06 {

// item j of local index i of rank p: every item names its origin (< 2^35 for p < 63, i < 4096, j < 65536)
inline long itemValue(int p, long i, long j) { return ((long)(p + 1) * 4096 + i) * 65536 + j; }
inline int itemSource(long v) { return (int)(v / 65536 / 4096) - 1; }

struct ScatterCall {
  long index, n;
  std::vector<long> items;
};

// what one forward()/backward() call looks like from the data handle: how many items this rank gathers per index,
// and the record of the gather and scatter calls the communicator made
struct Recorder {
  int rank = 0;
  bool fixed = false;
  long cap = 0;                       // no honest item count is larger (keeps a wrong count from reading for ever)
  std::function<long(long)> sizeOf;   // items gathered for local index i
  std::vector<long> gathered;         // indices in call order
  std::vector<ScatterCall> scattered;
  bool damaged = false;
  std::string problem;
};

// ---------------------------------------------------------------------------------------------------------------
// item types: make(v) builds an item carrying the 35-bit value v in a way that uses every member / digit / component
// of the type, value() recovers v and reports damage when the redundant parts do not fit
// ---------------------------------------------------------------------------------------------------------------
struct PodItem {  // goes through the generic MPITraits<T> (sizeof(T) bytes)
  long v;
  short tag;
};
typedef std::pair<char, double> PairItem;                     // MPITraits<std::pair<T1,T2>> with padding between the members
typedef std::pair<double, char> TailItem;                     // … with padding behind the members (needs the resized extent)
typedef Dune::FieldVector<double, 3> FvItem;                  // MPITraits<FieldVector<K,n>>
typedef std::pair<int, std::pair<short, double>> NestedItem;  // a pair type built from another pair type

template <class T> struct ItemCodec;
template <> struct ItemCodec<long> {
  static long make(long v) { return v; }
  static long value(const long& x, bool&) { return x; }
};
template <> struct ItemCodec<unsigned long> {
  static unsigned long make(long v) { return (unsigned long)v | (1ul << 63); }  // the top bit travels too
  static long value(const unsigned long& x, bool& damaged) { if (!(x >> 63)) damaged = true; return (long)(x & ~(1ul << 63)); }
};
template <> struct ItemCodec<double> {
  static double make(long v) { return (double)v + 0.5; }
  static long value(const double& x, bool& damaged) { long v = (long)x; if ((double)v + 0.5 != x) damaged = true; return v; }
};
template <> struct ItemCodec<long double> {
  static long double make(long v) { return (long double)v + 0.25L; }
  static long value(const long double& x, bool& damaged) { long v = (long)x; if ((long double)v + 0.25L != x) damaged = true; return v; }
};
template <> struct ItemCodec<std::complex<double>> {
  static std::complex<double> make(long v) { return std::complex<double>((double)v, -(double)(v % 977) - 0.5); }
  static long value(const std::complex<double>& x, bool& damaged) {
    long v = (long)x.real();
    if ((double)v != x.real() || x.imag() != -(double)(v % 977) - 0.5) damaged = true;
    return v;
  }
};
template <> struct ItemCodec<std::complex<float>> {  // 2 x 24 bit mantissa: 17 + 18 bits
  static std::complex<float> make(long v) { return std::complex<float>((float)(v >> 18), (float)(v & 0x3ffff)); }
  static long value(const std::complex<float>& x, bool& damaged) {
    long hi = (long)x.real(), lo = (long)x.imag();
    if ((float)hi != x.real() || (float)lo != x.imag() || hi < 0 || lo < 0 || lo > 0x3ffff) damaged = true;
    return (hi << 18) | (lo & 0x3ffff);
  }
};
template <> struct ItemCodec<std::complex<long double>> {
  static std::complex<long double> make(long v) { return std::complex<long double>((long double)v, (long double)(v % 977) + 0.5L); }
  static long value(const std::complex<long double>& x, bool& damaged) {
    long v = (long)x.real();
    if ((long double)v != x.real() || x.imag() != (long double)(v % 977) + 0.5L) damaged = true;
    return v;
  }
};
template <> struct ItemCodec<PodItem> {
  static PodItem make(long v) { PodItem p; std::memset(&p, 0, sizeof p); p.v = v; p.tag = (short)(v % 31991); return p; }
  static long value(const PodItem& x, bool& damaged) { if (x.tag != (short)(x.v % 31991)) damaged = true; return x.v; }
};
template <> struct ItemCodec<PairItem> {
  static PairItem make(long v) { return PairItem((char)(1 + v % 101), (double)v); }
  static long value(const PairItem& x, bool& damaged) {
    long v = (long)x.second;
    if ((double)v != x.second || x.first != (char)(1 + v % 101)) damaged = true;
    return v;
  }
};
template <> struct ItemCodec<TailItem> {
  static TailItem make(long v) { return TailItem((double)v, (char)(1 + v % 101)); }
  static long value(const TailItem& x, bool& damaged) {
    long v = (long)x.first;
    if ((double)v != x.first || x.second != (char)(1 + v % 101)) damaged = true;
    return v;
  }
};
template <> struct ItemCodec<FvItem> {
  static FvItem make(long v) { FvItem x; x[0] = (double)v; x[1] = (double)(v % 977) + 0.5; x[2] = -(double)v; return x; }
  static long value(const FvItem& x, bool& damaged) {
    long v = (long)x[0];
    if ((double)v != x[0] || x[1] != (double)(v % 977) + 0.5 || x[2] != -(double)v) damaged = true;
    return v;
  }
};
template <> struct ItemCodec<NestedItem> {
  static NestedItem make(long v) { return NestedItem((int)(v % 1000003), std::make_pair((short)(v % 31991), (double)v)); }
  static long value(const NestedItem& x, bool& damaged) {
    long v = (long)x.second.second;
    if ((double)v != x.second.second || x.first != (int)(v % 1000003) || x.second.first != (short)(v % 31991)) damaged = true;
    return v;
  }
};
// FieldVector<K,n> of a narrow component type K: v is cut into n chunks of `bits` bits (n*bits >= 35), so the datatype
// of every primitive type of mpitraits.hh carries data that is checked item by item
template <class K, int n, int bits> struct ChunkCodec {
  typedef Dune::FieldVector<K, n> T;
  static_assert(n * bits >= 35, "an item value has 35 bits");
  static T make(long v) {
    T x;
    for (int c = 0; c < n; ++c) x[c] = (K)((v >> (c * bits)) & ((1l << bits) - 1));
    return x;
  }
  static long value(const T& x, bool& damaged) {
    long v = 0;
    for (int c = 0; c < n; ++c) {
      long part = (long)x[c];
      if ((K)part != x[c] || part < 0 || part >= (1l << bits)) damaged = true;
      v |= (part & ((1l << bits) - 1)) << (c * bits);
    }
    return v;
  }
};
template <> struct ItemCodec<Dune::FieldVector<char, 5>> : ChunkCodec<char, 5, 7> {};
template <> struct ItemCodec<Dune::FieldVector<unsigned char, 5>> : ChunkCodec<unsigned char, 5, 7> {};
template <> struct ItemCodec<Dune::FieldVector<short, 3>> : ChunkCodec<short, 3, 12> {};
template <> struct ItemCodec<Dune::FieldVector<unsigned short, 3>> : ChunkCodec<unsigned short, 3, 12> {};
template <> struct ItemCodec<Dune::FieldVector<int, 2>> : ChunkCodec<int, 2, 18> {};
template <> struct ItemCodec<Dune::FieldVector<unsigned int, 2>> : ChunkCodec<unsigned int, 2, 18> {};
template <> struct ItemCodec<Dune::FieldVector<float, 2>> : ChunkCodec<float, 2, 18> {};
// bigunsignedint<k>: bits 0..34 = v, bits 35..k-1 = a non-zero function of v, so the top digit (partially filled when
// 16 does not divide k) is in use in every item
template <int k> struct ItemCodec<Dune::bigunsignedint<k>> {
  typedef Dune::bigunsignedint<k> T;
  static_assert(k >= 40, "35 bits of value and at least 5 bits of redundancy");
  static constexpr int spare = (k - 35 > 63) ? 63 : k - 35;
  static std::uint64_t check(long v) {
    std::uint64_t h = (std::uint64_t)v * 0x9E3779B97F4A7C15ull;
    h ^= h >> 29;
    return (h & ((1ull << (spare - 1)) - 1)) | (1ull << (spare - 1));  // exactly `spare` bits, the top one set
  }
  static std::uint64_t low64(const T& x) {
    std::uint64_t r = 0;
    for (int d = 0; d < 4 && d * 16 < k; ++d) r |= (std::uint64_t)((x >> (16 * d)).touint() & 0xffffu) << (16 * d);
    return r;
  }
  static T make(long v) {
    T lo((std::uintmax_t)v);
    T hi((std::uintmax_t)check(v));
    return lo | (hi << (k - spare));
  }
  static long value(const T& x, bool& damaged) {
    long v = (long)(low64(x) & ((1ull << 35) - 1));
    if (!(x == make(v))) damaged = true;
    return v;
  }
};

template <class T>
struct RecHandle {
  typedef T DataType;
  Recorder& r;
  explicit RecHandle(Recorder& rr) : r(rr) {}
  bool fixedSize() { return r.fixed; }
  std::size_t size(std::size_t i) { return (std::size_t)r.sizeOf((long)i); }
  template <class B> void gather(B& buf, std::size_t i) {
    r.gathered.push_back((long)i);
    long n = r.sizeOf((long)i);
    for (long j = 0; j < n; ++j) buf.write(ItemCodec<T>::make(itemValue(r.rank, (long)i, j)));
  }
  template <class B> void scatter(B& buf, std::size_t i, std::size_t n) {
    ScatterCall sc;
    sc.index = (long)i;
    sc.n = (long)n;
    if ((long)n > r.cap) {
      if (r.problem.empty()) r.problem = "scatter was told a count of " + std::to_string(n) + " > buffer size for index " + std::to_string(i);
      n = (std::size_t)r.cap;
    }
    for (std::size_t k = 0; k < n; ++k) {
      T x;
      buf.read(x);
      sc.items.push_back(ItemCodec<T>::value(x, r.damaged));
    }
    r.scattered.push_back(sc);
  }
};

// ---------------------------------------------------------------------------------------------------------------
// the object under test behind a type-erased interface
// ---------------------------------------------------------------------------------------------------------------
typedef std::map<int, std::pair<Dune::InterfaceInformation, Dune::InterfaceInformation>> IMap;

struct CommApi {
  virtual ~CommApi() {}                                                   // ~VariableSizeCommunicator (MPI_Comm_free)
  virtual CommApi* clone() const = 0;                                     // copy constructor
  virtual void assign(const CommApi& other) = 0;                          // operator=
  virtual bool communicate(char ty, bool forward, Recorder& r) = 0;       // forward()/backward(); false: type not built
};

// item types by letter (the list of the main translation unit; a configuration may build a subset)
#define C06_ALL_TYPES(X)                                                                                              \
  X('l', (long)) X('p', (c06::PodItem)) X('c', (c06::PairItem)) X('t', (c06::TailItem)) X('v', (c06::FvItem))            \
  X('n', (c06::NestedItem)) X('g', (Dune::bigunsignedint<58>)) X('h', (Dune::bigunsignedint<40>))                       \
  X('k', (Dune::bigunsignedint<100>)) X('q', (Dune::bigunsignedint<64>)) X('d', (double)) X('e', (long double))         \
  X('w', (unsigned long)) X('z', (std::complex<double>)) X('x', (std::complex<float>)) X('y', (std::complex<long double>)) \
  X('a', (Dune::FieldVector<char, 5>)) X('b', (Dune::FieldVector<unsigned char, 5>)) X('s', (Dune::FieldVector<short, 3>)) \
  X('r', (Dune::FieldVector<unsigned short, 3>)) X('i', (Dune::FieldVector<int, 2>))                                    \
  X('u', (Dune::FieldVector<unsigned int, 2>)) X('f', (Dune::FieldVector<float, 2>))
// the subset built for the translation unit with DUNE_PARALLEL_MAX_COMMUNICATION_BUFFER_SIZE
#define C06_CFG_TYPES(X) X('l', (long)) X('c', (c06::PairItem)) X('g', (Dune::bigunsignedint<58>))
#define C06_CASE(L, T) case L: this->template run<typename c06::Unparen<void T>::type>(forward, r); return true;
// expands to the definition of CommImpl<VSC>::communicate for the type list LIST
#define C06_DEFINE_COMMUNICATE(LIST)                                                              \
  template <class VSC> bool c06::CommImpl<VSC>::communicate(char ty, bool forward, Recorder& r) { \
    switch (ty) { LIST(C06_CASE) default: return false; }                                         \
  }
static const char* const allTypeLetters = "lpctvnghkqdewzxyabsriuf";

template <class X> struct Unparen;
template <class X> struct Unparen<void(X)> { typedef X type; };

enum class CtorKind { commMapSize, commMap, interfaceSize, interface };

template <class VSC>
struct CommImpl : CommApi {
  VSC obj;
  CommImpl(MPI_Comm comm, IMap& map, std::size_t B) : obj(comm, map, B) {}
  CommImpl(MPI_Comm comm, IMap& map) : obj(comm, map) {}
  CommImpl(const Dune::Interface& inf, std::size_t B) : obj(inf, B) {}
  explicit CommImpl(const Dune::Interface& inf) : obj(inf) {}
  CommImpl(const CommImpl& o) : CommApi(), obj(o.obj) {}
  CommApi* clone() const override { return new CommImpl(*this); }
  void assign(const CommApi& other) override { obj = static_cast<const CommImpl&>(other).obj; }
  template <class T> void run(bool forward, Recorder& r) {
    RecHandle<T> h(r);
    if (forward) obj.forward(h);
    else obj.backward(h);
  }
  bool communicate(char ty, bool forward, Recorder& r) override;
};

// a family = one way the class template was compiled
struct Family {
  long defaultBuffer;  // what the constructors without a size argument configure
  const char* types;   // item type letters built for this family
  CommApi* (*make)(CtorKind kind, MPI_Comm comm, IMap* map, const Dune::Interface* inf, std::size_t B);
};

template <class VSC>
CommApi* makeComm(CtorKind kind, MPI_Comm comm, IMap* map, const Dune::Interface* inf, std::size_t B) {
  switch (kind) {
    case CtorKind::commMapSize: return new CommImpl<VSC>(comm, *map, B);
    case CtorKind::commMap: return new CommImpl<VSC>(comm, *map);
    case CtorKind::interfaceSize: return new CommImpl<VSC>(*inf, B);
    default: return new CommImpl<VSC>(*inf);
  }
}

const Family& cfgFamily();  // mpi_c06_cfg.cc
extern const long cfgFamilyMacroValue;

}  // namespace c06
#endif
