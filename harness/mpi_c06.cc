// C06 correspondence harness: Dune::VariableSizeCommunicator (forward/backward, fixed-size and variable-size data
// handles, arbitrary message buffer size, every constructor) against the Lean model, with an independent delivery
// oracle and a send/receive balance oracle.
//
// op line (describes the whole distributed case, every rank parses all of it):
//   c06 P=<np> B=<buffer items> mode=<f|v> f=<items per index, fixed mode> ty=<l|p|c|t|v|n> dirs=<letters> [ctor=<m|M|i|I|c|a>] : seg;seg;...
//   dirs   one letter per communicate call on the same communicator object: f forward, b backward with a handle of the
//          case's mode; F forward, B backward with a handle of the *other* mode (fixed <-> variable)
//   ty     item type: l long, p POD struct (generic MPITraits), c std::pair<char,double> (padding between the members),
//          t std::pair<double,char> (padding behind the members), v FieldVector<double,3>,
//          n std::pair<int,std::pair<short,double>>  (the MPITraits specialisations of mpitraits.hh)
//   ctor   how the communicator object is made: m (comm,map,B)   M (comm,map) default buffer (needs B=32768)
//          i (Interface,B)   I (Interface) default buffer   c copy-constructed, original destroyed   a copy-assigned over
//          a communicator with another map and buffer size (after a self-assignment), original destroyed.  Default m.
//   E p q [i1,i2,..] [j1,j2,..]   rank p's InterfaceMap[q].first  gets i1,i2,.. appended,
//                                  rank q's InterfaceMap[p].second gets j1,j2,.. appended (same length); both ranks get a map
//                                  entry for each other (so the maps stay symmetric whatever segments are removed)
//   S p [n0,n1,..]                variable-size handle of rank p: size(i) = n_i (0 for i beyond the list)
//   F p n                         fixed-size handle of rank p: n items per index (default: the header's f)
// item j of local index i of rank p has the value ((p+1)*4096+i)*65536+j, so every item names its origin.
//
// impl (per rank, per communicate call, calls separated by " | "): for every neighbour q in map order the scatter
// calls that carried data from q, in call order:  q:(idx:[items],idx:[items],..) ; scatter calls with count 0 are not
// part of the canonical form (the code is free to skip zero-size indices or to call scatter(…,0)).
// oracle (independent of the model, computed from the op line only): the k-th receive index of this rank for q gets
// exactly the items of the k-th send index of q for this rank; every send index is gathered exactly once; the
// counts passed to scatter are the numbers of items; when the call has returned on all ranks no posted receive is left
// without a message and no message without a receive (point-to-point operations started by the call are counted through
// the MPI profiling interface); returning at all is checked by the per-case alarm().
#include <config.h>

#include <mpi.h>

#include <algorithm>
#include <cstdio>
#include <cstdlib>
#include <cstring>
#include <map>
#include <memory>
#include <set>
#include <sstream>

#include <dune/common/fvector.hh>
#include <dune/common/parallel/interface.hh>
#include <dune/common/parallel/mpitraits.hh>
#include <dune/common/parallel/variablesizecommunicator.hh>

#include "hcommon_mpi.hh"

using namespace dv;

static int g_rank = 0, g_size = 1;

// ---------------------------------------------------------------------------------------------------------------
// point-to-point operations started while a communicate call runs (profiling interface; pmpi_sched.cc owns the
// completion calls, these are the initiation calls)
// ---------------------------------------------------------------------------------------------------------------
static bool g_counting = false;
static std::map<std::pair<int, int>, long> g_sends, g_recvs;  // (peer, tag) -> operations started
static long g_maxMsgItems = 0;

static void noteSend(int count, MPI_Datatype, int dest, int tag) {
  if (!g_counting) return;
  ++g_sends[{dest, tag}];
  g_maxMsgItems = std::max<long>(g_maxMsgItems, count);
}
extern "C" int MPI_Issend(const void* buf, int count, MPI_Datatype dt, int dest, int tag, MPI_Comm comm, MPI_Request* req) {
  noteSend(count, dt, dest, tag);
  return PMPI_Issend(buf, count, dt, dest, tag, comm, req);
}
extern "C" int MPI_Isend(const void* buf, int count, MPI_Datatype dt, int dest, int tag, MPI_Comm comm, MPI_Request* req) {
  noteSend(count, dt, dest, tag);
  return PMPI_Isend(buf, count, dt, dest, tag, comm, req);
}
extern "C" int MPI_Irecv(void* buf, int count, MPI_Datatype dt, int source, int tag, MPI_Comm comm, MPI_Request* req) {
  if (g_counting) ++g_recvs[{source, tag}];
  return PMPI_Irecv(buf, count, dt, source, tag, comm, req);
}

// ---------------------------------------------------------------------------------------------------------------
// the distributed case
// ---------------------------------------------------------------------------------------------------------------
struct Case {
  int P = 0;
  long B = 0;
  bool fixed = false;
  long f = 1;
  char ty = 'l';
  char ctor = 'm';
  std::string dirs;
  // first[p][q] / second[p][q]: the two index lists of rank p's interface with q; present[p] = keys of p's map
  std::vector<std::map<int, std::vector<long>>> first, second;
  std::vector<std::set<int>> present;
  std::vector<std::vector<long>> sizes;  // variable-size handle of rank p: sizes[p][i]
  std::vector<long> fixedOf;             // fixed-size handle of rank p
  std::string err;

  // is the handle of the call with direction letter d a fixed-size handle?
  bool fixedCall(char d) const { return (d == 'f' || d == 'b') ? fixed : !fixed; }
  static bool forwardCall(char d) { return d == 'f' || d == 'F'; }
  long sizeOf(bool fx, int p, long i) const {
    if (fx) return fixedOf[p];
    return (i >= 0 && i < (long)sizes[p].size()) ? sizes[p][i] : 0;
  }
};

static long itemValue(int p, long i, long j) { return ((long)(p + 1) * 4096 + i) * 65536 + j; }
static int itemSource(long v) { return (int)(v / 65536 / 4096) - 1; }

static bool parseKV(const std::string& tok, const std::string& key, std::string& val) {
  if (tok.rfind(key + "=", 0) != 0) return false;
  val = tok.substr(key.size() + 1);
  return true;
}

static Case parseCase(const std::string& line) {
  Case c;
  std::string head = line, body;
  size_t pos = line.find(" : ");
  if (pos != std::string::npos) { head = line.substr(0, pos); body = line.substr(pos + 3); }
  else if (line.size() >= 2 && line.substr(line.size() - 2) == " :") head = line.substr(0, line.size() - 2);
  auto hw = words(head);
  if ((hw.size() != 7 && hw.size() != 8) || hw[0] != "c06") { c.err = "header"; return c; }
  std::string v;
  try {
    if (!parseKV(hw[1], "P", v)) { c.err = "P"; return c; }
    c.P = std::stoi(v);
    if (!parseKV(hw[2], "B", v)) { c.err = "B"; return c; }
    c.B = std::stol(v);
    if (!parseKV(hw[3], "mode", v) || (v != "f" && v != "v")) { c.err = "mode"; return c; }
    c.fixed = v == "f";
    if (!parseKV(hw[4], "f", v)) { c.err = "f"; return c; }
    c.f = std::stol(v);
    if (!parseKV(hw[5], "ty", v) || v.size() != 1 || std::string("lpctvn").find(v[0]) == std::string::npos) { c.err = "ty"; return c; }
    c.ty = v[0];
    if (!parseKV(hw[6], "dirs", v) || v.empty()) { c.err = "dirs"; return c; }
    c.dirs = v;
    for (char d : c.dirs) if (d != 'f' && d != 'b' && d != 'F' && d != 'B') { c.err = "dirs"; return c; }
    if (hw.size() == 8) {
      if (!parseKV(hw[7], "ctor", v) || v.size() != 1 || std::string("mMiIca").find(v[0]) == std::string::npos) { c.err = "ctor"; return c; }
      c.ctor = v[0];
    }
    if (c.P < 1 || c.P > 64 || c.B < 1 || c.f < 1 || c.f > c.B) { c.err = "range"; return c; }
    if ((c.ctor == 'M' || c.ctor == 'I') && c.B != 32768) { c.err = "default buffer size is 32768"; return c; }
    c.first.resize(c.P); c.second.resize(c.P); c.present.resize(c.P); c.sizes.resize(c.P);
    c.fixedOf.assign(c.P, c.f);
    for (auto& seg : split(body, ';')) {
      auto w = words(seg);
      if (w.empty()) continue;
      if (w[0] == "E" && w.size() == 5) {
        int p = std::stoi(w[1]), q = std::stoi(w[2]);
        auto a = parseList(w[3]), b = parseList(w[4]);
        if (p < 0 || q < 0 || p >= c.P || q >= c.P || a.size() != b.size()) { c.err = "E"; return c; }
        for (long x : a) if (x < 0 || x >= 4096) { c.err = "E index"; return c; }
        for (long x : b) if (x < 0 || x >= 4096) { c.err = "E index"; return c; }
        c.present[p].insert(q); c.present[q].insert(p);
        auto& fl = c.first[p][q];
        fl.insert(fl.end(), a.begin(), a.end());
        auto& sl = c.second[q][p];
        sl.insert(sl.end(), b.begin(), b.end());
      } else if (w[0] == "S" && w.size() == 3) {
        int p = std::stoi(w[1]);
        auto s = parseList(w[2]);
        if (p < 0 || p >= c.P) { c.err = "S"; return c; }
        for (long x : s) if (x < 0 || x > c.B) { c.err = "S size"; return c; }
        c.sizes[p] = s;
      } else if (w[0] == "F" && w.size() == 3) {
        int p = std::stoi(w[1]);
        long n = std::stol(w[2]);
        if (p < 0 || p >= c.P || n < 1 || n > c.B) { c.err = "F"; return c; }
        c.fixedOf[p] = n;
      } else { c.err = "segment"; return c; }
    }
  } catch (std::exception&) { c.err = "number"; }
  return c;
}

// the list rank p gathers from / scatters to when talking to q in direction d
static const std::vector<long>& listOf(const std::vector<std::map<int, std::vector<long>>>& m, int p, int q) {
  static const std::vector<long> empty;
  auto it = m[p].find(q);
  return it == m[p].end() ? empty : it->second;
}
static const std::vector<long>& sendList(const Case& c, char d, int p, int q) { return listOf(Case::forwardCall(d) ? c.first : c.second, p, q); }
static const std::vector<long>& recvList(const Case& c, char d, int p, int q) { return listOf(Case::forwardCall(d) ? c.second : c.first, p, q); }

// ---------------------------------------------------------------------------------------------------------------
// recording data handles
// ---------------------------------------------------------------------------------------------------------------
struct PodItem {  // goes through the generic MPITraits<T> (sizeof(T) bytes)
  long v;
  short tag;
};
typedef std::pair<char, double> PairItem;                     // MPITraits<std::pair<T1,T2>> with padding between the members
typedef std::pair<double, char> TailItem;                     // … with padding behind the members (needs the resized extent)
typedef Dune::FieldVector<double, 3> FvItem;                  // MPITraits<FieldVector<K,n>>
typedef std::pair<int, std::pair<short, double>> NestedItem;  // a pair type built from another pair type

template <class T> struct ItemCodec;
template <> struct ItemCodec<long> {
  static long make(long v) { return v; }
  static long value(const long& x, bool&) { return x; }
};
template <> struct ItemCodec<PodItem> {
  static PodItem make(long v) { PodItem p; std::memset(&p, 0, sizeof p); p.v = v; p.tag = (short)(v % 31991); return p; }
  static long value(const PodItem& x, bool& damaged) { if (x.tag != (short)(x.v % 31991)) damaged = true; return x.v; }
};
template <> struct ItemCodec<PairItem> {
  static PairItem make(long v) { return PairItem((char)(1 + v % 101), (double)v); }
  static long value(const PairItem& x, bool& damaged) {
    long v = (long)x.second;
    if ((double)v != x.second || x.first != (char)(1 + v % 101)) damaged = true;
    return v;
  }
};
template <> struct ItemCodec<TailItem> {
  static TailItem make(long v) { return TailItem((double)v, (char)(1 + v % 101)); }
  static long value(const TailItem& x, bool& damaged) {
    long v = (long)x.first;
    if ((double)v != x.first || x.second != (char)(1 + v % 101)) damaged = true;
    return v;
  }
};
template <> struct ItemCodec<FvItem> {
  static FvItem make(long v) { FvItem x; x[0] = (double)v; x[1] = (double)(v % 977) + 0.5; x[2] = -(double)v; return x; }
  static long value(const FvItem& x, bool& damaged) {
    long v = (long)x[0];
    if ((double)v != x[0] || x[1] != (double)(v % 977) + 0.5 || x[2] != -(double)v) damaged = true;
    return v;
  }
};
template <> struct ItemCodec<NestedItem> {
  static NestedItem make(long v) { return NestedItem((int)(v % 1000003), std::make_pair((short)(v % 31991), (double)v)); }
  static long value(const NestedItem& x, bool& damaged) {
    long v = (long)x.second.second;
    if ((double)v != x.second.second || x.first != (int)(v % 1000003) || x.second.first != (short)(v % 31991)) damaged = true;
    return v;
  }
};

struct ScatterCall {
  long index, n;
  std::vector<long> items;
};

template <class T>
struct RecHandle {
  typedef T DataType;
  const Case& c;
  int rank;
  bool fixed;
  std::vector<long> gathered;        // indices in call order
  std::vector<ScatterCall> scattered;
  bool damaged = false;
  std::string problem;

  RecHandle(const Case& cc, int r, bool fx) : c(cc), rank(r), fixed(fx) {}
  bool fixedSize() { return fixed; }
  std::size_t size(std::size_t i) { return (std::size_t)c.sizeOf(fixed, rank, (long)i); }
  template <class B> void gather(B& buf, std::size_t i) {
    gathered.push_back((long)i);
    long n = c.sizeOf(fixed, rank, (long)i);
    for (long j = 0; j < n; ++j) buf.write(ItemCodec<T>::make(itemValue(rank, (long)i, j)));
  }
  template <class B> void scatter(B& buf, std::size_t i, std::size_t n) {
    ScatterCall sc;
    sc.index = (long)i;
    sc.n = (long)n;
    if ((long)n > c.B) {
      if (problem.empty()) problem = "scatter was told a count of " + std::to_string(n) + " > buffer size for index " + std::to_string(i);
      n = (std::size_t)c.B;
    }
    for (std::size_t k = 0; k < n; ++k) {
      T x;
      buf.read(x);
      sc.items.push_back(ItemCodec<T>::value(x, damaged));
    }
    scattered.push_back(sc);
  }
};

// ---------------------------------------------------------------------------------------------------------------
// executor
// ---------------------------------------------------------------------------------------------------------------
static std::string itemsStr(const std::vector<long>& v) { return listStr(v); }

typedef Dune::VariableSizeCommunicator<> VSC;
typedef VSC::InterfaceMap IMap;

struct OpenInterface : public Dune::Interface {  // the map of an Interface is filled by its builder; here: directly
  explicit OpenInterface(MPI_Comm comm) : Dune::Interface(comm) {}
  using Dune::Interface::interfaces;
};

static void fillMap(const Case& c, int me, IMap& imap) {
  for (int q : c.present[me]) {
    Dune::InterfaceInformation a, b;
    const auto& fl = listOf(c.first, me, q);
    const auto& sl = listOf(c.second, me, q);
    a.reserve(fl.size());
    for (long x : fl) a.add((std::size_t)x);
    b.reserve(sl.size());
    for (long x : sl) b.add((std::size_t)x);
    imap[q] = std::make_pair(a, b);
  }
}

// the object under test, made the way the op line says (all of it is collective: MPI_Comm_dup / MPI_Comm_free)
struct Subject {
  IMap imap, other;                          // `other`: a different map for the object that gets assigned over
  std::unique_ptr<OpenInterface> iface;
  std::unique_ptr<VSC> comm;
  Subject(const Case& c, int me) {
    std::size_t B = (std::size_t)c.B;
    switch (c.ctor) {
      case 'm': fillMap(c, me, imap); comm.reset(new VSC(MPI_COMM_WORLD, imap, B)); break;
      case 'M': fillMap(c, me, imap); comm.reset(new VSC(MPI_COMM_WORLD, imap)); break;
      case 'i': iface.reset(new OpenInterface(MPI_COMM_WORLD)); fillMap(c, me, iface->interfaces()); comm.reset(new VSC(*iface, B)); break;
      case 'I': iface.reset(new OpenInterface(MPI_COMM_WORLD)); fillMap(c, me, iface->interfaces()); comm.reset(new VSC(*iface)); break;
      case 'c': {
        fillMap(c, me, imap);
        std::unique_ptr<VSC> orig(new VSC(MPI_COMM_WORLD, imap, B));
        comm.reset(new VSC(*orig));
        orig.reset();  // the copy has to live on its own duplicated communicator
        break;
      }
      default: {  // 'a'
        fillMap(c, me, imap);
        Dune::InterfaceInformation a, b;
        a.reserve(1); a.add(0); b.reserve(1); b.add(0);
        other[me] = std::make_pair(a, b);  // self interface only: usable, but not what the case describes
        std::unique_ptr<VSC> orig(new VSC(MPI_COMM_WORLD, imap, B));
        comm.reset(new VSC(MPI_COMM_WORLD, other, B + 3));
        VSC& self = *comm;
        *comm = self;   // self-assignment keeps everything
        *comm = *orig;  // now it has to behave like `orig` …
        orig.reset();   // … without depending on it
        break;
      }
    }
  }
  ~Subject() {
    comm.reset();
    iface.reset();  // frees its InterfaceInformation objects itself
    for (auto& kv : imap) { kv.second.first.free(); kv.second.second.free(); }
    for (auto& kv : other) { kv.second.first.free(); kv.second.second.free(); }
  }
};

template <class T>
static Result runCase(const Case& c) {
  const int me = g_rank;
  Result res;
  std::string out, fail;
  bool nontrivial = false;
  {
    Subject subj(c, me);
    VSC& comm = *subj.comm;
    for (size_t ci = 0; ci < c.dirs.size(); ++ci) {
      char d = c.dirs[ci];
      const bool fx = c.fixedCall(d);
      RecHandle<T> h(c, me, fx);
      g_sends.clear(); g_recvs.clear();
      g_counting = true;
      if (Case::forwardCall(d)) comm.forward(h);
      else comm.backward(h);
      g_counting = false;

      // ---- canonical form: scatter calls with data, grouped by the rank the data came from ----
      std::map<int, std::vector<const ScatterCall*>> bySrc;
      for (auto& sc : h.scattered) {
        if (sc.n == 0 && sc.items.empty()) {
          if (me == 0) stat("scatter_calls_with_count_0_on_rank0");
          // legal only for an index that expects no data from at least one neighbour
          bool okz = false;
          for (int q : c.present[me]) {
            const auto& rl = recvList(c, d, me, q);
            const auto& sl = sendList(c, d, q, me);
            for (size_t k = 0; k < rl.size() && k < sl.size(); ++k)
              if (rl[k] == sc.index && c.sizeOf(fx, q, sl[k]) == 0) okz = true;
          }
          if (!okz && fail.empty()) fail = "scatter(index " + std::to_string(sc.index) + ", count 0) although no zero-size item is addressed to that index";
          continue;
        }
        int src = sc.items.empty() ? -1 : itemSource(sc.items[0]);
        for (long v : sc.items)
          if (itemSource(v) != src && fail.empty()) fail = "one scatter call mixes items of different senders (index " + std::to_string(sc.index) + ")";
        bySrc[src].push_back(&sc);
      }
      if (ci) out += " | ";
      bool firstq = true;
      std::set<int> keys(c.present[me].begin(), c.present[me].end());
      for (auto& kv : bySrc) keys.insert(kv.first);
      for (int q : keys) {
        if (!firstq) out += " ";
        firstq = false;
        out += (c.present[me].count(q) ? "" : "?") + std::to_string(q) + ":(";
        bool fc = true;
        for (auto* sc : bySrc[q]) {
          if (!fc) out += ",";
          fc = false;
          out += std::to_string(sc->index) + ":" + itemsStr(sc->items);
        }
        out += ")";
      }

      // ---- oracle: delivery ----
      if (!h.problem.empty() && fail.empty()) fail = h.problem;
      if (h.damaged && fail.empty()) fail = "an item arrived damaged (payload check of the item type '" + std::string(1, c.ty) + "' failed)";
      for (auto& kv : bySrc)
        if (!c.present[me].count(kv.first) && fail.empty())
          fail = "data attributed to rank " + std::to_string(kv.first) + " which is no neighbour";
      for (int q : c.present[me]) {
        const auto& rl = recvList(c, d, me, q);
        const auto& sl = sendList(c, d, q, me);
        if (!rl.empty()) nontrivial = true;
        if (!sendList(c, d, me, q).empty()) nontrivial = true;
        std::vector<std::pair<long, std::vector<long>>> expect;
        for (size_t k = 0; k < rl.size(); ++k) {
          long n = c.sizeOf(fx, q, sl[k]);
          if (n == 0) continue;
          std::vector<long> it;
          for (long j = 0; j < n; ++j) it.push_back(itemValue(q, sl[k], j));
          expect.push_back({rl[k], it});
        }
        const auto& got = bySrc[q];
        for (size_t k = 0; k < std::max(expect.size(), got.size()) && fail.empty(); ++k) {
          std::string where = "call " + std::to_string(ci) + " dir " + std::string(1, d) + ", from rank " + std::to_string(q) + ", data-carrying receive #" + std::to_string(k);
          if (k >= got.size()) fail = where + ": items " + itemsStr(expect[k].second) + " for index " + std::to_string(expect[k].first) + " were never scattered (lost)";
          else if (k >= expect.size()) fail = where + ": unexpected extra scatter(index " + std::to_string(got[k]->index) + ", " + itemsStr(got[k]->items) + ") (duplicated or invented)";
          else if (got[k]->index != expect[k].first) fail = where + ": scattered to index " + std::to_string(got[k]->index) + " instead of " + std::to_string(expect[k].first);
          else if (got[k]->n != (long)expect[k].second.size()) fail = where + ": receiver was told count " + std::to_string(got[k]->n) + " instead of " + std::to_string(expect[k].second.size());
          else if (got[k]->items != expect[k].second) fail = where + ": items " + itemsStr(got[k]->items) + " instead of " + itemsStr(expect[k].second);
        }
      }
      // ---- oracle: every send index gathered exactly once per occurrence ----
      std::map<long, long> want, have;
      for (int q : c.present[me]) for (long x : sendList(c, d, me, q)) ++want[x];
      for (long x : h.gathered) ++have[x];
      if (want != have && fail.empty()) {
        for (auto& kv : want) if (have[kv.first] != kv.second && fail.empty())
          fail = "dir " + std::string(1, d) + ": gather(index " + std::to_string(kv.first) + ") called " + std::to_string(have[kv.first]) + " times, expected " + std::to_string(kv.second);
        for (auto& kv : have) if (!want.count(kv.first) && fail.empty())
          fail = "dir " + std::string(1, d) + ": gather called for index " + std::to_string(kv.first) + " which is in no send list";
      }
      // ---- oracle: balance of the point-to-point operations of this call (all ranks have returned when the exchange
      //      below completes): a receive posted for a message that is never sent is a request leaked into freed buffers,
      //      a message for which no receive was posted is lost ----
      // (tags: 933399 data and sizes of variable-size handles, 933881 the scalar size of fixed-size handles, anything else)
      auto bucket = [](int tag) { return tag == 933399 ? 0 : tag == 933881 ? 1 : 2; };
      static const char* bucketName[3] = {"tag 933399", "tag 933881", "another tag"};
      long recvTotal = 0;
      for (auto& kv : g_recvs) recvTotal += kv.second;
      for (int bk = 0; bk < 3; ++bk) {
        std::vector<long> sentTo(g_size, 0), sentToMe(g_size, 0), postedFor(g_size, 0);
        for (auto& kv : g_sends) if (bucket(kv.first.second) == bk && kv.first.first >= 0 && kv.first.first < g_size) sentTo[kv.first.first] += kv.second;
        for (auto& kv : g_recvs) if (bucket(kv.first.second) == bk && kv.first.first >= 0 && kv.first.first < g_size) postedFor[kv.first.first] += kv.second;
        MPI_Alltoall(sentTo.data(), 1, MPI_LONG, sentToMe.data(), 1, MPI_LONG, MPI_COMM_WORLD);
        for (int q = 0; q < g_size; ++q) {
          if (me == 0 && bk == 0 && sentTo[q] > 0)
            stat(sentTo[q] == 1 ? "msgs_to_a_neighbour_1" : sentTo[q] <= 3 ? "msgs_to_a_neighbour_2_3" : "msgs_to_a_neighbour_4plus");
          std::string where = "call " + std::to_string(ci) + " dir " + std::string(1, d) + ", " + bucketName[bk] + ": ";
          if (postedFor[q] > sentToMe[q] && fail.empty())
            fail = where + std::to_string(postedFor[q]) + " receives posted for rank " + std::to_string(q) + " but only " + std::to_string(sentToMe[q]) + " messages were sent: a receive request is still pending after the call returned";
          if (postedFor[q] < sentToMe[q] && recvTotal > 0 && fail.empty())
            fail = where + "rank " + std::to_string(q) + " sent " + std::to_string(sentToMe[q]) + " messages but only " + std::to_string(postedFor[q]) + " receives were posted for it";
        }
      }
      // a message longer than the configured buffer is not a delivery failure (a communicator that silently works with a
      // bigger buffer still delivers everything), so it is only counted; an overrun of the real buffer is ASan's business
      if (g_maxMsgItems > c.B && me == 0) stat("calls_with_a_message_longer_than_the_configured_buffer");
      g_maxMsgItems = 0;
    }
  }  // communicator freed here (collective MPI_Comm_free)
  res.impl = out;
  res.oracle = !fail.empty() ? "FAIL " + fail : (nontrivial ? "ok" : "ok trivial");
  return res;
}

static void caseStats(const Case& c) {
  stat(c.fixed ? "mode_fixed" : "mode_variable");
  stat(std::string("type_") + std::string(1, c.ty));
  stat(std::string("ctor_") + std::string(1, c.ctor));
  stat("calls_" + std::to_string(c.dirs.size()));
  bool mixed = false;
  for (char d : c.dirs) if (d == 'F' || d == 'B') mixed = true;
  if (mixed) stat("cases_mixing_fixed_and_variable_calls");
  stat(c.B >= 1000 ? "B_large" : "B_" + std::to_string(c.B));
  {
    std::set<long> fs(c.fixedOf.begin(), c.fixedOf.end());
    bool anyFixed = false;
    for (char d : c.dirs) if (c.fixedCall(d)) anyFixed = true;
    if (anyFixed) {
      stat(fs.size() > 1 ? "fixed_sizes_differ_between_ranks" : "fixed_sizes_equal_on_all_ranks");
      for (long f : fs) stat(f == c.B ? "fixed_f_eq_B" : (f == 1 ? "fixed_f_1" : "fixed_f_other"));
    }
  }
  for (char d : c.dirs) {
    const bool fx = c.fixedCall(d);
    stat(std::string("call_") + (Case::forwardCall(d) ? "forward_" : "backward_") + (fx ? "fixed" : "variable"));
    for (int p = 0; p < c.P; ++p)
      for (int q : c.present[p]) {
        const auto& sl = sendList(c, d, p, q);
        stat("directed_interfaces");
        if (p == q) stat("self_interfaces");
        if (sl.empty()) { stat("empty_interfaces"); continue; }
        long total = 0, zeros = 0;
        std::set<long> distinctIdx(sl.begin(), sl.end());
        if (distinctIdx.size() < sl.size()) stat("lists_with_repeated_index");
        // independent count of the message rounds a greedy whole-index packing needs
        long rounds = 0, fill = 0;
        for (long x : sl) {
          long n = c.sizeOf(fx, p, x);
          total += n;
          if (n == 0) ++zeros;
          if (n == c.B) stat("index_size_eq_B");
          else if (n == c.B - 1 && n > 0) stat("index_size_eq_B-1");
          else if (n > 2) stat("index_size_midrange");
          if (n > 0 && (rounds == 0 || fill + n > c.B)) { ++rounds; fill = 0; }
          fill += n;
        }
        if (total == 0) stat("allzero_nonempty_interfaces");
        else if (zeros) stat("interfaces_with_some_zero_sizes");
        if (rounds > 1) stat("multi_round_interfaces");
        if (rounds > 3) stat("interfaces_with_4plus_rounds");
        if (!fx && (long)sl.size() > c.B) stat("size_exchange_multi_round");
      }
  }
}

static Result exec(const std::string& line) {
  Case c = parseCase(line);
  Result r;
  if (!c.err.empty()) { r.impl = "bad-op"; r.oracle = "FAIL harness cannot parse the op line (" + c.err + ")"; return r; }
  if (c.P != g_size) { r.impl = "bad-np"; r.oracle = "FAIL op line is for " + std::to_string(c.P) + " processes"; return r; }
  if (g_rank == 0) caseStats(c);
  switch (c.ty) {
    case 'l': return runCase<long>(c);
    case 'p': return runCase<PodItem>(c);
    case 'c': return runCase<PairItem>(c);
    case 't': return runCase<TailItem>(c);
    case 'v': return runCase<FvItem>(c);
    default: return runCase<NestedItem>(c);
  }
}

// ---------------------------------------------------------------------------------------------------------------
// generator (rank 0)
// ---------------------------------------------------------------------------------------------------------------
static std::vector<long> genList(Rng& rng, long len, long nloc) {
  std::vector<long> l;
  if (nloc <= 0) return l;
  int style = (int)rng.below(5);  // 0,1,2 random with repetition; 3 ascending run; 4 one index repeated
  long start = (long)rng.below(nloc), same = (long)rng.below(nloc);
  for (long k = 0; k < len; ++k) {
    if (style == 3) l.push_back((start + k) % nloc);
    else if (style == 4) l.push_back(same);
    else l.push_back((long)rng.below(nloc));
  }
  return l;
}

static std::string gen(Rng& rng, long, const Args& a) {
  bool thorough = a.tier == "thorough";
  int P = g_size;
  static const std::vector<long> Bs = {1, 1, 2, 2, 3, 3, 4, 5, 7, 8, 16};
  long B = rng.coin(1, 20) ? 32768 : rng.pick(Bs);
  bool big = B > 1000;
  bool fixed = rng.coin(2, 5);
  static const std::vector<std::string> dirsS = {"f", "f", "f", "f", "b", "b", "b", "b", "fb", "bf", "ff", "bb",
                                                 "fF", "Fb", "bB", "BF", "fbf", "bFb", "FfB", "fBbF"};
  std::string dirs = rng.pick(dirsS);
  bool needFixed = false, needVar = false;
  for (char d : dirs) { if (((d == 'f' || d == 'b') ? fixed : !fixed)) needFixed = true; else needVar = true; }
  auto pickF = [&]() -> long {
    std::vector<long> fs = {1, 2, B - 1, B, (B + 1) / 2, 1 + (long)rng.below(B)};
    if (big) fs = {1, 2, 3, 5};
    long f;
    do f = rng.pick(fs); while (f < 1 || f > B);
    return f;
  };
  long f = needFixed ? pickF() : 1;
  static const std::vector<std::string> tys = {"l", "l", "l", "p", "p", "c", "c", "t", "v", "v", "n", "n"};
  std::string ty = rng.pick(tys);
  std::string ctor = "m";
  if (big) { if (rng.coin(3, 5)) ctor = rng.coin() ? "M" : "I"; }
  else if (rng.coin(2, 5)) { static const std::vector<std::string> cs = {"i", "i", "c", "a"}; ctor = rng.pick(cs); }
  long maxloc = thorough ? 9 : 5, maxlen = thorough ? 14 : 6;
  std::vector<long> nloc(P);
  for (int p = 0; p < P; ++p) nloc[p] = rng.coin(1, 12) ? 0 : 1 + (long)rng.below(maxloc);
  std::vector<std::string> segs;
  int plinkNum = (int)rng.pick(std::vector<long>{3, 7, 10});
  auto pickLen = [&]() -> long {
    switch (rng.below(7)) {
      case 0: return 0;
      case 1: return 1;
      case 2: return 2;
      case 3: return 3;
      default: return (long)rng.below(maxlen + 1);
    }
  };
  auto edge = [&](int p, int q) {
    long len = pickLen();
    if (nloc[p] == 0 || nloc[q] == 0) len = 0;
    auto s = genList(rng, len, nloc[p]);
    auto r = genList(rng, len, nloc[q]);
    segs.push_back("E " + std::to_string(p) + " " + std::to_string(q) + " " + listStr(s) + " " + listStr(r));
  };
  for (int p = 0; p < P; ++p)
    for (int q = p; q < P; ++q) {
      if (p == q) {
        if (!rng.coin(2, 5)) continue;
        edge(p, p);
        if (rng.coin(1, 4)) edge(p, p);
        continue;
      }
      if (!rng.coin(plinkNum, 10)) continue;
      int kind = (int)rng.below(10);  // 0-7 both directions, 8 only p->q, 9 only q->p (the other direction is empty)
      if (kind != 9) edge(p, q);
      if (kind != 8) edge(q, p);
    }
  if (segs.empty()) segs.push_back("S 0 []");
  if (needFixed && rng.coin()) {
    // the ranks' handles have different fixed sizes: the receiver has to use the size its peer announced
    for (int p = 0; p < P; ++p)
      if (rng.coin(2, 3)) segs.push_back("F " + std::to_string(p) + " " + std::to_string(pickF()));
  }
  if (needVar) {
    std::vector<long> alphabet = {0, 1, 2, B - 1, B};
    if (big) alphabet = {0, 1, 2, 3, 5};
    std::vector<long> al;
    for (long x : alphabet) if (x >= 0 && x <= B) al.push_back(x);
    auto pickSize = [&]() -> long { return (!big && rng.coin(1, 6)) ? (long)rng.below(B + 1) : rng.pick(al); };
    int stream = (int)rng.below(8);  // 0-2 random, 3 all zero, 4 some ranks all zero, 5 one non-zero, 6 all B, 7 zero-heavy
    bool oneBigDone = false;
    for (int p = 0; p < P; ++p) {
      std::vector<long> s(nloc[p], 0);
      bool rankZero = stream == 3 || (stream == 4 && rng.coin());
      long lucky = nloc[p] ? (long)rng.below(nloc[p]) : 0;
      for (long i = 0; i < nloc[p]; ++i) {
        long n;
        if (rankZero) n = 0;
        else if (stream == 5) n = (i == lucky) ? pickSize() : 0;
        else if (stream == 6) n = big ? 5 : B;
        else if (stream == 7) n = rng.coin() ? 0 : pickSize();
        else n = pickSize();
        if (big && thorough && !oneBigDone && !rankZero && rng.coin(1, 40)) { n = rng.coin() ? B : B - 1; oneBigDone = true; }
        s[i] = n;
      }
      segs.push_back("S " + std::to_string(p) + " " + listStr(s));
    }
  }
  std::string line = "c06 P=" + std::to_string(P) + " B=" + std::to_string(B) + " mode=" + (fixed ? "f" : "v") + " f=" + std::to_string(f) +
                     " ty=" + ty + " dirs=" + dirs + (ctor == "m" ? "" : " ctor=" + ctor) + " : " + join(segs.begin(), segs.end(), ";");
  return line;
}

int main(int argc, char** argv) {
  MPI_Init(&argc, &argv);
  MPI_Comm_rank(MPI_COMM_WORLD, &g_rank);
  MPI_Comm_size(MPI_COMM_WORLD, &g_size);
  std::cout << std::unitbuf;
  // a hang is a violation of this property: keep the per-case alarm short unless the caller chose one
  std::vector<char*> av(argv, argv + argc);
  bool has = false;
  for (int i = 1; i < argc; ++i) if (!std::strcmp(argv[i], "--case-timeout")) has = true;
  static char k[] = "--case-timeout", v[16] = "20";
  if (const char* e = std::getenv("DV_C06_CASE_TIMEOUT")) {  // development aid: faster shrinking of hanging replays
    long t = std::atol(e);
    if (t >= 1 && t <= 3600) std::snprintf(v, sizeof v, "%ld", t);
  }
  if (!has) { av.push_back(k); av.push_back(v); }
  int rc = dv::runMpi((int)av.size(), av.data(), gen, exec);
  MPI_Finalize();
  return rc;
}
