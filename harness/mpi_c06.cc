// C06 correspondence harness: Dune::VariableSizeCommunicator (forward/backward, fixed-size and variable-size data
// handles, arbitrary message buffer size, every constructor, copy construction and assignment in arbitrary object
// histories, both compile-time configurations of the default buffer size) against the Lean model, with an independent
// delivery oracle and a send/receive balance oracle.
//
// op line (describes the whole distributed case, every rank parses all of it):
//   c06 P=<np> B=<buffer items> mode=<f|v> f=<items per index, fixed mode> ty=<letter> dirs=<letters> [ctor=<letter|program>] : seg;seg;...
//   B      the buffer size the case is about: no index has more items, and every object a call is made on is supposed
//          to be configured with a buffer of at least B items
//   dirs   one letter per communicate call: f forward, b backward with a handle of the case's mode; F forward,
//          B backward with a handle of the *other* mode (fixed <-> variable)
//   ty     item type: l long, p POD struct (generic MPITraits), c std::pair<char,double> (padding between the members),
//          t std::pair<double,char> (padding behind the members), v FieldVector<double,3>,
//          n std::pair<int,std::pair<short,double>>, g h k q bigunsignedint<58|40|100|64>, d double, e long double,
//          w unsigned long, z x y std::complex<double|float|long double>, a b s r i u f FieldVector of
//          char/unsigned char (5), short/unsigned short (3), int/unsigned/float (2)   (the specialisations of mpitraits.hh)
//   ctor   how the objects are made.  One letter (as in round two): m (comm,map,B)   M (comm,map) default buffer
//          i (Interface,B)   I (Interface) default buffer   c copy-constructed, original destroyed   a copy-assigned
//          over a communicator with another map and a bigger buffer (after a self-assignment), original destroyed.
//          Or an object history: statements joined by '.', objects live in slots 0..9:
//            K<n>           (first statement only) the case runs with the class compiled with
//                           DUNE_PARALLEL_MAX_COMMUNICATION_BUFFER_SIZE=<n> (the other set of default constructors)
//            N<s><k><m>[b]  slot s = new object, constructor k in m|i (with buffer size b) M|I (default buffer size),
//                           interface map m: r the case's map, d a decoy (self interface 0 -> 0 only), both with
//                           MPI_COMM_WORLD as the user's communicator; x, y the same two maps on a communicator with
//                           the reversed rank order (process w of MPI_COMM_WORLD is rank P-1-w there and plays that
//                           rank of the case in every call made on an object that descends from it)
//            C<s><t>        slot s = copy-constructed from slot t        A<s><t>  slot s = slot t (s==t: self-assignment)
//            D<s>           slot s destroyed
//            X<s>           the next call of `dirs` is made on slot s (needs the case's map and a buffer >= B there)
//            U<s>           slot s is probed: forward and backward with a one-item fixed-size handle, judged by the oracle only
//          calls of `dirs` not placed by an X statement are made on slot 0 after the history; then all objects are
//          destroyed in slot order.  Default ctor=m.
//   E p q [i1,i2,..] [j1,j2,..]   rank p's InterfaceMap[q].first  gets i1,i2,.. appended,
//                                  rank q's InterfaceMap[p].second gets j1,j2,.. appended (same length); both ranks get a map
//                                  entry for each other (so the maps stay symmetric whatever segments are removed)
//   S p [n0,n1,..]                variable-size handle of rank p: size(i) = n_i (0 for i beyond the list)
//   F p n                         fixed-size handle of rank p: n items per index (default: the header's f)
// item j of local index i of rank p has the value ((p+1)*4096+i)*65536+j, so every item names its origin.
//
// impl (per rank, per communicate call of `dirs`, calls separated by " | "): for every neighbour q in map order the
// scatter calls that carried data from q, in call order:  q:(idx:[items],idx:[items],..) ; scatter calls with count 0 are
// not part of the canonical form (the code is free to skip zero-size indices or to call scatter(…,0)).
// oracle (independent of the model, computed from the op line only): the k-th receive index of this rank for q gets
// exactly the items of the k-th send index of q for this rank; every send index is gathered exactly once; the
// counts passed to scatter are the numbers of items; when the call has returned on all ranks no posted receive is left
// without a message and no message without a receive (point-to-point operations started by the call are counted through
// the MPI profiling interface); returning at all is checked by the per-case alarm().  Which map and buffer size an
// object is supposed to have after a history is computed here by value semantics (a copy / an assignment takes over the
// map, the buffer size and the process group of its source).
#include <config.h>

#include <mpi.h>

#include <algorithm>
#include <cstdio>
#include <cstdlib>
#include <cstring>
#include <map>
#include <memory>
#include <set>
#include <sstream>

#include "mpi_c06_api.hh"

#include <dune/common/parallel/variablesizecommunicator.hh>

#include "hcommon_mpi.hh"

using namespace dv;
using c06::CommApi;
using c06::CtorKind;
using c06::Family;
using c06::IMap;
using c06::Recorder;
using c06::ScatterCall;
using c06::itemSource;
using c06::itemValue;

C06_DEFINE_COMMUNICATE(C06_ALL_TYPES)

static const Family& mainFamily() {
  static const Family f = {32768, c06::allTypeLetters, &c06::makeComm<Dune::VariableSizeCommunicator<>>};
  return f;
}

static int g_rank = 0, g_size = 1;
static MPI_Comm g_revComm = MPI_COMM_NULL;  // all processes, rank order reversed

// ---------------------------------------------------------------------------------------------------------------
// point-to-point operations started while a communicate call runs (profiling interface; pmpi_sched.cc owns the
// completion calls, these are the initiation calls)
// ---------------------------------------------------------------------------------------------------------------
static bool g_counting = false;
static std::map<std::pair<int, int>, long> g_sends, g_recvs;  // (peer, tag) -> operations started
static long g_maxMsgItems = 0;

static void noteSend(int count, MPI_Datatype, int dest, int tag) {
  if (!g_counting) return;
  ++g_sends[{dest, tag}];
  g_maxMsgItems = std::max<long>(g_maxMsgItems, count);
}
extern "C" int MPI_Issend(const void* buf, int count, MPI_Datatype dt, int dest, int tag, MPI_Comm comm, MPI_Request* req) {
  noteSend(count, dt, dest, tag);
  return PMPI_Issend(buf, count, dt, dest, tag, comm, req);
}
extern "C" int MPI_Isend(const void* buf, int count, MPI_Datatype dt, int dest, int tag, MPI_Comm comm, MPI_Request* req) {
  noteSend(count, dt, dest, tag);
  return PMPI_Isend(buf, count, dt, dest, tag, comm, req);
}
extern "C" int MPI_Irecv(void* buf, int count, MPI_Datatype dt, int source, int tag, MPI_Comm comm, MPI_Request* req) {
  if (g_counting) ++g_recvs[{source, tag}];
  return PMPI_Irecv(buf, count, dt, source, tag, comm, req);
}

// ---------------------------------------------------------------------------------------------------------------
// the distributed case
// ---------------------------------------------------------------------------------------------------------------
// an interface map on every rank: first[p][q] / second[p][q] are the two index lists of rank p's entry for q
struct View {
  std::vector<std::map<int, std::vector<long>>> first, second;
  std::vector<std::set<int>> present;
  void resize(int P) { first.resize(P); second.resize(P); present.resize(P); }
};

struct Stmt {
  char op = 0;
  int s = -1, t = -1;
  char kind = 'm', map = 'r';
  long b = 0;
};

struct SlotCfg {  // what an object is supposed to be configured with (value semantics)
  bool alive = false;
  long B = 0;
  char map = 'r';    // r the case's map, d the decoy
  bool rev = false;  // its communicator descends from the reversed one
};

struct Case {
  int P = 0;
  long B = 0;
  bool fixed = false;
  long f = 1;
  char ty = 'l';
  std::string ctor = "m";
  std::string dirs;
  View real, decoy;
  std::vector<std::vector<long>> sizes;  // variable-size handle of rank p: sizes[p][i]
  std::vector<long> fixedOf;             // fixed-size handle of rank p
  long K = 0;                            // value of DUNE_PARALLEL_MAX_COMMUNICATION_BUFFER_SIZE, 0: not defined
  std::vector<Stmt> life;                // the object history, calls not placed explicitly appended as X0
  std::string err;

  // is the handle of the call with direction letter d a fixed-size handle?
  bool fixedCall(char d) const { return (d == 'f' || d == 'b') ? fixed : !fixed; }
  static bool forwardCall(char d) { return d == 'f' || d == 'F'; }
  long sizeOf(bool fx, int p, long i) const {
    if (fx) return fixedOf[p];
    return (i >= 0 && i < (long)sizes[p].size()) ? sizes[p][i] : 0;
  }
  long defaultBuffer() const { return K ? K : 32768; }
};

static bool parseKV(const std::string& tok, const std::string& key, std::string& val) {
  if (tok.rfind(key + "=", 0) != 0) return false;
  val = tok.substr(key.size() + 1);
  return true;
}

// the round-two constructor letters as object histories
static std::string legacyLife(char letter, long B) {
  std::string b = std::to_string(B);
  switch (letter) {
    case 'm': return "N0mr" + b;
    case 'M': return "N0Mr";
    case 'i': return "N0ir" + b;
    case 'I': return "N0Ir";
    case 'c': return "N1mr" + b + ".C01.D1";
    case 'a': return "N1mr" + b + ".N0md" + std::to_string(B + 3) + ".A00.A01.D1";
    default: return "";
  }
}

static bool parseNumber(const std::string& s, long& v) {
  if (s.empty() || s.size() > 7) return false;
  v = 0;
  for (char ch : s) {
    if (ch < '0' || ch > '9') return false;
    v = v * 10 + (ch - '0');
  }
  return true;
}

// one step of the value semantics; false (with why) when the statement is not applicable
static bool lifeStep(const Case& c, std::vector<SlotCfg>& sl, const Stmt& st, size_t& callsDone, std::string& why) {
  auto alive = [&](int s) { return s >= 0 && s < 10 && sl[s].alive; };
  switch (st.op) {
    case 'N':
      if (alive(st.s)) { why = "N into a used slot"; return false; }
      sl[st.s].alive = true;
      sl[st.s].B = (st.kind == 'M' || st.kind == 'I') ? c.defaultBuffer() : st.b;
      sl[st.s].map = (st.map == 'r' || st.map == 'x') ? 'r' : 'd';
      sl[st.s].rev = st.map == 'x' || st.map == 'y';
      return true;
    case 'C':
      if (alive(st.s) || !alive(st.t)) { why = "C"; return false; }
      sl[st.s] = sl[st.t];
      return true;
    case 'A':
      if (!alive(st.s) || !alive(st.t)) { why = "A"; return false; }
      sl[st.s] = sl[st.t];
      return true;
    case 'D':
      if (!alive(st.s)) { why = "D"; return false; }
      sl[st.s] = SlotCfg();
      return true;
    case 'U':
      if (!alive(st.s)) { why = "U"; return false; }
      return true;
    case 'X':
      if (!alive(st.s) || sl[st.s].map != 'r' || sl[st.s].B < c.B) { why = "X on a slot without the case's map or with a buffer < B"; return false; }
      if (callsDone >= c.dirs.size()) { why = "more X statements than calls"; return false; }
      ++callsDone;
      return true;
    default: why = "statement"; return false;
  }
}

static void parseLife(Case& c) {
  std::string prog = c.ctor;
  if (prog.size() == 1) {
    prog = legacyLife(prog[0], c.B);
    if (prog.empty()) { c.err = "ctor"; return; }
  }
  auto toks = split(prog, '.');
  if (toks.size() > 40) { c.err = "life too long"; return; }
  for (size_t k = 0; k < toks.size(); ++k) {
    const std::string& t = toks[k];
    Stmt st;
    if (t.size() < 2) { c.err = "life statement"; return; }
    st.op = t[0];
    auto slot = [&](char ch, int& out) { if (ch < '0' || ch > '9') return false; out = ch - '0'; return true; };
    if (st.op == 'K') {
      long n;
      if (k != 0 || !parseNumber(t.substr(1), n) || n < 1) { c.err = "K"; return; }
      c.K = n;
      continue;
    } else if (st.op == 'N') {
      if (t.size() < 4 || !slot(t[1], st.s)) { c.err = "N"; return; }
      st.kind = t[2];
      st.map = t[3];
      if (std::string("mMiI").find(st.kind) == std::string::npos || std::string("rdxy").find(st.map) == std::string::npos) { c.err = "N kind/map"; return; }
      bool sized = st.kind == 'm' || st.kind == 'i';
      if (sized) { if (!parseNumber(t.substr(4), st.b) || st.b < 1) { c.err = "N size"; return; } }
      else if (t.size() != 4) { c.err = "N default with size"; return; }
    } else if (st.op == 'C' || st.op == 'A') {
      if (t.size() != 3 || !slot(t[1], st.s) || !slot(t[2], st.t)) { c.err = "C/A"; return; }
    } else if (st.op == 'D' || st.op == 'U' || st.op == 'X') {
      if (t.size() != 2 || !slot(t[1], st.s)) { c.err = "D/U/X"; return; }
    } else { c.err = "life statement"; return; }
    c.life.push_back(st);
  }
  // validity under the value semantics; the calls no X statement placed go to slot 0 at the end
  std::vector<SlotCfg> sl(10);
  size_t callsDone = 0;
  std::string why;
  for (auto& st : c.life)
    if (!lifeStep(c, sl, st, callsDone, why)) { c.err = "life: " + why; return; }
  while (callsDone < c.dirs.size()) {
    Stmt st;
    st.op = 'X';
    st.s = 0;
    if (!lifeStep(c, sl, st, callsDone, why)) { c.err = "life: " + why; return; }
    c.life.push_back(st);
  }
}

static Case parseCase(const std::string& line) {
  Case c;
  std::string head = line, body;
  size_t pos = line.find(" : ");
  if (pos != std::string::npos) { head = line.substr(0, pos); body = line.substr(pos + 3); }
  else if (line.size() >= 2 && line.substr(line.size() - 2) == " :") head = line.substr(0, line.size() - 2);
  auto hw = words(head);
  if ((hw.size() != 7 && hw.size() != 8) || hw[0] != "c06") { c.err = "header"; return c; }
  std::string v;
  try {
    if (!parseKV(hw[1], "P", v)) { c.err = "P"; return c; }
    c.P = std::stoi(v);
    if (!parseKV(hw[2], "B", v)) { c.err = "B"; return c; }
    c.B = std::stol(v);
    if (!parseKV(hw[3], "mode", v) || (v != "f" && v != "v")) { c.err = "mode"; return c; }
    c.fixed = v == "f";
    if (!parseKV(hw[4], "f", v)) { c.err = "f"; return c; }
    c.f = std::stol(v);
    if (!parseKV(hw[5], "ty", v) || v.size() != 1 || std::string(c06::allTypeLetters).find(v[0]) == std::string::npos) { c.err = "ty"; return c; }
    c.ty = v[0];
    if (!parseKV(hw[6], "dirs", v) || v.empty()) { c.err = "dirs"; return c; }
    c.dirs = v;
    for (char d : c.dirs) if (d != 'f' && d != 'b' && d != 'F' && d != 'B') { c.err = "dirs"; return c; }
    if (hw.size() == 8) {
      if (!parseKV(hw[7], "ctor", v) || v.empty()) { c.err = "ctor"; return c; }
      c.ctor = v;
    }
    if (c.P < 1 || c.P > 62 || c.B < 1 || c.B > 1000000 || c.f < 1 || c.f > c.B) { c.err = "range"; return c; }
    parseLife(c);
    if (!c.err.empty()) return c;
    c.real.resize(c.P); c.decoy.resize(c.P); c.sizes.resize(c.P);
    for (int p = 0; p < c.P; ++p) {
      c.decoy.present[p].insert(p);
      c.decoy.first[p][p] = {0};
      c.decoy.second[p][p] = {0};
    }
    c.fixedOf.assign(c.P, c.f);
    for (auto& seg : split(body, ';')) {
      auto w = words(seg);
      if (w.empty()) continue;
      if (w[0] == "E" && w.size() == 5) {
        int p = std::stoi(w[1]), q = std::stoi(w[2]);
        auto a = parseList(w[3]), b = parseList(w[4]);
        if (p < 0 || q < 0 || p >= c.P || q >= c.P || a.size() != b.size()) { c.err = "E"; return c; }
        for (long x : a) if (x < 0 || x >= 4096) { c.err = "E index"; return c; }
        for (long x : b) if (x < 0 || x >= 4096) { c.err = "E index"; return c; }
        c.real.present[p].insert(q); c.real.present[q].insert(p);
        auto& fl = c.real.first[p][q];
        fl.insert(fl.end(), a.begin(), a.end());
        auto& sl = c.real.second[q][p];
        sl.insert(sl.end(), b.begin(), b.end());
      } else if (w[0] == "S" && w.size() == 3) {
        int p = std::stoi(w[1]);
        auto s = parseList(w[2]);
        if (p < 0 || p >= c.P) { c.err = "S"; return c; }
        for (long x : s) if (x < 0 || x > c.B) { c.err = "S size"; return c; }
        c.sizes[p] = s;
      } else if (w[0] == "F" && w.size() == 3) {
        int p = std::stoi(w[1]);
        long n = std::stol(w[2]);
        if (p < 0 || p >= c.P || n < 1 || n > c.B) { c.err = "F"; return c; }
        c.fixedOf[p] = n;
      } else { c.err = "segment"; return c; }
    }
  } catch (std::exception&) { c.err = "number"; }
  return c;
}

// the list rank p gathers from / scatters to when talking to q
static const std::vector<long>& listOf(const std::vector<std::map<int, std::vector<long>>>& m, int p, int q) {
  static const std::vector<long> empty;
  auto it = m[p].find(q);
  return it == m[p].end() ? empty : it->second;
}
static const std::vector<long>& sendList(const View& v, bool fwd, int p, int q) { return listOf(fwd ? v.first : v.second, p, q); }
static const std::vector<long>& recvList(const View& v, bool fwd, int p, int q) { return listOf(fwd ? v.second : v.first, p, q); }

// ---------------------------------------------------------------------------------------------------------------
// executor
// ---------------------------------------------------------------------------------------------------------------
struct OpenInterface : public Dune::Interface {  // the map of an Interface is filled by its builder; here: directly
  explicit OpenInterface(MPI_Comm comm) : Dune::Interface(comm) {}
  using Dune::Interface::interfaces;
};

static void fillMap(const View& v, int me, IMap& imap) {
  for (int q : v.present[me]) {
    Dune::InterfaceInformation a, b;
    const auto& fl = listOf(v.first, me, q);
    const auto& sl = listOf(v.second, me, q);
    a.reserve(fl.size());
    for (long x : fl) a.add((std::size_t)x);
    b.reserve(sl.size());
    for (long x : sl) b.add((std::size_t)x);
    imap[q] = std::make_pair(a, b);
  }
}

// one forward()/backward() on `comm`, which is supposed to work on the interface map `view`: canonical form of what was
// scattered (appended to *out if given) and the oracles; returns the first complaint ("" = none)
static std::string checkedCall(CommApi& comm, const View& view, int me, MPI_Comm userComm, bool fwd, bool fx, char ty, long cap,
                               long bufferOfObject, const std::function<long(int, long)>& sz, const std::string& what,
                               std::string* out, bool& nontrivial) {
  std::string fail;
  Recorder h;
  h.rank = me;
  h.fixed = fx;
  h.cap = cap;
  h.sizeOf = [&](long i) { return sz(me, i); };
  g_sends.clear(); g_recvs.clear();
  g_maxMsgItems = 0;
  g_counting = true;
  bool built = comm.communicate(ty, fwd, h);
  g_counting = false;
  if (!built) return "harness: item type '" + std::string(1, ty) + "' is not built for this configuration";
  if (h.damaged) fail = what + ": an item arrived damaged (payload check of the item type '" + std::string(1, ty) + "' failed)";

  // ---- canonical form: scatter calls with data, grouped by the rank the data came from ----
  std::map<int, std::vector<const ScatterCall*>> bySrc;
  for (auto& sc : h.scattered) {
    if (sc.n == 0 && sc.items.empty()) {
      if (g_rank == 0) stat("scatter_calls_with_count_0_on_rank0");
      // legal only for an index that expects no data from at least one neighbour
      bool okz = false;
      for (int q : view.present[me]) {
        const auto& rl = recvList(view, fwd, me, q);
        const auto& sl = sendList(view, fwd, q, me);
        for (size_t k = 0; k < rl.size() && k < sl.size(); ++k)
          if (rl[k] == sc.index && sz(q, sl[k]) == 0) okz = true;
      }
      if (!okz && fail.empty()) fail = "scatter(index " + std::to_string(sc.index) + ", count 0) although no zero-size item is addressed to that index";
      continue;
    }
    int src = sc.items.empty() ? -1 : itemSource(sc.items[0]);
    for (long v : sc.items)
      if (itemSource(v) != src && fail.empty()) fail = "one scatter call mixes items of different senders (index " + std::to_string(sc.index) + ")";
    bySrc[src].push_back(&sc);
  }
  if (out) {
    bool firstq = true;
    std::set<int> keys(view.present[me].begin(), view.present[me].end());
    for (auto& kv : bySrc) keys.insert(kv.first);
    for (int q : keys) {
      if (!firstq) *out += " ";
      firstq = false;
      *out += (view.present[me].count(q) ? "" : "?") + std::to_string(q) + ":(";
      bool fc = true;
      for (auto* sc : bySrc[q]) {
        if (!fc) *out += ",";
        fc = false;
        *out += std::to_string(sc->index) + ":" + listStr(sc->items);
      }
      *out += ")";
    }
  }

  // ---- oracle: delivery ----
  if (!h.problem.empty() && fail.empty()) fail = h.problem;
  for (auto& kv : bySrc)
    if (!view.present[me].count(kv.first) && fail.empty())
      fail = "data attributed to rank " + std::to_string(kv.first) + " which is no neighbour";
  for (int q : view.present[me]) {
    const auto& rl = recvList(view, fwd, me, q);
    const auto& sl = sendList(view, fwd, q, me);
    if (!rl.empty()) nontrivial = true;
    if (!sendList(view, fwd, me, q).empty()) nontrivial = true;
    std::vector<std::pair<long, std::vector<long>>> expect;
    for (size_t k = 0; k < rl.size(); ++k) {
      long n = sz(q, sl[k]);
      if (n == 0) continue;
      std::vector<long> it;
      for (long j = 0; j < n; ++j) it.push_back(itemValue(q, sl[k], j));
      expect.push_back({rl[k], it});
    }
    const auto& got = bySrc[q];
    for (size_t k = 0; k < std::max(expect.size(), got.size()) && fail.empty(); ++k) {
      std::string where = what + ", from rank " + std::to_string(q) + ", data-carrying receive #" + std::to_string(k);
      if (k >= got.size()) fail = where + ": items " + listStr(expect[k].second) + " for index " + std::to_string(expect[k].first) + " were never scattered (lost)";
      else if (k >= expect.size()) fail = where + ": unexpected extra scatter(index " + std::to_string(got[k]->index) + ", " + listStr(got[k]->items) + ") (duplicated or invented)";
      else if (got[k]->index != expect[k].first) fail = where + ": scattered to index " + std::to_string(got[k]->index) + " instead of " + std::to_string(expect[k].first);
      else if (got[k]->n != (long)expect[k].second.size()) fail = where + ": receiver was told count " + std::to_string(got[k]->n) + " instead of " + std::to_string(expect[k].second.size());
      else if (got[k]->items != expect[k].second) fail = where + ": items " + listStr(got[k]->items) + " instead of " + listStr(expect[k].second);
    }
  }
  // ---- oracle: every send index gathered exactly once per occurrence ----
  std::map<long, long> want, have;
  for (int q : view.present[me]) for (long x : sendList(view, fwd, me, q)) ++want[x];
  for (long x : h.gathered) ++have[x];
  if (want != have && fail.empty()) {
    for (auto& kv : want) if (have[kv.first] != kv.second && fail.empty())
      fail = what + ": gather(index " + std::to_string(kv.first) + ") called " + std::to_string(have[kv.first]) + " times, expected " + std::to_string(kv.second);
    for (auto& kv : have) if (!want.count(kv.first) && fail.empty())
      fail = what + ": gather called for index " + std::to_string(kv.first) + " which is in no send list";
  }
  // ---- oracle: balance of the point-to-point operations of this call (all ranks have returned when the exchange
  //      below completes): a receive posted for a message that is never sent is a request leaked into freed buffers,
  //      a message for which no receive was posted is lost ----
  // (tags: 933399 data and sizes of variable-size handles, 933881 the scalar size of fixed-size handles, anything else)
  auto bucket = [](int tag) { return tag == 933399 ? 0 : tag == 933881 ? 1 : 2; };
  static const char* bucketName[3] = {"tag 933399", "tag 933881", "another tag"};
  long recvTotal = 0;
  for (auto& kv : g_recvs) recvTotal += kv.second;
  for (int bk = 0; bk < 3; ++bk) {
    std::vector<long> sentTo(g_size, 0), sentToMe(g_size, 0), postedFor(g_size, 0);
    for (auto& kv : g_sends) if (bucket(kv.first.second) == bk && kv.first.first >= 0 && kv.first.first < g_size) sentTo[kv.first.first] += kv.second;
    for (auto& kv : g_recvs) if (bucket(kv.first.second) == bk && kv.first.first >= 0 && kv.first.first < g_size) postedFor[kv.first.first] += kv.second;
    MPI_Alltoall(sentTo.data(), 1, MPI_LONG, sentToMe.data(), 1, MPI_LONG, userComm);  // ranks as the object numbers them
    for (int q = 0; q < g_size; ++q) {
      if (g_rank == 0 && bk == 0 && sentTo[q] > 0 && out)
        stat(sentTo[q] == 1 ? "msgs_to_a_neighbour_1" : sentTo[q] <= 3 ? "msgs_to_a_neighbour_2_3" : "msgs_to_a_neighbour_4plus");
      std::string where = what + ", " + bucketName[bk] + ": ";
      if (postedFor[q] > sentToMe[q] && fail.empty())
        fail = where + std::to_string(postedFor[q]) + " receives posted for rank " + std::to_string(q) + " but only " + std::to_string(sentToMe[q]) + " messages were sent: a receive request is still pending after the call returned";
      if (postedFor[q] < sentToMe[q] && recvTotal > 0 && fail.empty())
        fail = where + "rank " + std::to_string(q) + " sent " + std::to_string(sentToMe[q]) + " messages but only " + std::to_string(postedFor[q]) + " receives were posted for it";
    }
  }
  // a message longer than the configured buffer is not a delivery failure (a communicator that silently works with a
  // bigger buffer still delivers everything), so it is only counted; an overrun of the real buffer is ASan's business
  if (g_maxMsgItems > bufferOfObject && g_rank == 0) stat("calls_with_a_message_longer_than_the_configured_buffer");
  g_maxMsgItems = 0;
  return fail;
}

static Result runCase(const Case& c, const Family& fam) {
  // the rank this process plays in a call on an object whose communicator descends from MPI_COMM_WORLD / the reversed one
  const int meOf[2] = {g_rank, g_size - 1 - g_rank};
  const MPI_Comm userComm[2] = {MPI_COMM_WORLD, g_revComm};
  Result res;
  std::string out, fail;
  bool nontrivial = false;
  {
    IMap realMap[2], decoyMap[2];
    for (int r = 0; r < 2; ++r) { fillMap(c.real, meOf[r], realMap[r]); fillMap(c.decoy, meOf[r], decoyMap[r]); }
    std::vector<std::unique_ptr<OpenInterface>> ifaces;  // the maps have to outlive every object pointing to them
    std::unique_ptr<CommApi> slot[10];
    std::vector<SlotCfg> cfg(10);
    size_t ci = 0;
    for (const Stmt& st : c.life) {
      std::string why;
      size_t dummy = ci;
      lifeStep(c, cfg, st, dummy, why);  // the configuration the objects are supposed to have (valid: checked by parseCase)
      switch (st.op) {
        case 'N': {
          const bool real = cfg[st.s].map == 'r';
          const int r = cfg[st.s].rev ? 1 : 0;
          if (st.kind == 'i' || st.kind == 'I') {
            ifaces.emplace_back(new OpenInterface(userComm[r]));
            fillMap(real ? c.real : c.decoy, meOf[r], ifaces.back()->interfaces());
            slot[st.s].reset(fam.make(st.kind == 'i' ? CtorKind::interfaceSize : CtorKind::interface, userComm[r], nullptr,
                                      ifaces.back().get(), (std::size_t)st.b));
          } else {
            slot[st.s].reset(fam.make(st.kind == 'm' ? CtorKind::commMapSize : CtorKind::commMap, userComm[r],
                                      real ? &realMap[r] : &decoyMap[r], nullptr, (std::size_t)st.b));
          }
          break;
        }
        case 'C': slot[st.s].reset(slot[st.t]->clone()); break;
        case 'A': slot[st.s]->assign(*slot[st.t]); break;
        case 'D': slot[st.s].reset(); break;
        case 'U': {
          // the object has to be usable whatever happened to the objects it was copied from / assigned to
          const View& v = cfg[st.s].map == 'r' ? c.real : c.decoy;
          const int r = cfg[st.s].rev ? 1 : 0;
          for (int dir = 0; dir < 2; ++dir) {
            std::string f2 = checkedCall(*slot[st.s], v, meOf[r], userComm[r], dir == 0, true, 'l', 1, cfg[st.s].B, [](int, long) { return 1L; },
                                         "probe of slot " + std::to_string(st.s) + (dir == 0 ? " forward" : " backward"), nullptr, nontrivial);
            if (fail.empty()) fail = f2;
          }
          break;
        }
        case 'X': {
          char d = c.dirs[ci];
          const bool fx = c.fixedCall(d);
          if (ci) out += " | ";
          const int r = cfg[st.s].rev ? 1 : 0;
          std::string f2 = checkedCall(*slot[st.s], c.real, meOf[r], userComm[r], Case::forwardCall(d), fx, c.ty, c.B, cfg[st.s].B,
                                       [&](int p, long i) { return c.sizeOf(fx, p, i); },
                                       "call " + std::to_string(ci) + " dir " + std::string(1, d) + " on slot " + std::to_string(st.s), &out, nontrivial);
          if (fail.empty()) fail = f2;
          ++ci;
          break;
        }
        default: break;
      }
    }
    for (auto& s : slot) s.reset();  // collective MPI_Comm_free, slot order
    ifaces.clear();                  // an Interface frees its InterfaceInformation objects itself
    for (int r = 0; r < 2; ++r) {
      for (auto& kv : realMap[r]) { kv.second.first.free(); kv.second.second.free(); }
      for (auto& kv : decoyMap[r]) { kv.second.first.free(); kv.second.second.free(); }
    }
  }
  res.impl = out;
  res.oracle = !fail.empty() ? "FAIL " + fail : (nontrivial ? "ok" : "ok trivial");
  return res;
}

static void caseStats(const Case& c) {
  stat(c.fixed ? "mode_fixed" : "mode_variable");
  stat(std::string("type_") + std::string(1, c.ty));
  if (c.ctor.size() == 1) stat(std::string("ctor_") + c.ctor);
  else stat("ctor_object_history");
  if (c.K) stat("cases_with_DUNE_PARALLEL_MAX_COMMUNICATION_BUFFER_SIZE");
  {
    std::vector<SlotCfg> sl(10);
    size_t done = 0;
    std::string why;
    for (auto& st : c.life) {
      if (c.ctor.size() > 1) stat(std::string("life_") + std::string(1, st.op));
      if (st.op == 'N') {
        stat(std::string("constructor_") + std::string(1, st.kind) + (c.K ? "_cfg" : ""));
        long b = (st.kind == 'M' || st.kind == 'I') ? c.defaultBuffer() : st.b;
        if (st.map == 'r' || st.map == 'x') stat(b < c.B ? "objects_built_with_buffer_lt_B" : b == c.B ? "objects_built_with_buffer_eq_B" : "objects_built_with_buffer_gt_B");
        if (st.map == 'x' || st.map == 'y') stat("objects_built_on_the_reversed_communicator");
      }
      if (st.op == 'A') {
        if (st.s == st.t) stat("assign_self");
        else if (sl[st.s].B < sl[st.t].B) stat("assign_over_smaller_buffer");
        else if (sl[st.s].B > sl[st.t].B) stat("assign_over_bigger_buffer");
        else stat("assign_over_equal_buffer");
        if (st.s != st.t && sl[st.s].map != sl[st.t].map) stat("assign_changes_map");
        if (st.s != st.t && sl[st.s].rev != sl[st.t].rev) stat("assign_changes_process_group");
      }
      if (st.op == 'X') {
        if (st.s != 0) stat("calls_on_slot_other_than_0");
        if (sl[st.s].B > c.B) stat("calls_on_object_with_buffer_gt_B");
        if (sl[st.s].rev) stat("calls_on_reversed_communicator");
      }
      lifeStep(c, sl, st, done, why);
    }
  }
  stat("calls_" + std::to_string(c.dirs.size()));
  bool mixed = false;
  for (char d : c.dirs) if (d == 'F' || d == 'B') mixed = true;
  if (mixed) stat("cases_mixing_fixed_and_variable_calls");
  stat(c.B >= 1000 ? "B_large" : "B_" + std::to_string(c.B));
  {
    std::set<long> fs(c.fixedOf.begin(), c.fixedOf.end());
    bool anyFixed = false;
    for (char d : c.dirs) if (c.fixedCall(d)) anyFixed = true;
    if (anyFixed) {
      stat(fs.size() > 1 ? "fixed_sizes_differ_between_ranks" : "fixed_sizes_equal_on_all_ranks");
      for (long f : fs) stat(f == c.B ? "fixed_f_eq_B" : (f == 1 ? "fixed_f_1" : "fixed_f_other"));
    }
  }
  for (char d : c.dirs) {
    const bool fx = c.fixedCall(d);
    const bool fwd = Case::forwardCall(d);
    stat(std::string("call_") + (fwd ? "forward_" : "backward_") + (fx ? "fixed" : "variable"));
    for (int p = 0; p < c.P; ++p)
      for (int q : c.real.present[p]) {
        const auto& sl = sendList(c.real, fwd, p, q);
        stat("directed_interfaces");
        if (p == q) stat("self_interfaces");
        if (sl.empty()) { stat("empty_interfaces"); continue; }
        long total = 0, zeros = 0;
        std::set<long> distinctIdx(sl.begin(), sl.end());
        if (distinctIdx.size() < sl.size()) stat("lists_with_repeated_index");
        // independent count of the message rounds a greedy whole-index packing needs
        long rounds = 0, fill = 0;
        for (long x : sl) {
          long n = c.sizeOf(fx, p, x);
          total += n;
          if (n == 0) ++zeros;
          if (n == c.B) stat("index_size_eq_B");
          else if (n == c.B - 1 && n > 0) stat("index_size_eq_B-1");
          else if (n > 2) stat("index_size_midrange");
          if (n > 0 && (rounds == 0 || fill + n > c.B)) { ++rounds; fill = 0; }
          fill += n;
        }
        if (total == 0) stat("allzero_nonempty_interfaces");
        else if (zeros) stat("interfaces_with_some_zero_sizes");
        if (rounds > 1) stat("multi_round_interfaces");
        if (rounds > 3) stat("interfaces_with_4plus_rounds");
        if (!fx && (long)sl.size() > c.B) stat("size_exchange_multi_round");
      }
  }
}

static Result exec(const std::string& line) {
  Case c = parseCase(line);
  Result r;
  if (!c.err.empty()) { r.impl = "bad-op"; r.oracle = "FAIL harness cannot parse the op line (" + c.err + ")"; return r; }
  if (c.P != g_size) { r.impl = "bad-np"; r.oracle = "FAIL op line is for " + std::to_string(c.P) + " processes"; return r; }
  const Family* fam = &mainFamily();
  if (c.K) {
    if (c.K != c06::cfgFamilyMacroValue) {
      r.impl = "bad-op";
      r.oracle = "FAIL harness: only DUNE_PARALLEL_MAX_COMMUNICATION_BUFFER_SIZE=" + std::to_string(c06::cfgFamilyMacroValue) + " is built";
      return r;
    }
    fam = &c06::cfgFamily();
  }
  if (std::string(fam->types).find(c.ty) == std::string::npos) {
    r.impl = "bad-op";
    r.oracle = "FAIL harness: item type not built for this configuration";
    return r;
  }
  if (g_rank == 0) caseStats(c);
  return runCase(c, *fam);
}

// ---------------------------------------------------------------------------------------------------------------
// generator (rank 0)
// ---------------------------------------------------------------------------------------------------------------
static std::vector<long> genList(Rng& rng, long len, long nloc) {
  std::vector<long> l;
  if (nloc <= 0) return l;
  int style = (int)rng.below(5);  // 0,1,2 random with repetition; 3 ascending run; 4 one index repeated
  long start = (long)rng.below(nloc), same = (long)rng.below(nloc);
  for (long k = 0; k < len; ++k) {
    if (style == 3) l.push_back((start + k) % nloc);
    else if (style == 4) l.push_back(same);
    else l.push_back((long)rng.below(nloc));
  }
  return l;
}

// a random object history that is valid for (B, dirs): statements are drawn while the supposed configuration of every
// slot is tracked; at the end slot 0 is made fit for the calls that no X statement placed
static std::string genLife(Rng& rng, long B, const std::string& dirs, long K) {
  const long defB = K ? K : 32768;
  std::vector<SlotCfg> sl(10);
  std::vector<std::string> prog;
  if (K) prog.push_back("K" + std::to_string(K));
  size_t calls = 0;
  const int nslots = 2 + (int)rng.below(3);  // slots 0..nslots-1
  auto bufPick = [&]() -> long {
    std::vector<long> bs = {B, B, B + 3, 1, B - 1, (B + 1) / 2, 2 * B, B + 1, 1 + (long)rng.below(B + 4)};
    long b;
    do b = rng.pick(bs); while (b < 1);
    return b;
  };
  auto fit = [&](int s) { return sl[s].alive && sl[s].map == 'r' && sl[s].B >= B; };
  auto emitN = [&](int s, char map, long b /* 0: default constructor */) {
    bool iface = rng.coin(2, 5);
    sl[s].rev = rng.coin(1, 3);
    if (sl[s].rev) map = map == 'r' ? 'x' : 'y';
    std::string t = "N" + std::to_string(s);
    if (b == 0) { t += iface ? "I" : "M"; t += map; sl[s].B = defB; }
    else { t += iface ? "i" : "m"; t += map; t += std::to_string(b); sl[s].B = b; }
    sl[s].alive = true;
    sl[s].map = (map == 'r' || map == 'x') ? 'r' : 'd';
    prog.push_back(t);
  };
  int steps = 2 + (int)rng.below(8);
  for (int k = 0; k < steps; ++k) {
    std::vector<int> alive, empty, fits;
    for (int s = 0; s < nslots; ++s) {
      (sl[s].alive ? alive : empty).push_back(s);
      if (fit(s)) fits.push_back(s);
    }
    // weights: N 3, C 2, A 5, D 1, U 1, X 2
    std::vector<char> menu;
    if (!empty.empty()) menu.insert(menu.end(), 3, 'N');
    if (!empty.empty() && !alive.empty()) menu.insert(menu.end(), 2, 'C');
    if (!alive.empty()) { menu.insert(menu.end(), alive.size() > 1 ? 5 : 1, 'A'); menu.push_back('D'); menu.push_back('U'); }
    if (!fits.empty() && calls < dirs.size()) menu.insert(menu.end(), 2, 'X');
    char op = rng.pick(menu);
    if (op == 'N') {
      int s = rng.pick(empty);
      char map = rng.coin(7, 10) ? 'r' : 'd';
      emitN(s, map, (rng.coin(1, 5) || (K && rng.coin())) ? 0 : bufPick());
    } else if (op == 'C') {
      int s = rng.pick(empty), t = rng.pick(alive);
      sl[s] = sl[t];
      prog.push_back("C" + std::to_string(s) + std::to_string(t));
    } else if (op == 'A') {
      int s = rng.pick(alive), t = rng.pick(alive);
      if (s == t && !rng.coin(1, 4)) t = rng.pick(alive);
      sl[s] = sl[t];
      prog.push_back("A" + std::to_string(s) + std::to_string(t));
    } else if (op == 'D') {
      int s = rng.pick(alive);
      sl[s] = SlotCfg();
      prog.push_back("D" + std::to_string(s));
    } else if (op == 'U') {
      prog.push_back("U" + std::to_string(rng.pick(alive)));
    } else {
      prog.push_back("X" + std::to_string(rng.pick(fits)));
      ++calls;
    }
  }
  if (calls < dirs.size() && !fit(0)) {
    int src = -1;
    for (int s = 1; s < nslots; ++s) if (fit(s)) src = s;
    if (src < 0) {
      src = -1;
      for (int s = 1; s < nslots; ++s) if (!sl[s].alive) src = s;
      if (src < 0) { src = nslots - 1; sl[src] = SlotCfg(); prog.push_back("D" + std::to_string(src)); }
      long b = 0;
      if (!(defB >= B && rng.coin(1, 4))) { do b = bufPick(); while (b < B); }
      emitN(src, 'r', b);
    }
    if (sl[0].alive) prog.push_back("A0" + std::to_string(src));
    else prog.push_back("C0" + std::to_string(src));
    sl[0] = sl[src];
    if (rng.coin()) { prog.push_back("D" + std::to_string(src)); sl[src] = SlotCfg(); }
    else if (rng.coin(1, 3)) prog.push_back("U" + std::to_string(src));
  }
  return join(prog.begin(), prog.end(), ".");
}

static std::string gen(Rng& rng, long, const Args& a) {
  bool thorough = a.tier == "thorough";
  int P = g_size;
  static const std::vector<long> Bs = {1, 1, 2, 2, 3, 3, 4, 5, 7, 8, 16};
  long B = rng.coin(1, 20) ? 32768 : rng.pick(Bs);
  // the other compile-time configuration: the default constructors take DUNE_PARALLEL_MAX_COMMUNICATION_BUFFER_SIZE
  const long K = rng.coin(1, 9) ? c06::cfgFamilyMacroValue : 0;
  if (K) B = rng.coin() ? K : 1 + (long)rng.below(K);
  bool big = B > 1000;
  bool fixed = rng.coin(2, 5);
  static const std::vector<std::string> dirsS = {"f", "f", "f", "f", "b", "b", "b", "b", "fb", "bf", "ff", "bb",
                                                 "fF", "Fb", "bB", "BF", "fbf", "bFb", "FfB", "fBbF"};
  std::string dirs = rng.pick(dirsS);
  bool needFixed = false, needVar = false;
  for (char d : dirs) { if (((d == 'f' || d == 'b') ? fixed : !fixed)) needFixed = true; else needVar = true; }
  auto pickF = [&]() -> long {
    std::vector<long> fs = {1, 2, B - 1, B, (B + 1) / 2, 1 + (long)rng.below(B)};
    if (big) fs = {1, 2, 3, 5};
    long f;
    do f = rng.pick(fs); while (f < 1 || f > B);
    return f;
  };
  long f = needFixed ? pickF() : 1;
  std::string ty;
  if (K) ty = std::string(1, rng.pick(std::vector<char>{'l', 'l', 'c', 'g'}));
  else if (rng.coin(3, 5)) { static const std::vector<std::string> tys = {"l", "l", "l", "p", "p", "c", "c", "t", "v", "v", "n", "n"}; ty = rng.pick(tys); }
  else ty = std::string(1, c06::allTypeLetters[rng.below(std::strlen(c06::allTypeLetters))]);
  std::string ctor = "m";
  if (K) ctor = genLife(rng, B, dirs, K);
  else if (big) { if (rng.coin(3, 5)) ctor = rng.coin() ? "M" : "I"; else if (rng.coin(1, 3)) ctor = genLife(rng, B, dirs, 0); }
  else if (rng.coin(1, 2)) {
    static const std::vector<std::string> cs = {"i", "c", "a"};
    ctor = rng.coin(1, 4) ? rng.pick(cs) : genLife(rng, B, dirs, 0);
  }
  long maxloc = thorough ? 9 : 5, maxlen = thorough ? 14 : 6;
  std::vector<long> nloc(P);
  for (int p = 0; p < P; ++p) nloc[p] = rng.coin(1, 12) ? 0 : 1 + (long)rng.below(maxloc);
  std::vector<std::string> segs;
  int plinkNum = (int)rng.pick(std::vector<long>{3, 7, 10});
  auto pickLen = [&]() -> long {
    switch (rng.below(7)) {
      case 0: return 0;
      case 1: return 1;
      case 2: return 2;
      case 3: return 3;
      default: return (long)rng.below(maxlen + 1);
    }
  };
  auto edge = [&](int p, int q) {
    long len = pickLen();
    if (nloc[p] == 0 || nloc[q] == 0) len = 0;
    auto s = genList(rng, len, nloc[p]);
    auto r = genList(rng, len, nloc[q]);
    segs.push_back("E " + std::to_string(p) + " " + std::to_string(q) + " " + listStr(s) + " " + listStr(r));
  };
  for (int p = 0; p < P; ++p)
    for (int q = p; q < P; ++q) {
      if (p == q) {
        if (!rng.coin(2, 5)) continue;
        edge(p, p);
        if (rng.coin(1, 4)) edge(p, p);
        continue;
      }
      if (!rng.coin(plinkNum, 10)) continue;
      int kind = (int)rng.below(10);  // 0-7 both directions, 8 only p->q, 9 only q->p (the other direction is empty)
      if (kind != 9) edge(p, q);
      if (kind != 8) edge(q, p);
    }
  if (segs.empty()) segs.push_back("S 0 []");
  if (needFixed && rng.coin()) {
    // the ranks' handles have different fixed sizes: the receiver has to use the size its peer announced
    for (int p = 0; p < P; ++p)
      if (rng.coin(2, 3)) segs.push_back("F " + std::to_string(p) + " " + std::to_string(pickF()));
  }
  if (needVar) {
    std::vector<long> alphabet = {0, 1, 2, B - 1, B};
    if (big) alphabet = {0, 1, 2, 3, 5};
    std::vector<long> al;
    for (long x : alphabet) if (x >= 0 && x <= B) al.push_back(x);
    auto pickSize = [&]() -> long { return (!big && rng.coin(1, 6)) ? (long)rng.below(B + 1) : rng.pick(al); };
    int stream = (int)rng.below(8);  // 0-2 random, 3 all zero, 4 some ranks all zero, 5 one non-zero, 6 all B, 7 zero-heavy
    bool oneBigDone = false;
    for (int p = 0; p < P; ++p) {
      std::vector<long> s(nloc[p], 0);
      bool rankZero = stream == 3 || (stream == 4 && rng.coin());
      long lucky = nloc[p] ? (long)rng.below(nloc[p]) : 0;
      for (long i = 0; i < nloc[p]; ++i) {
        long n;
        if (rankZero) n = 0;
        else if (stream == 5) n = (i == lucky) ? pickSize() : 0;
        else if (stream == 6) n = big ? 5 : B;
        else if (stream == 7) n = rng.coin() ? 0 : pickSize();
        else n = pickSize();
        if (big && thorough && !oneBigDone && !rankZero && rng.coin(1, 40)) { n = rng.coin() ? B : B - 1; oneBigDone = true; }
        s[i] = n;
      }
      segs.push_back("S " + std::to_string(p) + " " + listStr(s));
    }
  }
  std::string line = "c06 P=" + std::to_string(P) + " B=" + std::to_string(B) + " mode=" + (fixed ? "f" : "v") + " f=" + std::to_string(f) +
                     " ty=" + ty + " dirs=" + dirs + (ctor == "m" ? "" : " ctor=" + ctor) + " : " + join(segs.begin(), segs.end(), ";");
  return line;
}

int main(int argc, char** argv) {
  MPI_Init(&argc, &argv);
  MPI_Comm_rank(MPI_COMM_WORLD, &g_rank);
  MPI_Comm_size(MPI_COMM_WORLD, &g_size);
  MPI_Comm_split(MPI_COMM_WORLD, 0, g_size - 1 - g_rank, &g_revComm);
  std::cout << std::unitbuf;
  // a hang is a violation of this property: keep the per-case alarm short unless the caller chose one
  std::vector<char*> av(argv, argv + argc);
  bool has = false;
  for (int i = 1; i < argc; ++i) if (!std::strcmp(argv[i], "--case-timeout")) has = true;
  static char k[] = "--case-timeout", v[16] = "20";
  if (const char* e = std::getenv("DV_C06_CASE_TIMEOUT")) {  // development aid: faster shrinking of hanging replays
    long t = std::atol(e);
    if (t >= 1 && t <= 3600) std::snprintf(v, sizeof v, "%ld", t);
  }
  if (!has) { av.push_back(k); av.push_back(v); }
  int rc = dv::runMpi((int)av.size(), av.data(), gen, exec);
  MPI_Comm_free(&g_revComm);
  MPI_Finalize();
  return rc;
}
