// C02, second translation unit: the closed forms of DenseMatrix::solve / invert (rows() = 1, 2, 3) compiled WITH
// DUNE_FMatrix_WITH_CHECKING.  That macro only changes members of DenseMatrix<MAT> (densematrix.hh), i.e. templates that
// depend on the scalar type; this unit instantiates them for std::complex<long double> ONLY, a scalar type that
// cxx_c02.cc never uses, so the two configurations of the header-only code do not meet at link time.
// By design the checking build rejects operands whose determinant is below FMatrixPrecision<>::absolute_limit()
// (default 1e-80) in magnitude; it must not reject anything else.
#define DUNE_FMatrix_WITH_CHECKING 1
#include <config.h>

#include <complex>
#include <dune/common/dynmatrix.hh>
#include <dune/common/dynvector.hh>
#include <dune/common/exceptions.hh>
#include <dune/common/fmatrix.hh>
#include <dune/common/fvector.hh>
#include <string>
#include <vector>

namespace c02ck {
using CK = std::complex<long double>;

template <class M, class V>
static int runDense(M& A, V& x, V& bv, const std::string& op, int n, const std::vector<CK>& a, const std::vector<CK>& b,
                    std::vector<CK>& out) {
  for (int i = 0; i < n; ++i) for (int j = 0; j < n; ++j) A[i][j] = a[i * n + j];
  try {
    if (op == "solve") {
      for (int i = 0; i < n; ++i) { bv[i] = b[i]; x[i] = CK(1000 + 7 * i); }
      const M& cA = A;
      const V& cb = bv;
      cA.solve(x, cb);
      for (int i = 0; i < n; ++i) out.push_back(x[i]);
    } else {
      A.invert();
      for (int i = 0; i < n; ++i) for (int j = 0; j < n; ++j) out.push_back(A[i][j]);
    }
  } catch (Dune::FMatrixError&) {
    return 1;
  } catch (...) {
    return 2;
  }
  return 0;
}
template <int n> static int runFM(const std::string& op, const std::vector<CK>& a, const std::vector<CK>& b, std::vector<CK>& out) {
  Dune::FieldMatrix<CK, n, n> A;
  Dune::FieldVector<CK, n> x, bv;
  return runDense(A, x, bv, op, n, a, b, out);
}

// 0: returned (out = x resp. the inverse, row-major), 1: FMatrixError, 2: any other exception, 3: not executable
int run(const std::string& op, const std::string& rep, int n, const std::vector<CK>& a, const std::vector<CK>& b,
        std::vector<CK>& out) {
  if (rep == "dm") {
    Dune::DynamicMatrix<CK> A(n, n, CK(0));
    Dune::DynamicVector<CK> x(n, CK(0)), bv(n, CK(0));
    return runDense(A, x, bv, op, n, a, b, out);
  }
  if (rep == "fm") {
    switch (n) {
      case 1: return runFM<1>(op, a, b, out);
      case 2: return runFM<2>(op, a, b, out);
      case 3: return runFM<3>(op, a, b, out);
    }
  }
  return 3;
}
}  // namespace c02ck
